"""C01 — the predicate layer of RelateNG (Model/Relate/Pred.lean and Model/Relate/EnvExit.lean are the hand-written models).

Regenerated from the CURRENT source, statement by statement:
  src/operation/relateng/BasicPredicate.cpp     isKnown(int) toBoolean toValue isIntersection isKnown() value() setValue(bool)
                                                setValueIf require requireCovers(Envelope, Envelope)
  src/operation/relateng/IMPredicate.cpp        isDimsCompatibleWithCovers init(int,int) isDimChanged isIntersects intersectsExteriorOf
                                                isKnown(Location,Location) isDimension getDimension updateDimension finish
  include/geos/operation/relateng/RelatePredicate.h   every member function (except name()) of the ten predicate classes
  include/geos/operation/relateng/RelateMatrixPredicate.h   requireInteraction isDetermined valueIM
  include/geos/operation/relateng/TopologyPredicate.h  the inherited defaults requireInteraction / requireCovers / requireExteriorCheck
  src/operation/relateng/IMPatternMatcher.cpp   isInteraction requireInteraction(IntersectionMatrix) requireInteraction() init(Envelope, Envelope)
  src/operation/relateng/RelateNG.cpp           hasRequiredEnvelopeInteraction

What a function-by-function translation cannot see is *which* function a virtual call reaches.  `prepare` therefore checks the
class structure the bridge theorems assume (base class of every predicate class and the exact set of virtual member functions each
class declares) against the headers and REFUSES when it differs.

The spec extends the fragment of cxx2lean.Parser (class `PredParser`, a subclass; cxx2lean.py itself is not changed):
  * `in_class`: the function is looked up inside the body of that class (ten classes define `init`, `isDetermined`, ... in-class)
  * `(void)x;` is skipped
  * a statement that calls another regenerated member function with mutable members (`setValue(v);` `require(c);`
    `IMPredicate::init(a, b);`) assigns the callee's resulting members;  `intMatrix.set(a, b, d);` assigns the receiver
  * a virtual call without arguments (`isDetermined()`, `valueIM()`) becomes an abstract function parameter applied to the members
    it may read (`members`)
  * methods of opaque objects can be abstract parameters (`kind: param`), `&x` of an opaque object is the object, pointers to opaque
    types can be declared, `bool` class constants
  * abstract parameters are ordered by name (not by first use), so that reordering independent tests keeps the signature
"""
import re
import cxx2lean as C

H = "include/geos/operation/relateng/"
S = "src/operation/relateng/"


# ------------------------------------------------------------------------------------------------- class structure
def class_body(src, cls, rel):
    """(base class text, body text) of `class [GEOS_DLL] cls [: public Base] { ... }`"""
    m = re.search(r"\bclass\s+(?:GEOS_DLL\s+)?%s\b\s*(?::\s*([^;{]*?))?\s*\{" % re.escape(cls), src)
    if not m:
        raise C.Refuse("class %s not found in %s" % (cls, rel))
    i, depth = m.end(), 1
    while i < len(src) and depth:
        depth += {"{": 1, "}": -1}.get(src[i], 0)
        i += 1
    if depth:
        raise C.Refuse("class %s: unbalanced braces in %s" % (cls, rel))
    return (m.group(1) or "").strip(), src[m.end():i - 1]


VIRTUALS = {"init", "updateDimension", "finish", "requireCovers", "requireExteriorCheck", "requireInteraction", "requireSelfNoding",
            "isDetermined", "valueIM", "isKnown", "value"}


def declared(body):
    """signatures `name(type,type)` of the member functions of interest declared or defined at the top level of a class body"""
    out, depth, i, n = set(), 0, 0, len(body)
    pat = re.compile(r"(?<![\w:~])([A-Za-z_]\w*)\s*\(")
    while i < n:
        c = body[i]
        if c == "{":
            depth += 1; i += 1; continue
        if c == "}":
            depth -= 1; i += 1; continue
        if depth == 0:
            m = pat.match(body, i)
            if m and (i == 0 or not (body[i - 1].isalnum() or body[i - 1] in "_:~")):
                j, d = m.end(), 1
                while j < n and d:
                    d += {"(": 1, ")": -1}.get(body[j], 0)
                    j += 1
                if m.group(1) in VIRTUALS:
                    ps = []
                    for p in C.split_params(body[m.end():j - 1]):
                        p = re.sub(r"=.*$", "", p).strip()
                        mm = re.match(r"^(.*?)([A-Za-z_]\w*)$", p, re.S)
                        ps.append(C.norm_type(mm.group(1)) if mm and mm.group(1).strip() else C.norm_type(p))
                    out.add("%s(%s)" % (m.group(1), ",".join(ps)))
                i = j
                continue
        i += 1
    return out


IM4 = {"requireCovers(bool)", "requireExteriorCheck(bool)", "init(int,int)", "init(Envelope,Envelope)", "isDetermined()", "valueIM()"}
IM2 = {"init(int,int)", "isDetermined()", "valueIM()"}
EXPECT = {   # class: (file, base, member functions of interest it declares) — what the bridge theorems of Props/C01GenPred assume
    "TopologyPredicate": (H + "TopologyPredicate.h", "", {"finish()", "isKnown()", "value()", "requireSelfNoding()", "requireInteraction()",
                                                           "requireCovers(bool)", "requireExteriorCheck(bool)", "init(int,int)",
                                                           "init(Envelope,Envelope)", "updateDimension(Location,Location,int)"}),
    "BasicPredicate": (H + "BasicPredicate.h", "public TopologyPredicate", {"isKnown(int)", "finish()", "isKnown()", "value()",
                                                                                 "requireCovers(Envelope,Envelope)"}),
    "IMPredicate": (H + "IMPredicate.h", "public BasicPredicate", {"valueIM()", "isDetermined()", "init(int,int)", "updateDimension(Location,Location,int)",
                                                                   "isKnown(Location,Location)", "finish()"}),
    "IMPatternMatcher": (H + "IMPatternMatcher.h", "public IMPredicate", {"init(Envelope,Envelope)", "requireInteraction()", "requireInteraction(IntersectionMatrix)",
                                                                           "isDetermined()", "valueIM()"}),
    "RelateMatrixPredicate": (H + "RelateMatrixPredicate.h", "public IMPredicate", {"requireInteraction()", "isDetermined()", "valueIM()"}),
    "IntersectsPredicate": (H + "RelatePredicate.h", "public BasicPredicate", {"requireSelfNoding()", "requireExteriorCheck(bool)", "init(Envelope,Envelope)",
                                                                               "updateDimension(Location,Location,int)", "finish()"}),
    "DisjointPredicate": (H + "RelatePredicate.h", "public BasicPredicate", {"requireSelfNoding()", "requireInteraction()", "requireExteriorCheck(bool)",
                                                                             "init(Envelope,Envelope)", "updateDimension(Location,Location,int)", "finish()"}),
    "ContainsPredicate": (H + "RelatePredicate.h", "public IMPredicate", IM4),
    "WithinPredicate": (H + "RelatePredicate.h", "public IMPredicate", IM4),
    "CoversPredicate": (H + "RelatePredicate.h", "public IMPredicate", IM4),
    "CoveredByPredicate": (H + "RelatePredicate.h", "public IMPredicate", IM4),
    "CrossesPredicate": (H + "RelatePredicate.h", "public IMPredicate", IM2),
    "EqualsTopoPredicate": (H + "RelatePredicate.h", "public IMPredicate", IM2 | {"requireInteraction()", "init(Envelope,Envelope)"}),
    "OverlapsPredicate": (H + "RelatePredicate.h", "public IMPredicate", IM2),
    "TouchesPredicate": (H + "RelatePredicate.h", "public IMPredicate", IM2),
}


def prepare(spec, repo):
    consts = {}
    dim = C.enum_values(repo, "include/geos/geom/Dimension.h", "DimensionType")
    for k in ("DONTCARE", "True", "False", "P", "L", "A"):
        if k not in dim:
            raise C.Refuse("Dimension::%s missing in Dimension.h" % k)
        consts["Dimension::" + k] = {"type": "int", "value": dim[k]}
    for k in ("UNKNOWN", "FALSE", "TRUE"):
        v = C.find_constant(repo, H + "BasicPredicate.h", r"static\s+constexpr\s+int\s+%s\s*=\s*(-?\d+)\s*;" % k)
        consts[k] = {"type": "int", "value": int(v)}
    v = C.find_constant(repo, H + "IMPredicate.h", r"static\s+constexpr\s+int\s+DIM_UNKNOWN\s*=\s*([\w:]+)\s*;")
    if v not in consts:
        raise C.Refuse("IMPredicate::DIM_UNKNOWN = %s is outside the fragment" % v)
    consts["DIM_UNKNOWN"] = consts[v]
    for k in ("GEOM_A", "GEOM_B"):
        v = C.find_constant(repo, H + "RelateGeometry.h", r"static\s+constexpr\s+bool\s+%s\s*=\s*(true|false)\s*;" % k)
        consts[k] = consts["RelateGeometry::" + k] = {"type": "bool", "value": v}
        # RelateNG.cpp spells them through `#define GEOM_A RelateGeometry::GEOM_A`
        C.find_constant(repo, S + "RelateNG.cpp", r"#define\s+%s\s+(RelateGeometry::%s)\b" % (k, k))
    spec["consts"] = consts
    loc = C.enum_values(repo, "include/geos/geom/Location.h", "Location")
    for k, v in {"INTERIOR": 0, "BOUNDARY": 1, "EXTERIOR": 2}.items():
        if loc.get(k) != v:
            raise C.Refuse("Location::%s is %r, the Loc3 model assumes %d" % (k, loc.get(k), v))
    # which function a virtual call reaches: the class structure must be the one the bridge theorems assume
    for cls, (rel, base, want) in EXPECT.items():
        b, body = class_body(C.read_source(repo, rel), cls, rel)
        b = re.sub(r"\s+", " ", b)
        if b != base:
            raise C.Refuse("class %s derives from `%s`; the bridge theorems assume `%s`" % (cls, b, base))
        got = declared(body)
        if got != want:
            raise C.Refuse("class %s declares %s; the bridge theorems assume %s (a virtual call would reach a different function)"
                           % (cls, sorted(got), sorted(want)))


# ------------------------------------------------------------------------------------------------- parser extension
class PredParser(C.Parser):
    def __init__(self, spec, f, repo, toks, params):
        self.alias, self.hidden = {}, set()
        if f.get("in_class"):
            src = C.read_source(repo, f["file"])
            first_names, _ = C.find_function(src, f["name"], f["params"], f["file"])
            _, body = class_body(src, f["in_class"], f["file"])
            names, fbody = C.find_function(body, f["name"], f["params"], "%s (class %s)" % (f["file"], f["in_class"]))
            toks = C.tokenize(fbody, f["in_class"] + "::" + f["name"])
            # translate_function declares the parameters under the names of the FIRST definition of that name in the file
            self.alias = dict(zip(names, first_names))
            self.hidden = set(first_names) - set(names)
        C.Parser.__init__(self, spec, f, repo, toks, params)
        if f.get("in_class"):
            self.name = f["in_class"] + "::" + f["name"]

    def lookup(self, cname):
        for sc in reversed(self.scopes[1:]):
            if cname in sc:
                return sc[cname]
        if cname in self.alias:
            cname = self.alias[cname]
        elif cname in self.hidden:
            return None
        return self.scopes[0].get(cname)

    # ---- statements
    def stmt(self):
        if (self.peek() == ("op", "(") and self.peek(1) == ("id", "void") and self.peek(2) == ("op", ")")
                and self.peek(3)[0] == "id" and self.peek(4) == ("op", ";")):
            if self.lookup(self.peek(3)[1]) is None:
                raise self.R("`(void)%s;` of an unknown name" % self.peek(3)[1])
            self.p += 5                                  # `(void)x;` discards a value
            return [], False
        return C.Parser.stmt(self)

    def parse_type(self):
        """as the base class, but a pointer to an opaque type may be declared (`const Envelope* envB = …`)"""
        save = self.p
        try:
            return C.Parser.parse_type(self)
        except C.Refuse:
            self.p = save
            while self.peek()[1] in ("const", "static", "constexpr"):
                self.eat()
            base = self.eat(kind="id")
            d = self.spec.get("types", {}).get(C.norm_type(base))
            if not (d and d.get("opaque")):
                raise
            stars = 0
            while self.peek()[1] in ("&", "*", "const"):
                stars += self.peek()[1] == "*"
                self.eat()
            if stars > 1:
                raise self.R("pointer to pointer")
            return base

    def stmt_cfg(self, name, nargs):
        d = self.spec.get("calls", {}).get(name)
        if d is None:
            return None
        for x in (d if isinstance(d, list) else [d]):
            if x.get("stmt") and len(x.get("args", [])) == nargs:
                return x
        return None

    def expr_stmt(self):
        k, v = self.peek()
        if k == "id" and self.peek(1) == ("op", "(") and self.spec.get("calls", {}).get(v) is not None and self.lookup(v) is None:
            cfgs = self.spec["calls"][v]
            if any(x.get("stmt") for x in (cfgs if isinstance(cfgs, list) else [cfgs])):
                return self.stmt_call(v)
        if k == "id" and self.peek(1)[1] in (".", "->") and self.peek(2)[0] == "id" and self.peek(3) == ("op", "("):
            ent = self.lookup(v)
            md = self.spec.get("methods", {}).get("." + self.peek(2)[1])
            if ent is not None and md is not None and md.get("stmt"):
                ln, ty = self.lvalue()
                self.eat()
                m = self.eat(kind="id")
                args = self.args()
                self.eat(";")
                ats = md.get("args", [])
                if len(ats) != len(args):
                    raise self.R("method `%s` called with %d argument(s), spec says %d" % (m, len(args), len(ats)))
                ca = [self.coerce(a[0], a[1], self.ctype(t), "argument of " + m) for a, t in zip(args, ats)]
                if ln not in self.all_assigned():
                    raise self.R("`%s` may be read before assignment" % v)
                return [(0, "%s := (%s %s%s)" % (ln, md["lean"], ln, "".join(" " + a for a in ca)))], False
        return C.Parser.expr_stmt(self)

    def stmt_call(self, name):
        """`f(args);` where f is another regenerated member function that assigns members: the members are assigned its result"""
        self.eat()
        args = self.args()
        self.eat(";")
        d = self.stmt_cfg(name, len(args))
        if d is None:
            raise self.R("statement call `%s` with %d argument(s) is not configured" % (name, len(args)))
        g = self.spec.get("_generated", {}).get(d["lean"])
        callee = next((fn for fn in self.spec["functions"] if fn["lean"] == d["lean"]), None)
        if g is None or callee is None:
            raise self.R("`%s` calls `%s`, which must be listed BEFORE it in the spec" % (self.name, name))
        if self.ctype(callee.get("ret", "bool")).kind != "void" or not callee.get("state"):
            raise self.R("statement call of `%s`, which is not a void function assigning members" % name)
        ca = [self.coerce(a[0], a[1], self.ctype(t), "argument of " + name) for a, t in zip(args, d["args"])]
        self.want(g["need"])
        for up in g["used_params"]:
            if up[1] not in [x[1] for x in self.used_params]:
                self.used_params.append(up)
        self.used_params.sort(key=lambda x: x[0])
        extra = "".join(" " + up[0] for up in g["used_params"])
        fields = []
        for fn in g["fields"]:
            if self.lookup(fn) is None:
                raise self.R("`%s` reads member %s that `%s` does not declare" % (name, fn, self.name))
            fields.append(self.read_var(fn)[0])
        targets = []
        for s in callee["state"]:
            ent = self.lookup(s)
            if ent is None or not ent[2]:
                raise self.R("`%s` assigns member %s, which `%s` does not declare as state" % (name, s, self.name))
            if ent[0] not in self.all_assigned():
                raise self.R("`%s` may be read before assignment" % s)
            targets.append(ent[0])
        rhs = "(%s%s%s%s%s)" % (d["lean"], extra, "".join(" " + x for x in fields), "".join(" " + x for x in targets), "".join(" " + a for a in ca))
        lhs = targets[0] if len(targets) == 1 else "(" + ", ".join(targets) + ")"
        return [(0, "%s := %s" % (lhs, rhs))], False

    # ---- expressions
    def call(self, name):
        calls = self.spec.get("calls", {})
        d = calls.get(name, calls.get(name.split("::")[-1]))
        if isinstance(d, dict) and d.get("kind") == "param" and d.get("members") is not None:
            if self.args():
                raise self.R("virtual call `%s` with arguments" % name)
            mem = []
            for mname in d["members"]:
                if self.lookup(mname) is None:
                    raise self.R("`%s()` may read member %s, which `%s` does not declare" % (name, mname, self.name))
                mem.append(self.read_var(mname)[0])
            if d not in [x[1] for x in self.used_params]:
                self.used_params.append((d["lean"], d))
            self.used_params.sort(key=lambda x: x[0])
            return "(%s%s)" % (d["lean"], "".join(" " + x for x in mem)), self.ctype(d["ret"])
        if any(x.get("stmt") for x in (d if isinstance(d, list) else [d] if d else [])):
            raise self.R("`%s(…)` (a void member function) used as a value" % name)
        r = C.Parser.call(self, name)
        self.used_params.sort(key=lambda x: x[0])
        return r

    def method(self, e, m, args):
        ms = self.spec.get("methods", {})
        d = (ms.get("%s.%s" % (e[1].name, m)) if e[1].name else None) or ms.get("." + m)
        if d is not None and d.get("stmt"):
            raise self.R("`.%s(…)` used as a value" % m)
        r = C.Parser.method(self, e, m, args)
        if d is not None and d.get("kind") == "param":
            if d not in [x[1] for x in self.used_params]:
                self.used_params.append((d["lean"], d))
            self.used_params.sort(key=lambda x: x[0])
        return r

    def unary(self):
        if self.peek() == ("op", "&"):
            self.eat()
            e = self.unary()
            if e[1].kind == "struct" and self.spec["types"][e[1].name].get("opaque"):
                return e                                     # address of an opaque object: the object
            raise self.R("`&` applied to a %r" % e[1])
        return C.Parser.unary(self)

    def const(self, v):
        c = self.spec["consts"][v]
        if c["type"] == "bool":
            return str(c["value"]), C.BOOL
        return C.Parser.const(self, v)


# ------------------------------------------------------------------------------------------------- the spec
LOC2 = ["Location", "Location"]
ENV2 = ["const Envelope&", "const Envelope&"]
MV = {"m_value": "int"}
IMF = {"dimA": "int", "dimB": "int", "intMatrix": "IntersectionMatrix"}


def gen(lean, args, ret="bool", **kw):
    d = {"lean": lean, "kind": "generated", "args": args, "ret": ret}
    d.update(kw)
    return d


def envm(lean, args, ret="bool"):
    return {"lean": lean, "kind": "param", "sig": " → ".join(["E"] * (1 + len(args)) + ["Bool"]), "args": args, "ret": ret}


def cls(c, short, name, params, ret, lean, **kw):
    d = {"file": H + "RelatePredicate.h", "in_class": c, "name": name, "params": params, "ret": ret, "lean": short + "_" + lean}
    d.update(kw)
    return d


FUNCS = [
    # ---- BasicPredicate.cpp
    {"file": S + "BasicPredicate.cpp", "name": "BasicPredicate::isKnown", "params": ["int"], "ret": "bool", "lean": "isKnownVal"},
    {"file": S + "BasicPredicate.cpp", "name": "BasicPredicate::toBoolean", "params": ["int"], "ret": "bool", "lean": "toBoolean"},
    {"file": S + "BasicPredicate.cpp", "name": "BasicPredicate::toValue", "params": ["bool"], "ret": "int", "lean": "toValue"},
    {"file": S + "BasicPredicate.cpp", "name": "BasicPredicate::isIntersection", "params": LOC2, "ret": "bool", "lean": "isIntersection"},
    {"file": S + "BasicPredicate.cpp", "name": "BasicPredicate::isKnown", "params": [], "ret": "bool", "lean": "isKnown", "fields": MV},
    {"file": S + "BasicPredicate.cpp", "name": "BasicPredicate::value", "params": [], "ret": "bool", "lean": "value", "fields": MV},
    {"file": S + "BasicPredicate.cpp", "name": "BasicPredicate::setValue", "params": ["bool"], "ret": "void", "lean": "setValue", "state": MV},
    {"file": S + "BasicPredicate.cpp", "name": "BasicPredicate::setValueIf", "params": ["bool", "bool"], "ret": "void", "lean": "setValueIf", "state": MV},
    {"file": S + "BasicPredicate.cpp", "name": "BasicPredicate::require", "params": ["bool"], "ret": "void", "lean": "require", "state": MV},
    {"file": S + "BasicPredicate.cpp", "name": "BasicPredicate::requireCovers", "params": ENV2, "ret": "void", "lean": "requireCoversEnv", "state": MV},
    # ---- IMPredicate.cpp
    {"file": S + "IMPredicate.cpp", "name": "IMPredicate::isDimsCompatibleWithCovers", "params": ["int", "int"], "ret": "bool", "lean": "isDimsCompatibleWithCovers"},
    {"file": S + "IMPredicate.cpp", "name": "IMPredicate::init", "params": ["int", "int"], "ret": "void", "lean": "IMPredicate_init",
     "state": {"dimA": "int", "dimB": "int"}},
    {"file": S + "IMPredicate.cpp", "name": "IMPredicate::isDimChanged", "params": LOC2 + ["int"], "ret": "bool", "lean": "isDimChanged",
     "fields": {"intMatrix": "IntersectionMatrix"}},
    {"file": S + "IMPredicate.cpp", "name": "IMPredicate::isIntersects", "params": LOC2, "ret": "bool", "lean": "isIntersects",
     "fields": {"intMatrix": "IntersectionMatrix"}},
    {"file": S + "IMPredicate.cpp", "name": "IMPredicate::intersectsExteriorOf", "params": ["bool"], "ret": "bool", "lean": "intersectsExteriorOf",
     "fields": {"intMatrix": "IntersectionMatrix"}},
    {"file": S + "IMPredicate.cpp", "name": "IMPredicate::isKnown", "params": LOC2, "ret": "bool", "lean": "isKnownEntry",
     "fields": {"intMatrix": "IntersectionMatrix"}},
    {"file": S + "IMPredicate.cpp", "name": "IMPredicate::isDimension", "params": LOC2 + ["int"], "ret": "bool", "lean": "isDimension",
     "fields": {"intMatrix": "IntersectionMatrix"}},
    {"file": S + "IMPredicate.cpp", "name": "IMPredicate::getDimension", "params": LOC2, "ret": "int", "lean": "getDimension",
     "fields": {"intMatrix": "IntersectionMatrix"}},
    {"file": S + "IMPredicate.cpp", "name": "IMPredicate::updateDimension", "params": LOC2 + ["int"], "ret": "void", "lean": "IMPredicate_updateDimension",
     "fields": {"dimA": "int", "dimB": "int"}, "state": {"intMatrix": "IntersectionMatrix", "m_value": "int"}},
    {"file": S + "IMPredicate.cpp", "name": "IMPredicate::finish", "params": [], "ret": "void", "lean": "IMPredicate_finish", "fields": IMF, "state": MV},
    # ---- TopologyPredicate.h: the inherited defaults
    {"file": H + "TopologyPredicate.h", "in_class": "TopologyPredicate", "name": "requireInteraction", "params": [], "ret": "bool", "lean": "Default_requireInteraction"},
    {"file": H + "TopologyPredicate.h", "in_class": "TopologyPredicate", "name": "requireCovers", "params": ["bool"], "ret": "bool", "lean": "Default_requireCovers"},
    {"file": H + "TopologyPredicate.h", "in_class": "TopologyPredicate", "name": "requireExteriorCheck", "params": ["bool"], "ret": "bool", "lean": "Default_requireExteriorCheck"},
]

# ---- RelatePredicate.h
for c, short in (("IntersectsPredicate", "Intersects"), ("DisjointPredicate", "Disjoint")):
    if short == "Disjoint":
        FUNCS.append(cls(c, short, "requireInteraction", [], "bool", "requireInteraction"))
    FUNCS += [
        cls(c, short, "requireExteriorCheck", ["bool"], "bool", "requireExteriorCheck"),
        cls(c, short, "init", ENV2, "void", "initEnv", state=MV),
        cls(c, short, "updateDimension", LOC2 + ["int"], "void", "updateDimension", state=MV),
        cls(c, short, "finish", [], "void", "finish", state=MV),
    ]
for c, short in (("ContainsPredicate", "Contains"), ("WithinPredicate", "Within"), ("CoversPredicate", "Covers"), ("CoveredByPredicate", "CoveredBy")):
    FUNCS += [
        cls(c, short, "requireCovers", ["bool"], "bool", "requireCovers"),
        cls(c, short, "requireExteriorCheck", ["bool"], "bool", "requireExteriorCheck"),
        cls(c, short, "init", ["int", "int"], "void", "initDim", state={"dimA": "int", "dimB": "int", "m_value": "int"}),
        cls(c, short, "init", ENV2, "void", "initEnv", state=MV),
        cls(c, short, "isDetermined", [], "bool", "isDetermined", fields=IMF),
        cls(c, short, "valueIM", [], "bool", "valueIM", fields=IMF),
    ]
for c, short in (("CrossesPredicate", "Crosses"), ("EqualsTopoPredicate", "EqualsTopo"), ("OverlapsPredicate", "Overlaps"), ("TouchesPredicate", "Touches")):
    if short == "EqualsTopo":
        FUNCS.append(cls(c, short, "requireInteraction", [], "bool", "requireInteraction"))
    FUNCS.append(cls(c, short, "init", ["int", "int"], "void", "initDim", state={"dimA": "int", "dimB": "int", "m_value": "int"}))
    if short == "EqualsTopo":
        FUNCS.append(cls(c, short, "init", ENV2, "void", "initEnv", state=MV))
    FUNCS += [cls(c, short, "isDetermined", [], "bool", "isDetermined", fields=IMF),
              cls(c, short, "valueIM", [], "bool", "valueIM", fields=IMF)]
# ---- RelateMatrixPredicate.h
for name, lean in (("requireInteraction", "requireInteraction"), ("isDetermined", "isDetermined"), ("valueIM", "valueIM")):
    FUNCS.append({"file": H + "RelateMatrixPredicate.h", "in_class": "RelateMatrixPredicate", "name": name, "params": [], "ret": "bool",
                  "lean": "Matrix_" + lean, "fields": (IMF if name != "requireInteraction" else {})})
# ---- IMPatternMatcher.cpp
FUNCS += [
    {"file": S + "IMPatternMatcher.cpp", "name": "IMPatternMatcher::isInteraction", "params": ["int"], "ret": "bool", "lean": "Pattern_isInteraction"},
    {"file": S + "IMPatternMatcher.cpp", "name": "IMPatternMatcher::requireInteraction", "params": ["const IntersectionMatrix&"], "ret": "bool",
     "lean": "Pattern_requireInteractionIM"},
    {"file": S + "IMPatternMatcher.cpp", "name": "IMPatternMatcher::requireInteraction", "params": [], "ret": "bool", "lean": "Pattern_requireInteraction",
     "fields": {"patternMatrix": "IntersectionMatrix"}},
    {"file": S + "IMPatternMatcher.cpp", "name": "IMPatternMatcher::init", "params": ENV2, "ret": "void", "lean": "Pattern_initEnv",
     "fields": {"patternMatrix": "IntersectionMatrix"}, "state": {"dimA": "int", "dimB": "int", "m_value": "int"}},
    # ---- RelateNG.cpp: the envelope test in front of everything
    {"file": S + "RelateNG.cpp", "name": "RelateNG::hasRequiredEnvelopeInteraction", "params": ["const Geometry*", "TopologyPredicate&"], "ret": "bool",
     "lean": "hasRequiredEnvelopeInteraction", "fields": {"geomA": "RelateGeometry"}},
]

SPEC = {
    "id": "relate_pred",
    "namespace": "GeosModel.Generated.RelatePred",
    "imports": ["GeosModel.Base.IM", "GeosModel.Generated.IMPreds"],
    "prepare": prepare,
    "parser_class": PredParser,
    "also_reads": ["include/geos/geom/Dimension.h", "include/geos/geom/Location.h", H + "BasicPredicate.h", H + "IMPredicate.h", H + "IMPatternMatcher.h",
                   H + "RelateGeometry.h"],
    "type_params": ["E", "G", "RG", "TP"],
    "types": {
        "Location": {"lean": "Loc3", "enum": {"Location::INTERIOR": "Loc3.I", "Location::BOUNDARY": "Loc3.B", "Location::EXTERIOR": "Loc3.E"}},
        "IntersectionMatrix": {"lean": "IM", "opaque": True},
        "Envelope": {"lean": "E", "opaque": True},
        "Envelope*": {"alias": "Envelope"},
        "Geometry*": {"lean": "G", "opaque": True},
        "RelateGeometry": {"lean": "RG", "opaque": True},
        "TopologyPredicate": {"lean": "TP", "opaque": True},
    },
    "methods": {
        # geom::IntersectionMatrix: `get`/`set` are the accessors of Base/IM; the named predicates are the REGENERATED ones of
        # Generated/IMPreds (translate/im_preds.py), proved equal to Base/IM in Props/C01Gen
        "IntersectionMatrix.get": {"lean": "IM.get", "args": LOC2, "ret": "int"},
        ".set": {"lean": "IM.set", "args": LOC2 + ["int"], "ret": "void", "stmt": True},
        ".isContains": {"lean": "Generated.IMPreds.isContains", "args": [], "ret": "bool"},
        ".isWithin": {"lean": "Generated.IMPreds.isWithin", "args": [], "ret": "bool"},
        ".isCovers": {"lean": "Generated.IMPreds.isCovers", "args": [], "ret": "bool"},
        ".isCoveredBy": {"lean": "Generated.IMPreds.isCoveredBy", "args": [], "ret": "bool"},
        ".isCrosses": {"lean": "Generated.IMPreds.isCrosses", "args": ["int", "int"], "ret": "bool"},
        ".isEquals": {"lean": "Generated.IMPreds.isEquals", "args": ["int", "int"], "ret": "bool"},
        ".isOverlaps": {"lean": "Generated.IMPreds.isOverlaps", "args": ["int", "int"], "ret": "bool"},
        ".isTouches": {"lean": "Generated.IMPreds.isTouches", "args": ["int", "int"], "ret": "bool"},
        # geom::Envelope: abstract (the bridge theorems state what they must satisfy)
        "Envelope.intersects": envm("envIntersects", ["Envelope"]),
        "Envelope.disjoint": envm("envDisjoint", ["Envelope"]),
        "Envelope.covers": envm("envCovers", ["Envelope"]),
        "Envelope.equals": envm("envEquals", ["Envelope"]),
        "Envelope.isNull": envm("envIsNull", []),
        "Envelope*.intersects": envm("envIntersects", ["Envelope"]),
        "Envelope*.covers": envm("envCovers", ["Envelope"]),
        "Geometry*.getEnvelopeInternal": {"lean": "getEnvelopeInternal", "kind": "param", "sig": "G → E", "args": [], "ret": "Envelope*"},
        "RelateGeometry.getEnvelope": {"lean": "getEnvelope", "kind": "param", "sig": "RG → E", "args": [], "ret": "Envelope*"},
        "TopologyPredicate.requireCovers": {"lean": "requireCovers", "kind": "param", "sig": "TP → Bool → Bool", "args": ["bool"], "ret": "bool"},
        "TopologyPredicate.requireInteraction": {"lean": "requireInteraction", "kind": "param", "sig": "TP → Bool", "args": [], "ret": "bool"},
    },
    "calls": {
        "isKnown": [gen("isKnownVal", ["int"]), gen("isKnown", []), gen("isKnownEntry", LOC2)],
        "toBoolean": gen("toBoolean", ["int"]),
        "toValue": gen("toValue", ["bool"], "int"),
        "isIntersection": gen("isIntersection", LOC2),
        "setValue": [gen("setValue", ["bool"], "void", stmt=True)],
        "setValueIf": [gen("setValueIf", ["bool", "bool"], "void", stmt=True)],
        "require": [gen("require", ["bool"], "void", stmt=True)],
        "BasicPredicate::requireCovers": [gen("requireCoversEnv", ENV2, "void", stmt=True)],
        "IMPredicate::init": [gen("IMPredicate_init", ["int", "int"], "void", stmt=True)],
        "isDimsCompatibleWithCovers": gen("isDimsCompatibleWithCovers", ["int", "int"]),
        "isDimChanged": gen("isDimChanged", LOC2 + ["int"]),
        "isIntersects": gen("isIntersects", LOC2),
        "intersectsExteriorOf": gen("intersectsExteriorOf", ["bool"]),
        "isDimension": gen("isDimension", LOC2 + ["int"]),
        "getDimension": gen("getDimension", LOC2, "int"),
        "isInteraction": gen("Pattern_isInteraction", ["int"]),
        "requireInteraction": [gen("Pattern_requireInteractionIM", ["const IntersectionMatrix&"])],
        # virtual calls: abstract parameters applied to the members the callee may read
        "isDetermined": {"lean": "isDetermined", "kind": "param", "sig": "Int → Int → IM → Bool", "args": [], "ret": "bool",
                         "members": ["dimA", "dimB", "intMatrix"]},
        "valueIM": {"lean": "valueIM", "kind": "param", "sig": "Int → Int → IM → Bool", "args": [], "ret": "bool",
                    "members": ["dimA", "dimB", "intMatrix"]},
    },
    "functions": FUNCS,
}
