"""C20 — the comparison functions normalisation sorts by (Model/Norm/Normalize.lean is the hand-written model):
CoordinateXY::compareTo / equals2D (the order and equality of coordinates) and Geometry::compareTo (sort index, emptiness
rule, then compareToSameClass)."""
import os, sys
import sys
_main = sys.modules.get("__main__")
if getattr(_main, "__file__", "").endswith("cxx2lean.py"):      # run as `python3 cxx2lean.py <spec>`: share the one module (Refuse!)
    sys.modules.setdefault("cxx2lean", _main)
import cxx2lean as C
sys.path.insert(0, os.path.dirname(os.path.abspath(__file__)))
import t6_ext


def prepare(spec, repo):
    # the model's `toK` hard-wires the sort indices of the geometry classes
    got = C.enum_values(repo, "include/geos/geom/Geometry.h", "GeometrySortIndex")
    want = {"SORTINDEX_POINT": 0, "SORTINDEX_MULTIPOINT": 1, "SORTINDEX_LINESTRING": 2, "SORTINDEX_LINEARRING": 3,
            "SORTINDEX_MULTILINESTRING": 4, "SORTINDEX_POLYGON": 5, "SORTINDEX_MULTIPOLYGON": 6, "SORTINDEX_GEOMETRYCOLLECTION": 7,
            "SORTINDEX_CIRCULARSTRING": 8, "SORTINDEX_COMPOUNDCURVE": 9, "SORTINDEX_CURVEPOLYGON": 10, "SORTINDEX_MULTICURVE": 11,
            "SORTINDEX_MULTISURFACE": 12}
    for k, v in want.items():
        if got.get(k) != v:
            raise C.Refuse("%s is %r; Model/Norm/Normalize.lean (`toK`) assumes %d" % (k, got.get(k), v))


XY = "CoordinateXY"
SORTIDX = {"lean": "sortIndex", "kind": "param", "sig": "G → Int", "args": [], "ret": "int"}
ISEMPTY = {"lean": "isEmpty", "kind": "param", "sig": "G → Bool", "args": [], "ret": "bool"}

SPEC = t6_ext.install({
    "id": "norm_compare",
    "namespace": "GeosModel.Generated.NormCompare",
    "imports": [],
    "prepare": prepare,
    "also_reads": ["include/geos/geom/Geometry.h"],
    "type_params": ["G"],
    "types": {
        XY: {"lean": "Cxx.XY R", "fields": {"x": "double", "y": "double"}},
        "Geometry*": {"lean": "G", "opaque": True,
                      "eq": {"lean": "samePtr", "kind": "param", "sig": "G → G → Bool"}},
    },
    "calls": {
        "getSortIndex": dict(SORTIDX, fmt="({fn} {this})"),
        "isEmpty": dict(ISEMPTY, fmt="({fn} {this})"),
        "compareToSameClass": {"lean": "compareToSameClass", "kind": "param", "sig": "G → G → Int", "args": ["Geometry*"], "ret": "int",
                               "fmt": "({fn} {this} {0})"},
    },
    "methods": {
        "Geometry*.getSortIndex": SORTIDX,
        "Geometry*.isEmpty": ISEMPTY,
    },
    "functions": [
        {"file": "include/geos/geom/Coordinate.h", "name": "equals2D", "params": ["const CoordinateXY&"], "ret": "bool", "lean": "equals2D",
         "fields": {"x": "double", "y": "double"}},
        {"file": "include/geos/geom/Coordinate.h", "name": "compareTo", "params": ["const CoordinateXY&"], "ret": "int", "lean": "compareToXY",
         "fields": {"x": "double", "y": "double"}},
        {"file": "src/geom/Geometry.cpp", "name": "Geometry::compareTo", "params": ["const Geometry*"], "ret": "int", "lean": "compareTo",
         "fields": {"this": "Geometry*"}},
    ],
})
