"""C17 — the dispatch of operation::valid::MakeValid::build (the linework method): hand-written model `Fix.buildRoute`
(lean/GeosModel/Model/Fix/Cxx.lean).  The input is seen through `IsValidOp(geom).getValidationError()` and
`getGeometryTypeId()` only; each repair routine is represented by the `Route` it stands for (the routines themselves —
noding, polygonizing, unioning — are not modelled)."""
import cxx_ext            # first: makes `cxx2lean` the running translator module
import cxx2lean as C

F = "src/operation/valid/MakeValid.cpp"
IN = {"lean": "Fix.MVIn", "opaque": True}


def route(r, arg):
    return {"lean": "(fun _ => some Fix.Route.%s)" % r, "kind": "def", "args": [arg], "ret": "UPtr_Geometry"}


SPEC = {
    "id": "make_valid",
    "namespace": "GeosModel.Generated.MakeValid",
    "imports": ["GeosModel.Model.Fix.Cxx"],
    "parser_class": cxx_ext.ExtParser,
    "types": {
        "Geometry*": IN, "LineString*": IN, "MultiLineString*": IN, "GeometryCollection*": IN, "IsValidOp": IN,
        "TopologyValidationError*": {"lean": "Option Unit", "opaque": True, "nullable": True},
        "UPtr_Geometry": {"lean": "Option Fix.Route", "opaque": True, "nullable": True},
        "GeometryTypeId": {"lean": "Fix.Ty", "enum": {
            "GEOS_POINT": "Fix.Ty.point", "GEOS_LINESTRING": "Fix.Ty.lineString", "GEOS_LINEARRING": "Fix.Ty.linearRing",
            "GEOS_POLYGON": "Fix.Ty.polygon", "GEOS_MULTIPOINT": "Fix.Ty.multiPoint", "GEOS_MULTILINESTRING": "Fix.Ty.multiLineString",
            "GEOS_MULTIPOLYGON": "Fix.Ty.multiPolygon", "GEOS_GEOMETRYCOLLECTION": "Fix.Ty.collection"}},
    },
    "methods": {
        ".getValidationError": {"lean": "Fix.MVIn.validationError", "args": [], "ret": "TopologyValidationError*"},
        ".getGeometryTypeId": {"lean": "Fix.MVIn.ty", "args": [], "ret": "GeometryTypeId"},
        ".clone": {"lean": "(fun _ => some Fix.Route.clone)", "args": [], "ret": "UPtr_Geometry"},
    },
    "calls": {
        "MakeValidLine": route("line", "LineString*"),
        "MakeValidMultiLine": route("multiLine", "MultiLineString*"),
        "MakeValidPoly": route("poly", "Geometry*"),
        "MakeValidCollection": route("collection", "GeometryCollection*"),
    },
    "functions": [
        {"file": F, "name": "MakeValid::build", "params": ["const geom::Geometry*"], "ret": "UPtr_Geometry", "lean": "build", "monad": "except"},
    ],
}
