"""C03 — the decision functions of OverlayNG / OverlayUtil (Model/Overlay/Core.lean is the hand-written model)."""
import cxx2lean as C


def prepare(spec, repo):
    h = "include/geos/operation/overlayng/OverlayNG.h"
    consts = {}
    for name in ("INTERSECTION", "UNION", "DIFFERENCE", "SYMDIFFERENCE"):
        v = C.find_constant(repo, h, r"static\s+constexpr\s+int\s+%s\s*=\s*(-?\d+)\s*;" % name)
        consts[name] = {"type": "int", "value": int(v)}
        consts["OverlayNG::" + name] = consts[name]
    spec["consts"] = consts
    loc = C.enum_values(repo, "include/geos/geom/Location.h", "Location")
    want = {"INTERIOR": 0, "BOUNDARY": 1, "EXTERIOR": 2}
    for k, v in want.items():
        if loc.get(k) != v:
            raise C.Refuse("Location::%s is %r, the Loc3 model assumes %d" % (k, loc.get(k), v))


SPEC = {
    "id": "overlay_core",
    "namespace": "GeosModel.Generated.OverlayCore",
    "imports": ["GeosModel.Base.IM"],
    "prepare": prepare,
    "types": {
        "Location": {"lean": "Loc3", "enum": {"Location::INTERIOR": "Loc3.I", "Location::BOUNDARY": "Loc3.B", "Location::EXTERIOR": "Loc3.E"}},
        "Geometry*": {"lean": "G", "opaque": True},
        "PrecisionModel*": {"lean": "PM", "opaque": True},
    },
    "type_params": ["G", "PM"],
    "calls": {
        "isEmpty": {"lean": "isEmpty", "kind": "param", "sig": "G → Bool", "args": ["Geometry*"], "ret": "bool"},
        "isEnvDisjoint": {"lean": "isEnvDisjoint", "kind": "param", "sig": "G → G → PM → Bool", "args": ["Geometry*", "Geometry*", "PrecisionModel*"], "ret": "bool"},
    },
    "functions": [
        {"file": "src/operation/overlayng/OverlayNG.cpp", "name": "OverlayNG::isResultOfOp", "params": ["int", "Location", "Location"],
         "ret": "bool", "lean": "isResultOfOp"},
        {"file": "src/operation/overlayng/OverlayUtil.cpp", "name": "OverlayUtil::resultDimension", "params": ["int", "int", "int"],
         "ret": "int", "lean": "resultDimension"},
        {"file": "src/operation/overlayng/OverlayUtil.cpp", "name": "OverlayUtil::isEmptyResult",
         "params": ["int", "const Geometry*", "const Geometry*", "const PrecisionModel*"], "ret": "bool", "lean": "isEmptyResult"},
    ],
}
