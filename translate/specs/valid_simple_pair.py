"""C05 — operation::valid::IsSimpleOp::NonSimpleIntersectionFinder: the decision IsSimpleOp takes for every pair of line segments the
noder presents (`findIntersection`, `isIntersectionEndpoint`, `intersectionVertexIndex`).
Hand-written model: lean/GeosModel/Model/Valid/SimplePair.lean; bridge: lean/GeosModel/Props/C05GenSimple.lean.

Abstract: `SegmentString*` is an opaque value `SS` with `ssSize` (`size()`), `ssClosed` (`isClosed()`), `ssEq` (pointer equality); the
member `algorithm::LineIntersector li` (also passed on as `const LineIntersector&`) is an opaque value `LI` whose observers
`hasIntersection / isInteriorIntersection / getIntersectionNum / getIntersection(i) / getEndpoint(seg, pt)` are functions of it
(exactness of the intersector on the grid is C02's subject).
`processIntersections` (de-duplicating `emplace_back` into a vector through a range-for) is outside the fragment and not translated.
`std::size_t` subtraction `segIndex1 - segIndex0` is guarded by the comparison in the same expression: `nat_sub_ok` for findIntersection."""
import os, sys
sys.path.insert(0, os.path.dirname(os.path.abspath(__file__)))
import cxx2lean as C
import c05_ext

CPP = "src/operation/valid/IsSimpleOp.cpp"
XY = "Cxx.XY R"
Q = "IsSimpleOp::NonSimpleIntersectionFinder::"

SPEC = {
    "id": "valid_simple_pair",
    "namespace": "GeosModel.Generated.ValidSimplePair",
    "imports": [],
    "parser_class": c05_ext.VParser,
    "type_params": ["SS", "LI"],
    "param_order": ["ssEq", "ssSize", "ssClosed", "liCompute", "liHasIntersection", "liIsInteriorIntersection", "liIntersectionNum", "liIntersection", "liEndpoint"],
    "types": {
        "CoordinateXY": {"lean": XY, "fields": {"x": "double", "y": "double"}},
        "CoordinateXY*": {"lean": XY, "fields": {"x": "double", "y": "double"}, "pointee": "CoordinateXY"},
        "SegmentString*": {"lean": "SS", "opaque": True, "eq": "operator==(SegmentString*)"},
        "LineIntersector": {"lean": "LI", "opaque": True},
    },
    "calls": {
        "operator==(SegmentString*)": {"lean": "ssEq", "kind": "param", "sig": "SS → SS → Bool", "args": ["SegmentString*"] * 2, "ret": "bool"},
        "intersectionVertexIndex": {"lean": "intersectionVertexIndex", "kind": "generated", "args": ["LineIntersector", "std::size_t"], "ret": "std::size_t"},
        "isIntersectionEndpoint": {"lean": "isIntersectionEndpoint", "kind": "generated",
                                   "args": ["SegmentString*", "std::size_t", "LineIntersector", "std::size_t"], "ret": "bool"},
    },
    "methods": {
        ".size": {"lean": "ssSize", "kind": "param", "sig": "SS → Nat", "args": [], "ret": "std::size_t", "recv": "SegmentString*"},
        ".isClosed": {"lean": "ssClosed", "kind": "param", "sig": "SS → Bool", "args": [], "ret": "bool", "recv": "SegmentString*"},
        ".computeIntersection": {"lean": "liCompute", "kind": "param", "sig": "LI → %s → %s → %s → %s → LI" % ((XY,) * 4),
                                 "args": ["CoordinateXY"] * 4, "ret": "void", "updates": ["<receiver>"], "recv": "LineIntersector"},
        ".hasIntersection": {"lean": "liHasIntersection", "kind": "param", "sig": "LI → Bool", "args": [], "ret": "bool", "recv": "LineIntersector"},
        ".isInteriorIntersection": {"lean": "liIsInteriorIntersection", "kind": "param", "sig": "LI → Bool", "args": [], "ret": "bool", "recv": "LineIntersector"},
        ".getIntersectionNum": {"lean": "liIntersectionNum", "kind": "param", "sig": "LI → Nat", "args": [], "ret": "std::size_t", "recv": "LineIntersector"},
        ".getIntersection": {"lean": "liIntersection", "kind": "param", "sig": "LI → Nat → " + XY, "args": ["std::size_t"], "ret": "CoordinateXY", "recv": "LineIntersector"},
        ".getEndpoint": {"lean": "liEndpoint", "kind": "param", "sig": "LI → Nat → Nat → " + XY, "args": ["std::size_t", "std::size_t"], "ret": "CoordinateXY*",
                         "recv": "LineIntersector"},
        ".equals2D": {"lean": "equals2D", "kind": "generated", "fmt": "({fn} {0}.x {0}.y {1})", "args": ["CoordinateXY"], "ret": "bool", "recv": "CoordinateXY"},
    },
    "functions": [
        {"file": "include/geos/geom/Coordinate.h", "class": "CoordinateXY", "name": "equals2D", "params": ["const CoordinateXY&"], "ret": "bool",
         "lean": "equals2D", "fields": {"x": "double", "y": "double"}},
        {"file": CPP, "name": Q + "intersectionVertexIndex", "params": ["const LineIntersector&", "std::size_t"], "ret": "std::size_t",
         "lean": "intersectionVertexIndex", "uses": ["liIntersection", "liEndpoint"]},
        {"file": CPP, "name": Q + "isIntersectionEndpoint", "params": ["const SegmentString*", "std::size_t", "const LineIntersector&", "std::size_t"],
         "ret": "bool", "lean": "isIntersectionEndpoint", "uses": ["ssSize", "liIntersection", "liEndpoint"]},
        {"file": CPP, "name": Q + "findIntersection",
         "params": ["SegmentString*", "std::size_t", "SegmentString*", "std::size_t"] + ["const CoordinateXY&"] * 4, "ret": "bool",
         "lean": "findIntersection", "nat_sub_ok": True, "fields": {"isClosedEndpointsInInterior": "bool"}, "state": {"li": "LineIntersector"},
         "uses": ["ssEq", "ssSize", "ssClosed", "liCompute", "liHasIntersection", "liIsInteriorIntersection", "liIntersectionNum", "liIntersection", "liEndpoint"]},
    ],
}
