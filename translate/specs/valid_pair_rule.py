"""C05 — operation::valid::PolygonIntersectionAnalyzer: the decision IsValidOp takes for every pair of ring segments the noder
presents (`processIntersections` → `findInvalidIntersection`, with `isAdjacentInRing`, `prevCoordinateInRing`) and
`CoordinateXY::equals2D`.  Hand-written model: lean/GeosModel/Model/Valid/PairRule.lean; bridge: lean/GeosModel/Props/C05GenPair.lean.

What is abstract (a parameter of the generated definitions; the bridge theorems state what is assumed about each):
  * `SegmentString*` is an opaque value `SS` with `ssCoord` (`getCoordinate<CoordinateXY>(i)`), `ssSize` (`size()`), `ssEq` (pointer equality);
  * the member `algorithm::LineIntersector li` is an opaque value `LI`: `li.computeIntersection(a, b, c, d);` is `li := liCompute li a b c d`,
    and `hasIntersection / isProper / getIntersectionNum / getIntersection(i)` are functions of it (that the intersector classifies
    exactly on the grid is C02's subject);
  * `algorithm::PolygonNodeTopology::isCrossing` is the parameter `isCrossing` (its own translation is the spec `node_topology`);
  * the touch bookkeeping kept in the PolygonRing objects behind `ss->getData()` is one opaque state value `ringTouches : W` that
    `addSelfTouch` / `addDoubleTouch` (pointer casts + calls into PolygonRing, outside the fragment) map to a new value;
    the bridge theorem holds for EVERY interpretation of these two, i.e. the bookkeeping cannot influence the returned code.
`std::size_t` subtraction: `size() - 2` in `isAdjacentInRing` / `prevCoordinateInRing` is reached only with a valid segment index
(`segIndex + 1 < size()`, so `size() >= 2`), and `segIndex0 - segIndex1` is guarded by the comparison in the same expression:
`nat_sub_ok` is set for exactly these two functions."""
import os, sys
sys.path.insert(0, os.path.dirname(os.path.abspath(__file__)))
import cxx2lean as C
import c05_ext

CPP = "src/operation/valid/PolygonIntersectionAnalyzer.cpp"
TVE = "include/geos/operation/valid/TopologyValidationError.h"
XY = "Cxx.XY R"


def prepare(spec, repo):
    vals = C.enum_values(repo, TVE, "errorEnum")
    consts = {}
    for name in ("eSelfIntersection", "eRingSelfIntersection", "oNoInvalidIntersection"):
        if name not in vals:
            raise C.Refuse("TopologyValidationError::%s not found" % name)
        consts["TopologyValidationError::" + name] = {"type": "int", "value": vals[name]}
    spec["consts"] = consts
    h = C.read_source(repo, "include/geos/operation/valid/PolygonIntersectionAnalyzer.h")
    import re
    if not re.search(r"int\s+invalidCode\s*=\s*TopologyValidationError::oNoInvalidIntersection\s*;", h):
        raise C.Refuse("PolygonIntersectionAnalyzer::invalidCode is no longer initialised to oNoInvalidIntersection (the bridge's initial state)")
    if not re.search(r"bool\s+isInvalid\s*\(\s*\)\s*const\s*\{\s*return\s+invalidCode\s*>=\s*0\s*;\s*\}", h):
        raise C.Refuse("PolygonIntersectionAnalyzer::isInvalid() is no longer `invalidCode >= 0`")


STATE_FII = {"li": "LineIntersector", "ringTouches": "TouchStore", "m_hasDoubleTouch": "bool", "doubleTouchLocation": "CoordinateXY"}
STATE_PI = dict(STATE_FII)
STATE_PI.update({"invalidCode": "int", "invalidLocation": "CoordinateXY"})

SPEC = {
    "id": "valid_pair_rule",
    "namespace": "GeosModel.Generated.ValidPairRule",
    "imports": [],
    "prepare": prepare,
    "parser_class": c05_ext.VParser,
    "also_reads": [TVE, "include/geos/operation/valid/PolygonIntersectionAnalyzer.h"],
    "strip_template_args": ["getCoordinate"],
    "type_params": ["SS", "LI", "W"],
    "param_order": ["ssEq", "ssSize", "ssCoord", "liCompute", "liHasIntersection", "liIsProper", "liIntersectionNum", "liIntersection",
                    "isCrossing", "addSelfTouch", "addDoubleTouch"],
    "types": {
        "CoordinateXY": {"lean": XY, "fields": {"x": "double", "y": "double"}},
        "CoordinateXY*": {"lean": XY, "fields": {"x": "double", "y": "double"}, "pointee": "CoordinateXY"},
        "Coordinate": {"alias": "CoordinateXY"},        # the Z ordinate is never read here (equals2D, 2D node topology)
        "SegmentString*": {"lean": "SS", "opaque": True, "eq": "operator==(SegmentString*)"},
        "LineIntersector": {"lean": "LI", "opaque": True},
        "TouchStore": {"lean": "W", "opaque": True},
    },
    "calls": {
        "operator==(SegmentString*)": {"lean": "ssEq", "kind": "param", "sig": "SS → SS → Bool", "args": ["SegmentString*"] * 2, "ret": "bool"},
        "isAdjacentInRing": {"lean": "isAdjacentInRing", "kind": "generated", "args": ["SegmentString*", "std::size_t", "std::size_t"], "ret": "bool"},
        "prevCoordinateInRing": {"lean": "prevCoordinateInRing", "kind": "generated", "args": ["SegmentString*", "std::size_t"], "ret": "CoordinateXY"},
        "findInvalidIntersection": {"lean": "findInvalidIntersection", "kind": "generated",
                                    "args": ["SegmentString*", "std::size_t", "SegmentString*", "std::size_t"], "ret": "int"},
        "isCrossing": {"lean": "isCrossing", "kind": "param", "sig": "%s → %s → %s → %s → %s → Bool" % ((XY,) * 5),
                       "args": ["CoordinateXY*"] * 5, "ret": "bool"},
        "addSelfTouch": {"lean": "addSelfTouch", "kind": "param", "sig": "W → SS → %s → %s → %s → %s → %s → W" % ((XY,) * 5),
                         "args": ["SegmentString*", "CoordinateXY"] + ["CoordinateXY*"] * 4, "ret": "void", "updates": ["ringTouches"]},
        "addDoubleTouch": {"lean": "addDoubleTouch", "kind": "param", "sig": "W → SS → SS → %s → Bool × W" % XY,
                           "args": ["SegmentString*", "SegmentString*", "CoordinateXY"], "ret": "bool", "updates": ["ringTouches"]},
    },
    "methods": {
        ".size": {"lean": "ssSize", "kind": "param", "sig": "SS → Nat", "args": [], "ret": "std::size_t", "recv": "SegmentString*"},
        ".getCoordinate": {"lean": "ssCoord", "kind": "param", "sig": "SS → Nat → " + XY, "args": ["std::size_t"], "ret": "CoordinateXY", "recv": "SegmentString*"},
        ".computeIntersection": {"lean": "liCompute", "kind": "param", "sig": "LI → %s → %s → %s → %s → LI" % ((XY,) * 4),
                                 "args": ["CoordinateXY"] * 4, "ret": "void", "updates": ["<receiver>"], "recv": "LineIntersector"},
        ".hasIntersection": {"lean": "liHasIntersection", "kind": "param", "sig": "LI → Bool", "args": [], "ret": "bool", "recv": "LineIntersector"},
        ".isProper": {"lean": "liIsProper", "kind": "param", "sig": "LI → Bool", "args": [], "ret": "bool", "recv": "LineIntersector"},
        ".getIntersectionNum": {"lean": "liIntersectionNum", "kind": "param", "sig": "LI → Nat", "args": [], "ret": "std::size_t", "recv": "LineIntersector"},
        ".getIntersection": {"lean": "liIntersection", "kind": "param", "sig": "LI → Nat → " + XY, "args": ["std::size_t"], "ret": "Coordinate", "recv": "LineIntersector"},
        ".equals2D": {"lean": "equals2D", "kind": "generated", "fmt": "({fn} {0}.x {0}.y {1})", "args": ["CoordinateXY"], "ret": "bool", "recv": "CoordinateXY"},
    },
    "functions": [
        {"file": "include/geos/geom/Coordinate.h", "class": "CoordinateXY", "name": "equals2D", "params": ["const CoordinateXY&"], "ret": "bool",
         "lean": "equals2D", "fields": {"x": "double", "y": "double"}},
        {"file": CPP, "name": "PolygonIntersectionAnalyzer::isAdjacentInRing", "params": ["const SegmentString*", "std::size_t", "std::size_t"],
         "ret": "bool", "lean": "isAdjacentInRing", "nat_sub_ok": True, "uses": ["ssSize"]},
        {"file": CPP, "name": "PolygonIntersectionAnalyzer::prevCoordinateInRing", "params": ["const SegmentString*", "std::size_t"],
         "ret": "CoordinateXY", "lean": "prevCoordinateInRing", "nat_sub_ok": True, "uses": ["ssSize", "ssCoord"]},
        {"file": CPP, "name": "PolygonIntersectionAnalyzer::findInvalidIntersection",
         "params": ["const SegmentString*", "std::size_t", "const SegmentString*", "std::size_t"], "ret": "int", "lean": "findInvalidIntersection",
         "fields": {"isInvertedRingValid": "bool"}, "state": STATE_FII,
         "uses": ["ssEq", "ssSize", "ssCoord", "liCompute", "liHasIntersection", "liIsProper", "liIntersectionNum", "liIntersection",
                  "isCrossing", "addSelfTouch", "addDoubleTouch"]},
        {"file": CPP, "name": "PolygonIntersectionAnalyzer::processIntersections",
         "params": ["SegmentString*", "std::size_t", "SegmentString*", "std::size_t"], "ret": "void", "lean": "processIntersections",
         "fields": {"isInvertedRingValid": "bool"}, "state": STATE_PI,
         "uses": ["ssEq", "ssSize", "ssCoord", "liCompute", "liHasIntersection", "liIsProper", "liIntersectionNum", "liIntersection",
                  "isCrossing", "addSelfTouch", "addDoubleTouch"]},
    ],
}
