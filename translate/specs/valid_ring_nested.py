"""C05 — operation::valid::PolygonTopologyAnalyzer::isRingNested with all its helpers (`findNonEqualVertex`, `isIncidentSegmentInRing`,
`intersectingSegIndex`, `findRingVertexPrev`, `findRingVertexNext`, `ringIndexPrev`, `ringIndexNext`) and `CoordinateXY::equals2D`.
Hand-written model: lean/GeosModel/Model/Valid/RingNested.lean; bridge: lean/GeosModel/Props/C05GenNest.lean.

Abstract (parameters of the generated definitions): coordinate sequences and rings are opaque values with `seqAt` (`getAt<CoordinateXY>`),
`seqSize` (`size()` / `getSize()`), `ringCoords` (`getCoordinatesRO()`), `numPoints` (`getNumPoints()`); `PointLocation::locateInRing`,
`PointLocation::isOnSegment` (C07's subject, translated in the spec kernel_c07), `Orientation::isCCWArea`, and
`PolygonNodeTopology::isInteriorSegment` (translated in the spec node_topology).
The three `while` loops are generated with fuel = the number of points of the ring they walk: if a loop is still running after that
many iterations the generated function throws "while: out of fuel" (the C++ would go on; it does not terminate on a ring whose points
all equal the node).  `std::size_t` subtraction: `size() - 1`, `getSize() - 2`, `getNumPoints() - 1` are evaluated on rings that
contain the segment / vertex index at hand (>= 2 points), `index - 1` is guarded by `index == 0`: `nat_sub_ok` for these functions."""
import os, sys
sys.path.insert(0, os.path.dirname(os.path.abspath(__file__)))
import cxx2lean as C
import c05_ext

CPP = "src/operation/valid/PolygonTopologyAnalyzer.cpp"
XY = "Cxx.XY R"
PTA = "PolygonTopologyAnalyzer::"


def prepare(spec, repo):
    loc = C.enum_values(repo, "include/geos/geom/Location.h", "Location")
    for k in ("INTERIOR", "BOUNDARY", "EXTERIOR"):
        if k not in loc:
            raise C.Refuse("Location::%s not found" % k)
    if len({loc["INTERIOR"], loc["BOUNDARY"], loc["EXTERIOR"]}) != 3:
        raise C.Refuse("Location enumerators are no longer distinct")


def f(name, params, ret, lean, **kw):
    d = {"file": CPP, "name": PTA + name, "params": params, "ret": ret, "lean": lean, "nat_sub_ok": True}
    d.update(kw)
    return d


SEQ, LR, P = "const CoordinateSequence*", "const LinearRing*", "const CoordinateXY*"

SPEC = {
    "id": "valid_ring_nested",
    "namespace": "GeosModel.Generated.ValidRingNested",
    "imports": ["GeosModel.Base.Kernel"],
    "prepare": prepare,
    "parser_class": c05_ext.VParser,
    "also_reads": ["include/geos/geom/Location.h"],
    "strip_template_args": ["getAt"],
    "ignore_decls": ["algorithm::LineIntersector"],
    "type_params": ["Seq", "LR"],
    "param_order": ["seqSize", "seqAt", "ringCoords", "numPoints", "isOnSegment", "locateInRing", "isCCWArea", "isInteriorSegment"],
    "types": {
        "CoordinateXY": {"lean": XY, "fields": {"x": "double", "y": "double"}},
        "CoordinateXY*": {"lean": XY, "fields": {"x": "double", "y": "double"}, "pointee": "CoordinateXY"},
        "CoordinateSequence": {"lean": "Seq", "opaque": True},
        "CoordinateSequence*": {"lean": "Seq", "opaque": True, "pointee": "CoordinateSequence"},
        "LinearRing*": {"lean": "LR", "opaque": True},
        "Location": {"lean": "GeosModel.Kernel.Loc", "enum": {"Location::INTERIOR": "GeosModel.Kernel.Loc.interior", "Location::BOUNDARY": "GeosModel.Kernel.Loc.boundary",
                                                              "Location::EXTERIOR": "GeosModel.Kernel.Loc.exterior"}},
    },
    "calls": {
        "isOnSegment": {"lean": "isOnSegment", "kind": "param", "sig": "%s → %s → %s → Bool" % ((XY,) * 3), "args": ["CoordinateXY"] * 3, "ret": "bool"},
        "locateInRing": {"lean": "locateInRing", "kind": "param", "sig": XY + " → Seq → GeosModel.Kernel.Loc", "args": ["CoordinateXY", "CoordinateSequence"], "ret": "Location"},
        "isCCWArea": {"lean": "isCCWArea", "kind": "param", "sig": "Seq → Bool", "args": ["CoordinateSequence*"], "ret": "bool"},
        "isInteriorSegment": {"lean": "isInteriorSegment", "kind": "param", "sig": "%s → %s → %s → %s → Bool" % ((XY,) * 4),
                                                   "args": ["CoordinateXY*"] * 4, "ret": "bool"},
        "ringIndexPrev": {"lean": "ringIndexPrev", "kind": "generated", "args": ["CoordinateSequence*", "std::size_t"], "ret": "std::size_t"},
        "ringIndexNext": {"lean": "ringIndexNext", "kind": "generated", "args": ["CoordinateSequence*", "std::size_t"], "ret": "std::size_t"},
        "findRingVertexPrev": {"lean": "findRingVertexPrev", "kind": "generated", "args": ["CoordinateSequence*", "std::size_t", "CoordinateXY"], "ret": "CoordinateXY"},
        "findRingVertexNext": {"lean": "findRingVertexNext", "kind": "generated", "args": ["CoordinateSequence*", "std::size_t", "CoordinateXY"], "ret": "CoordinateXY"},
        "intersectingSegIndex": {"lean": "intersectingSegIndex", "kind": "generated", "args": ["CoordinateSequence*", "CoordinateXY*"], "ret": "std::size_t"},
        "findNonEqualVertex": {"lean": "findNonEqualVertex", "kind": "generated", "args": ["LinearRing*", "CoordinateXY"], "ret": "CoordinateXY"},
        "isIncidentSegmentInRing": {"lean": "isIncidentSegmentInRing", "kind": "generated", "args": ["CoordinateXY*", "CoordinateXY*", "CoordinateSequence*"], "ret": "bool"},
    },
    "methods": {
        ".size": {"lean": "seqSize", "kind": "param", "sig": "Seq → Nat", "args": [], "ret": "std::size_t"},
        ".getSize": {"lean": "seqSize", "kind": "param", "sig": "Seq → Nat", "args": [], "ret": "std::size_t"},
        ".getAt": {"lean": "seqAt", "kind": "param", "sig": "Seq → Nat → " + XY, "args": ["std::size_t"], "ret": "CoordinateXY"},
        ".getCoordinatesRO": {"lean": "ringCoords", "kind": "param", "sig": "LR → Seq", "args": [], "ret": "CoordinateSequence*", "recv": "LinearRing*"},
        ".getNumPoints": {"lean": "numPoints", "kind": "param", "sig": "LR → Nat", "args": [], "ret": "std::size_t", "recv": "LinearRing*"},
        ".equals2D": {"lean": "equals2D", "kind": "generated", "fmt": "({fn} {0}.x {0}.y {1})", "args": ["CoordinateXY"], "ret": "bool", "recv": "CoordinateXY"},
    },
    "functions": [
        {"file": "include/geos/geom/Coordinate.h", "class": "CoordinateXY", "name": "equals2D", "params": ["const CoordinateXY&"], "ret": "bool",
         "lean": "equals2D", "fields": {"x": "double", "y": "double"}},
        f("ringIndexPrev", [SEQ, "std::size_t"], "std::size_t", "ringIndexPrev", uses=["seqSize"]),
        f("ringIndexNext", [SEQ, "std::size_t"], "std::size_t", "ringIndexNext", uses=["seqSize"]),
        f("findRingVertexPrev", [SEQ, "std::size_t", "const CoordinateXY&"], "CoordinateXY", "findRingVertexPrev", monad="except",
          while_fuel="(seqSize ringPts)", uses=["seqSize", "seqAt"]),
        f("findRingVertexNext", [SEQ, "std::size_t", "const CoordinateXY&"], "CoordinateXY", "findRingVertexNext", monad="except",
          while_fuel="(seqSize ringPts)", uses=["seqSize", "seqAt"]),
        f("intersectingSegIndex", [SEQ, P], "std::size_t", "intersectingSegIndex", monad="except", uses=["seqSize", "seqAt", "isOnSegment"]),
        f("findNonEqualVertex", [LR, "const CoordinateXY&"], "CoordinateXY", "findNonEqualVertex", monad="except",
          while_fuel="(numPoints ring)", uses=["seqAt", "ringCoords", "numPoints"]),
        f("isIncidentSegmentInRing", [P, P, SEQ], "bool", "isIncidentSegmentInRing", monad="except",
          uses=["seqSize", "seqAt", "isOnSegment", "isCCWArea", "isInteriorSegment"]),
        f("isRingNested", [LR, LR], "bool", "isRingNested", monad="except",
          uses=["seqSize", "seqAt", "ringCoords", "numPoints", "isOnSegment", "locateInRing", "isCCWArea", "isInteriorSegment"]),
    ],
}
