"""C16 — the geometric decision functions of the triangulators: TrianglePredicate (in-circle tests, triArea), the
orientation / in-circle helpers of quadedge::Vertex, and the flip test of TriDelaunayImprover.
Hand-written models: Kernel.det / Kernel.inCircleDet (Base/Kernel.lean) and Model/Tri/Predicates.lean."""
import re
import cxx2lean as C


class Parser(C.Parser):
    """the general parser plus four small things these files need:
       * the type `long double` (declarations and static_cast) — an alias of the carrier, see SPEC["types"];
       * arithmetic on comparison results, `(det > e) - (det < -e) + 1`: bool operands of + and - are promoted to int as in C++;
       * `static_cast<geom::Location>(int)`: the function `locOfInt` of the preamble (numbering checked by `prepare`);
       * `this->member` for a member listed in the function's `fields`."""

    def parse_type(self):
        if self.peek() == ("id", "long") and self.peek(1) == ("id", "double"):
            self.eat(); self.eat()
            while self.peek()[1] in ("&", "const"):
                self.eat()
            return "long double"
        return C.Parser.parse_type(self)

    def binop(self, op, a, b):
        if op in ("+", "-") and "bool" in (a[1].kind, b[1].kind) and {a[1].kind, b[1].kind} <= {"bool", "int"}:
            a = (self.coerce(a[0], a[1], C.INT), C.INT)
            b = (self.coerce(b[0], b[1], C.INT), C.INT)
        return C.Parser.binop(self, op, a, b)

    def cast(self, e, ty):
        if ty.kind == "enum" and ty.name == "Location" and e[1].kind == "int":
            return "(locOfInt %s)" % e[0], ty
        return C.Parser.cast(self, e, ty)

    def primary(self):
        if self.peek() == ("id", "this") and self.peek(1) == ("op", "->") and self.peek(2)[0] == "id" \
                and self.peek(2)[1] in self.f.get("fields", {}) and self.peek(3) != ("op", "("):
            self.eat(); self.eat()
            return self.read_var(self.eat())
        return C.Parser.primary(self)


def prepare(spec, repo):
    loc = C.enum_values(repo, "include/geos/geom/Location.h", "Location")
    for k, v in {"INTERIOR": 0, "BOUNDARY": 1, "EXTERIOR": 2}.items():
        if loc.get(k) != v:
            raise C.Refuse("Location::%s is %r; locOfInt (and the Loc3 model) assume %d" % (k, loc.get(k), v))


LOC = {}
for _k, _v in (("INTERIOR", "Loc3.I"), ("BOUNDARY", "Loc3.B"), ("EXTERIOR", "Loc3.E")):
    for _p in ("geom::Location::", "Location::", ""):
        LOC[_p + _k] = _v

XY4 = ["const CoordinateXY&"] * 4
C4 = ["const Coordinate&"] * 4
TP = "src/triangulate/quadedge/TrianglePredicate.cpp"
VH = "include/geos/triangulate/quadedge/Vertex.h"
VC = "src/triangulate/quadedge/Vertex.cpp"
TI = "src/triangulate/polygon/TriDelaunayImprover.cpp"

SPEC = {
    "id": "tri_predicates",
    "namespace": "GeosModel.Generated.TriPredicates",
    "imports": ["GeosModel.Base.IM"],
    "prepare": prepare,
    "parser_class": Parser,
    "also_reads": ["include/geos/geom/Location.h"],
    "preamble": "\n".join([
        "/-- `static_cast<geom::Location>(i)` for `i` in 0..2 (INTERIOR = 0, BOUNDARY = 1, EXTERIOR = 2: checked against Location.h by the",
        "translator); any other value is not a named location and is mapped to `E` -/",
        "def locOfInt (i : Int) : Loc3 := if i == 0 then Loc3.I else if i == 1 then Loc3.B else Loc3.E",
        "/-- `quadedge::Vertex`: the coordinate `p` -/",
        "structure Vtx (R : Type) where",
        "  p : Cxx.XY R",
        "/-- `quadedge::QuadEdge` as the vertex helpers see it: `orig()` and `dest()` -/",
        "structure QE (R : Type) where",
        "  orig : Vtx R",
        "  dest : Vtx R"]),
    "types": {
        "CoordinateXY": {"lean": "Cxx.XY R", "fields": {"x": "double", "y": "double"}},
        "Coordinate": {"alias": "CoordinateXY"},        # derived from CoordinateXY; only x, y are read here
        "Vertex": {"lean": "Vtx R", "fields": {"p": "Coordinate"}},
        "QuadEdge": {"lean": "QE R", "fields": {}},
        "long double": {"alias": "double"},
        "Location": {"lean": "Loc3", "enum": LOC},
    },
    "methods": {
        "QuadEdge.orig": {"lean": "QE.orig", "args": [], "ret": "Vertex"},
        "QuadEdge.dest": {"lean": "QE.dest", "args": [], "ret": "Vertex"},
    },
    "calls": {
        "isInCircleRobust": {"lean": "isInCircleRobust", "kind": "generated", "args": XY4, "ret": "Location"},
        "isCCW": {"lean": "vertexIsCCW", "kind": "generated", "args": ["const Vertex&"] * 2, "ret": "bool"},
        "isInCircle": {"lean": "improverIsInCircle", "kind": "generated", "args": C4, "ret": "bool"},
    },
    "functions": [
        {"file": TP, "name": "TrianglePredicate::triArea", "params": ["const CoordinateXY&"] * 3, "ret": "double", "lean": "triArea"},
        {"file": TP, "name": "TrianglePredicate::isInCircleNonRobust", "params": XY4, "ret": "Location", "lean": "isInCircleNonRobust"},
        {"file": TP, "name": "TrianglePredicate::isInCircleNormalized", "params": XY4, "ret": "Location", "lean": "isInCircleNormalized"},
        {"file": TP, "name": "TrianglePredicate::isInCircleRobust", "params": XY4, "ret": "Location", "lean": "isInCircleRobust"},
        # quadedge::Vertex — `p` is the vertex's own coordinate
        {"file": VH, "name": "isCCW", "params": ["const Vertex&"] * 2, "ret": "bool", "lean": "vertexIsCCW", "fields": {"p": "Coordinate"}},
        {"file": VH, "name": "isInCircle", "params": ["const Vertex&"] * 3, "ret": "bool", "lean": "vertexIsInCircle", "fields": {"p": "Coordinate"}},
        {"file": VC, "name": "Vertex::rightOf", "params": ["const QuadEdge&"], "ret": "bool", "lean": "vertexRightOf", "fields": {"p": "Coordinate"}},
        {"file": VC, "name": "Vertex::leftOf", "params": ["const QuadEdge&"], "ret": "bool", "lean": "vertexLeftOf", "fields": {"p": "Coordinate"}},
        # TriDelaunayImprover — the flip test of the constrained triangulator
        {"file": TI, "name": "TriDelaunayImprover::isInCircle", "params": C4, "ret": "bool", "lean": "improverIsInCircle"},
        {"file": TI, "name": "TriDelaunayImprover::isDelaunay", "params": C4, "ret": "bool", "lean": "improverIsDelaunay"},
    ],
}
