"""C05 — algorithm::PolygonNodeTopology (all seven functions) and geom::Quadrant::quadrant(double, double).
Hand-written model: lean/GeosModel/Model/Valid/NodeTopo.lean (over Int); bridge theorems: lean/GeosModel/Props/C05Gen.lean.

`const CoordinateXY*` parameters are represented by the coordinate they point to (the functions only dereference and pass
them on; c05_ext.VParser refuses comparison of / arithmetic on them).  `Orientation::index` is the abstract parameter
`orientationIndex` (its exactness is C07's subject); the enumerators `Orientation::CLOCKWISE / COUNTERCLOCKWISE` and the
quadrant numbers `NE NW SW SE` are read from the headers.  `Quadrant::quadrant` throws for the zero vector: every function
is generated in the `Except` monad and the bridge theorems carry the hypotheses `p ≠ origin` under which nothing is thrown."""
import os, sys
sys.path.insert(0, os.path.dirname(os.path.abspath(__file__)))
import cxx2lean as C
import c05_ext

CPP = "src/algorithm/PolygonNodeTopology.cpp"
QH = "include/geos/geom/Quadrant.h"
P = "const CoordinateXY*"


def prepare(spec, repo):
    consts = {}
    o = C.enum_values(repo, "include/geos/algorithm/Orientation.h", "")
    for name in ("CLOCKWISE", "COLLINEAR", "COUNTERCLOCKWISE"):
        if name not in o:
            raise C.Refuse("Orientation::%s not found in the anonymous enum of Orientation.h" % name)
        consts["Orientation::" + name] = {"type": "int", "value": o[name]}
    for name in ("NE", "NW", "SW", "SE"):
        v = C.find_constant(repo, QH, r"static\s+const\s+int\s+%s\s*=\s*(-?\d+)\s*;" % name)
        consts[name] = {"type": "int", "value": int(v)}
        consts["Quadrant::" + name] = consts[name]
    spec["consts"] = consts


def fn(name, nparams, ret, lean, **kw):
    d = {"file": CPP, "name": "PolygonNodeTopology::" + name, "params": [P] * nparams, "ret": ret, "lean": lean, "monad": "except"}
    d.update(kw)
    return d


def gen(lean, nparams, ret):
    return {"lean": lean, "kind": "generated", "args": [P] * nparams, "ret": ret}


SPEC = {
    "id": "node_topology",
    "namespace": "GeosModel.Generated.NodeTopology",
    "imports": [],
    "prepare": prepare,
    "parser_class": c05_ext.VParser,
    "also_reads": ["include/geos/algorithm/Orientation.h"],
    "types": {
        "CoordinateXY": {"lean": "Cxx.XY R", "fields": {"x": "double", "y": "double"}},
        "CoordinateXY*": {"lean": "Cxx.XY R", "fields": {"x": "double", "y": "double"}, "pointee": "CoordinateXY"},
    },
    "calls": {
        "Orientation::index": {"lean": "orientationIndex", "kind": "param", "sig": "Cxx.XY R → Cxx.XY R → Cxx.XY R → Int",
                               "args": ["CoordinateXY"] * 3, "ret": "int"},
        "Quadrant::quadrant": {"lean": "quadrantD", "kind": "generated", "args": ["double", "double"], "ret": "int"},
        "quadrant": gen("quadrant", 2, "int"),
        "compareAngle": gen("compareAngle", 3, "int"),
        "isAngleGreater": gen("isAngleGreater", 3, "bool"),
        "isBetween": gen("isBetween", 4, "bool"),
        "compareBetween": gen("compareBetween", 4, "int"),
    },
    "functions": [
        {"file": QH, "class": "Quadrant", "name": "quadrant", "params": ["double", "double"], "ret": "int", "lean": "quadrantD", "monad": "except"},
        fn("quadrant", 2, "int", "quadrant"),
        fn("compareAngle", 3, "int", "compareAngle"),
        fn("isAngleGreater", 3, "bool", "isAngleGreater"),
        fn("isBetween", 4, "bool", "isBetween"),
        fn("compareBetween", 4, "int", "compareBetween"),
        fn("isCrossing", 5, "bool", "isCrossing"),
        fn("isInteriorSegment", 4, "bool", "isInteriorSegment"),
    ],
}
