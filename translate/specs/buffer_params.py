"""C06 — buffer parameters and the fillet quantisation:
  BufferParameters (defaults of the constructor, setters, getters; include/geos/operation/buffer/BufferParameters.h, .cpp),
  OffsetSegmentGenerator (constructor: fillet angle quantum, closing-segment factor; init; addDirectedFillet: number and angles of
  the fillet vertices; src/operation/buffer/OffsetSegmentGenerator.cpp),
  OffsetCurve (constructor: quadrant segments raised to 8; include/geos/operation/buffer/OffsetCurve.h),
  the C API parameter plumbing (GEOSBufferParams_set*_r, GEOSBufferWithStyle_r, GEOSOffsetCurve_r, GEOSSingleSidedBuffer_r;
  capi/geos_ts_c.cpp).
Hand-written models: Model/Buffer/Fillet.lean, Model/Buffer/Params.lean.  Bridge: Props/C06Gen.lean.
Extensions of the fragment (constructors, `execute` lambdas, out-parameters, int loops, traces): specs/xparser.py."""
import re
import cxx2lean as C
from specs import xparser

BP_H = "include/geos/operation/buffer/BufferParameters.h"
BP_CPP = "src/operation/buffer/BufferParameters.cpp"
OSG_H = "include/geos/operation/buffer/OffsetSegmentGenerator.h"
OSG_CPP = "src/operation/buffer/OffsetSegmentGenerator.cpp"
OC_H = "include/geos/operation/buffer/OffsetCurve.h"
CAPI = "capi/geos_ts_c.cpp"


def _int_const(repo, rel, name):
    return int(C.find_constant(repo, rel, r"static\s+(?:constexpr|const)\s+int\s+%s\s*=\s*(-?\d+)\s*;" % name))


def prepare(spec, repo):
    consts = {}
    # enumerators of EndCapStyle / JoinStyle as the ints the model stores
    for en, pref in (("EndCapStyle", "CAP_"), ("JoinStyle", "JOIN_")):
        for k, v in C.enum_values(repo, BP_H, en).items():
            for key in (k, "BufferParameters::" + k):
                consts[key] = {"type": "int", "value": v}
    want = {"CAP_ROUND": 1, "CAP_FLAT": 2, "CAP_SQUARE": 3, "JOIN_ROUND": 1, "JOIN_MITRE": 2, "JOIN_BEVEL": 3}
    for k, v in want.items():
        if consts.get(k, {}).get("value") != v:
            raise C.Refuse("BufferParameters::%s is %r; Model/Buffer/Params.lean (effCap / effJoin / Legal) assumes %d" % (k, consts.get(k, {}).get("value"), v))
    consts["DEFAULT_QUADRANT_SEGMENTS"] = {"type": "int", "value": _int_const(repo, BP_H, "DEFAULT_QUADRANT_SEGMENTS")}
    consts["DEFAULT_MITRE_LIMIT"] = {"type": "double", "value": C.find_constant(
        repo, BP_CPP, r"const\s+double\s+BufferParameters::DEFAULT_MITRE_LIMIT\s*=\s*([0-9.eE+-]+)\s*;")}
    consts["MAX_CLOSING_SEG_LEN_FACTOR"] = {"type": "int", "value": _int_const(repo, OSG_H, "MAX_CLOSING_SEG_LEN_FACTOR")}
    consts["MIN_QUADRANT_SEGMENTS"] = {"type": "int", "value": _int_const(repo, OC_H, "MIN_QUADRANT_SEGMENTS")}
    consts["CURVE_VERTEX_SNAP_DISTANCE_FACTOR"] = {"type": "double", "value": C.find_constant(
        repo, OSG_CPP, r"const\s+double\s+OffsetSegmentGenerator::CURVE_VERTEX_SNAP_DISTANCE_FACTOR\s*=\s*([0-9.eE+-]+)\s*;")}
    # orientation codes
    ori = "include/geos/algorithm/Orientation.h"
    for k in ("CLOCKWISE", "COUNTERCLOCKWISE"):
        v = int(C.find_constant(repo, ori, r"\b%s\s*=\s*(-?\d+)\s*," % k))
        consts["Orientation::" + k] = {"type": "int", "value": v}
    # Angle::PI_OVER_2 stays symbolic: the parameter `PI_OVER_2` of the functions that use it (the model counts angles in quarter turns)
    consts["Angle::PI_OVER_2"] = {"type": "double", "value": None, "lean": "PI_OVER_2", "class": "Ord"}
    spec["consts"] = consts
    xparser.prepare_sources(spec, repo, {
        BP_CPP: {"ctors": [{"class": "BufferParameters", "params": [], "name": "__ctor"}]},
        OSG_CPP: {"ctors": [{"class": "OffsetSegmentGenerator", "params": ["const PrecisionModel*", "const BufferParameters&", "double"], "name": "__ctor",
                             "track": ["maxCurveSegmentError", "closingSegLengthFactor", "distance"], "alias": {"bufParams": "nBufParams"}}]},
        OC_H: {"ctors": [{"class": "OffsetCurve", "params": ["const Geometry&", "double", "BufferParameters&"], "name": "__ctor_OffsetCurve",
                          "track": [], "inclass": True}]},
        CAPI: {"check_execute": True, "unwrap_execute": [(n, t) for n, t in CAPI_FUNCS]},
    })


H = "GEOSContextHandle_t"
CAPI_FUNCS = [
    ("GEOSBufferParams_setEndCapStyle_r", [H, "GEOSBufferParams*", "int"]),
    ("GEOSBufferParams_setJoinStyle_r", [H, "GEOSBufferParams*", "int"]),
    ("GEOSBufferParams_setMitreLimit_r", [H, "GEOSBufferParams*", "double"]),
    ("GEOSBufferParams_setQuadrantSegments_r", [H, "GEOSBufferParams*", "int"]),
    ("GEOSBufferParams_setSingleSided_r", [H, "GEOSBufferParams*", "int"]),
    ("GEOSBufferWithStyle_r", [H, "const Geometry*", "double", "int", "int", "int", "double"]),
    ("GEOSOffsetCurve_r", [H, "const Geometry*", "double", "int", "int", "double"]),
    ("GEOSSingleSidedBuffer_r", [H, "const Geometry*", "double", "int", "int", "double", "int"]),
]


def _P(lean, sig, args, ret):
    return {"lean": lean, "kind": "param", "sig": sig, "args": args, "ret": ret}


def _getter(member, field):
    return "(fun (c : Buffer.ConfigR R) => %s c.%s)" % (member, field)


def _setter(member, field, argtype):
    # the object update calls the REGENERATED setter on the member it assigns
    return {"args": [argtype], "update": "(fun (c : Buffer.ConfigR R) v => { c with %s := %s c.%s v })" % (field, member, field)}


# a BufferParameters object is `Buffer.ConfigR R` (Model/Buffer/ParamsGen.lean); default construction = the regenerated
# default constructor (whatever the members held before)
_OBJ = {"lean": "Buffer.ConfigR R", "fields": {}, "class": "Ring",
        "default": "(Buffer.ConfigR.ofTuple (bpDefault (0 : Int) (0 : Int) (0 : Int) (Cxx.Ring.ofInt 0 : R) false))",
        "setters": {"setQuadrantSegments": _setter("setQuadrantSegments", "quadSegs", "int"),
                    "setEndCapStyle": _setter("setEndCapStyle", "endCap", "EndCapStyle"),
                    "setJoinStyle": _setter("setJoinStyle", "join", "JoinStyle"),
                    "setMitreLimit": _setter("setMitreLimit", "mitre", "double"),
                    "setSingleSided": _setter("setSingleSided", "singleSided", "bool")}}


def _capi_setter(name, argtype):
    return {"file": CAPI, "name": name, "params": [H, "GEOSBufferParams*", argtype], "ret": "int", "lean": "capi" + name[len("GEOSBufferParams_"):-2][0].upper() + name[len("GEOSBufferParams_"):-2][1:],
            "monad": "except", "state": {"p": "GEOSBufferParams*"}, "inout": {"p": "GEOSBufferParams*"}}


SPEC = {
    "id": "buffer_params",
    "namespace": "GeosModel.Generated.BufferParams",
    "imports": ["GeosModel.Model.Buffer.ParamsGen"],
    "prepare": prepare,
    "parser_class": xparser.XParser,
    "also_reads": [BP_H, OSG_H, OC_H, "include/geos/algorithm/Orientation.h"],
    "param_order": ["toInt", "cos", "sinSnap", "cosSnap", "isfinite"],
    "type_params": ["PM", "G", "H"],
    "types": {
        "EndCapStyle": {"alias": "int"}, "JoinStyle": {"alias": "int"},
        "BufferParameters::EndCapStyle": {"alias": "int"}, "BufferParameters::JoinStyle": {"alias": "int"},
        "Coordinate": {"lean": "Cxx.XY R", "fields": {"x": "double", "y": "double"}, "split_local": True, "mk": "Cxx.XY.mk"},
        "OffsetSegmentString": {"lean": "List (Cxx.XY R)", "list": "Coordinate"},
        "BufferParameters": dict(_OBJ),
        "GEOSBufferParams*": dict(_OBJ),          # typedef of BufferParameters in the C API; `p->setX(..)` mutates the object
        "PrecisionModel*": {"lean": "PM", "opaque": True},
        "Geometry*": {"lean": "G", "opaque": True},
        "Geometry": {"lean": "G", "opaque": True},
        "GEOSContextHandle_t": {"lean": "H", "opaque": True},
    },
    "methods": {
        # the getters are themselves regenerated (below); a BufferParameters object is the model's `Buffer.Config`
        ".getQuadrantSegments": {"lean": _getter("getQuadrantSegments", "quadSegs"), "args": [], "ret": "int"},
        ".getJoinStyle": {"lean": _getter("getJoinStyle", "join"), "args": [], "ret": "int"},
        ".getEndCapStyle": {"lean": _getter("getEndCapStyle", "endCap"), "args": [], "ret": "int"},
        ".getMitreLimit": {"lean": _getter("getMitreLimit", "mitre"), "args": [], "ret": "double"},
    },
    "calls": {
        "(int)": _P("toInt", "R → Int", ["double"], "int"),
        "cos": _P("cos", "R → R", ["double"], "double"),
        "isfinite": _P("isfinite", "R → Bool", ["double"], "bool"),
        "init": {"lean": "osgInit", "kind": "generated", "args": ["double"], "ret": "void"},
    },
    "out_calls": {
        "Angle::sinCosSnap": {"args": ["double", "double", "double"],
                              "outs": {1: _P("sinSnap", "R → R", ["double"], "double"), 2: _P("cosSnap", "R → R", ["double"], "double")}},
    },
    "functions": [
        # ---- BufferParameters: defaults, setters, getters
        {"file": BP_CPP, "name": "BufferParameters::__ctor", "source_name": "BufferParameters::BufferParameters()", "params": [], "ret": "void",
         "lean": "bpDefault",
         "state": {"quadrantSegments": "int", "endCapStyle": "EndCapStyle", "joinStyle": "JoinStyle", "mitreLimit": "double", "_isSingleSided": "bool"}},
        {"file": BP_CPP, "name": "BufferParameters::setQuadrantSegments", "params": ["int"], "ret": "void", "lean": "setQuadrantSegments",
         "state": {"quadrantSegments": "int"}},
        {"file": BP_H, "name": "setEndCapStyle", "params": ["EndCapStyle"], "ret": "void", "lean": "setEndCapStyle", "state": {"endCapStyle": "EndCapStyle"}},
        {"file": BP_H, "name": "setJoinStyle", "params": ["JoinStyle"], "ret": "void", "lean": "setJoinStyle", "state": {"joinStyle": "JoinStyle"}},
        {"file": BP_H, "name": "setMitreLimit", "params": ["double"], "ret": "void", "lean": "setMitreLimit", "state": {"mitreLimit": "double"}},
        {"file": BP_H, "name": "setSingleSided", "params": ["bool"], "ret": "void", "lean": "setSingleSided", "state": {"_isSingleSided": "bool"}},
        {"file": BP_H, "name": "getQuadrantSegments", "params": [], "ret": "int", "lean": "getQuadrantSegments", "fields": {"quadrantSegments": "int"}},
        {"file": BP_H, "name": "getEndCapStyle", "params": [], "ret": "EndCapStyle", "lean": "getEndCapStyle", "fields": {"endCapStyle": "EndCapStyle"}},
        {"file": BP_H, "name": "getJoinStyle", "params": [], "ret": "JoinStyle", "lean": "getJoinStyle", "fields": {"joinStyle": "JoinStyle"}},
        {"file": BP_H, "name": "isSingleSided", "params": [], "ret": "bool", "lean": "isSingleSided", "fields": {"_isSingleSided": "bool"}},
        {"file": BP_H, "name": "getMitreLimit", "params": [], "ret": "double", "lean": "getMitreLimit", "fields": {"mitreLimit": "double"}},
        # ---- OffsetSegmentGenerator: constructor (fillet quantum, closing-segment factor), init, fillet
        {"file": OSG_CPP, "name": "OffsetSegmentGenerator::init", "params": ["double"], "ret": "void", "lean": "osgInit",
         "fields": {"filletAngleQuantum": "double"}, "state": {"distance": "double", "maxCurveSegmentError": "double"},
         "opaque_members": ["segList"], "uses": ["cos"]},
        {"file": OSG_CPP, "name": "OffsetSegmentGenerator::__ctor", "source_name": "OffsetSegmentGenerator::OffsetSegmentGenerator(pm, bufParams, dist)",
         "params": ["const PrecisionModel*", "const BufferParameters&", "double"], "ret": "void", "lean": "osgCtor",
         "fields": {"PI_OVER_2": "double"},
         "state": {"filletAngleQuantum": "double", "closingSegLengthFactor": "int", "distance": "double", "maxCurveSegmentError": "double"},
         "uses": ["cos"]},
        {"file": OSG_CPP, "name": "OffsetSegmentGenerator::addDirectedFillet", "params": ["const Coordinate&", "double", "double", "int", "double"],
         "ret": "void", "lean": "addDirectedFillet", "fields": {"filletAngleQuantum": "double"}, "state": {"segList": "OffsetSegmentString"},
         "trace": {"segList": {"method": "addPt", "elem": "Coordinate"}}, "uses": ["(int)"]},
        # ---- OffsetCurve(geom, dist, bp): the parameters the offset curve is computed with (member `bufferParams`)
        {"file": OC_H, "name": "__ctor_OffsetCurve", "source_name": "OffsetCurve::OffsetCurve(geom, dist, bp)",
         "params": ["const Geometry&", "double", "BufferParameters&"], "ret": "void", "lean": "offsetCurveCtor", "monad": "except",
         "state": {"bufferParams": "BufferParameters"}, "uses": ["isfinite"]},
        # ---- C API: parameter plumbing (the lambda passed to `execute`; a throw = the error return of the function)
        _capi_setter("GEOSBufferParams_setEndCapStyle_r", "int"),
        _capi_setter("GEOSBufferParams_setJoinStyle_r", "int"),
        _capi_setter("GEOSBufferParams_setMitreLimit_r", "double"),
        _capi_setter("GEOSBufferParams_setQuadrantSegments_r", "int"),
        _capi_setter("GEOSBufferParams_setSingleSided_r", "int"),
        {"file": CAPI, "name": "GEOSBufferWithStyle_r", "params": CAPI_FUNCS[5][1], "ret": "BufferParameters", "lean": "capiBufferWithStyle",
         "monad": "except", "sink": {"BufferOp": {"arg": 1}}},
        {"file": CAPI, "name": "GEOSOffsetCurve_r", "params": CAPI_FUNCS[6][1], "ret": "BufferParameters", "lean": "capiOffsetCurve",
         "monad": "except", "sink": {"OffsetCurve": {"arg": 2}}},
        {"file": CAPI, "name": "GEOSSingleSidedBuffer_r", "params": CAPI_FUNCS[7][1], "ret": "BufferParameters", "lean": "capiSingleSidedBuffer",
         "monad": "except", "sink": {"BufferBuilder": {"arg": 0}}},
    ],
}
SPEC["out_calls"]["algorithm::Angle::sinCosSnap"] = SPEC["out_calls"]["Angle::sinCosSnap"]
