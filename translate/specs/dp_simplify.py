"""C18 — Douglas–Peucker (Model/Simplify/DP.lean + Model/Simplify/Dist.lean are the hand-written models):
the distance `LineSegment::distance(p)` = Distance::pointToSegment (with CoordinateXY::distance / equals2D) and the body of
DouglasPeuckerLineSimplifier::simplifySection — the farthest-vertex scan, the test against the tolerance, the clearing of
`usePt` and the two recursive calls (the callee is the abstract parameter `rec`: the translator does not follow recursion)."""
import os, re, sys
import sys
_main = sys.modules.get("__main__")
if getattr(_main, "__file__", "").endswith("cxx2lean.py"):      # run as `python3 cxx2lean.py <spec>`: share the one module (Refuse!)
    sys.modules.setdefault("cxx2lean", _main)
import cxx2lean as C
sys.path.insert(0, os.path.dirname(os.path.abspath(__file__)))
import t6_ext

XY = "CoordinateXY"
ZERO = "⟨Cxx.Ring.ofInt 0, Cxx.Ring.ofInt 0⟩"

PREAMBLE = """/-- `geom::LineSegment` (the two end points; only x and y are read by the translated functions) -/
structure Seg (R : Type) where
  p0 : Cxx.XY R
  p1 : Cxx.XY R"""

SPEC = t6_ext.install({
    "id": "dp_simplify",
    "namespace": "GeosModel.Generated.DPSimplify",
    "imports": [],
    "preamble": PREAMBLE,
    "types": {
        XY: {"lean": "Cxx.XY R", "fields": {"x": "double", "y": "double"},
             "eq": {"lean": "equals2D", "kind": "generated", "fmt": "({fn} {0}.x {0}.y {1})"}},
        "LineSegment": {"lean": "Seg R", "fields": {"p0": XY, "p1": XY},
                        "ctor": {"lean": "Seg.mk", "args": [XY, XY], "ret": "LineSegment"}},
        # `pts[k]` (CoordinateSequence::operator[]): out-of-range reads do not occur for i < j < size (hypothesis of the bridge)
        "CoordinateSequence": {"lean": "List (Cxx.XY R)", "list": XY, "get": "{xs}.getD {i} " + ZERO},
        "std::vector<bool>": {"lean": "List Bool", "list": "bool"},
    },
    "calls": {
        "pointToSegment": {"lean": "pointToSegment", "kind": "generated", "args": [XY, XY, XY], "ret": "double"},
        "simplifySection": {"lean": "recur", "kind": "param", "sig": "Nat → Nat → List Bool → List Bool",
                            "args": ["std::size_t", "std::size_t"], "ret": "void", "updates": ["usePt"]},
    },
    "methods": {
        XY + ".distance": {"lean": "ptDistance", "kind": "generated", "args": [XY], "ret": "double", "fmt": "({fn} {0}.x {0}.y {1})"},
        "LineSegment.distance": {"lean": "lsDistance", "kind": "generated", "args": [XY], "ret": "double", "fmt": "({fn} {0}.p0 {0}.p1 {1})"},
    },
    "functions": [
        {"file": "include/geos/geom/Coordinate.h", "name": "equals2D", "params": ["const CoordinateXY&"], "ret": "bool", "lean": "equals2D",
         "fields": {"x": "double", "y": "double"}},
        {"file": "include/geos/geom/Coordinate.h", "name": "distance", "params": ["const CoordinateXY&"], "ret": "double", "lean": "ptDistance",
         "fields": {"x": "double", "y": "double"}},
        {"file": "src/algorithm/Distance.cpp", "name": "Distance::pointToSegment", "params": ["const geom::CoordinateXY&"] * 3, "ret": "double",
         "lean": "pointToSegment"},
        {"file": "include/geos/geom/LineSegment.h", "name": "distance", "params": ["const CoordinateXY&"], "ret": "double", "lean": "lsDistance",
         "fields": {"p0": XY, "p1": XY}},
        {"file": "src/simplify/DouglasPeuckerLineSimplifier.cpp", "name": "DouglasPeuckerLineSimplifier::simplifySection",
         "params": ["std::size_t", "std::size_t"], "ret": "void", "lean": "simplifySection",
         "fields": {"pts": "CoordinateSequence", "distanceTolerance": "double"}, "state": {"usePt": "std::vector<bool>"}},
    ],
})
