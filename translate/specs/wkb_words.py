"""C09 — the word-level decisions of WKBWriter / WKBReader (hand-written model: lean/GeosModel/Model/WKB/{Basic,Write,Read,Cxx}.lean).

Writer : getWkbType (type id -> WKB code), writeGeometryType (ISO +1000/+2000 vs extended 0x80000000/0x40000000/0x20000000),
         writeSRID (inclusion rule), getOutputOrdinates (drop M, then Z, until the output dimension is met).
         `writeInt(v)` is seen as appending `v` to the list `out` of 32-bit words written so far.
Reader : the decoding of the type word in readGeometry (a *region* of the function: from the declaration of `geometryType` up to
         the declaration of `SRID`; input `typeInt`, outputs `geometryType`, `hasSRID` and the members hasZ/hasM/inputDimension),
         the dispatch switch of readGeometry (region; each reader function is represented by the `Kind` it reads),
         minMemSize (`dis` is abstracted to the number of bytes left in the stream, `dis.size()`).
`io::OrdinateSet` is a configured value type: the pair (hasZ, hasM) with the obvious meaning of hasZ/hasM/setZ/setM/size (its own
bit twiddling in OrdinateSet.h is not translated).  All enumerator values are read from WKBConstants.h on every run."""
import cxx_ext            # first: makes `cxx2lean` the running translator module
import cxx2lean as C

KINDS = {"readPoint": "point", "readLineString": "lineString", "readCircularString": "circularString",
         "readCompoundCurve": "compoundCurve", "readPolygon": "polygon", "readCurvePolygon": "curvePolygon",
         "readMultiPoint": "multiPoint", "readMultiLineString": "multiLineString", "readMultiPolygon": "multiPolygon",
         "readGeometryCollection": "collection", "readMultiCurve": "multiCurve", "readMultiSurface": "multiSurface"}

TYPEIDS = {"GEOS_POINT": "point", "GEOS_LINESTRING": "lineString", "GEOS_LINEARRING": "linearRing", "GEOS_POLYGON": "polygon",
           "GEOS_MULTIPOINT": "multiPoint", "GEOS_MULTILINESTRING": "multiLineString", "GEOS_MULTIPOLYGON": "multiPolygon",
           "GEOS_GEOMETRYCOLLECTION": "collection", "GEOS_CIRCULARSTRING": "circularString", "GEOS_COMPOUNDCURVE": "compoundCurve",
           "GEOS_CURVEPOLYGON": "curvePolygon", "GEOS_MULTICURVE": "multiCurve", "GEOS_MULTISURFACE": "multiSurface"}


def prepare(spec, repo):
    h = "include/geos/io/WKBConstants.h"
    consts = {}
    for en in ("wkbType", "wkbFlavour", "byteOrder"):
        for k, v in C.enum_values(repo, h, en).items():
            consts["WKBConstants::" + k] = {"type": "int", "value": v}
            consts[k] = consts["WKBConstants::" + k]
    for k, v in C.enum_values(repo, "include/geos/io/ByteOrderValues.h", "EndianType").items():
        consts[k] = {"type": "int", "value": v}
        consts["ByteOrderValues::" + k] = consts[k]
    spec["consts"] = consts
    ids = C.enum_values(repo, "include/geos/geom/Geometry.h", "GeometryTypeId")
    if set(ids) != set(TYPEIDS):
        raise C.Refuse("GeometryTypeId has enumerators %s; the model's TypeId knows %s" % (sorted(ids), sorted(TYPEIDS)))
    # the region of readGeometry starts right after the type word is read
    src = C.read_source(repo, "src/io/WKBReader.cpp")
    import re
    if not re.search(r"uint32_t\s+typeInt\s*=\s*dis\s*\.\s*readUnsigned\s*\(\s*\)\s*;\s*uint32_t\s+geometryType\s*=", src):
        raise C.Refuse("WKBReader::readGeometry: `uint32_t typeInt = dis.readUnsigned();` is no longer immediately followed by the "
                       "declaration of geometryType (the decode region's input would be something else)")
    if not re.search(r"int\s+SRID\s*=\s*0\s*;\s*if\s*\(\s*hasSRID\s*\)\s*\{\s*SRID\s*=\s*dis\s*\.\s*readInt\s*\(\s*\)\s*;\s*\}\s*std::unique_ptr<Geometry>\s+result\s*;", src):
        raise C.Refuse("WKBReader::readGeometry: the SRID word is no longer read exactly when hasSRID (`int SRID = 0; if(hasSRID) "
                       "{ SRID = dis.readInt(); }` before the dispatch)")


SPEC = {
    "id": "wkb_words",
    "namespace": "GeosModel.Generated.WkbWords",
    "imports": ["GeosModel.Model.WKB.Cxx"],
    "prepare": prepare,
    "parser_class": cxx_ext.ExtParser,
    "also_reads": ["include/geos/io/WKBConstants.h", "include/geos/geom/Geometry.h", "include/geos/io/ByteOrderValues.h"],
    "ignore_statements": ["assert"],
    "bitops": {"int_or": "WKB.int32Or", "int_and": "WKB.int32And", "u32_as_int": "WKB.u32AsInt", "shl32": "WKB.shl32"},
    "types": {
        "GeometryTypeId": {"lean": "WKB.TypeId", "enum": {k: "WKB.TypeId." + v for k, v in TYPEIDS.items()}},
        "Geometry": {"lean": "WKB.TypeId", "opaque": True},         # a geometry is seen through getGeometryTypeId() only
        "OrdinateSet": {"lean": "WKB.OrdSet", "opaque": True},
        "IntWords": {"lean": "List Int", "list": "int"},
        "unsigned char*": {"lean": "List Nat", "list": "unsigned char", "get": "{xs}.getD {i} 0"},   # a byte buffer; reads are within the 4 bytes checked by the caller
        "UPtr_Geometry": {"lean": "Option WKB.Kind", "opaque": True, "nullable": True},
        "DecodeLocals": {"lean": "(Nat × Bool)", "opaque": True},
        "ByteOrderDataInStream": {"lean": "Nat", "opaque": True},   # the stream, seen through size() only
    },
    "methods": {
        ".getGeometryTypeId": {"lean": "id", "args": [], "ret": "GeometryTypeId"},
        ".hasZ": {"lean": "WKB.OrdSet.hasZ", "args": [], "ret": "bool"},
        ".hasM": {"lean": "WKB.OrdSet.hasM", "args": [], "ret": "bool"},
        "OrdinateSet.size": {"lean": "WKB.OrdSet.size", "args": [], "ret": "int"},
        "ByteOrderDataInStream.size": {"lean": "id", "args": [], "ret": "uint64_t"},
    },
    "mutators": {
        ".setZ": {"lean": "WKB.OrdSet.setZ", "args": ["bool"]},
        ".setM": {"lean": "WKB.OrdSet.setM", "args": ["bool"]},
    },
    "stmt_calls": {"writeInt": {"append_to": "out"}},
    "calls": dict((fn, {"lean": "some WKB.Kind." + k, "kind": "def", "args": [], "ret": "UPtr_Geometry"}) for fn, k in KINDS.items()),
    "functions": [
        {"file": "src/io/WKBWriter.cpp", "name": "WKBWriter::getWkbType", "params": ["const Geometry&"], "ret": "int",
         "lean": "getWkbType", "monad": "except"},
        {"file": "src/io/WKBWriter.cpp", "name": "WKBWriter::writeGeometryType", "params": ["int", "int"], "ret": "void",
         "lean": "writeGeometryType", "monad": "except",
         "fields": {"flavor": "int", "outputOrdinates": "OrdinateSet", "includeSRID": "bool"}, "state": {"out": "IntWords"}},
        {"file": "src/io/WKBWriter.cpp", "name": "WKBWriter::writeSRID", "params": ["int"], "ret": "void",
         "lean": "writeSRID", "fields": {"flavor": "int", "includeSRID": "bool"}, "state": {"out": "IntWords"}},
        # uint8_t defaultOutputDimension is promoted to int in the comparison with OrdinateSet::size()
        {"file": "src/io/WKBWriter.cpp", "name": "WKBWriter::getOutputOrdinates", "params": ["OrdinateSet"], "ret": "OrdinateSet",
         "lean": "getOutputOrdinates", "monad": "except", "fields": {"whileFuel": "std::size_t", "defaultOutputDimension": "int"}},
        {"file": "src/io/ByteOrderValues.cpp", "name": "ByteOrderValues::getUnsigned", "params": ["const unsigned char*", "int"],
         "ret": "uint32_t", "lean": "getUnsigned"},
        {"file": "src/io/WKBReader.cpp", "name": "WKBReader::readGeometry", "params": [], "ret": "DecodeLocals",
         "lean": "readGeometry_decode", "fields": {"typeInt": "uint32_t"},
         "state": {"hasZ": "bool", "hasM": "bool", "inputDimension": "unsigned int"},
         "region": {"from": "uint32_t geometryType =", "until": "int SRID = 0 ;", "outputs": ["geometryType", "hasSRID"]}},
        {"file": "src/io/WKBReader.cpp", "name": "WKBReader::readGeometry", "params": [], "ret": "UPtr_Geometry",
         "lean": "readGeometry_dispatch", "monad": "except", "fields": {"geometryType": "uint32_t"},
         "region": {"from": "std::unique_ptr<Geometry> result ;", "until": "result -> setSRID ( SRID ) ;", "outputs": ["result"]}},
        {"file": "src/io/WKBReader.cpp", "name": "WKBReader::minMemSize", "params": ["geom::GeometryTypeId", "uint64_t"], "ret": "void",
         "lean": "minMemSize", "monad": "except", "fields": {"dis": "ByteOrderDataInStream"}},
    ],
}
