"""C15 — the node-level decision code of TemplateSTRtree / TemplateSTRNode and the geom::Envelope predicates under it.

Hand-written models: lean/GeosModel/Base/Env.lean (Env.inter / union / isNull / covers / containsPt),
lean/GeosModel/Model/Index/STR.lean (Node.isLeaf, Entry.deleted, Tree.insert, sliceCount, sliceCapacity);
representations (Envelope = four doubles with NaN, node kind = `children` pointer): Model/Index/Rep.lean;
bridge: Props/C15Gen.lean.

The class templates are read at the instantiation the C API uses: BoundsTraits = EnvelopeTraits (BoundsType =
geom::Envelope), ItemType opaque.  `prepare` checks that these are still the defaults / aliases in the source."""
import os, re, sys
sys.path.insert(0, os.path.dirname(os.path.abspath(__file__)))
import cxx2lean as C
import t4ext

ENV_H = "include/geos/geom/Envelope.h"
ENV_C = "src/geom/Envelope.cpp"
TREE_H = "include/geos/index/strtree/TemplateSTRtree.h"
NODE_H = "include/geos/index/strtree/TemplateSTRNode.h"


def prepare(spec, repo):
    env = C.read_source(repo, ENV_H)
    body = t4ext.class_body(env, "Envelope", ENV_H)
    # the data members of Envelope, in order (CEnv of Model/Index/Rep.lean)
    mem = re.findall(r"(?m)^\s*double\s+(\w+)\s*;", body)
    if mem != ["minx", "maxx", "miny", "maxy"]:
        raise C.Refuse("geom::Envelope's double members are %s; the representation CEnv assumes minx, maxx, miny, maxy" % mem)
    # the null envelope is "all NaN": setToNull assigns NaN to the four members
    try:
        _, b = C.find_function(body, "setToNull", [], ENV_H)
    except C.Refuse:
        _, b = t4ext.find_function(body, "setToNull", [], ENV_H)
    if re.sub(r"\s+", "", b) != "minx=maxx=miny=maxy=DoubleNotANumber;":
        raise C.Refuse("Envelope::setToNull is no longer `minx = maxx = miny = maxy = DoubleNotANumber` (Rep.rep maps the null envelope to all-NaN): %s" % b.strip())
    tree = C.read_source(repo, TREE_H)
    et = t4ext.class_body(tree, "EnvelopeTraits", TREE_H)
    if not re.search(r"using\s+BoundsType\s*=\s*(?:geos::)?(?:geom::)?Envelope\s*;", et):
        raise C.Refuse("EnvelopeTraits::BoundsType is no longer geom::Envelope")
    if not re.search(r"template\s*<\s*typename\s+ItemType\s*,\s*typename\s+BoundsTraits\s*=\s*EnvelopeTraits\s*>\s*class\s+TemplateSTRtree\b", tree):
        raise C.Refuse("TemplateSTRtree's default BoundsTraits is no longer EnvelopeTraits")
    impl = t4ext.class_body(tree, "TemplateSTRtreeImpl", TREE_H)
    if not re.search(r"using\s+BoundsType\s*=\s*typename\s+BoundsTraits::BoundsType\s*;", impl):
        raise C.Refuse("TemplateSTRtreeImpl::BoundsType is no longer BoundsTraits::BoundsType")
    node = t4ext.class_body(C.read_source(repo, NODE_H), "TemplateSTRNode", NODE_H)
    if not re.search(r"using\s+BoundsType\s*=\s*typename\s+BoundsTraits::BoundsType\s*;", node):
        raise C.Refuse("TemplateSTRNode::BoundsType is no longer BoundsTraits::BoundsType")
    if not re.search(r"\bBoundsType\s+bounds\s*;", node) or not re.search(r"\bconst\s+TemplateSTRNode\s*\*\s*children\s*;", node):
        raise C.Refuse("TemplateSTRNode no longer has the members `BoundsType bounds` and `const TemplateSTRNode* children`")
    # createLeafNode appends one leaf (item, env) to `nodes` — the interpretation given to the abstract procedure in the bridge
    for pt in (["ItemType&&", "const BoundsType&"], ["const ItemType&", "const BoundsType&"]):
        _, b = C.find_function(impl, "createLeafNode", pt, TREE_H)
        if re.sub(r"\s+", "", b) not in ("nodes.emplace_back(std::forward<ItemType>(item),env);", "nodes.emplace_back(item,env);"):
            raise C.Refuse("createLeafNode is no longer a single nodes.emplace_back(item, env): %s" % b.strip())


ENVF = {"minx": "double", "maxx": "double", "miny": "double", "maxy": "double"}
ENVT = {"lean": "STR.Rep.CEnv R", "fields": dict(ENVF), "addr": "Envelope*"}
PTR = {"lean": "STR.Rep.Ptr", "opaque": True, "eq": True, "null": "none"}
E = "Envelope"


def envfn(name, params, ret, lean, file=ENV_H, **kw):
    d = {"file": file, "name": name, "params": params, "ret": ret, "lean": lean}
    d.update(kw)
    return d


SPEC = {
    "id": "strtree",
    "namespace": "GeosModel.Generated.STRtree",
    "imports": ["GeosModel.Model.Index.Rep"],
    "prepare": prepare,
    "parser_class": t4ext.XParser,
    "isnan_param": {"lean": "isnan", "kind": "param", "sig": "R → Bool", "args": ["double"], "ret": "bool"},
    "types": {
        "Envelope": ENVT,
        "Envelope*": {"lean": "STR.Rep.CEnv R", "fields": dict(ENVF)},
        "BoundsType": {"alias": "Envelope"},
        "CoordinateXY": {"lean": "STR.Rep.CXY R", "fields": {"x": "double", "y": "double"}},
        "TemplateSTRNode*": PTR,
        "ItemType": {"lean": "I", "opaque": True},
        "ItemType&&": {"alias": "ItemType"},
        "NodeList": {"lean": "NL", "opaque": True},
    },
    "type_params": ["I", "NL"],
    "calls": {
        "isNull": {"lean": "isNull", "kind": "generated", "args": [], "ret": "bool"},
        "intersects": [
            {"lean": "intersectsPtr", "kind": "generated", "args": ["Envelope*"], "ret": "bool"},
            {"lean": "intersectsRef", "kind": "generated", "args": ["Envelope"], "ret": "bool"},
            {"lean": "intersectsXY", "kind": "generated", "args": ["double", "double"], "ret": "bool"},
        ],
        "covers": [
            {"lean": "coversXY", "kind": "generated", "args": ["double", "double"], "ret": "bool"},
            {"lean": "coversRef", "kind": "generated", "args": ["Envelope"], "ret": "bool"},
        ],
        "expandToInclude": [
            {"lean": "expandToIncludePtr", "kind": "generated", "args": ["Envelope*"], "ret": "void"},
        ],
        "BoundsTraits::intersects": {"lean": "traitsIntersects", "kind": "generated", "args": ["BoundsType", "BoundsType"], "ret": "bool"},
        "BoundsTraits::isNull": {"lean": "traitsIsNull", "kind": "generated", "args": ["BoundsType"], "ret": "bool"},
        "getBounds": {"lean": "getBounds", "kind": "generated", "args": [], "ret": "BoundsType"},
        "isLeaf": {"lean": "isLeaf", "kind": "generated", "args": [], "ret": "bool"},
        "isDeleted": {"lean": "isDeleted", "kind": "generated", "args": [], "ret": "bool"},
        "sliceCapacity": {"lean": "sliceCapacity", "kind": "generated", "args": ["size_t", "size_t"], "ret": "size_t"},
        # nodes.emplace_back(item, env): an abstract procedure on the member `nodes`
        "createLeafNode": {"lean": "createLeafNode", "kind": "param", "sig": "NL → I → STR.Rep.CEnv R → NL", "stmt_state": ["nodes"],
                           "args": ["ItemType", "BoundsType"], "ret": "void"},
    },
    "methods": {
        "Envelope.intersects": [{"lean": "intersectsRef", "generated": True, "args": ["Envelope"], "ret": "bool"}],
        "Envelope.isNull": {"lean": "isNull", "generated": True, "args": [], "ret": "bool"},
    },
    "functions": [
        # ---- geom::Envelope
        envfn("Envelope::isNull", [], "bool", "isNull", fields={"maxx": "double"}),
        envfn("Envelope::intersects", ["const Envelope*"], "bool", "intersectsPtr", fields=dict(ENVF)),
        envfn("Envelope::intersects", ["const Envelope&"], "bool", "intersectsRef", fields=dict(ENVF)),
        envfn("Envelope::intersects", ["double", "double"], "bool", "intersectsXY", fields=dict(ENVF)),
        envfn("Envelope::intersects", ["const CoordinateXY&"], "bool", "intersectsPt", fields=dict(ENVF)),
        envfn("Envelope::disjoint", ["const Envelope&"], "bool", "disjointRef", fields=dict(ENVF)),
        envfn("Envelope::covers", ["double", "double"], "bool", "coversXY", fields=dict(ENVF)),
        envfn("Envelope::covers", ["const Envelope&"], "bool", "coversRef", file=ENV_C, fields=dict(ENVF)),
        envfn("Envelope::contains", ["const Envelope&"], "bool", "containsRef", fields=dict(ENVF)),
        envfn("Envelope::contains", ["double", "double"], "bool", "containsXY", fields=dict(ENVF)),
        envfn("Envelope::expandToInclude", ["const Envelope*"], "void", "expandToIncludePtr", state=dict(ENVF)),
        envfn("Envelope::expandToInclude", ["const Envelope&"], "void", "expandToIncludeRef", state=dict(ENVF)),
        # ---- EnvelopeTraits (what TemplateSTRtree<…, EnvelopeTraits> calls)
        envfn("EnvelopeTraits::intersects", ["const BoundsType&", "const BoundsType&"], "bool", "traitsIntersects", file=TREE_H),
        envfn("EnvelopeTraits::isNull", ["const BoundsType&"], "bool", "traitsIsNull", file=TREE_H),
        # ---- TemplateSTRNode: the kind of a node is encoded in `children`
        envfn("TemplateSTRNode::isDeleted", [], "bool", "isDeleted", file=NODE_H,
              fields={"children": "TemplateSTRNode*", "this": "TemplateSTRNode*"}),
        envfn("TemplateSTRNode::isLeaf", [], "bool", "isLeaf", file=NODE_H,
              fields={"children": "TemplateSTRNode*", "this": "TemplateSTRNode*"}),
        envfn("TemplateSTRNode::isComposite", [], "bool", "isComposite", file=NODE_H,
              fields={"children": "TemplateSTRNode*", "this": "TemplateSTRNode*"}),
        envfn("TemplateSTRNode::removeItem", [], "void", "removeItem", file=NODE_H,
              fields={"this": "TemplateSTRNode*"}, state={"children": "TemplateSTRNode*"}),
        envfn("TemplateSTRNode::getBounds", [], "BoundsType", "getBounds", file=NODE_H, fields={"bounds": "BoundsType"}),
        envfn("TemplateSTRNode::boundsIntersect", ["const BoundsType&"], "bool", "boundsIntersect", file=NODE_H, fields={"bounds": "BoundsType"}),
        # ---- TemplateSTRtreeImpl: null envelopes are not inserted; slice arithmetic
        envfn("TemplateSTRtreeImpl::insert", ["const BoundsType&", "ItemType&&"], "void", "insertMove", file=TREE_H, state={"nodes": "NodeList"}),
        envfn("TemplateSTRtreeImpl::insert", ["const BoundsType&", "const ItemType&"], "void", "insertCopy", file=TREE_H, state={"nodes": "NodeList"}),
        envfn("TemplateSTRtreeImpl::sliceCount", ["size_t"], "size_t", "sliceCount", file=TREE_H, fields={"nodeCapacity": "size_t"},
              dbl_to_nat_ok=True),
        envfn("TemplateSTRtreeImpl::sliceCapacity", ["size_t", "size_t"], "size_t", "sliceCapacity", file=TREE_H, dbl_to_nat_ok=True),
    ],
}
