"""C05 — operation::valid::IsValidOp: the ORDER in which the rules are looked at and the early exits (`isValidGeometry` and the
`isValid` overloads for Point / LineString / LinearRing / Polygon / MultiPolygon / GeometryCollection, `hasInvalidError`).
Hand-written model: lean/GeosModel/Model/Valid/RuleOrder.lean (the sequencing the reference evaluator Model/Valid/Ref.lean follows);
bridge: lean/GeosModel/Props/C05GenOrder.lean.

What is abstract (parameters of the generated definitions):
  * every geometry pointer type (`Geometry* Point* LineString* LinearRing* Polygon* MultiPolygon* GeometryCollection*`) is one
    opaque carrier `G` (`static_cast` along the hierarchy is the identity) with `isEmpty`, `getGeometryTypeId`, `getNumGeometries`,
    `getGeometryN`, `getCoordinatesRO` as functions of it; the type ids are read from Geometry.h;
  * the member `validErr` (a `unique_ptr<TopologyValidationError>`) is `Option E`; `hasInvalidError()` is translated from the header;
  * each individual check (`checkCoordinatesValid`, `checkRingClosed`, `checkRingPointSize`, `checkRingSimple`, `checkTooFewPoints`,
    `checkRingsClosed`, `checkRingsPointSize`, `checkAreaIntersections`, `checkHolesInShell`, `checkHolesNotNested`,
    `checkShellsNotNested`, `checkInteriorConnected`) is an abstract procedure on `validErr` (what each decides is the subject of the
    other C05 ties and of the stream valid-grid); the constructor of `PolygonTopologyAnalyzer` is an abstract function;
  * the recursive call `isValidGeometry(gc->getGeometryN(i))` inside `isValid(const GeometryCollection*)` is the abstract procedure
    `isValidGeometryRec` (the two functions are mutually recursive)."""
import os, sys, re
sys.path.insert(0, os.path.dirname(os.path.abspath(__file__)))
import cxx2lean as C
import c05_ext

CPP = "src/operation/valid/IsValidOp.cpp"
H = "include/geos/operation/valid/IsValidOp.h"
GH = "include/geos/geom/Geometry.h"
GEOM_TYPES = ["Point*", "LineString*", "LinearRing*", "Polygon*", "MultiPoint*", "MultiPolygon*", "GeometryCollection*"]


def prepare(spec, repo):
    ids = C.enum_values(repo, GH, "GeometryTypeId")
    consts = {}
    for name in ("GEOS_POINT", "GEOS_LINESTRING", "GEOS_LINEARRING", "GEOS_POLYGON", "GEOS_MULTIPOINT", "GEOS_MULTILINESTRING", "GEOS_MULTIPOLYGON",
                 "GEOS_GEOMETRYCOLLECTION", "GEOS_CIRCULARSTRING", "GEOS_COMPOUNDCURVE", "GEOS_CURVEPOLYGON", "GEOS_MULTICURVE", "GEOS_MULTISURFACE"):
        if name not in ids:
            raise C.Refuse("GeometryTypeId::%s not found in Geometry.h" % name)
        consts[name] = {"type": "int", "value": ids[name]}
    if sorted(ids.values()) != list(range(len(ids))) or len(ids) != 13:
        raise C.Refuse("GeometryTypeId no longer has exactly the 13 consecutive values the bridge enumerates: %s" % ids)
    h = C.read_source(repo, H)
    for name, val in (("MIN_SIZE_LINESTRING", 2), ("MIN_SIZE_RING", 4)):
        v = C.find_constant(repo, H, r"static\s+constexpr\s+int\s+%s\s*=\s*(\d+)\s*;" % name)
        consts[name] = {"type": "int", "value": int(v)}
    spec["consts"] = consts
    if not re.search(r"std::unique_ptr\s*<\s*TopologyValidationError\s*>\s*validErr\s*;", h):
        raise C.Refuse("IsValidOp::validErr is no longer a unique_ptr<TopologyValidationError>")
    # the GeometryCollection overload also serves MultiLineString: the hierarchy the casts rely on
    for cls, base, rel in (("MultiPolygon", "GeometryCollection", "include/geos/geom/MultiPolygon.h"), ("MultiLineString", "GeometryCollection", "include/geos/geom/MultiLineString.h"),
                           ("LinearRing", "LineString", "include/geos/geom/LinearRing.h")):
        src = C.read_source(repo, rel)
        if not re.search(r"class\s+(?:GEOS_DLL\s+)?%s\s*:\s*public\s+%s\b" % (cls, base), src):
            raise C.Refuse("%s no longer derives from %s" % (cls, base))


def proc(lean, args):
    return {"lean": lean, "kind": "param", "sig": "Option E → %s → Option E" % " → ".join({"bool": "Bool", "std::size_t": "Nat", "PolygonTopologyAnalyzer": "A"}.get(a, "G") for a in args),
            "args": args, "ret": "void", "updates": ["validErr"]}


def gen(lean, arg):
    return {"lean": lean, "kind": "generated", "args": [arg], "ret": "bool"}


def fn(params, lean, **kw):
    d = {"file": CPP, "name": "IsValidOp::isValid", "params": params, "ret": "bool", "lean": lean, "state": {"validErr": "ErrPtr"}}
    d.update(kw)
    return d


TYPES = {
    "Geometry*": {"lean": "G", "opaque": True, "truth": "operator bool(Geometry*)"},
    "CoordinateSequence*": {"lean": "G", "opaque": True},
    "PolygonTopologyAnalyzer": {"lean": "A", "opaque": True, "ctor": "PolygonTopologyAnalyzer"},
    "ErrPtr": {"lean": "Option E", "opaque": True, "nullable": True},
}
for t in GEOM_TYPES:
    TYPES[t] = {"lean": "G", "opaque": True, "upcast": ["Geometry*"]}
TYPES["LinearRing*"]["upcast"] = ["Geometry*", "LineString*"]
TYPES["MultiPolygon*"]["upcast"] = ["Geometry*", "GeometryCollection*"]

ORDER = ["nonNull", "isEmpty", "geometryTypeId", "numGeometries", "geometryN", "coordinatesRO", "mkAnalyzer",
         "checkCoordinatesValidSeq", "checkCoordinatesValidPoly", "checkTooFewPoints", "checkRingClosed", "checkRingPointSize", "checkRingSimple",
         "checkRingsClosed", "checkRingsPointSize", "checkAreaIntersections", "checkHolesInShell", "checkHolesNotNested", "checkShellsNotNested",
         "checkInteriorConnected", "isValidGeometryRec", "isValidMultiPoint"]

SPEC = {
    "id": "valid_rule_order",
    "namespace": "GeosModel.Generated.ValidRuleOrder",
    "imports": [],
    "prepare": prepare,
    "parser_class": c05_ext.VParser,
    "also_reads": [H, GH],
    "type_params": ["G", "A", "E"],
    "param_order": ORDER,
    "types": TYPES,
    "calls": {
        "operator bool(Geometry*)": {"lean": "nonNull", "kind": "param", "sig": "G → Bool", "args": ["Geometry*"], "ret": "bool"},
        "PolygonTopologyAnalyzer": {"lean": "mkAnalyzer", "kind": "param", "sig": "G → Bool → A", "args": ["Geometry*", "bool"], "ret": "PolygonTopologyAnalyzer"},
        "hasInvalidError": {"lean": "hasInvalidError", "kind": "generated", "args": [], "ret": "bool"},
        "checkCoordinatesValid": [proc("checkCoordinatesValidSeq", ["CoordinateSequence*"]), proc("checkCoordinatesValidPoly", ["Polygon*"])],
        "checkTooFewPoints": proc("checkTooFewPoints", ["LineString*", "std::size_t"]),
        "checkRingClosed": proc("checkRingClosed", ["LinearRing*"]),
        "checkRingPointSize": proc("checkRingPointSize", ["LinearRing*"]),
        "checkRingSimple": proc("checkRingSimple", ["LinearRing*"]),
        "checkRingsClosed": proc("checkRingsClosed", ["Polygon*"]),
        "checkRingsPointSize": proc("checkRingsPointSize", ["Polygon*"]),
        "checkAreaIntersections": proc("checkAreaIntersections", ["PolygonTopologyAnalyzer"]),
        "checkHolesInShell": proc("checkHolesInShell", ["Polygon*"]),
        "checkHolesNotNested": proc("checkHolesNotNested", ["Polygon*"]),
        "checkShellsNotNested": proc("checkShellsNotNested", ["MultiPolygon*"]),
        "checkInteriorConnected": proc("checkInteriorConnected", ["PolygonTopologyAnalyzer"]),
        "isValidGeometry": {"lean": "isValidGeometryRec", "kind": "param", "sig": "Option E → G → Bool × Option E", "args": ["Geometry*"], "ret": "bool",
                            "updates": ["validErr"]},
        "isValid": [gen("isValidPoint", "Point*"), gen("isValidLineString", "LineString*"), gen("isValidLinearRing", "LinearRing*"),
                    gen("isValidPolygon", "Polygon*"), gen("isValidMultiPolygon", "MultiPolygon*"), gen("isValidCollection", "GeometryCollection*"),
                    # isValid(const MultiPoint*) tests the coordinates itself (std::isfinite on each point): outside this spec, abstract
                    {"lean": "isValidMultiPoint", "kind": "param", "sig": "Option E → G → Bool × Option E", "args": ["MultiPoint*"], "ret": "bool",
                     "updates": ["validErr"]}],
    },
    "methods": {
        ".isEmpty": {"lean": "isEmpty", "kind": "param", "sig": "G → Bool", "args": [], "ret": "bool"},
        ".getGeometryTypeId": {"lean": "geometryTypeId", "kind": "param", "sig": "G → Int", "args": [], "ret": "int"},
        ".getNumGeometries": {"lean": "numGeometries", "kind": "param", "sig": "G → Nat", "args": [], "ret": "std::size_t"},
        "MultiPolygon*.getGeometryN": {"lean": "geometryN", "kind": "param", "sig": "G → Nat → G", "args": ["std::size_t"], "ret": "Polygon*"},
        "GeometryCollection*.getGeometryN": {"lean": "geometryN", "kind": "param", "sig": "G → Nat → G", "args": ["std::size_t"], "ret": "Geometry*"},
        ".getCoordinatesRO": {"lean": "coordinatesRO", "kind": "param", "sig": "G → G", "args": [], "ret": "CoordinateSequence*"},
        ".getGeometryType": {"lean": "geometryTypeName", "kind": "param", "sig": "G → String", "args": [], "ret": "bool"},
    },
    "functions": [
        {"file": H, "class": "IsValidOp", "name": "hasInvalidError", "params": [], "ret": "bool", "lean": "hasInvalidError", "fields": {"validErr": "ErrPtr"}},
        fn(["const Point*"], "isValidPoint"),
        fn(["const LineString*"], "isValidLineString"),
        fn(["const LinearRing*"], "isValidLinearRing"),
        fn(["const Polygon*"], "isValidPolygon", fields={"isInvertedRingValid": "bool"}),
        fn(["const MultiPolygon*"], "isValidMultiPolygon", fields={"isInvertedRingValid": "bool"}),
        fn(["const GeometryCollection*"], "isValidCollection"),
        {"file": CPP, "name": "IsValidOp::isValidGeometry", "params": ["const Geometry*"], "ret": "bool", "lean": "isValidGeometry", "monad": "except",
         "fields": {"isInvertedRingValid": "bool"}, "state": {"validErr": "ErrPtr"}},
    ],
}
