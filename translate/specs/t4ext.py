"""t4ext — extensions of cxx2lean.Parser shared by the specs `interrupt` (C14), `envelope` and `strnode` (C15).

NOT a spec (no SPEC); the specs import it (`SPEC["parser_class"] = XParser`).  Everything here is a *closed* extension of the
fragment of translate/cxx2lean.py: what is not recognised is still refused.  Additions:

  statement calls        `f(args);` of another function of the same spec that assigns members (`state`) and/or throws:
                         `let r := (f …state… args)`, the caller's copies of the members are updated from the result, and
                         a thrown exception is propagated (`if r.1 then return (true, …)`)
  expression calls       of such functions (`return f(cb);`): the same, hoisted in front of the statement
  throwing functions     spec key `throws: [names]` on a void function (declare `ret: "bool"`): the Lean result is
                         `(thrown, members…)`; `throw X();` is `return (true, …)` (X must be a listed name), normal
                         completion is `return (false, …)`
  std::atomic members    spec key `atomics: [names]`: `m.load()` is `m`, `m.store(v);` is `m := v`, `m.exchange(v)` is
                         `old := m; m := v; old`, `m = v` and the implicit load in `if (m)` are plain (sequentially
                         consistent, single thread); spec key `state_object: {name, methods}`: the prefix `name.` is dropped
  `a && (effects; b)`    a right operand of `&&` / `||` that contains such a call: `let mut t := false; if a then effects; t := b`
                         (C++ evaluates it only when `a` holds); still refused under `?:` and in loop headers
  opaque pointers        declarations `T* p = e;`, `if (p)` (type key `truth`), `p == q` / `p != q` (type key `eq`),
                         `nullptr` (type key `null`, only where the other operand fixes the type), `this` as a value
                         (a declared field named `this`), the call `(*p)();` of a function pointer (type key `invoke`:
                         an abstract parameter that maps the members it may assign to their new values)
  quiet comparisons      std::isless / isgreater / islessequal / isgreaterequal = `<  >  <=  >=` (same value, no FP trap)
  std::isnan as a        spec key `isnan_param: True`: `std::isnan(x)` becomes the abstract parameter `isnan : R → Bool`
  parameter              (so that code which only compares and tests for NaN needs `Cxx.Ord`, not `Cxx.Math`)
  double -> size_t       `static_cast<size_t>(e)`: `Int.toNat (Cxx.Math.toInt e)` (only with the spec flag `dbl_to_nat_ok`,
                         i.e. where e is known non-negative)
  member calls           `a.m(args)` / `p->m(args)` where `m` is another function of the spec that reads members of its
                         object (method key `generated`): the configured struct fields of `a` are passed for them
  overloads              a `calls` / `methods` entry may be a list; the overload is chosen by arity AND argument types
  `&x`                   of a configured struct whose type has `addr: "T*"` (the pointer type is the same Lean type)
  `return f(args);`      in a void function, f a void function of the spec with state: `f(args); return;`
  abstract procedures    `g(args);` where calls[g] has `kind: "param"` and `stmt_state: [members]`: `m := (g m args)`
  std::move / forward    `std::move(e)`, `std::forward<T>(e)` are `e`

and, for `find_function` (module level in cxx2lean.py, hence wrapped here — the only monkey patch):
  `f(void)` is `f()`;  a function name `X::f` that has no out-of-class definition is looked up as the in-class inline
  definition of `f` inside the body of `class/struct X { … }` (needed to tell EnvelopeTraits::intersects from
  IntervalTraits::intersects, which have identical signatures in one file).
"""
import re, sys
import cxx2lean as C
from cxx2lean import T, BOOL, INT, NAT, DBL, VOID


_orig_find_function = getattr(C, "_t4_orig_find_function", None) or C.find_function


def class_body(src, cname, rel):
    m = re.search(r"\b(?:struct|class)\s+(?:[A-Z][A-Z0-9_]*\s+)?%s\b\s*(?:final\s*)?(?::[^;{]*)?\{" % re.escape(cname), src)
    if not m:
        raise C.Refuse("class/struct %s not found in %s" % (cname, rel))
    j, depth = m.end(), 1
    while j < len(src) and depth:
        depth += {"{": 1, "}": -1}.get(src[j], 0)
        j += 1
    if depth:
        raise C.Refuse("unbalanced braces in class %s of %s" % (cname, rel))
    return src[m.end():j - 1]


def find_function(src, qualname, want_types, rel, cls=None):
    if cls:
        # in-class lookup requested by a spec of another property: the unwrapped function handles it
        return _orig_find_function(src, qualname, want_types, rel, cls)

    def attempt(text, name):
        try:
            return _orig_find_function(text, name, want_types, rel)
        except C.Refuse:
            if want_types:
                raise
            # `f(void)` is `f()`
            pat = r"(?<![\w:])%s\s*\(\s*void\s*\)" % re.escape(name).replace(r"\:\:", r"\s*::\s*")
            text2 = re.sub(pat, lambda m_: m_.group(0)[:m_.group(0).index("(")] + "()", text)
            if text2 == text:
                raise
            return _orig_find_function(text2, name, want_types, rel)
    try:
        return attempt(src, qualname)
    except C.Refuse as first:
        if "::" not in qualname:
            raise
        cname, fname = qualname.rsplit("::", 1)
        try:
            body = class_body(src, cname.split("::")[-1], rel)
        except C.Refuse:
            raise first
        return attempt(body, fname)


C._t4_orig_find_function = _orig_find_function
C.find_function = find_function
# `python3 translate/cxx2lean.py <spec>` runs a second copy of the module as __main__ (the specs import `cxx2lean`): patch it too
_main = sys.modules.get("__main__")
if _main is not None and _main is not C and hasattr(_main, "translate_function") and hasattr(_main, "find_function"):
    _main.find_function = find_function


def proj(r, i, n):
    """i-th component of the n-tuple r (Lean tuples are right-nested pairs)"""
    if n == 1:
        return r
    return r + ".2" * i + (".1" if i < n - 1 else "")


class XParser(C.Parser):
    def __init__(self, *a):
        C.Parser.__init__(self, *a)
        self.pending = []              # statements hoisted in front of the statement being parsed
        self.no_hoist = None           # the pending list into which hoisting is refused (loop header)
        # `state.pending` -> `pending` when the file-level variables are grouped in one object (spec key `state_object`)
        obj = self.spec.get("state_object")
        if obj:
            mem = set(self.spec.get("state_members", ()))
            out, i = [], 0
            while i < len(self.t):
                if self.t[i] == ("id", obj["name"]) and i + 2 < len(self.t) and self.t[i + 1] == ("op", ".") and \
                        self.t[i + 2][0] == "id" and self.t[i + 2][1] in mem | set(obj.get("methods", ())):
                    i += 2
                    continue
                out.append(self.t[i]); i += 1
            self.t = out

    # ------------------------------------------------------------------ hoisting
    def hoist(self, lines):
        if self.pending is self.no_hoist:
            raise self.R("a call with side effects in a loop header is outside the fragment")
        self.pending += lines

    def stmt(self):
        outer = self.pending
        self.pending = []
        try:
            sp = self.special_stmt()
            lines, term = sp if sp is not None else C.Parser.stmt(self)
            pre = self.pending
        finally:
            self.pending = outer
        return pre + lines, term

    def for_stmt(self):
        old = self.no_hoist
        self.no_hoist = self.pending
        try:
            return C.Parser.for_stmt(self)
        finally:
            self.no_hoist = old

    def _guarded(self, parse):
        """parse an operand that C++ evaluates conditionally: nothing may be hoisted out of it"""
        n = len(self.pending)
        e = parse()
        if len(self.pending) != n:
            raise self.R("a call with side effects under `&&`, `||` or `?:` is outside the fragment")
        return e

    def _rhs(self, parse):
        """right operand of a short-circuit operator: (expr, statements it hoisted)"""
        outer = self.pending
        self.pending = []
        try:
            r = parse()
            inner = self.pending
        finally:
            self.pending = outer
        return r, inner

    def or_(self):
        e = self.and_()
        while self.at("||"):
            self.eat()
            r, inner = self._rhs(self.and_)
            if inner:               # a || (effects; b)  =  if a then true else (effects; b)
                t = self.fresh("sc")
                self.hoist([(0, "let mut %s : Bool := true" % t), (0, "if (!%s) then" % self.truth(*e))] +
                           C.indent(inner + [(0, "%s := %s" % (t, self.truth(*r)))]))
                e = (t, BOOL)
            else:
                e = ("(%s || %s)" % (self.truth(*e), self.truth(*r)), BOOL)
        return e

    def and_(self):
        e = self.eq()
        while self.at("&&"):
            self.eat()
            r, inner = self._rhs(self.eq)
            if inner:               # a && (effects; b)  =  if a then (effects; b) else false
                t = self.fresh("sc")
                self.hoist([(0, "let mut %s : Bool := false" % t), (0, "if %s then" % self.truth(*e))] +
                           C.indent(inner + [(0, "%s := %s" % (t, self.truth(*r)))]))
                e = (t, BOOL)
            else:
                e = ("(%s && %s)" % (self.truth(*e), self.truth(*r)), BOOL)
        return e

    def expr(self):
        c = self.or_()
        if self.at("?"):
            self.eat("?")
            a = self._guarded(self.expr)
            self.eat(":")
            b = self._guarded(self.expr)
            ea, eb, ty = self.unify(a[0], a[1], b[0], b[1], "?:")
            return "(if %s then %s else %s)" % (self.truth(*c), ea, eb), ty
        return c

    # ------------------------------------------------------------------ functions that throw
    def throws(self):
        return self.f.get("throws")

    def return_stmt(self):
        if self.throws():
            self.eat("return")
            if not self.at(";"):
                raise self.R("`return e;` in a function declared `throws` (those are void)")
            self.eat(";")
            return [(0, "return %s" % self.return_tuple("false"))], True
        return C.Parser.return_stmt(self)

    def throw_stmt(self):
        if not self.throws():
            return C.Parser.throw_stmt(self)
        self.eat("throw")
        name = self.eat(kind="id")
        if self.at("("):
            depth = 0
            while True:
                k, v = self.peek()
                if k is None:
                    raise self.R("unbalanced throw expression")
                if k == "op" and v == "(":
                    depth += 1
                if k == "op" and v == ")":
                    depth -= 1
                self.p += 1
                if depth == 0:
                    break
        self.eat(";")
        short = name.split("::")[-1]
        if short not in self.throws():
            raise self.R("throws `%s`, the spec allows only %s" % (short, self.throws()))
        return [(0, "return %s   -- throw %s" % (self.return_tuple("true"), short))], True

    def stmts_until_end(self):
        lines, term = C.Parser.stmts_until_end(self)
        if self.throws() and not term:
            lines.append((0, "return %s" % self.return_tuple("false")))
            term = True
        return lines, term

    # ------------------------------------------------------------------ calls of generated functions with state
    def gen_entry(self, lean):
        for g in self.spec["functions"]:
            if g["lean"] == lean:
                return g
        return None

    def find_call(self, name):
        calls = self.spec.get("calls", {})
        for key in (name, name.split("::")[-1]):
            if key in calls:
                return calls[key]
        return None

    def stateful_call(self, name, d, args):
        """call of generated function d (which has state and/or throws); hoists the call, returns (value | None, type)"""
        gen = self.spec.get("_generated", {}).get(d["lean"])
        gf = self.gen_entry(d["lean"])
        if gen is None or gf is None:
            raise self.R("`%s` calls `%s`, which must be listed BEFORE it in the spec" % (self.name, name))
        ats = d.get("args", [])
        if len(ats) != len(args):
            raise self.R("`%s` called with %d argument(s), spec says %d" % (name, len(args), len(ats)))
        ca = [self.coerce(a[0], a[1], self.ctype(t), "argument of " + name) for a, t in zip(args, ats)]
        self.want(gen["need"])
        for up in gen["used_params"]:
            if up[1] not in [x[1] for x in self.used_params]:
                self.used_params.append(up)
        extra = "".join(" " + up[0] for up in gen["used_params"])
        fields = []
        for fn in gen["fields"]:
            ent = self.lookup(fn)
            if ent is None:
                raise self.R("`%s` reads member `%s` that `%s` does not declare" % (name, fn, self.name))
            fields.append(self.read_var(fn)[0])
        st = list(gf.get("state", {}))
        mine = self.f.get("state", {})
        st_ln = []
        for s in st:
            if s not in mine:
                raise self.R("`%s` assigns member `%s`, which `%s` does not declare as state" % (name, s, self.name))
            st_ln.append(self.read_var(s)[0])
        thr = gf.get("throws")
        rt = self.ctype(gf.get("ret", "bool"))
        has_val = (rt.kind != "void")            # for a throwing function the value is the `thrown` flag
        n = (1 if has_val else 0) + len(st)
        if n == 0:
            return None, VOID
        r = self.fresh("r")
        lines = [(0, "let %s := (%s%s%s%s%s)" % (r, d["lean"], extra, "".join(" " + x for x in fields), "".join(" " + x for x in st_ln),
                                                "".join(" " + a for a in ca)))]
        for i, ln in enumerate(st_ln):
            lines.append((0, "%s := %s" % (ln, proj(r, i + (1 if has_val else 0), n))))
            self.assigned[-1].add(ln)
        if thr:
            if not self.throws():
                raise self.R("`%s` may throw but `%s` is not declared `throws`" % (name, self.name))
            for x in thr:
                if x not in self.throws():
                    raise self.R("`%s` may throw %s, which `%s` does not list" % (name, x, self.name))
            lines += [(0, "if %s then" % proj(r, 0, n)), (1, "return %s   -- exception propagates" % self.return_tuple("true"))]
            self.hoist(lines)
            return None, VOID
        self.hoist(lines)
        if has_val:
            return proj(r, 0, n), rt
        return None, VOID

    def pick_overload(self, name, d, args):
        """calls / methods entry that is a list: choose by arity and exact argument types"""
        if not isinstance(d, list):
            return d
        fits = []
        for x in d:
            ats = x.get("args", [])
            if len(ats) != len(args):
                continue
            if all(a[1] is not None and self.ctype(t) == a[1] for a, t in zip(args, ats)):
                fits.append(x)
        if len(fits) != 1:
            raise self.R("call of `%s` with argument types %r matches %d configured overloads" % (name, [a[1] for a in args], len(fits)))
        return fits[0]

    def plain_call(self, name, d, args):
        """call of a configured function (param / generated without state / def) — as cxx2lean.Parser.call"""
        ats = d.get("args", [])
        if len(ats) != len(args):
            raise self.R("`%s` called with %d argument(s), spec says %d" % (name, len(args), len(ats)))
        ca = [self.coerce(a[0], a[1], self.ctype(t), "argument of " + name) for a, t in zip(args, ats)]
        if d.get("class"):
            self.want(d["class"])
        kind = d.get("kind", "def")
        ln = d["lean"]
        if kind == "param":
            if d not in [x[1] for x in self.used_params]:
                self.used_params.append((ln, d))
        elif kind == "generated":
            g = self.spec.get("_generated", {}).get(ln)
            if g is None:
                raise self.R("`%s` calls `%s`, which must be listed BEFORE it in the spec" % (self.name, name))
            self.want(g["need"])
            for up in g["used_params"]:
                if up[1] not in [x[1] for x in self.used_params]:
                    self.used_params.append(up)
            extra = "".join(" " + up[0] for up in g["used_params"])
            fl = []
            for fn in g["fields"]:
                if self.lookup(fn) is None:
                    raise self.R("`%s` reads member `%s` that `%s` does not declare" % (name, fn, self.name))
                fl.append(self.read_var(fn)[0])
            return "(%s%s%s%s)" % (ln, extra, "".join(" " + x for x in fl), "".join(" " + a for a in ca)), self.ctype(d["ret"])
        return "(%s%s)" % (ln, "".join(" " + a for a in ca)), self.ctype(d["ret"])

    def is_stateful(self, d):
        if d is None or isinstance(d, list) or d.get("kind") != "generated":
            return False
        gf = self.gen_entry(d["lean"])
        return bool(gf and (gf.get("state") or gf.get("throws")))

    def call(self, name):
        if name in ("std::isless", "std::isgreater", "std::islessequal", "std::isgreaterequal"):
            args = self.args()
            if len(args) != 2:
                raise self.R("%s arity" % name)
            a = self.coerce(args[0][0], args[0][1], DBL)
            b = self.coerce(args[1][0], args[1][1], DBL)
            self.want("Ord")
            f = {"std::isless": "Cxx.Ord.lt %s %s", "std::islessequal": "Cxx.Ord.le %s %s", "std::isgreater": "Cxx.gt %s %s",
                 "std::isgreaterequal": "Cxx.ge %s %s"}[name]
            return "(" + f % (a, b) + ")", BOOL
        if name in ("std::isnan", "isnan") and self.spec.get("isnan_param"):
            args = self.args()
            if len(args) != 1 or args[0][1].kind != "double":
                raise self.R("isnan of a non-double")
            d = self.spec["isnan_param"]
            if d not in [x[1] for x in self.used_params]:
                self.used_params.append((d["lean"], d))
            self.want("Ord")
            return "(%s %s)" % (d["lean"], args[0][0]), BOOL
        if name in ("std::move",):
            args = self.args()
            if len(args) != 1:
                raise self.R("std::move arity")
            return args[0]
        d = self.find_call(name)
        if isinstance(d, list):
            args = self.args()
            d = self.pick_overload(name, d, args)
            if self.is_stateful(d):
                v, ty = self.stateful_call(name, d, args)
                if v is None:
                    raise self.R("`%s` returns nothing but is used as a value" % name)
                return v, ty
            return self.plain_call(name, d, args)
        if self.is_stateful(d):
            args = self.args()
            v, ty = self.stateful_call(name, d, args)
            if v is None:
                raise self.R("`%s` returns nothing but is used as a value" % name)
            return v, ty
        return C.Parser.call(self, name)

    # ------------------------------------------------------------------ special statements
    def special_stmt(self):
        k, v = self.peek()
        # (*p)();
        if (k, v) == ("op", "(") and self.peek(1) == ("op", "*") and self.peek(2)[0] == "id" and self.peek(3) == ("op", ")") \
                and self.peek(4) == ("op", "(") and self.peek(5) == ("op", ")") and self.peek(6) == ("op", ";"):
            pname = self.peek(2)[1]
            ent = self.lookup(pname)
            if ent is None:
                raise self.R("call through unknown pointer `%s`" % pname)
            ln, ty = self.read_var(pname)
            d = self.spec["types"].get(ty.name, {}).get("invoke") if ty.kind == "struct" else None
            if not d:
                raise self.R("call through `%s`: type %r has no `invoke` in the spec" % (pname, ty))
            self.p += 7
            if d not in [x[1] for x in self.used_params]:
                self.used_params.append((d["lean"], d))
            st = d["state"]
            lns = []
            for s in st:
                if s not in self.f.get("state", {}):
                    raise self.R("the callee of `(*%s)()` may assign `%s`, which `%s` does not declare as state" % (pname, s, self.name))
                lns.append(self.read_var(s)[0])
            callx = "(%s %s%s)" % (d["lean"], ln, "".join(" " + x for x in lns))
            if len(lns) == 1:
                return [(0, "%s := %s" % (lns[0], callx))], False
            r = self.fresh("r")
            lines = [(0, "let %s := %s" % (r, callx))]
            for i, x in enumerate(lns):
                lines.append((0, "%s := %s" % (x, proj(r, i, len(lns)))))
            return lines, False
        # m.store(v);  on a std::atomic member
        if k == "id" and v in self.spec.get("atomics", ()) and self.peek(1) == ("op", ".") and self.peek(2) == ("id", "store") \
                and self.peek(3) == ("op", "("):
            ent = self.lookup(v)
            if ent is None or not ent[2]:
                raise self.R("`%s.store` but `%s` is not declared as state" % (v, v))
            self.p += 3
            args = self.args()
            self.eat(";")
            if len(args) != 1:
                raise self.R("store arity")
            ln, ty, _ = ent
            self.assigned[-1].add(ln)
            return [(0, "%s := %s" % (ln, self.coerce(args[0][0], args[0][1], ty, "argument of store")))], False
        # f(args);  of a generated function with state / throws, or of an abstract procedure
        if k == "id" and self.peek(1) == ("op", "(") and self.lookup(v) is None:
            d = self.find_call(v)
            if d is not None:
                save = self.p
                self.eat()
                args = self.args()
                d1 = self.pick_overload(v, d, args)
                if self.is_stateful(d1) and self.at(";"):
                    self.eat(";")
                    self.stateful_call(v, d1, args)          # hoisted; the statement itself is empty
                    return [], False
                if d1.get("kind") == "param" and d1.get("stmt_state") and self.at(";"):
                    self.eat(";")
                    return self.procedure_call(v, d1, args), False
                self.p = save
        # return f(args);   in a void function, f void with state
        if (k, v) == ("id", "return") and self.peek(1)[0] == "id" and self.peek(2) == ("op", "(") and self.ret_type.kind == "void":
            name = self.peek(1)[1]
            d = self.find_call(name)
            if d is not None and self.lookup(name) is None:
                save = self.p
                self.eat(); self.eat()
                args = self.args()
                d1 = self.pick_overload(name, d, args)
                gf = self.gen_entry(d1["lean"]) if d1.get("kind") == "generated" else None
                if gf and self.is_stateful(d1) and self.ctype(gf.get("ret", "bool")).kind == "void" and not gf.get("throws") and self.at(";"):
                    self.eat(";")
                    self.stateful_call(name, d1, args)
                    return [(0, "return %s" % self.return_tuple())], True
                self.p = save
        return None

    def procedure_call(self, name, d, args):
        ats = d.get("args", [])
        if len(ats) != len(args):
            raise self.R("`%s` called with %d argument(s), spec says %d" % (name, len(args), len(ats)))
        ca = [self.coerce(a[0], a[1], self.ctype(t), "argument of " + name) for a, t in zip(args, ats)]
        if d not in [x[1] for x in self.used_params]:
            self.used_params.append((d["lean"], d))
        lns = []
        for s_ in d["stmt_state"]:
            if s_ not in self.f.get("state", {}):
                raise self.R("`%s` assigns member `%s`, which `%s` does not declare as state" % (name, s_, self.name))
            lns.append(self.read_var(s_)[0])
        callx = "(%s%s%s)" % (d["lean"], "".join(" " + x for x in lns), "".join(" " + a for a in ca))
        if len(lns) == 1:
            return [(0, "%s := %s" % (lns[0], callx))]
        r = self.fresh("r")
        return [(0, "let %s := %s" % (r, callx))] + [(0, "%s := %s" % (x, proj(r, i, len(lns)))) for i, x in enumerate(lns)]

    # ------------------------------------------------------------------ types, pointers
    def parse_type(self):
        words = []
        while self.peek()[1] in ("const", "static", "constexpr"):
            self.eat()
        while self.peek()[0] == "id" and self.peek()[1] in ("unsigned", "signed", "long", "short"):
            words.append(self.eat())
        k, v = self.peek()
        nt = C.norm_type(v) if k == "id" else None
        if k == "id" and (not words or nt in ("int", "char", "long")):
            words.append(self.eat())
        elif not words:
            raise self.R("type expected, found `%s`" % v)
        while self.peek()[1] in ("&", "*", "const"):
            if self.peek()[1] == "*":
                cand = C.norm_type(" ".join(words) + "*")
                if cand not in self.spec.get("types", {}):
                    raise self.R("pointer declarations are outside the fragment (type `%s` is not configured)" % cand)
                words[-1] = words[-1] + "*"
            self.eat()
        return " ".join(words)

    def tdict(self, t):
        return self.spec["types"].get(t.name, {}) if t.kind == "struct" else {}

    def truth(self, e, t):
        d = self.tdict(t)
        if "truth" in d:
            return "(" + d["truth"].format(e=e) + ")"
        return C.Parser.truth(self, e, t)

    def compare(self, op, a, b):
        # `p == nullptr` / `p != nullptr` on a pointer type with a configured truth test
        if op in ("==", "!=") and (a[1] is None) != (b[1] is None):
            pe = b if a[1] is None else a
            if "truth" in self.tdict(pe[1]):
                t = self.truth(*pe)
                return (t if op == "!=" else "(!%s)" % t), BOOL
        # nullptr takes the type of the other operand
        if a[1] is None and b[1] is not None:
            a = (self.null_of(b[1]), b[1])
        if b[1] is None and a[1] is not None:
            b = (self.null_of(a[1]), a[1])
        if a[1] is None or b[1] is None:
            raise self.R("`nullptr` compared with `nullptr`")
        if a[1].kind == "struct" and a[1] == b[1] and self.tdict(a[1]).get("eq") and op in ("==", "!="):
            return "(%s %s %s)" % (a[0], op, b[0]), BOOL
        return C.Parser.compare(self, op, a, b)

    def null_of(self, t):
        d = self.tdict(t)
        if "null" not in d:
            raise self.R("`nullptr` used with type %r, which has no `null` in the spec" % t)
        return d["null"]

    def coerce(self, e, t, to, what="operand"):
        if t is None:                                # nullptr
            return self.null_of(to)
        return C.Parser.coerce(self, e, t, to, what)

    def primary(self):
        k, v = self.peek()
        if (k, v) == ("id", "nullptr"):
            self.eat()
            return "nullptr", None
        if (k, v) == ("id", "std::forward") and self.peek(1) == ("op", "<"):
            self.eat(); self.eat("<")
            depth = 1
            while depth:
                k2, v2 = self.peek()
                if k2 is None:
                    raise self.R("unbalanced template argument list")
                if (k2, v2) == ("op", "<"):
                    depth += 1
                if (k2, v2) == ("op", ">"):
                    depth -= 1
                self.p += 1
            self.eat("(")
            e = self.expr()
            self.eat(")")
            return e
        if (k, v) == ("id", "this") and self.lookup("this") is not None and not (self.peek(1)[0] == "op" and self.peek(1)[1] in ("->", ".")):
            self.eat()
            return self.read_var("this")
        return C.Parser.primary(self)

    def unary(self):
        k, v = self.peek()
        if (k, v) == ("op", "&") and self.peek(1)[0] == "id":
            ent = self.lookup(self.peek(1)[1])
            if ent is not None and ent[1].kind == "struct" and self.tdict(ent[1]).get("addr") and \
                    not (self.peek(2)[0] == "op" and self.peek(2)[1] in (".", "->", "[", "(")):
                self.eat()
                ln, ty = self.read_var(self.eat(kind="id"))
                return ln, self.ctype(self.tdict(ty)["addr"])
        return C.Parser.unary(self)

    def var_of_lean(self, ln):
        for sc in reversed(self.scopes):
            for cname, (l2, ty, mut) in sc.items():
                if l2 == ln:
                    return cname, ty, mut
        return None

    def method(self, e, m, args):
        ent = self.var_of_lean(e[0])
        if ent is not None and ent[0] in self.spec.get("atomics", ()):
            cname, ty, mut = ent
            if m == "load" and not args:
                return e
            if m == "exchange" and len(args) == 1:
                if not mut:
                    raise self.R("`%s.exchange` but `%s` is not declared as state" % (cname, cname))
                old = self.fresh("old")
                v = self.coerce(args[0][0], args[0][1], ty, "argument of exchange")
                self.hoist([(0, "let %s := %s" % (old, e[0])), (0, "%s := %s" % (e[0], v))])
                self.assigned[-1].add(e[0])
                return old, ty
            raise self.R("atomic operation `%s.%s` is outside the fragment" % (cname, m))
        ms = self.spec.get("methods", {})
        d = (ms.get("%s.%s" % (e[1].name, m)) if e[1] is not None and e[1].name else None) or ms.get("." + m)
        if isinstance(d, list):
            d = self.pick_overload("." + m, d, args)
        if d and d.get("generated"):
            gen = self.spec.get("_generated", {}).get(d["lean"])
            if gen is None:
                raise self.R("`%s` calls member `%s`, which must be listed BEFORE it in the spec" % (self.name, m))
            gf = self.gen_entry(d["lean"])
            if gf.get("state") or gf.get("throws"):
                raise self.R("member call of a function with state (`%s`) is outside the fragment" % m)
            self.want(gen["need"])
            for up in gen["used_params"]:
                if up[1] not in [x[1] for x in self.used_params]:
                    self.used_params.append(up)
            extra = "".join(" " + up[0] for up in gen["used_params"])
            fl = "".join(" " + self.field(e, fn)[0] for fn in gen["fields"])
            ca = [self.coerce(a[0], a[1], self.ctype(t), "argument of " + m) for a, t in zip(args, d.get("args", []))]
            return "(%s%s%s%s)" % (d["lean"], extra, fl, "".join(" " + a for a in ca)), self.ctype(d["ret"])
        if d is not None and not isinstance(d, list):
            # plain configured method: as in the base class (re-implemented because the overload list was resolved here)
            ats = d.get("args", [])
            if len(ats) != len(args):
                raise self.R("method `%s` called with %d argument(s), spec says %d" % (m, len(args), len(ats)))
            ca = [self.coerce(a[0], a[1], self.ctype(t), "argument of " + m) for a, t in zip(args, ats)]
            if d.get("class"):
                self.want(d["class"])
            return "(%s %s%s)" % (d["lean"], e[0], "".join(" " + a for a in ca)), self.ctype(d["ret"])
        return C.Parser.method(self, e, m, args)

    def cast(self, e, ty):
        if ty.kind == "nat" and e[1].kind == "double":
            if not self.f.get("dbl_to_nat_ok"):
                raise self.R("cast of a double to an unsigned type (undefined for negatives) — refused (spec flag dbl_to_nat_ok)")
            self.want("Math")
            return "(Int.toNat (Cxx.Math.toInt %s))" % e[0], NAT
        return C.Parser.cast(self, e, ty)
