// C17 generator family "cut trees": polygons whose SHELL RING is one closed walk over a tree of boxes joined by zero-width
// cuts (a segment walked once in each direction).  A child box lies either INSIDE its parent (nesting: outer square, hole,
// island in the hole, hole in the island, ... drawn as one 'keyhole' ring, 2..7 levels) or BESIDE it (the ring repairs into a
// multi-part area: boxes joined by zero-width corridors).  Every box is walked counter-clockwise or clockwise (inside children
// mostly against their parent, so that the levels alternate area / hole; children beside mostly with it), the cut leaves the
// parent on any of its four sides, siblings share a side.  Explicit HOLE rings are derived from the boxes of the tree: a hole
// that swallows one box (its boundary runs in the free gap around the box and crosses only cuts), lies inside a box, equals a
// box, crosses a box, or swallows a whole subtree.  Such inputs are legal (structurally well-formed) and invalid; the contract
// of MakeValid on them is decided by the exact winding-number oracle of the driver like for every other input.
// Layout: every node owns a rectangular cell; its box, its outside children (in strips next to the box, never on the side the
// node is entered through) and its inside children (in disjoint sub-cells of the interior) all stay inside the cell, with free
// gaps of at least one layout unit; final coordinates are the layout units doubled (so hole rings fit into the gaps).
#pragma once
#include "validgen.h"
#include <algorithm>

namespace vh {

struct CutTreeGen {
    struct Box { long x0, y0, x1, y1; long w() const { return x1 - x0; } long h() const { return y1 - y0; } };
    struct Link { int side; long pos; bool inside; int child; };
    struct Node { Box cell, b; int orient = 1; int gateSide = -1; long gatePos = 0; int depth = 0; int nestLevel = 1; std::vector<Link> links; };
    Rng& r; Out* out; std::vector<Node> nodes;
    int pInside = 50, pOutside = 30, maxDepth = 3, pAgainstInside = 80, pWithOutside = 85, maxMargin = 3;
    CutTreeGen(Rng& rr, Out* o) : r(rr), out(o) {}
    void cnt(const std::string& k) { if (out) out->count(k); }

    // extent of a box along the axis of side s (sides 0 bottom, 1 right, 2 top, 3 left; corners counter-clockwise from (x0,y0))
    static long lo(const Box& b, int s) { return (s & 1) ? b.y0 : b.x0; }
    static long hi(const Box& b, int s) { return (s & 1) ? b.y1 : b.x1; }
    static IPt onSide(const Box& b, int s, long pos) { switch (s) { case 0: return {pos, b.y0}; case 1: return {b.x1, pos}; case 2: return {pos, b.y1}; default: return {b.x0, pos}; } }
    static long param(const Box& b, int s, long pos) { switch (s) { case 0: return pos - b.x0; case 1: return b.w() + pos - b.y0; case 2: return b.w() + b.h() + b.x1 - pos; default: return 2 * b.w() + b.h() + b.y1 - pos; } }

    // a node inside `cell` (at least 2 x 2), entered through side `gate` (-1: the root)
    int gen(const Box& cell, int depth, int gate, int orient, int nestLevel) {
        int id = (int) nodes.size(); nodes.push_back(Node{}); Node n; n.cell = cell; n.orient = orient; n.gateSide = gate; n.depth = depth; n.nestLevel = nestLevel;
        // strips for outside children: side s keeps `th[s]` units free beyond the box (one unit gap + the child's cell)
        long th[4] = {0, 0, 0, 0}; long availW = cell.w() - 2, availH = cell.h() - 2;
        if (depth < maxDepth) for (int k = 0; k < 4; k++) { int s = (int) r.below(4); if (s == gate || th[s]) continue; if (!r.chance(pOutside)) continue;
            long& avail = (s & 1) ? availW : availH; if (avail < 3) continue; long t = 3 + (long) r.below((uint64_t) std::min<long>(avail - 3, 6) + 1); th[s] = t; avail -= t; }
        // random extra margins, the box keeps at least 2 x 2
        long mg[4]; for (int s = 0; s < 4; s++) { long& avail = (s & 1) ? availW : availH; long m = avail > 0 && r.chance(50) ? (long) r.below((uint64_t) std::min<long>(avail, maxMargin) + 1) : 0; mg[s] = m; avail -= m; }
        n.b = Box{cell.x0 + th[3] + mg[3], cell.y0 + th[0] + mg[0], cell.x1 - th[1] - mg[1], cell.y1 - th[2] - mg[2]};
        // outside children: the strip beyond side s, restricted to the box's own range along that side
        for (int s = 0; s < 4; s++) if (th[s]) {
            Box c; switch (s) { case 0: c = Box{n.b.x0, n.b.y0 - th[0], n.b.x1, n.b.y0 - 1}; break; case 1: c = Box{n.b.x1 + 1, n.b.y0, n.b.x1 + th[1], n.b.y1}; break;
                                case 2: c = Box{n.b.x0, n.b.y1 + 1, n.b.x1, n.b.y1 + th[2]}; break; default: c = Box{n.b.x0 - th[3], n.b.y0, n.b.x0 - 1, n.b.y1}; }
            // the child may use only a part of the strip along the side
            long L = hi(c, s) - lo(c, s); if (L > 2 && r.chance(60)) { long len = 2 + (long) r.below((uint64_t) (L - 2) + 1); long off = (long) r.below((uint64_t) (L - len) + 1); if (s & 1) { c.y0 += off; c.y1 = c.y0 + len; } else { c.x0 += off; c.x1 = c.x0 + len; } }
            int ch = gen(c, depth + 1, (s + 2) & 3, r.chance(pWithOutside) ? orient : -orient, nestLevel);
            const Box& cb = nodes[ch].b; long pos = lo(cb, s) + 1 + (long) r.below((uint64_t) (hi(cb, s) - lo(cb, s) - 1));
            nodes[ch].gatePos = pos; n.links.push_back(Link{s, pos, false, ch}); }
        // inside children: sub-cells of the interior (one unit inside the box), side by side along the detour side
        if (depth < maxDepth && n.b.w() >= 4 && n.b.h() >= 4 && r.chance(pInside)) {
            int t = (int) r.below(4); Box in{n.b.x0 + 1, n.b.y0 + 1, n.b.x1 - 1, n.b.y1 - 1}; long L = hi(in, t) - lo(in, t);
            int k = (L >= 5 && r.chance(35)) ? 2 : 1; std::vector<std::pair<long, long>> spans;
            if (k == 1) spans.push_back({lo(in, t), hi(in, t)});
            else { long cut = lo(in, t) + 2 + (long) r.below((uint64_t) (L - 5) + 1); spans.push_back({lo(in, t), cut}); spans.push_back({cut + 1, hi(in, t)}); }
            for (auto& sp : spans) { Box c = in; if (t & 1) { c.y0 = sp.first; c.y1 = sp.second; } else { c.x0 = sp.first; c.x1 = sp.second; }
                int ch = gen(c, depth + 1, t, r.chance(pAgainstInside) ? -orient : orient, nestLevel + 1);
                const Box& cb = nodes[ch].b; long pos = lo(cb, t) + 1 + (long) r.below((uint64_t) (hi(cb, t) - lo(cb, t) - 1));
                nodes[ch].gatePos = pos; n.links.push_back(Link{t, pos, true, ch}); } }
        Node& slot = nodes[id]; long gp = slot.gatePos; slot = n; slot.gatePos = gp; return id;
    }

    // the closed walk of node `id`, from its gate point back to its gate point (layout units doubled)
    void walk(int id, std::vector<HP>& o) const {
        const Node& n = nodes[id]; const Box& b = n.b; long P = 2 * (b.w() + b.h());
        struct Ev { long rel; int link; IPt p; }; std::vector<Ev> evs;
        long g = n.gateSide < 0 ? 0 : param(b, n.gateSide, n.gatePos); IPt gp = n.gateSide < 0 ? IPt{b.x0, b.y0} : onSide(b, n.gateSide, n.gatePos);
        auto rel = [&](long p) { long d = n.orient > 0 ? p - g : g - p; d %= P; if (d < 0) d += P; return d; };
        IPt cs[4] = {{b.x0, b.y0}, {b.x1, b.y0}, {b.x1, b.y1}, {b.x0, b.y1}}; long cp[4] = {0, b.w(), b.w() + b.h(), 2 * b.w() + b.h()};
        for (int i = 0; i < 4; i++) { long d = rel(cp[i]); if (d == 0) continue; evs.push_back({d, -1, cs[i]}); }
        for (size_t i = 0; i < n.links.size(); i++) evs.push_back({rel(param(b, n.links[i].side, n.links[i].pos)), (int) i, onSide(b, n.links[i].side, n.links[i].pos)});
        std::stable_sort(evs.begin(), evs.end(), [](const Ev& a, const Ev& c) { return a.rel < c.rel; });
        auto put = [&](const IPt& p) { o.push_back({(double) (2 * p.x), (double) (2 * p.y)}); };
        put(gp);
        for (auto& e : evs) { if (e.rel != 0) put(e.p); if (e.link >= 0) { walk(n.links[(size_t) e.link].child, o); put(e.p); } }
        put(gp);
    }
    static void dropRepeats(std::vector<HP>& s) { std::vector<HP> o; for (auto& p : s) if (o.empty() || !hpEq(o.back(), p)) o.push_back(p); s = o; }

    int maxNest(int id) const { int m = nodes[id].nestLevel; for (auto& l : nodes[id].links) m = std::max(m, maxNest(l.child)); return m; }
    // longest chain of inside links along which the walking direction alternates (area, hole, area, ...)
    int altChain(int id) const { int m = 1; for (auto& l : nodes[id].links) if (l.inside && nodes[l.child].orient != nodes[id].orient) m = std::max(m, 1 + altChain(l.child)); return m; }
    int altNest() const { int m = 0; for (size_t i = 0; i < nodes.size(); i++) m = std::max(m, altChain((int) i)); return m; }
    int parts() const { int k = 1; for (auto& n : nodes) for (auto& l : n.links) if (!l.inside) k++; return k; }

    static std::vector<HP> boxRing(double x0, double y0, double x1, double y1, bool ccw) {
        std::vector<HP> v = {{x0, y0}, {x1, y0}, {x1, y1}, {x0, y1}, {x0, y0}}; if (!ccw) std::reverse(v.begin(), v.end()); return v; }

    // flavour 0: nesting (keyhole rings), 1: parts (corridors) with holes, 2: mixed
    HGeo generate(std::string& family) {
        int flavour = (int) r.below(100); flavour = flavour < 45 ? 0 : flavour < 85 ? 1 : 2;
        nodes.clear(); long W, H;
        maxMargin = 3;
        if (flavour == 0) { maxDepth = r.chance(65) ? r.range(3, 6) : r.range(1, 2); pInside = 95; pOutside = r.chance(30) ? 12 : 0; maxMargin = r.chance(70) ? 1 : 3; W = 4 + 4 * maxDepth + (long) r.below(10); H = 4 + 4 * maxDepth + (long) r.below(10); family = "cuttree_nest"; }
        else if (flavour == 1) { maxDepth = r.range(1, 2); pInside = r.chance(30) ? 25 : 0; pOutside = 60; W = 8 + (long) r.below(16); H = 8 + (long) r.below(16); family = "cuttree_parts"; }
        else { maxDepth = r.range(2, 4); pInside = 55; pOutside = 35; W = 10 + (long) r.below(20); H = 10 + (long) r.below(20); family = "cuttree_mixed"; }
        pAgainstInside = r.chance(80) ? 90 : 50; pWithOutside = r.chance(80) ? 92 : 50;
        int root = gen(Box{0, 0, W, H}, 0, -1, r.chance(70) ? 1 : -1, 1);
        HGeo g; g.type = 3; std::vector<HP> shell; walk(root, shell); dropRepeats(shell); g.seqs.push_back(shell);
        cnt("cuttree_levels_" + std::to_string(std::min(maxNest(root), 7))); cnt("cuttree_alternating_levels_" + std::to_string(std::min(altNest(), 7))); cnt("cuttree_parts_" + std::to_string(std::min(parts(), 6)));
        int nh = flavour == 0 ? (r.chance(25) ? 1 : 0) : flavour == 1 ? r.range(r.chance(85) ? 1 : 0, 2) : r.range(0, 2);
        for (int i = 0; i < nh; i++) {
            const Node& n = nodes[r.below(nodes.size())]; const Box& b = n.b; int mode = (int) r.below(100); bool ccw = r.chance(50);
            double x0 = 2.0 * (double) b.x0, y0 = 2.0 * (double) b.y0, x1 = 2.0 * (double) b.x1, y1 = 2.0 * (double) b.y1;
            if (mode < 45) { g.seqs.push_back(boxRing(x0 - 1, y0 - 1, x1 + 1, y1 + 1, ccw)); cnt(n.links.empty() ? "cuttree_hole_swallows_leaf_box" : "cuttree_hole_swallows_box"); if (&n != &nodes[0] && n.nestLevel == 1) cnt("cuttree_hole_swallows_part"); }
            else if (mode < 60) { g.seqs.push_back(boxRing(x0 + 1, y0 + 1, x1 - 1, y1 - 1, ccw)); cnt("cuttree_hole_inside_box"); }
            else if (mode < 72) { double dx = (double) r.range(-3, 3), dy = (double) r.range(-3, 3); if (dx == 0 && dy == 0) dx = 1; g.seqs.push_back(boxRing(x0 + dx, y0 + dy, x1 + dx, y1 + dy, ccw)); cnt("cuttree_hole_shifted_box"); }
            else if (mode < 80) { g.seqs.push_back(boxRing(x0, y0, x1, y1, ccw)); cnt("cuttree_hole_equals_box"); }
            else { const Box& c = n.cell; g.seqs.push_back(boxRing(2.0 * (double) c.x0 - 1, 2.0 * (double) c.y0 - 1, 2.0 * (double) c.x1 + 1, 2.0 * (double) c.y1 + 1, ccw)); cnt("cuttree_hole_swallows_subtree"); } }
        if (nh) family += "_holes";
        // now and then the same tree as an element of a MultiPolygon next to a separate box, or the ring start moved
        if (r.chance(50)) rotateRing(g.seqs[0], r.below(g.seqs[0].size()) + 1);
        if (r.chance(12)) { HGeo m; m.type = 6; HGeo other; other.type = 3; double ox = 2.0 * (double) W + 4; other.seqs.push_back(boxRing(ox, 0, ox + 6, 6, r.chance(50))); m.kids.push_back(g); m.kids.push_back(other); if (r.chance(50)) std::swap(m.kids[0], m.kids[1]); family += "_multi"; return m; }
        return g;
    }
};

} // namespace vh
