// C12, stream `ctor-own`: the constructors of the C API that take ownership of their arguments, observed one call at a time.
//
//   c12 ctor-own <seed> <n> <outbase>      n cases; <outbase>.cases = the call, <outbase>.expect = what GEOS did
//   c12 replay-own <file>                  the case lines of <file>: prints what GEOS does
//
// case   : coll <type> <member>* | poly <shell> <hole>* | cpoly <shell> <hole>* | ccurve <section>*
//          | point <n> | line <n> | ring <n> <c|o> | circ <n>
//   member : null | <class>,<0|1 empty>,<first>,<last>      class: pt ls lr cs cc pg cp mpt mls mpg mcu msu gc
//            first / last: labels of the end points of a curve (equal labels = equal points); the generator keeps lr closed
//   point/line/ring/circ: a coordinate sequence of n points; ring: c = last point equals the first (bitwise x and y), o = it does not
// expect : ok <type id of the result> <fates> | err <fates>
//   fates  : one letter per argument in order (shell first): F the callee handed it to the deallocator (sanitizer free hook), R it is part of
//            the result (same address as the result's i-th member / ring / section / coordinate sequence), L neither: nobody owns it any more
//            (the harness then destroys it itself), - NULL was passed
// The model (lean/GeosModel/Model/Api/Construct.lean) predicts the whole line; `ctor_consumes_every_argument` says it never contains L.
// The last case of a run is `LSAN`: expect `clean` if the leak detector finds nothing unreachable after all cases (second method).
#pragma once

namespace own {

struct Member { bool null = false; std::string cls; bool empty = false; int first = 0, last = 0; };

static const char* CLASSES[] = {"pt", "ls", "lr", "cs", "cc", "pg", "cp", "mpt", "mls", "mpg", "mcu", "msu", "gc"};

static std::string P(int label, double dx = 0, double dy = 0) { return num(3.0 * label + dx) + " " + num((double) ((label * label) % 7) + dy); }

static std::string wktOf(const Member& m) {
    const std::string& c = m.cls; int a = m.first, b = m.last;
    if (c == "pt") return m.empty ? "POINT EMPTY" : "POINT (" + P(a) + ")";
    if (c == "ls") return m.empty ? "LINESTRING EMPTY" : "LINESTRING (" + P(a) + ", " + P(a, 0.5, 1.25) + ", " + P(b) + ")";
    if (c == "lr") return m.empty ? "LINEARRING EMPTY" : "LINEARRING (" + P(a) + ", " + P(a, 1, 0) + ", " + P(a, 1, 1) + ", " + P(a) + ")";
    if (c == "cs") return m.empty ? "CIRCULARSTRING EMPTY" : a == b ? "CIRCULARSTRING (" + P(a) + ", " + P(a, 1, 1) + ", " + P(a, 2, 0) + ", " + P(a, 1, -1) + ", " + P(a) + ")"
                                                                  : "CIRCULARSTRING (" + P(a) + ", " + P(a, 0.5, 1.25) + ", " + P(b) + ")";
    if (c == "cc") return m.empty ? "COMPOUNDCURVE EMPTY" : "COMPOUNDCURVE ((" + P(a) + ", " + P(a, 0.5, 1.25) + "), CIRCULARSTRING (" + P(a, 0.5, 1.25) + ", " + P(a, 0.75, 2) + ", " + P(b) + "))";
    if (c == "pg") return m.empty ? "POLYGON EMPTY" : "POLYGON ((0 0, 9 0, 9 9, 0 9, 0 0), (2 2, 3 2, 3 3, 2 2))";
    if (c == "cp") return m.empty ? "CURVEPOLYGON EMPTY" : "CURVEPOLYGON (CIRCULARSTRING (0 0, 1 1, 2 0, 1 -1, 0 0))";
    if (c == "mpt") return m.empty ? "MULTIPOINT EMPTY" : "MULTIPOINT ((1 1), (2 2))";
    if (c == "mls") return m.empty ? "MULTILINESTRING EMPTY" : "MULTILINESTRING ((0 0, 1 1))";
    if (c == "mpg") return m.empty ? "MULTIPOLYGON EMPTY" : "MULTIPOLYGON (((0 0, 1 0, 1 1, 0 0)))";
    if (c == "mcu") return m.empty ? "MULTICURVE EMPTY" : "MULTICURVE ((0 0, 1 1), CIRCULARSTRING (0 0, 1 1, 2 0))";
    if (c == "msu") return m.empty ? "MULTISURFACE EMPTY" : "MULTISURFACE (((0 0, 1 0, 1 1, 0 0)))";
    return m.empty ? "GEOMETRYCOLLECTION EMPTY" : "GEOMETRYCOLLECTION (POINT (1 1), LINESTRING (0 0, 1 1))";
}

static std::string tokOf(const Member& m) { if (m.null) return "null"; return m.cls + "," + (m.empty ? "1" : "0") + "," + std::to_string(m.first) + "," + std::to_string(m.last); }
static bool parseMember(const std::string& t, Member& m) {
    if (t == "null") { m.null = true; return true; }
    std::vector<std::string> w; { std::istringstream is(t); std::string x; while (std::getline(is, x, ',')) w.push_back(x); }
    if (w.size() != 4) return false; bool known = false; for (auto c : CLASSES) if (w[0] == c) known = true; if (!known) return false;
    try { m.cls = w[0]; m.empty = w[1] == "1"; m.first = std::stoi(w[2]); m.last = std::stoi(w[3]); } catch (...) { return false; }
    if (m.cls == "lr") m.last = m.first;
    return true;
}

struct Runner {
    GEOSContextHandle_t h;
    long leakedArgs = 0, refused = 0, accepted = 0;
    GEOSGeometry* build(const Member& m) { if (m.null) return nullptr; GEOSGeometry* g = GEOSGeomFromWKT_r(h, wktOf(m).c_str()); if (!g) { fprintf(stderr, "ctor-own: cannot build %s\n", wktOf(m).c_str()); exit(4); } return g; }

    // run one case line; "" if the line cannot be parsed
    std::string run(const std::string& line) {
        auto w = words(line); if (w.empty()) return "";
        const std::string& op = w[0];
        std::vector<void*> args;                         // the consumed arguments, in order
        std::vector<Member> ms; long type = 0, n = 0; bool closed = false;
        try {
            if (op == "coll") { if (w.size() < 2) return ""; type = std::stol(w[1]); for (size_t i = 2; i < w.size(); i++) { Member m; if (!parseMember(w[i], m)) return ""; ms.push_back(m); } }
            else if (op == "poly" || op == "cpoly") { if (w.size() < 2) return ""; for (size_t i = 1; i < w.size(); i++) { Member m; if (!parseMember(w[i], m)) return ""; ms.push_back(m); } }
            else if (op == "ccurve") { for (size_t i = 1; i < w.size(); i++) { Member m; if (!parseMember(w[i], m)) return ""; ms.push_back(m); } }
            else if (op == "point" || op == "line" || op == "circ") { if (w.size() != 2) return ""; n = std::stol(w[1]); }
            else if (op == "ring") { if (w.size() != 3) return ""; n = std::stol(w[1]); closed = w[2] == "c"; }
            else return "";
        } catch (...) { return ""; }
        if (n < 0 || n > 64 || ms.size() > 24) return "";
        bool seqCtor = op == "point" || op == "line" || op == "circ" || op == "ring";
        GEOSCoordSequence* cs = nullptr;
        if (seqCtor) {
            cs = GEOSCoordSeq_create_r(h, (unsigned) n, 2);
            for (long i = 0; i < n; i++) { double x = (double) (i % 4) * 2 + (double) (i / 4), y = (double) ((i * 3) % 5); if (i == n - 1 && closed) { x = 0; y = 0; } if (i == n - 1 && !closed && n > 1 && x == 0 && y == 0) x = 0.5;
                GEOSCoordSeq_setXY_r(h, cs, (unsigned) i, x, y); }
            args.push_back(cs);
        } else for (auto& m : ms) args.push_back(build(m));
        // watch the arguments
        g_nwatch = 0; g_freedMask = 0; for (void* p : args) if (g_nwatch < 32) g_watch[g_nwatch++] = p ? ~(uintptr_t) p : 0;
        g_msgs = 0; GEOSGeometry* res = nullptr;
        std::vector<GEOSGeometry*> arr; for (size_t i = (op == "poly" || op == "cpoly") ? 1 : 0; i < args.size(); i++) arr.push_back((GEOSGeometry*) args[i]);
        if (op == "coll") res = GEOSGeom_createCollection_r(h, (int) type, arr.data(), (unsigned) arr.size());
        else if (op == "poly") res = GEOSGeom_createPolygon_r(h, (GEOSGeometry*) args[0], arr.data(), (unsigned) arr.size());
        else if (op == "cpoly") res = GEOSGeom_createCurvePolygon_r(h, (GEOSGeometry*) args[0], arr.data(), (unsigned) arr.size());
        else if (op == "ccurve") res = GEOSGeom_createCompoundCurve_r(h, arr.data(), (unsigned) arr.size());
        else if (op == "point") res = GEOSGeom_createPoint_r(h, cs);
        else if (op == "line") res = GEOSGeom_createLineString_r(h, cs);
        else if (op == "ring") res = GEOSGeom_createLinearRing_r(h, cs);
        else res = GEOSGeom_createCircularString_r(h, cs);
        unsigned freed = g_freedMask; g_nwatch = 0; for (auto& x : g_watch) x = 0;
        int msgs = g_msgs;
        // the parts of the result
        std::set<const void*> parts;
        if (res) { using namespace geos::geom; const Geometry* g = (const Geometry*) res;
            if (auto gc = dynamic_cast<const GeometryCollection*>(g)) for (std::size_t i = 0; i < gc->getNumGeometries(); i++) parts.insert(gc->getGeometryN(i));
            if (auto su = dynamic_cast<const Surface*>(g)) { parts.insert(su->getExteriorRing()); for (std::size_t i = 0; i < su->getNumInteriorRing(); i++) parts.insert(su->getInteriorRingN(i)); }
            if (auto cc = dynamic_cast<const CompoundCurve*>(g)) for (std::size_t i = 0; i < cc->getNumCurves(); i++) parts.insert(cc->getCurveN(i));
            if (auto sc = dynamic_cast<const SimpleCurve*>(g)) parts.insert(sc->getCoordinatesRO());
        }
        std::string fates; std::vector<void*> orphan;
        for (size_t i = 0; i < args.size(); i++) { if (!args[i]) { fates += '-'; continue; }
            if (i < 32 && (freed & (1u << i))) fates += 'F'; else if (parts.count(args[i])) fates += 'R'; else { fates += 'L'; orphan.push_back(args[i]); leakedArgs++; } }
        std::string out;
        if (res) { out = "ok " + std::to_string(GEOSGeomTypeId_r(h, res)) + " " + fates; accepted++; } else { out = std::string(msgs ? "err " : "silent-null ") + fates; refused++; }
        if (args.empty()) out += ".";                          // keeps the number of tokens fixed
        if (res) GEOSGeom_destroy_r(h, res);
        for (void* p : orphan) { if (seqCtor) GEOSCoordSeq_destroy_r(h, (GEOSCoordSequence*) p); else GEOSGeom_destroy_r(h, (GEOSGeometry*) p); }
        return out;
    }
};

// ---- generator: every constructor with lists it accepts and lists it must refuse, the offending argument at every position
struct Generator {
    Rng& r; explicit Generator(Rng& rr) : r(rr) {}
    Member mem(const std::string& cls, int first = -1, int last = -1) { Member m; m.cls = cls; m.empty = r.chance(15); m.first = first >= 0 ? first : (int) r.below(6); m.last = last >= 0 ? last : (int) r.below(6); if (cls == "lr") m.last = m.first; return m; }
    Member anyMem() { if (r.chance(6)) { Member m; m.null = true; return m; } return mem(CLASSES[r.below(13)]); }
    std::string oneOf(std::initializer_list<const char*> l) { std::vector<const char*> v(l); return v[r.below(v.size())]; }
    std::string gen() {
        std::string line;
        switch (r.below(10)) {
        case 0: case 1: case 2: { static const long T[] = {4, 5, 6, 7, 11, 12}; long type = r.chance(85) ? T[r.below(6)] : (long) r.range(-2, 15);
            int n = r.chance(8) ? 0 : r.range(1, 5), bad = r.chance(55) && n ? (int) r.below((uint64_t) n) : -1; line = "coll " + std::to_string(type);
            for (int i = 0; i < n; i++) { Member m;
                if (i == bad || r.chance(5)) m = anyMem();
                else switch (type) { case 4: m = mem("pt"); break; case 5: m = mem(oneOf({"ls", "lr"})); break; case 6: m = mem("pg"); break; case 11: m = mem(oneOf({"ls", "lr", "cs", "cc"})); break;
                                     case 12: m = mem(oneOf({"pg", "cp"})); break; default: m = anyMem(); if (m.null && r.chance(70)) m = mem("pt"); }
                line += " " + tokOf(m); }
            break; }
        case 3: case 4: { bool curved = r.chance(50); line = curved ? "cpoly" : "poly"; int n = r.range(0, 4), bad = r.chance(50) ? (int) r.below((uint64_t) (n + 1)) : -1;
            for (int i = 0; i <= n; i++) { Member m; if (i == bad) m = anyMem(); else m = curved ? mem(oneOf({"lr", "lr", "cs", "cc", "ls"})) : mem("lr");
                if (i == 0 && !m.null && r.chance(25)) m.empty = true; line += " " + tokOf(m); }
            break; }
        case 5: case 6: { line = "ccurve"; int n = r.chance(8) ? 0 : r.range(1, 5), bad = r.chance(45) && n ? (int) r.below((uint64_t) n) : -1, breakAt = r.chance(35) && n > 1 ? 1 + (int) r.below((uint64_t) (n - 1)) : -1; int at = (int) r.below(4);
            for (int i = 0; i < n; i++) { int nxt = at + 1 + (int) r.below(2); Member m = i == bad ? anyMem() : mem(oneOf({"ls", "cs", "ls", "cs", "lr"}), i == breakAt ? at + 7 : at, nxt);
                if (!m.null && i != bad) m.empty = r.chance(7); if (m.cls == "lr") nxt = m.first; line += " " + tokOf(m); at = m.null ? nxt : m.last; }
            break; }
        case 7: line = std::string(r.chance(50) ? "point " : "circ ") + std::to_string(r.range(0, 7)); break;
        case 8: line = "line " + std::to_string(r.range(0, 6)); break;
        default: line = "ring " + std::to_string(r.range(0, 7)) + (r.chance(60) ? " c" : " o"); }
        return line;
    }
};

static int lsanLine(vh::Out* out) {
    int leaks = __lsan_do_recoverable_leak_check();
    if (out) out->emit("LSAN", leaks ? "leaks" : "clean"); else printf("%s\n", leaks ? "leaks" : "clean");
    return leaks;
}

static int mainOwn(int argc, char** argv) {
    std::string stream = argv[1];
    __sanitizer_install_malloc_and_free_hooks(allocHook, freeHook);
    Runner R; R.h = GEOS_init_r(); GEOSContext_setNoticeHandler_r(R.h, noticeh); GEOSContext_setErrorHandler_r(R.h, errorh);
    if (stream == "replay-own") { std::ifstream f(argv[2]); std::string line; while (std::getline(f, line)) { if (line.empty()) continue; if (line == "LSAN") { lsanLine(nullptr); continue; } std::string o = R.run(line); printf("%s\n", o.empty() ? "bad-case" : o.c_str()); }
        GEOS_finish_r(R.h); fflush(nullptr); _exit(0); }
    if (argc < 5) { fprintf(stderr, "usage: c12 ctor-own <seed> <n> <outbase>\n"); return 2; }
    uint64_t seed = std::stoull(argv[2]); long n = std::stol(argv[3]);
    {   Out out(argv[4]); Rng rr(seed * 104729 + 11); Generator G(rr);
        for (long i = 0; i < n; i++) { std::string c = G.gen(); std::string o = R.run(c); if (o.empty()) { out.count("generator_bad_case"); continue; } out.emit(c, o);
            out.count("ctor_" + c.substr(0, c.find(' '))); out.count(o.compare(0, 2, "ok") == 0 ? "accepted" : "refused"); if (o.find('L') != std::string::npos) out.count("cases_with_leaked_argument"); }
        GEOS_finish_r(R.h);
        out.count("lsan_reports", lsanLine(&out)); }
    fflush(nullptr); _exit(0);     // the leak check has been done (and reported as a case)
}

} // namespace own
