// C04 correspondence harness: rounding to the precision grid, hot-pixel tests, fixed-precision operations.
//   c04 precise  <seed> <n> <outbase>     PrecisionModel(scale).getScale / makePrecise bits vs the floating model
//   c04 hotpixel <seed> <n> <outbase>     the real noding::snapround::HotPixel vs the Int model (every corner / edge incidence)
//   c04 prec-ops <seed> <n> <outbase>     GEOS*Prec_r, GEOSGeom_setPrecision_r (all flags) on generated valid inputs; contract checked by the driver
//   c04 collapse <seed> <n> <outbase>     one operand is a sub-cell polygon placed at a feature point of the other (ring start, vertex, edge point,
//                                         interior / exterior lattice point); lines "K g | A | B | he=xy | I | U | D | S | D(B,A)" with the edge flags of the
//                                         real EdgeNodingBuilder; the driver checks the complete-collapse laws
//   c04 replay <file>                     lines "P ..." / "H ..." / "O op flags g | A | B" / "W op flags <g decimal> | wktA | wktB"
#include "gridgen.h"
#include <geos/geom/PrecisionModel.h>
#include <geos/noding/snapround/HotPixel.h>
#include <geos/operation/overlayng/EdgeNodingBuilder.h>
#include <cstdarg>
#include <fstream>
#include <iostream>
#include <limits>
using namespace vh;

static void notice(const char*, ...) {}
static void errorh(const char*, ...) {}

static std::string hexc(double d) { return std::isnan(d) ? std::string("7ff8000000000000") : hex(d); }

// ------------------------------------------------------------------ precise
static std::string preciseExpect(const std::vector<double>& v) {     // v[0] = newScale, rest = values
    geos::geom::PrecisionModel pm(v[0]);
    std::string e = hexc(pm.getScale());
    for (size_t i = 1; i < v.size(); i++) e += " " + hexc(pm.makePrecise(v[i]));
    return e;
}

static double pickScale(Rng& r, Out& out) {
    switch (r.below(16)) {
    case 0: out.count("scale_pow10"); return std::pow(10.0, r.range(0, 12));
    case 1: out.count("scale_pow10"); return std::pow(10.0, r.range(0, 6));
    case 2: out.count("scale_inv_pow10"); return 1.0 / std::pow(10.0, r.range(1, 6));           // grid size 10..1e6 (branch gridSize > 1)
    case 3: out.count("scale_pow2"); return std::ldexp(1.0, r.range(-20, 40));
    case 4: out.count("scale_negative_gridsize"); { static const double g[] = {-0.001, -100.0, -2.5, -1.0, -0.5, -3.0, -1e-6, -1e6, -0.3}; return g[r.below(9)]; }
    case 5: out.count("scale_near_integer"); { double b = (double) r.range(1, 100000); double eps = std::ldexp(1.0, -r.range(10, 40)) * (r.chance(50) ? 1 : -1); return b + eps; }   // snapToInt on either side of 1e-5
    case 6: out.count("scale_special"); { static const double s[] = {0.0, -0.0, 1.0, 0.5, 2.5, 0.4, 1.0 / 3.0, 3.0, 1e-300, 1e300, 0.99999, 1.00001, 0.999999999, 1.000000001, 7.0, 0.1}; return s[r.below(16)]; }
    case 7: out.count("scale_nonfinite"); { static const double s[] = {std::numeric_limits<double>::quiet_NaN(), std::numeric_limits<double>::infinity(), -std::numeric_limits<double>::infinity(), 5e-324}; return s[r.below(4)]; }
    case 8: case 9: out.count("scale_inv_of_gridsize"); return 1.0 / (std::pow(10.0, r.range(-6, 3)) * (1.0 + r.unit() * 8.0));    // what the C API builds: 1.0 / gridSize
    case 10: out.count("scale_inv_lt1_noninteger_grid"); return 1.0 / ((double) r.range(1, 50) + 0.5 * (double) r.range(0, 1) + r.unit() * (r.chance(50) ? 1 : 0));
    default: out.count("scale_random"); return std::pow(10.0, (double) r.range(-6, 9) + r.unit());
    }
}

static double pickValue(Rng& r, Out& out, double scale) {
    double s = std::isfinite(scale) && scale != 0 ? std::fabs(scale) : 1.0;
    switch (r.below(14)) {
    case 0: case 1: { out.count("val_tie"); double k = (double) r.range(-1000, 1000) + 0.5; return k / s; }                       // k + 1/2 in grid units
    case 2: { out.count("val_tie_large"); double k = (double) r.range(-1000000, 1000000) * 1024.0 + 0.5; return k / s; }
    case 3: { out.count("val_near_tie"); double k = ((double) r.range(-1000, 1000) + 0.5) / s; return std::nextafter(k, r.chance(50) ? 1e308 : -1e308); }
    case 4: { out.count("val_on_grid"); return (double) r.range(-100000, 100000) / s; }
    case 5: { out.count("val_small_negative"); static const double v[] = {-0.5, -0.3, -0.49999999999999994, -0.0, 0.0, 0.49999999999999994, 0.5, -1.5, -2.5, 2.5, 1.5, -0.7}; return v[r.below(12)] / (r.chance(50) ? s : 1.0); }
    case 6: { out.count("val_huge"); static const double v[] = {1e300, -1e300, 9007199254740992.0, 9007199254740993.0, 4503599627370496.5, 4503599627370495.5, -4503599627370495.5, 1.7976931348623157e308, 2251799813685247.5, -2251799813685248.5}; return v[r.below(10)]; }
    case 7: { out.count("val_tiny"); static const double v[] = {5e-324, -5e-324, 1e-310, -1e-310, 2.2250738585072014e-308, 1e-300, -1e-300, 1e-20}; return v[r.below(8)]; }
    case 8: { out.count("val_nonfinite"); static const double v[] = {std::numeric_limits<double>::quiet_NaN(), std::numeric_limits<double>::infinity(), -std::numeric_limits<double>::infinity()}; return v[r.below(3)]; }
    case 9: { out.count("val_bits_random"); return frombits(r.next()); }
    default: { out.count("val_random"); double m = std::pow(10.0, (double) r.range(-8, 10) + r.unit()); return (r.chance(50) ? -m : m); }
    }
}

// ------------------------------------------------------------------ hotpixel
static std::string hotpixelExpect(const double v[7]) {       // sf ptx pty p0x p0y p1x p1y
    using geos::noding::snapround::HotPixel; using geos::geom::CoordinateXY; using geos::geom::Coordinate;
    Coordinate pt(v[1], v[2]);
    HotPixel hp(pt, v[0]);
    CoordinateXY p0(v[3], v[4]), p1(v[5], v[6]);
    std::string e;
    e += hp.intersects(p0) ? '1' : '0'; e += hp.intersects(p1) ? '1' : '0';
    e += hp.intersects(p0, p1) ? '1' : '0'; e += hp.intersects(p1, p0) ? '1' : '0';
    return e;
}

static int sgnl(long v) { return v > 0 ? 1 : v < 0 ? -1 : 0; }

// ------------------------------------------------------------------ prec-ops
struct DX { double a = 1, b = 0, c = 0, d = 1, tx = 0, ty = 0; bool exact = false; Xform xf;
    void apply(const IPt& p, double& x, double& y) const { if (exact) { xf.apply(p, x, y); return; }
        x = a * (double) p.x + b * (double) p.y + tx; y = c * (double) p.x + d * (double) p.y + ty; } };
static std::string seqTokD(const std::vector<IPt>& ps, const DX& t) {
    std::string s = "xy " + std::to_string(ps.size());
    for (auto& p : ps) { double x, y; t.apply(p, x, y); s += " " + hex(x) + " " + hex(y); } return s; }
static std::string elemTokD(const GElem& e, const DX& t) {
    if (e.kind == 0) return e.empty ? "P xy 0" : "P " + seqTokD(e.rings[0], t);
    if (e.kind == 1) return e.empty ? "L xy 0" : "L " + seqTokD(e.rings[0], t);
    if (e.empty) return "Y 1 xy 0";
    std::string s = "Y " + std::to_string(e.rings.size()); for (auto& rg : e.rings) s += " " + seqTokD(rg, t); return s; }
static std::string geomTokD(const GGeom& g, const DX& t) {
    if (g.container == 0) return "0 " + elemTokD(g.elems[0], t);
    std::string tag = "GC";
    if (g.container == 1) tag = g.elems.empty() ? "GC" : (g.elems[0].kind == 0 ? "MP" : g.elems[0].kind == 1 ? "ML" : "MY");
    std::string s = "0 " + tag + " " + std::to_string(g.elems.size());
    for (auto& e : g.elems) s += " " + elemTokD(e, t); return s; }

static std::vector<std::string> splitBar(const std::string& line) { std::vector<std::string> parts; size_t p = 0;
    while (true) { size_t q = line.find(" | ", p); if (q == std::string::npos) { parts.push_back(line.substr(p)); break; } parts.push_back(line.substr(p, q - p)); p = q + 3; } return parts; }

// run one operation; returns "<ok|ex> <R tokens> | valid=<0|1|->"
// pre > 0: the input first gets a precision model of grid size `pre` (pointwise; it already lies on that grid), as the result of an
// earlier fixed-precision operation would: shortcuts keyed on the input's own precision model are then reachable
static std::string runOp(GEOSContextHandle_t h, const std::string& op, int flags, double g, const GEOSGeometry* a, const GEOSGeometry* b, double pre = 0.0) {
    GEOSGeometry* r = nullptr; GEOSGeometry* a1 = nullptr;
    if (pre > 0) { a1 = GEOSGeom_setPrecision_r(h, a, pre, GEOS_PREC_NO_TOPO); if (!a1) return "ex - | valid=-"; a = a1; }
    struct Guard { GEOSContextHandle_t h; GEOSGeometry*& p; ~Guard() { if (p) GEOSGeom_destroy_r(h, p); } } guard{h, a1};
    if (op == "I") r = GEOSIntersectionPrec_r(h, a, b, g);
    else if (op == "U") r = GEOSUnionPrec_r(h, a, b, g);
    else if (op == "D") r = GEOSDifferencePrec_r(h, a, b, g);
    else if (op == "S") r = GEOSSymDifferencePrec_r(h, a, b, g);
    else if (op == "UU") r = GEOSUnaryUnionPrec_r(h, a, g);
    else if (op == "SP") r = GEOSGeom_setPrecision_r(h, a, g, flags);
    if (!r) return "ex - | valid=-";
    char v = GEOSisValid_r(h, r);
    std::string s = "ok " + dumpGeom((const Geometry*) r) + " | valid=" + (v == 1 ? "1" : v == 0 ? "0" : "-");
    if (op == "SP") { double gp = GEOSGeom_getPrecision_r(h, r); s += " prec=" + hex(gp); }
    GEOSGeom_destroy_r(h, r);
    return s;
}

static void envOf(const Geometry* g, double& minx, double& miny, double& maxx, double& maxy, double& maxAbs, std::vector<std::pair<double, double>>& pts) {
    auto cs = g->getCoordinates();
    for (size_t i = 0; i < cs->size(); i++) { double x = cs->getX(i), y = cs->getY(i);
        minx = std::min(minx, x); maxx = std::max(maxx, x); miny = std::min(miny, y); maxy = std::max(maxy, y);
        maxAbs = std::max(maxAbs, std::max(std::fabs(x), std::fabs(y))); pts.push_back({x, y}); }
}


// ------------------------------------------------------------------ sub-cell partner family
// A polygon of 3..5 vertices around (or beside) an anchor, with circumradius rho grid cells.  rho < 1/2 and an anchor on the grid:
// every vertex rounds to the anchor and the polygon collapses completely; larger rho: partial collapses (lines) and survivors.
static std::string tinyPolyTok(Rng& r, Out& out, double ax, double ay, double g, bool& whole) {
    static const double RHO[] = {0.07, 0.2, 0.33, 0.45, 0.49, 0.7, 1.3};
    int ri = (int) r.below(100); double rho = RHO[ri < 15 ? 0 : ri < 35 ? 1 : ri < 55 ? 2 : ri < 72 ? 3 : ri < 80 ? 4 : ri < 90 ? 5 : 6];
    bool around = r.chance(70); double cx = ax, cy = ay;
    if (!around) { double th = r.unit() * 6.283185307179586; double sh = (rho < 0.24 ? 0.25 : rho * 1.3) * g; cx += sh * std::cos(th); cy += sh * std::sin(th); if (rho < 0.24) { /* still inside the anchor's cell */ } }
    int n = r.range(3, 5); double th0 = r.unit() * 6.283185307179586; std::vector<std::pair<double, double>> v;
    for (int i = 0; i < n; i++) { double th = th0 + 6.283185307179586 * (double) i / (double) n; v.push_back({cx + rho * g * std::cos(th), cy + rho * g * std::sin(th)}); }
    if (r.chance(50)) std::reverse(v.begin(), v.end());
    v.push_back(v[0]);
    whole = rho < 0.5 && (around || rho < 0.24);
    out.count(around ? "tiny_around_anchor" : "tiny_beside_anchor"); out.count(rho < 0.5 ? "tiny_radius_lt_half_cell" : "tiny_radius_ge_half_cell");
    std::string s = "0 Y 1 xy " + std::to_string(v.size()); for (auto& q : v) s += " " + hex(q.first) + " " + hex(q.second); return s; }

// a feature point of g (lattice): ring / line start, another vertex, an edge point, an interior lattice point of a polygon, any lattice point
static IPt pickAnchor(Rng& r, Out& out, GridGen& gen, const GGeom& g) {
    std::vector<const std::vector<IPt>*> chains; std::vector<const GElem*> polys;
    for (auto& e : g.elems) if (!e.empty) { for (auto& rg : e.rings) if (!rg.empty()) chains.push_back(&rg); if (e.kind == 2) polys.push_back(&e); }
    int k = (int) r.below(100);
    if (chains.empty() || k >= 85) { out.count("anchor_any_lattice_point"); return IPt{r.range(-1, gen.span + 1), r.range(-1, gen.span + 1)}; }
    const std::vector<IPt>& c = *chains[r.below(chains.size())];
    if (k < 32) { out.count("anchor_chain_start"); return c[0]; }
    if (k < 52) { out.count("anchor_vertex"); return c[r.below(c.size())]; }
    if (k < 68 && c.size() >= 2) { size_t i = r.below(c.size() - 1); long dx = c[i + 1].x - c[i].x, dy = c[i + 1].y - c[i].y, gg = gcdl(dx, dy);
        if (gg > 1) { long t = r.range(1, (int) gg - 1); out.count("anchor_edge_point"); return IPt{c[i].x + dx / gg * t, c[i].y + dy / gg * t}; }
        out.count("anchor_vertex"); return c[i]; }
    if (!polys.empty()) { auto in = gen.interiorPoints(*polys[r.below(polys.size())]); if (!in.empty()) { out.count("anchor_interior_point"); return in[r.below(in.size())]; } }
    out.count("anchor_vertex"); return c[r.below(c.size())]; }

// grid size for the family, in lattice units 2^k: the anchor (a lattice point) stays a grid point for sizes <= 1 unit
static double tinyGrid(Rng& r, Out& out, double unit) {
    static const double F[] = {1.0, 0.5, 0.25, 0.125, 0.0625, 2.0}; int k = (int) r.below(100);
    double f = F[k < 22 ? 0 : k < 44 ? 1 : k < 64 ? 2 : k < 78 ? 3 : k < 88 ? 4 : 5]; out.count(f <= 1.0 ? "tiny_grid_le_unit" : "tiny_grid_2_units"); return unit * f; }

// hasEdgesFor(0) hasEdgesFor(1) of the real EdgeNodingBuilder for the pair under the fixed precision model of grid size g
static std::string edgeFlags(const Geometry* a, const Geometry* b, double g) {
    try { geos::geom::PrecisionModel pm(1.0 / g); geos::operation::overlayng::EdgeNodingBuilder nb(&pm, nullptr); nb.build(a, b);
        std::string s; s += nb.hasEdgesFor(0) ? '1' : '0'; s += nb.hasEdgesFor(1) ? '1' : '0'; return s; } catch (...) { return "xx"; } }

int main(int argc, char** argv) {
    if (argc < 3) return 2;
    std::string stream = argv[1];
    GEOSContextHandle_t h = GEOS_init_r(); GEOSContext_setNoticeHandler_r(h, notice); GEOSContext_setErrorHandler_r(h, errorh);
    auto gf = GeometryFactory::getDefaultInstance();
    if (stream == "replay") {
        std::ifstream f(argv[2]); std::string line;
        while (std::getline(f, line)) { if (line.empty()) continue;
            if (line[0] == 'P' || line[0] == 'H') { std::istringstream is(line.substr(2)); std::string t; std::vector<double> v; while (is >> t) v.push_back(frombits(std::stoull(t, nullptr, 16)));
                if (line[0] == 'P' && !v.empty()) std::cout << preciseExpect(v) << "\n";
                else if (line[0] == 'H' && v.size() == 7) std::cout << hotpixelExpect(v.data()) << "\n";
                else std::cout << "invalid\n";
                continue; }
            auto parts = splitBar(line); if (parts.size() < 3) { std::cout << "invalid\n"; continue; }
            if (line[0] == 'K') {
                std::istringstream hs(parts[0]); std::string kind, gtok; hs >> kind >> gtok; double g = frombits(std::stoull(gtok, nullptr, 16));
                std::unique_ptr<Geometry> a, b; try { a = buildGeom(parts[1], gf); b = buildGeom(parts[2], gf); } catch (...) { std::cout << "invalid\n"; continue; }
                if (GEOSisValid_r(h, (GEOSGeometry*) a.get()) != 1 || GEOSisValid_r(h, (GEOSGeometry*) b.get()) != 1) { std::cout << "invalid\n"; continue; }
                std::string out = "K " + hex(g) + " | " + parts[1] + " | " + parts[2] + " | he=" + edgeFlags(a.get(), b.get(), g);
                static const char* OPS[] = {"I", "U", "D", "S"};
                for (auto op : OPS) { std::string res = runOp(h, op, 0, g, (GEOSGeometry*) a.get(), (GEOSGeometry*) b.get()); out += " | " + res.substr(0, res.find(" | valid=")); }
                { std::string res = runOp(h, "D", 0, g, (GEOSGeometry*) b.get(), (GEOSGeometry*) a.get()); out += " | " + res.substr(0, res.find(" | valid=")); }
                std::cout << out << "\n"; continue; }
            std::istringstream hs(parts[0]); std::string kind, op, gtok, pretok; int flags = 0; hs >> kind >> op >> flags >> gtok; hs >> pretok;
            double g, pre = 0.0; if (pretok.compare(0, 4, "pre=") == 0) pre = frombits(std::stoull(pretok.substr(4), nullptr, 16));
            if (kind == "W") { g = std::stod(gtok);
                GEOSGeometry* wa = GEOSGeomFromWKT_r(h, parts[1].c_str()); GEOSGeometry* wb = parts[2] == "-" ? nullptr : GEOSGeomFromWKT_r(h, parts[2].c_str());
                if (!wa || (parts[2] != "-" && !wb)) { std::cout << "invalid\n"; continue; }
                parts[1] = dumpGeom((Geometry*) wa); if (wb) parts[2] = dumpGeom((Geometry*) wb);
                GEOSGeom_destroy_r(h, wa); if (wb) GEOSGeom_destroy_r(h, wb); }
            else g = frombits(std::stoull(gtok, nullptr, 16));
            std::unique_ptr<Geometry> a, b;
            try { a = buildGeom(parts[1], gf); if (parts[2] != "-") b = buildGeom(parts[2], gf); } catch (...) { std::cout << "invalid\n"; continue; }
            if (GEOSisValid_r(h, (GEOSGeometry*) a.get()) != 1 || (b && GEOSisValid_r(h, (GEOSGeometry*) b.get()) != 1)) { std::cout << "invalid\n"; continue; }
            std::cout << "O " << op << " " << flags << " " << hex(g) << (pre > 0 ? " pre=" + hex(pre) : std::string()) << " | " << parts[1] << " | " << parts[2] << " | "
                      << runOp(h, op, flags, g, (GEOSGeometry*) a.get(), (GEOSGeometry*) b.get(), pre) << "\n"; }
        GEOS_finish_r(h); return 0; }
    if (argc < 5) return 2;
    uint64_t seed = std::stoull(argv[2]); long n = std::stol(argv[3]); Out out(argv[4]); Rng r(seed);

    if (stream == "precise") {
        for (long i = 0; i < n; i++) {
            std::vector<double> v; v.push_back(pickScale(r, out));
            { geos::geom::PrecisionModel pm(v[0]); double sc = pm.getScale(); if (sc != 0 && sc < 1) out.count("branch_gridsize_gt1"); else if (sc != 0) out.count("branch_scale"); else out.count("branch_scale_zero"); }
            for (int k = 0; k < 6; k++) v.push_back(pickValue(r, out, v[0]));
            std::string c; for (size_t k = 0; k < v.size(); k++) { if (k) c += " "; c += hex(v[k]); }
            out.emit(c, preciseExpect(v)); }
        GEOS_finish_r(h); return 0; }

    if (stream == "hotpixel") {
        for (long i = 0; i < n; i++) {
            double v[7]; int mode = (int) r.below(100);
            static const double sfs[] = {1.0, 1.0, 2.0, 0.5, 4.0, 0.25, 1024.0, 10.0, 100.0, 1000.0, 0.1, 0.01, 3.0, 1e6, 1.0 / 3.0};
            double sf = sfs[r.below(15)]; if (mode >= 97) sf = std::pow(10.0, (double) r.range(-3, 6) + r.unit());
            v[0] = sf;
            long hx = r.range(-50, 50), hy = r.range(-50, 50);
            if (r.chance(10)) { hx *= 100003; hy *= 99991; }
            if (mode < 80) {
                // half-integer lattice around the pixel (scaled space), every corner / side incidence
                int span = r.chance(70) ? 2 : 5;                  // in half units
                long ax = r.range(-span, span), ay = r.range(-span, span), bx = r.range(-span, span), by = r.range(-span, span);
                if (r.chance(15)) { bx = ax; } if (r.chance(15)) { by = ay; }
                // exact classification in doubled scaled coordinates (pixel = [2hx-1, 2hx+1) x [2hy-1, 2hy+1)), for the distribution only
                { long px = ax, py = ay, qx = bx, qy = by; if (px > qx) { std::swap(px, qx); std::swap(py, qy); }
                  auto o = [&](long cx, long cy) { return sgnl((qx - px) * (cy - py) - (qy - py) * (cx - px)); };
                  if (px == qx && py == qy) out.count("lattice_degenerate_point");
                  else if (px == qx) out.count(px == 1 ? "lattice_vertical_on_right_side" : px == -1 ? "lattice_vertical_on_left_side" : "lattice_vertical");
                  else if (py == qy) out.count(py == 1 ? "lattice_horizontal_on_top_side" : py == -1 ? "lattice_horizontal_on_bottom_side" : "lattice_horizontal");
                  else { const char* dir = py < qy ? "up" : "down";
                      if (o(-1, 1) == 0) out.count(std::string("lattice_line_through_UL_") + dir);
                      if (o(1, 1) == 0) out.count(std::string("lattice_line_through_UR_") + dir);
                      if (o(-1, -1) == 0) out.count(std::string("lattice_line_through_LL_") + dir);
                      if (o(1, -1) == 0) out.count(std::string("lattice_line_through_LR_") + dir);
                      if (o(-1, 1) * o(1, 1) < 0) out.count("lattice_line_crosses_top");
                      if (o(-1, 1) * o(-1, -1) < 0) out.count("lattice_line_crosses_left");
                      if (o(-1, -1) * o(1, -1) < 0) out.count("lattice_line_crosses_bottom");
                      if (o(1, -1) * o(1, 1) < 0) out.count("lattice_line_crosses_right"); } }
                v[1] = (double) hx / sf; v[2] = (double) hy / sf;
                v[3] = ((double) hx + 0.5 * (double) ax) / sf; v[4] = ((double) hy + 0.5 * (double) ay) / sf;
                v[5] = ((double) hx + 0.5 * (double) bx) / sf; v[6] = ((double) hy + 0.5 * (double) by) / sf;
                out.count("mode_half_lattice");
            } else if (mode < 86) {
                // ordinates within a few ulps of a pixel side after scaling with an inexact factor: p * sf and p / (1/sf) differ here,
                // so the stream pins down that HotPixel scales by MULTIPLICATION
                static const double sfi[] = {0.1, 0.01, 1.0 / 3.0, 0.3, 10.0, 1000.0, 0.007, 1e-5};
                sf = sfi[r.below(8)]; if (r.chance(30)) sf = std::pow(10.0, (double) r.range(-6, 3) + r.unit()); v[0] = sf;
                v[1] = (double) hx / sf; v[2] = (double) hy / sf;
                for (int k = 3; k < 7; k++) { double c = ((double) (k % 2 ? hx : hy) + 0.5 * (double) r.range(-3, 3)) / sf;
                    int j = r.range(-2, 2); for (int q = 0; q < std::abs(j); q++) c = std::nextafter(c, j > 0 ? 1e308 : -1e308); v[k] = c; }
                out.count("mode_near_side_inexact_scale");
            } else if (mode < 90) {
                // quarter lattice, pixel centre not on the integer lattice when sf == 1
                v[1] = ((double) hx + (sf == 1.0 ? 0.25 * (double) r.range(0, 3) : 0.0)) / sf; v[2] = ((double) hy + (sf == 1.0 ? 0.25 * (double) r.range(0, 3) : 0.0)) / sf;
                for (int k = 3; k < 7; k++) v[k] = ((double) (k % 2 ? hx : hy) + 0.25 * (double) r.range(-12, 12)) / sf;
                out.count("mode_quarter_lattice");
            } else {
                v[1] = ((double) hx + r.unit()) / sf; v[2] = ((double) hy + r.unit()) / sf;
                for (int k = 3; k < 7; k++) v[k] = ((double) (k % 2 ? hx : hy) + (r.unit() - 0.5) * 6.0) / sf;
                out.count("mode_random_doubles");
            }
            if (sf == 1.0) out.count("scale_factor_one");
            std::string e;
            try { e = hotpixelExpect(v); } catch (...) { e = "exception"; }
            out.count(std::string("segment_") + (e.size() == 4 && e[2] == '1' ? "hit" : "miss"));
            if (e.size() == 4 && e[2] != e[3]) out.count("ASYMMETRIC_ANSWER");
            std::string c; for (int k = 0; k < 7; k++) { if (k) c += " "; c += hex(v[k]); }
            out.emit(c, e); }
        GEOS_finish_r(h); return 0; }

    if (stream == "collapse") {
        GridGen gen(r, h, &out); long emitted = 0;
        while (emitted < n) {
            gen.span = r.chance(50) ? 6 : (r.chance(50) ? 3 : 12);
            gen.setPartner(GGeom{}, 0);
            GGeom big = gen.geom(r.chance(75) ? 2 : 1, false, false);
            DX t; t.exact = true; t.xf = gen.xform(); bool swapRoles = r.chance(35);
            IPt an = pickAnchor(r, out, gen, big); double ax, ay; t.apply(an, ax, ay);
            double g = tinyGrid(r, out, std::ldexp(1.0, t.xf.k)); bool whole = false; std::string tt = tinyPolyTok(r, out, ax, ay, g, whole);
            std::string ta = swapRoles ? tt : geomTokD(big, t), tb = swapRoles ? geomTokD(big, t) : tt;
            std::unique_ptr<Geometry> ga, gb;
            try { ga = buildGeom(ta, gf); gb = buildGeom(tb, gf); } catch (...) { out.count("build_rejected"); continue; }
            if (GEOSisValid_r(h, (GEOSGeometry*) ga.get()) != 1 || GEOSisValid_r(h, (GEOSGeometry*) gb.get()) != 1) { out.count("invalid_skipped"); continue; }
            double maxAbs = 0; { auto cs = ga->getCoordinates(); for (size_t i = 0; i < cs->size(); i++) maxAbs = std::max(maxAbs, std::max(std::fabs(cs->getX(i)), std::fabs(cs->getY(i)))); }
            { auto cs = gb->getCoordinates(); for (size_t i = 0; i < cs->size(); i++) maxAbs = std::max(maxAbs, std::max(std::fabs(cs->getX(i)), std::fabs(cs->getY(i)))); }
            if (maxAbs / g >= 281474976710656.0) { out.count("resolution_skipped"); continue; }
            std::string he = edgeFlags(ga.get(), gb.get(), g);
            out.count(swapRoles ? "tiny_is_first_operand" : "tiny_is_second_operand"); out.count("edge_flags_" + he); if (whole) out.count("tiny_expected_to_collapse_completely");
            std::string line = "K " + hex(g) + " | " + ta + " | " + tb + " | he=" + he;
            { FILE* cf = std::fopen((std::string(argv[4]) + ".current").c_str(), "w"); if (cf) { std::fprintf(cf, "%s\n", line.c_str()); std::fclose(cf); } }
            static const char* OPS[] = {"I", "U", "D", "S"};
            for (auto op : OPS) { std::string res = runOp(h, op, 0, g, (GEOSGeometry*) ga.get(), (GEOSGeometry*) gb.get()); if (res.compare(0, 2, "ex") == 0) out.count("EXCEPTION"); line += " | " + res.substr(0, res.find(" | valid=")); }
            { std::string res = runOp(h, "D", 0, g, (GEOSGeometry*) gb.get(), (GEOSGeometry*) ga.get()); line += " | " + res.substr(0, res.find(" | valid=")); }
            out.emit(line, "ok"); emitted++;
        }
        GEOS_finish_r(h); return 0; }

    if (stream != "prec-ops") return 2;
    GridGen gen(r, h, &out);
    long emitted = 0;
    while (emitted < n) {
        gen.span = r.chance(60) ? 6 : (r.chance(50) ? 3 : 12);
        gen.setPartner(GGeom{}, 0);
        bool coll = r.chance(25);                       // collections / zero-length lines: setPrecision and unary union only
        GGeom A = gen.geom(r.chance(55) ? 2 : 3, coll, coll);
        if (coll && r.chance(50)) {                    // explicit mixed-dimension collection: polygon(s) crossed by line(s), maybe a point
            A = GGeom{}; A.container = 2; A.elems.push_back(gen.polygon());
            { GGeom part = A; gen.setPartner(part, 40); }
            if (r.chance(40)) A.elems.push_back(gen.polygon());
            int nl = r.range(1, 2); for (int k = 0; k < nl; k++) A.elems.push_back(gen.line());
            if (r.chance(40)) A.elems.push_back(gen.point());
            gen.setPartner(GGeom{}, 0); out.count("A_mixed_collection"); }
        gen.setPartner(A, r.chance(80) ? 55 : 0);
        GGeom B = gen.geom(r.chance(55) ? 2 : 3, false, false);
        // several long lattice walks (more than 20 vertices each: OverlayNG limits such lines to the clip envelope before noding, with ONE limiter
        // object for all lines of the operand) wandering in and out of the neighbourhood of a small rectangle
        bool longLines = !coll && r.chance(14);
        if (longLines) {
            long U = r.range(9, 14); long wx0 = r.range(2, (int) U - 5), wy0 = r.range(2, (int) U - 5), wx1 = wx0 + r.range(2, 3), wy1 = wy0 + r.range(2, 3);
            auto walk = [&](int nv, bool startInside) { std::vector<IPt> ps; IPt p{r.range(0, (int) U), r.range(0, (int) U)};
                if (startInside) p = IPt{r.range((int) wx0, (int) wx1), r.range((int) wy0, (int) wy1)};     // the line begins inside the rectangle (no entering segment)
                ps.push_back(p); long step = r.chance(50) ? 2 : (r.chance(50) ? 4 : 1);
                while ((int) ps.size() < nv) { IPt q; int tries = 0;
                    do { q = IPt{p.x + r.range((int) -step, (int) step), p.y + r.range((int) -step, (int) step)}; q.x = std::max(0L, std::min(U, q.x)); q.y = std::max(0L, std::min(U, q.y)); } while (q == p && ++tries < 8);
                    if (q == p) q = IPt{p.x == U ? p.x - 1 : p.x + 1, p.y};
                    ps.push_back(q); p = q; }
                return ps; };
            A = GGeom{}; A.container = 1; int nl = r.chance(75) ? 2 : 3;
            for (int q = 0; q < nl; q++) { GElem e; e.kind = 1; std::vector<IPt> w = walk(r.range(21, 24), r.chance(q == 0 ? 25 : 70));
                // mostly: the line ends with two or three vertices far from the rectangle (a corner region of the universe), on varying sides
                if (r.chance(65)) { long cx = r.chance(50) ? 0 : U, cy = r.chance(50) ? 0 : U; int tail = r.range(2, 3);
                    for (int i = 0; i < tail; i++) { IPt qd{cx == 0 ? (long) r.range(0, 1) : U - r.range(0, 1), cy == 0 ? (long) r.range(0, 1) : U - r.range(0, 1)}; if (!(qd == w.back())) w.push_back(qd); } }
                e.rings.push_back(w); A.elems.push_back(e); }
            B = GGeom{}; { GElem e; e.kind = 2; e.rings.push_back({{wx0, wy0}, {wx1, wy0}, {wx1, wy1}, {wx0, wy1}, {wx0, wy0}}); B.elems.push_back(e); }
            if (r.chance(40)) std::swap(A, B);
            out.count("A_long_lines_small_area"); }
        DX t; bool tieFocus = !longLines && r.chance(15);
        if (tieFocus) {   // axis-parallel map with a scale that is not a power of two, grid = 2 or 4 lattice units: odd lattice
                          // points sit on rounding ties k + 1/2 which binary64 sees as 0.49999999999999994 / 0.5 / 0.5000000000000001
            double mag = std::pow(10.0, r.range(-3, 9) + r.unit()); t.a = mag; t.d = mag; t.b = 0; t.c = 0;
            t.tx = r.chance(50) ? 0.0 : mag * (double) r.range(-50, 50); t.ty = r.chance(50) ? 0.0 : mag * (double) r.range(-50, 50);
            out.count("map_tie_focus"); }
        else if (longLines || r.chance(45)) { t.exact = true; t.xf = gen.xform(); out.count("map_exact_lattice"); }
        else { double mag = std::pow(10.0, r.range(-3, 9) + r.unit()); double th = r.chance(25) ? 0.0 : r.unit() * 6.283185307179586;
            double shear = r.chance(15) ? (r.unit() - 0.5) : 0.0;
            t.a = mag * std::cos(th); t.b = -mag * std::sin(th) + shear * mag; t.c = mag * std::sin(th); t.d = mag * std::cos(th);
            if (th == 0.0) { t.b = 0; t.c = 0; }
            double off = r.chance(30) ? 0.0 : std::pow(10.0, r.range(-3, 9)); t.tx = off * (r.unit() - 0.5) * 2; t.ty = off * (r.unit() - 0.5) * 2;
            out.count("map_double_similarity"); }
        std::string ta = geomTokD(A, t), tb = geomTokD(B, t);
        bool tiny = !coll && !tieFocus && !longLines && r.chance(18); double gTiny = 0;
        if (tiny) {      // sub-cell partner: B (or A) becomes a tiny polygon at a feature point of the other operand; exact lattice map
            t = DX{}; t.exact = true; t.xf = gen.xform(); bool swapRoles = r.chance(35);
            const GGeom& big = swapRoles ? B : A; IPt an = pickAnchor(r, out, gen, big); double ax, ay; t.apply(an, ax, ay);
            gTiny = tinyGrid(r, out, std::ldexp(1.0, t.xf.k)); bool whole = false; std::string tt = tinyPolyTok(r, out, ax, ay, gTiny, whole);
            if (swapRoles) { ta = tt; tb = geomTokD(B, t); } else { ta = geomTokD(A, t); tb = tt; }
            out.count(swapRoles ? "map_subcell_partner_first" : "map_subcell_partner_second"); }
        std::unique_ptr<Geometry> ga, gb;
        try { ga = buildGeom(ta, gf); gb = buildGeom(tb, gf); } catch (...) { out.count("build_rejected"); continue; }
        if (GEOSisValid_r(h, (GEOSGeometry*) ga.get()) != 1 || GEOSisValid_r(h, (GEOSGeometry*) gb.get()) != 1) { out.count("invalid_skipped"); continue; }
        // extent, resolution, characteristic lengths
        double minx = 1e308, miny = 1e308, maxx = -1e308, maxy = -1e308, maxAbs = 0; std::vector<std::pair<double, double>> pts;
        envOf(ga.get(), minx, miny, maxx, maxy, maxAbs, pts); envOf(gb.get(), minx, miny, maxx, maxy, maxAbs, pts);
        if (pts.empty()) { out.count("both_empty_skipped"); continue; }
        double ext = std::max(maxx - minx, maxy - miny); if (!(ext > 0)) ext = maxAbs > 0 ? maxAbs : 1.0;
        double unit = t.exact ? std::ldexp(1.0, t.xf.k) : std::sqrt(std::fabs(t.a * t.d - t.b * t.c));
        double g; int gm = (int) r.below(100);
        if (tiny) { g = gTiny; out.count("grid_subcell_partner"); }
        else if (tieFocus) { g = unit * (r.chance(60) ? 2.0 : 4.0); out.count("grid_tie_focus"); }
        else if (longLines) { static const double f[] = {1, 1, 0.5, 0.25, 2}; g = unit * f[r.below(5)]; out.count("grid_long_lines"); }
        else if (gm < 30) { g = std::pow(10.0, -6.0 + 9.0 * r.unit()) * ext; out.count("grid_random_1e-6..1e3_x_extent"); }
        else if (gm < 45) { int k = (int) std::floor(std::log10(ext)) + r.range(-6, 3); g = std::pow(10.0, k); out.count("grid_power_of_ten"); }
        else if (gm < 55) { int k = (int) std::floor(std::log2(ext)) + r.range(-20, 10); g = std::ldexp(1.0, k); out.count("grid_power_of_two"); }
        else if (gm < 72) { static const double f[] = {1, 1, 2, 0.5, 3, 1.5, 0.25, 4, 0.1, 10}; g = unit * f[r.below(10)]; out.count("grid_lattice_multiple"); }
        else if (gm < 88) {     // ring-collapsing sizes: comparable to the envelope of one element
            const Geometry* src = r.chance(50) ? ga.get() : gb.get(); const Geometry* el = src->getGeometryN(r.below(src->getNumGeometries()));
            const geos::geom::Envelope* ev = el->getEnvelopeInternal(); double w = ev->isNull() ? ext : std::max(ev->getWidth(), ev->getHeight()); if (!(w > 0)) w = ext;
            g = w * (0.3 + 2.7 * r.unit()); out.count("grid_ring_collapsing"); }
        else {                  // vertex-merging / gap-closing sizes: comparable to the closest pair of distinct vertices
            double best = ext; for (size_t i = 0; i < pts.size(); i++) for (size_t j = i + 1; j < pts.size(); j++) { double d = std::hypot(pts[i].first - pts[j].first, pts[i].second - pts[j].second); if (d > 0 && d < best) best = d; }
            g = best * (0.4 + 2.6 * r.unit()); out.count("grid_vertex_merging"); }
        // the quantifier: 1e-6 .. 1e3 times the extent
        if (g < 1e-6 * ext) { g = 1e-6 * ext; out.count("grid_clamped_low"); } if (g > 1e3 * ext) { g = 1e3 * ext; out.count("grid_clamped_high"); }
        // resolution hypothesis of the on-grid contract: |v / g| < 2^48 for every input ordinate
        if (maxAbs / g >= 281474976710656.0) { g = maxAbs / 140737488355328.0; out.count("grid_raised_to_resolution"); }
        if (!(g > 0) || !std::isfinite(g) || !std::isfinite(1.0 / g)) { out.count("grid_unusable_skipped"); continue; }
        bool bArea = gb->getDimension() == 2, aArea = ga->getDimension() == 2;
        out.count(std::string("typeA_") + ga->getGeometryType()); out.count(std::string("typeB_") + gb->getGeometryType());
        struct OpS { const char* op; int flags; bool binary; };
        static const OpS ops[] = {{"I", 0, true}, {"U", 0, true}, {"D", 0, true}, {"S", 0, true}, {"UU", 0, false}, {"SP", 0, false}, {"SP", 1, false}, {"SP", 2, false}, {"SP", 3, false}};
        for (auto& o : ops) {
            if (o.binary && coll) continue;
            std::string hdr = std::string("O ") + o.op + " " + std::to_string(o.flags) + " " + hex(g) + " | " + ta + " | " + (o.binary ? tb : std::string("-"));
            { FILE* cf = std::fopen((std::string(argv[4]) + ".current").c_str(), "w"); if (cf) { std::fprintf(cf, "%s\n", hdr.c_str()); std::fclose(cf); } }
            std::string res = runOp(h, o.op, o.flags, g, (GEOSGeometry*) ga.get(), o.binary ? (GEOSGeometry*) gb.get() : nullptr);
            out.count(std::string("op_") + o.op + (std::string(o.op) == "SP" ? std::to_string(o.flags) : ""));
            if (res.compare(0, 2, "ex") == 0) out.count("EXCEPTION");
            if (res.find("valid=0") != std::string::npos) out.count("result_invalid");
            if (res.compare(0, 4, "ok 0") == 0 && (res.find(" xy 0 ") != std::string::npos && res.find(" xy ", res.find(" xy 0 ") + 5) == std::string::npos)) out.count("result_empty");
            (void) aArea; (void) bArea;
            out.emit(hdr + " | " + res, "ok"); emitted++;
        }
        // two-step sequence: the input of setPrecision is itself the result of a fixed-precision operation on another grid
        if (r.chance(35)) {
            static const double FACT[] = {2.0, 2.5, 3.0, 10.0 / 3.0, 1.5, 0.5, 0.25, 7.0, 1.0};
            double g0 = g * FACT[r.below(9)];
            GEOSGeometry* a0 = (std::isfinite(g0) && g0 > 0 && maxAbs / g0 < 281474976710656.0) ? GEOSGeom_setPrecision_r(h, (GEOSGeometry*) ga.get(), g0, 0) : nullptr;
            if (a0 && !GEOSisEmpty_r(h, a0) && GEOSisValid_r(h, a0) == 1) {
                std::string ta0 = dumpGeom((const Geometry*) a0);
                std::unique_ptr<Geometry> b0; try { b0 = buildGeom(ta0, gf); } catch (...) {}
                if (b0) for (int f = 0; f < 4; f++) {
                    std::string hdr = std::string("O SP ") + std::to_string(f) + " " + hex(g) + " pre=" + hex(g0) + " | " + ta0 + " | -";
                    { FILE* cf = std::fopen((std::string(argv[4]) + ".current").c_str(), "w"); if (cf) { std::fprintf(cf, "%s\n", hdr.c_str()); std::fclose(cf); } }
                    std::string res = runOp(h, "SP", f, g, (GEOSGeometry*) b0.get(), nullptr, g0);
                    out.count("op_SP_after_other_grid"); if (res.compare(0, 2, "ex") == 0) out.count("EXCEPTION");
                    out.emit(hdr + " | " + res, "ok"); emitted++; } }
            if (a0) GEOSGeom_destroy_r(h, a0);
        }
    }
    GEOS_finish_r(h); return 0;
}
