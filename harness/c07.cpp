// C07 correspondence harness: orientation index / filter, point-in-ring, segment-segment intersection,
// ring orientation.  Inputs are integer lattice points times one common power of two (exact in double),
// plus a stream of arbitrary finite doubles for the orientation predicate.
//   c07 <stream> <seed> <n> <outbase>      stream in orient | orientarb | orientf | ring | poly | ploc | segseg | ccw
//   c07 replay <stream> <file>             recompute the implementation side for the case lines in <file>;
//                                          prints, per line, the regenerated case line then the expect line
#include "gtree.h"
#include <geos_c.h>
#include <geos/algorithm/PointLocator.h>
#include <geos/algorithm/CGAlgorithmsDD.h>
#include <geos/algorithm/Orientation.h>
#include <geos/algorithm/RayCrossingCounter.h>
#include <geos/algorithm/PointLocation.h>
#include <geos/algorithm/LineIntersector.h>
#include <geos/algorithm/locate/SimplePointInAreaLocator.h>
#include <geos/algorithm/locate/IndexedPointInAreaLocator.h>
#include <geos/geom/Coordinate.h>
#include <geos/geom/CoordinateSequence.h>
#include <geos/geom/GeometryFactory.h>
#include <geos/geom/LinearRing.h>
#include <geos/geom/Polygon.h>
#include <geos/geom/Location.h>
#include <cstdarg>
#include <fstream>
#include <iostream>
#include <memory>

using namespace vh;
using geos::algorithm::CGAlgorithmsDD;
using geos::algorithm::Orientation;
using geos::algorithm::RayCrossingCounter;
using geos::algorithm::PointLocation;
using geos::algorithm::LineIntersector;
using geos::geom::Coordinate;
using geos::geom::CoordinateXY;
using geos::geom::CoordinateSequence;
using geos::geom::Location;

typedef long long ll;
typedef __int128 i128;

static void notice(const char*, ...) {}
static void errorh(const char*, ...) {}

static const ll GRID = 33554432LL;   // 2^25

// ------------------------------------------------------------------------------------------ small helpers

struct IP { ll x, y; };
static inline bool operator==(const IP& a, const IP& b) { return a.x == b.x && a.y == b.y; }
static inline bool operator!=(const IP& a, const IP& b) { return !(a == b); }
static inline IP operator+(const IP& a, const IP& b) { return IP{a.x + b.x, a.y + b.y}; }
static inline IP operator-(const IP& a, const IP& b) { return IP{a.x - b.x, a.y - b.y}; }
static inline IP operator*(ll t, const IP& a) { return IP{t * a.x, t * a.y}; }

static ll absll(ll a) { return a < 0 ? -a : a; }
static ll gcdll(ll a, ll b) { a = absll(a); b = absll(b); while (b) { ll t = a % b; a = b; b = t; } return a; }
static ll floordiv(ll a, ll b) { ll q = a / b, r = a % b; if (r != 0 && ((r < 0) != (b < 0))) q--; return q; }
static ll ceildiv(ll a, ll b) { return -floordiv(-a, b); }
static i128 det128(const IP& a, const IP& b, const IP& c) { return (i128)(b.x - a.x) * (c.y - a.y) - (i128)(b.y - a.y) * (c.x - a.x); }
static ll cross(const IP& a, const IP& b) { return a.x * b.y - a.y * b.x; }      // callers keep |coords| <= 2^26
static int sgn128(i128 v) { return v > 0 ? 1 : v < 0 ? -1 : 0; }
static ll randIn(Rng& r, ll lo, ll hi) { if (hi <= lo) return lo; return lo + (ll) r.below((uint64_t)(hi - lo) + 1); }
static ll clampll(ll v, ll lo, ll hi) { return v < lo ? lo : v > hi ? hi : v; }

// n * 2^k, never -0.0
static inline double sc(ll n, int k) { return n == 0 ? 0.0 : std::ldexp((double) n, k); }
static inline double nz(double v) { return v == 0 ? 0.0 : v; }

static inline void addHex(std::string& s, double d) {
    static const char* H = "0123456789abcdef"; uint64_t u = bits(d); char b[17];
    for (int i = 15; i >= 0; i--) { b[i] = H[u & 15]; u >>= 4; } b[16] = 0; s += ' '; s.append(b, 16);
}
static std::vector<std::string> split(const std::string& s) { std::istringstream is(s); std::vector<std::string> v; std::string t; while (is >> t) v.push_back(t); return v; }
static double unhex(const std::string& s) { return frombits(std::stoull(s, nullptr, 16)); }
static int commonK(Rng& r) { return r.range(-500, 474); }
static char locTok(Location l) { return l == Location::INTERIOR ? 'I' : l == Location::BOUNDARY ? 'B' : l == Location::EXTERIOR ? 'E' : '?'; }

// range of t with a + t*s in [-M, M] (s != 0), intersected into [lo, hi]
static void tRange1(ll a, ll s, ll M, ll& lo, ll& hi) {
    if (s == 0) return;
    ll l, h;
    if (s > 0) { l = ceildiv(-M - a, s); h = floordiv(M - a, s); }
    else { l = ceildiv(M - a, s); h = floordiv(-M - a, s); }
    if (l > lo) lo = l; if (h < hi) hi = h;
}
static void tRange(const IP& a, const IP& s, ll M, ll& lo, ll& hi) {
    lo = -4 * M - 4; hi = 4 * M + 4; tRange1(a.x, s.x, M, lo, hi); tRange1(a.y, s.y, M, lo, hi);
}
static ll egcd(ll a, ll b, ll& x, ll& y) {     // a*x + b*y = g
    ll x0 = 1, y0 = 0, x1 = 0, y1 = 1;
    while (b) { ll q = a / b, t = a - q * b; a = b; b = t; t = x0 - q * x1; x0 = x1; x1 = t; t = y0 - q * y1; y0 = y1; y1 = t; }
    x = x0; y = y0; return a;
}
static IP rndPt(Rng& r, ll M) { return IP{randIn(r, -M, M), randIn(r, -M, M)}; }

// ------------------------------------------------------------------------------------------ orientation: implementation side

static std::string orientCaseLine(const double v[6]) {
    int f = CGAlgorithmsDD::orientationIndexFilter(v[0], v[1], v[2], v[3], v[4], v[5]);
    std::string s = "O "; s += std::to_string(f);
    for (int i = 0; i < 6; i++) addHex(s, v[i]);
    return s;
}
static std::string orientExpect(GEOSContextHandle_t h, const double v[6]) {
    Coordinate A(v[0], v[1]), B(v[2], v[3]), P(v[4], v[5]);
    std::string s; bool ok = true; int i = 0, sw = 0;
    try { i = Orientation::index(A, B, P); s += std::to_string(i); } catch (...) { s += "EXC"; ok = false; }
    s += ' ';
    try { sw = Orientation::index(B, A, P); s += std::to_string(sw); } catch (...) { s += "EXC"; ok = false; }
    s += ' ';
    try { int c = GEOSOrientationIndex_r(h, v[0], v[1], v[2], v[3], v[4], v[5]); s += std::to_string(c); } catch (...) { s += "EXC"; }
    s += " fs:ok ";
    s += (ok && sw == -i) ? "as:ok" : "as:BAD";
    return s;
}
static std::string orientFExpect(const double v[6]) {
    return std::to_string(CGAlgorithmsDD::orientationIndexFilter(v[0], v[1], v[2], v[3], v[4], v[5]));
}

// ------------------------------------------------------------------------------------------ orientation: generators

struct Tri { IP a, b, p; };

static int pickBits(Rng& r, int maxBits) {
    int k = (int) r.below(100);
    if (k < 35) return maxBits;
    if (k < 60) return r.range(1, 4);
    return r.range(1, maxBits);
}

// a point on the line through a and b at a lattice step (t arbitrary, also outside the segment), inside [-M,M]^2
static IP collinearPoint(Rng& r, const IP& a, const IP& b, ll M, Out& out, const char* pre) {
    IP d = b - a; ll g = gcdll(d.x, d.y);
    if (g == 0) { out.count(std::string(pre) + "_col_a_eq_b"); return rndPt(r, M); }
    IP s{d.x / g, d.y / g}; ll lo, hi; tRange(a, s, M, lo, hi);
    int k = (int) r.below(100); ll t;
    if (k < 12) { t = 0; out.count(std::string(pre) + "_col_p_eq_a"); }
    else if (k < 24) { t = g; out.count(std::string(pre) + "_col_p_eq_b"); }
    else if (k < 55) { t = randIn(r, 0, g); out.count(std::string(pre) + "_col_inside"); }
    else if (k < 80) { t = randIn(r, std::max(lo, -2 * g - 2), std::min(hi, 3 * g + 2)); out.count(std::string(pre) + "_col_near"); }
    else { t = randIn(r, lo, hi); out.count(std::string(pre) + "_col_anywhere"); }
    t = clampll(t, lo, hi);
    return a + t * s;
}
// a, b with many lattice points between them (b = a + m*s, s small) or fully random
static void segAB(Rng& r, ll M, int bits, IP& a, IP& b) {
    a = rndPt(r, M);
    if (r.chance(50)) { b = rndPt(r, M); return; }
    ll S = 1LL << std::min(bits / 2 + 1, 6);
    IP s{randIn(r, -S, S), randIn(r, -S, S)};
    if (s.x == 0 && s.y == 0) s.x = 1;
    ll lo, hi; tRange(a, s, M, lo, hi);
    ll m = randIn(r, lo, hi);
    b = a + m * s;
}
static IP nudge(Rng& r, IP p, ll M) {
    int d = (int) r.below(4); IP q = p;
    if (d == 0) q.x += 1; else if (d == 1) q.x -= 1; else if (d == 2) q.y += 1; else q.y -= 1;
    if (q.x > M) q.x = p.x - 1; if (q.x < -M) q.x = p.x + 1; if (q.y > M) q.y = p.y - 1; if (q.y < -M) q.y = p.y + 1;
    return q;
}
// det(a,b,p) = s (|s| = 1 mostly) with coordinates up to M, via extended Euclid; translated by a random offset
static Tri extGcdTriple(Rng& r, ll M, Out& out, const char* pre) {
    ll u, v;
    int w = (int) r.below(100);
    if (w < 45 && M >= 4) { u = randIn(r, M, 2 * M); v = randIn(r, M, 2 * M); out.count(std::string(pre) + "_extgcd_wide"); }   // differences near 2M: the filter defers
    else if (w < 75 && M >= 4) { u = randIn(r, M / 2, M); v = randIn(r, M / 2, M); }
    else { u = randIn(r, 1, M); v = randIn(r, 0, M); }
    ll g = gcdll(u, v); u /= g; v /= g;
    ll s = r.chance(80) ? 1 : randIn(r, 2, 5); if (r.chance(50)) s = -s;
    ll al, be; egcd(u, v, al, be);                 // u*al + v*be = 1 ; want u*y - v*x = s : x = -s*be (mod u)
    ll x = (ll) ((((i128) (-s) * be) % u + u) % u);
    i128 num = (i128) s + (i128) v * x;
    ll y = (ll) (num / u);                          // exact
    IP A{0, 0}, B{u, v}, P{x, y};
    if (r.chance(25)) { ll t = r.chance(50) ? 1 : -1; IP P2{x + t * u, y + t * v};
        ll mnx = std::min<ll>(0, std::min(u, P2.x)), mxx = std::max<ll>(0, std::max(u, P2.x)), mny = std::min<ll>(0, std::min(v, P2.y)), mxy = std::max<ll>(0, std::max(v, P2.y));
        if (mxx - mnx <= 2 * M && mxy - mny <= 2 * M) P = P2; }
    IP pts[3] = {A, B, P};
    if (r.chance(50)) for (auto& q : pts) std::swap(q.x, q.y);
    if (r.chance(50)) for (auto& q : pts) q.x = -q.x;
    if (r.chance(50)) for (auto& q : pts) q.y = -q.y;
    ll mnx = pts[0].x, mxx = pts[0].x, mny = pts[0].y, mxy = pts[0].y;
    for (auto& q : pts) { mnx = std::min(mnx, q.x); mxx = std::max(mxx, q.x); mny = std::min(mny, q.y); mxy = std::max(mxy, q.y); }
    ll ox = 0, oy = 0;
    if (mxx - mnx <= 2 * M) ox = randIn(r, -M - mnx, M - mxx);
    if (mxy - mny <= 2 * M) oy = randIn(r, -M - mny, M - mxy);
    for (auto& q : pts) { q.x += ox; q.y += oy; }
    int perm = (int) r.below(6); if (w < 45 && M >= 4 && r.chance(60)) perm = r.chance(50) ? 3 : 5;   // wide: the far corner as the query point
    static const int PM[6][3] = {{0,1,2},{0,2,1},{1,0,2},{1,2,0},{2,0,1},{2,1,0}};
    out.count(std::string(pre) + "_extgcd");
    return Tri{pts[PM[perm][0]], pts[PM[perm][1]], pts[PM[perm][2]]};
}

// the lattice triple generator shared by orient (M <= 2^25) and orientarb class d (M up to 2^52)
static Tri gridTriple(Rng& r, int maxBits, Out& out, const char* pre) {
    int bitsN = pickBits(r, maxBits); ll M = 1LL << bitsN;
    out.count(std::string(pre) + (bitsN == maxBits ? "_bits_max" : bitsN <= 4 ? "_bits_1_4" : "_bits_mid"));
    int k = (int) r.below(100); Tri t;
    if (k < 32) {                                           // (a) exactly collinear
        out.count(std::string("class_") + pre + "_collinear");
        segAB(r, M, bitsN, t.a, t.b); t.p = collinearPoint(r, t.a, t.b, M, out, pre);
    } else if (k < 50) {                                    // (b1) collinear then one unit off
        out.count(std::string("class_") + pre + "_off_by_one");
        segAB(r, M, bitsN, t.a, t.b); t.p = nudge(r, collinearPoint(r, t.a, t.b, M, out, pre), M);
    } else if (k < 68) {                                    // (b2) det = +-1 (or +-small) with large coordinates
        out.count(std::string("class_") + pre + "_det_unit");
        t = extGcdTriple(r, M, out, pre);
    } else if (k < 86) {                                    // (c) random
        out.count(std::string("class_") + pre + "_random");
        t.a = rndPt(r, M); t.b = rndPt(r, M); t.p = rndPt(r, M);
    } else {                                                // (d) degenerate
        out.count(std::string("class_") + pre + "_degenerate");
        t.a = rndPt(r, M); t.b = rndPt(r, M); t.p = rndPt(r, M);
        switch (r.below(8)) {
            case 0: t.b = t.a; out.count(std::string(pre) + "_deg_a_eq_b"); break;
            case 1: t.p = t.a; out.count(std::string(pre) + "_deg_a_eq_p"); break;
            case 2: t.p = t.b; out.count(std::string(pre) + "_deg_b_eq_p"); break;
            case 3: t.b = t.a; t.p = t.a; out.count(std::string(pre) + "_deg_all_equal"); break;
            case 4: t.b.y = t.a.y; out.count(std::string(pre) + "_deg_horizontal"); break;
            case 5: t.b.x = t.a.x; out.count(std::string(pre) + "_deg_vertical"); break;
            case 6: t.b.y = t.a.y; t.p.y = t.a.y; out.count(std::string(pre) + "_deg_horizontal_collinear"); break;
            default: t.b.x = t.a.x; t.p.x = t.a.x; out.count(std::string(pre) + "_deg_vertical_collinear"); break;
        }
    }
    return t;
}
static void triToDoubles(const Tri& t, int k, double v[6]) {
    v[0] = sc(t.a.x, k); v[1] = sc(t.a.y, k); v[2] = sc(t.b.x, k); v[3] = sc(t.b.y, k); v[4] = sc(t.p.x, k); v[5] = sc(t.p.y, k);
}
static int g_lastDetClass = -1;   // of the lattice triple generated last: 0 zero, 1 |det| = 1, 2 other; -1 not a lattice triple
static void detStats(const Tri& t, Out& out, const char* pre) {
    i128 d = det128(t.a, t.b, t.p);
    if (d == 0) { out.count(std::string(pre) + "_det_zero"); g_lastDetClass = 0; }
    else if (d == 1 || d == -1) { out.count(std::string(pre) + "_det_abs_one"); g_lastDetClass = 1; }
    else { out.count(std::string(pre) + "_det_other"); g_lastDetClass = 2; }
}
static void genOrientGrid(Rng& r, Out& out, double v[6]) {
    Tri t = gridTriple(r, 25, out, "grid"); int k = commonK(r);
    const IP* q[3] = {&t.a, &t.b, &t.p};
    for (auto c : q) if (absll(c->x) > GRID || absll(c->y) > GRID) { fprintf(stderr, "generator bug: off-grid coordinate\n"); std::exit(4); }
    triToDoubles(t, k, v); detStats(t, out, "grid");
}

static double rndDouble(Rng& r, int elo, int ehi) {   // random sign, exponent in [elo,ehi], random 52-bit mantissa
    uint64_t s = r.below(2), e = (uint64_t) (r.range(elo, ehi) + 1023), m = r.next() >> 12;
    return frombits((s << 63) | (e << 52) | m);
}
static const double SPECIALS[] = {
    1.0, -1.0, 1.0 + 2.220446049250313e-16, -(1.0 + 2.220446049250313e-16), 1.0 - 1.1102230246251565e-16, -(1.0 - 1.1102230246251565e-16),
    8.673617379884035e-19, -8.673617379884035e-19, 3.0, -3.0, 0.1, 0.3, 0.2, -0.1, 0.7, 1e16, -1e16, 1e16 + 2, 0.0, 0.5, 2.0, 4503599627370497.0,
    9007199254740991.0, -9007199254740991.0, 1.0 / 3.0, 2.0 / 3.0, 1e-16, 6.123233995736766e-17 };

static void genOrientArb(Rng& r, Out& out, double v[6]) {
    int k = (int) r.below(100);
    if (k < 20) {                                           // (a) random
        out.count("class_arb_random");
        if (r.chance(50)) { for (int i = 0; i < 6; i++) v[i] = rndDouble(r, -332, 331); out.count("arb_random_independent_exponents"); }
        else { int e0 = r.range(-328, 327); int j = r.range(0, 4); for (int i = 0; i < 6; i++) v[i] = rndDouble(r, e0 - j, e0 + j); out.count("arb_random_same_scale"); }
    } else if (k < 50) {                                    // (b) near-collinear, computed in double
        out.count("class_arb_near_collinear");
        int e0 = r.range(-320, 320); int j = r.range(0, 3);
        for (int i = 0; i < 4; i++) v[i] = rndDouble(r, e0 - j, e0 + j);
        int m = (int) r.below(10);
        if (m < 2) { v[4] = (v[0] + v[2]) / 2; v[5] = (v[1] + v[3]) / 2; out.count("arb_midpoint"); }
        else {
            double t;
            if (m < 4) { static const double T[] = {0.5, 2.0, -1.0, 0.25, 1.0 / 3.0, 3.0, 0.1, 1.0, 0.0, 1e-9, 1e9}; t = T[r.below(sizeof T / sizeof T[0])]; out.count("arb_param_special"); }
            else if (m < 8) { t = r.unit() * 3 - 1; out.count("arb_param_unit"); }
            else { t = rndDouble(r, -40, 40); out.count("arb_param_wide"); }
            v[4] = v[0] + t * (v[2] - v[0]); v[5] = v[1] + t * (v[3] - v[1]);
        }
    } else if (k < 65) {                                    // (c) mixed exponents
        out.count("class_arb_mixed_exponents");
        auto band = [&](int b) -> double { return b == 0 ? rndDouble(r, -332, -300) : b == 1 ? rndDouble(r, -10, 10) : rndDouble(r, 300, 331); };
        if (r.chance(50)) { for (int pnt = 0; pnt < 3; pnt++) { int b = (int) r.below(3); v[2 * pnt] = band(b); v[2 * pnt + 1] = band(b); } out.count("arb_mixed_per_point"); }
        else { for (int i = 0; i < 6; i++) v[i] = band((int) r.below(3)); out.count("arb_mixed_per_coordinate"); }
    } else if (k < 85) {                                    // (d) big lattice (up to 52 bits), collinear / off by one
        out.count("class_arb_biglattice");
        Tri t = gridTriple(r, 52, out, "big"); int kk = r.range(-300, 300);
        triToDoubles(t, kk, v); detStats(t, out, "big");
    } else {                                                // (e) special values
        out.count("class_arb_specials");
        size_t ns = sizeof SPECIALS / sizeof SPECIALS[0];
        for (int i = 0; i < 6; i++) v[i] = SPECIALS[r.below(ns)];
        if (r.chance(30)) { v[4] = v[0] + 0.5 * (v[2] - v[0]); v[5] = v[1] + 0.5 * (v[3] - v[1]); }
    }
    for (int i = 0; i < 6; i++) { v[i] = nz(v[i]); if (!std::isfinite(v[i])) v[i] = 1.0; }
}

// ------------------------------------------------------------------------------------------ rings: generator

struct Box { ll lox, loy, hix, hiy; };
struct RingG { std::vector<IP> v; bool simple; std::string kind; Box box; };

static Box pickBox(Rng& r, Out& out) {
    int k = (int) r.below(100); ll S;
    if (k < 40) S = 8; else if (k < 70) S = 20; else if (k < 85) S = 100; else if (k < 95) S = 1LL << r.range(8, 24); else S = 2 * GRID;
    out.count(S == 8 ? "box_span_8" : S == 20 ? "box_span_20" : S == 100 ? "box_span_100" : S == 2 * GRID ? "box_span_full" : "box_span_big");
    Box b;
    if (S == 2 * GRID) { b.lox = b.loy = -GRID; b.hix = b.hiy = GRID; return b; }
    int m = (int) r.below(100);
    if (m < 50) { b.lox = 0; b.loy = 0; }
    else if (m < 75) { b.lox = -randIn(r, 0, S); b.loy = -randIn(r, 0, S); }
    else if (m < 90) { b.lox = randIn(r, -GRID, GRID - S); b.loy = randIn(r, -GRID, GRID - S); }
    else { b.lox = r.chance(50) ? -GRID : GRID - S; b.loy = r.chance(50) ? -GRID : GRID - S; out.count("box_at_grid_edge"); }
    b.hix = b.lox + S; b.hiy = b.loy + S; return b;
}
static IP rndIn(Rng& r, const Box& b) { return IP{randIn(r, b.lox, b.hix), randIn(r, b.loy, b.hiy)}; }

static int halfOf(const IP& d) { return (d.y > 0 || (d.y == 0 && d.x > 0)) ? 0 : 1; }

// star-shaped polygon around c; empty result when it cannot be made
static std::vector<IP> starPolygon(Rng& r, const Box& b, int want) {
    ll qx = (b.hix - b.lox) / 4, qy = (b.hiy - b.loy) / 4;
    IP c{randIn(r, b.lox + qx, b.hix - qx), randIn(r, b.loy + qy, b.hiy - qy)};   // centre in the middle half: angular gaps stay below pi
    std::vector<IP> d;
    for (int i = 0; i < want * 2 && (int) d.size() < want; i++) { IP q = rndIn(r, b); if (q != c) d.push_back(q - c); }
    std::sort(d.begin(), d.end(), [](const IP& p, const IP& q) { int hp = halfOf(p), hq = halfOf(q); if (hp != hq) return hp < hq; ll cr = cross(p, q); if (cr != 0) return cr > 0;
                                                               return p.x * p.x + p.y * p.y < q.x * q.x + q.y * q.y; });
    std::vector<IP> u;
    for (auto& q : d) { if (!u.empty() && halfOf(u.back()) == halfOf(q) && cross(u.back(), q) == 0) continue; u.push_back(q); }
    if (u.size() < 3) return {};
    for (size_t i = 0; i < u.size(); i++) if (cross(u[i], u[(i + 1) % u.size()]) <= 0) return {};   // an angular gap >= pi
    std::vector<IP> p; for (auto& q : u) p.push_back(c + q);
    return p;
}
static std::vector<IP> convexHull(std::vector<IP> pts) {
    std::sort(pts.begin(), pts.end(), [](const IP& a, const IP& b) { return a.x < b.x || (a.x == b.x && a.y < b.y); });
    pts.erase(std::unique(pts.begin(), pts.end()), pts.end());
    if (pts.size() < 3) return {};
    std::vector<IP> h(2 * pts.size()); size_t k = 0;
    for (size_t i = 0; i < pts.size(); i++) { while (k >= 2 && det128(h[k - 2], h[k - 1], pts[i]) <= 0) k--; h[k++] = pts[i]; }
    for (size_t i = pts.size() - 1, t = k + 1; i > 0; i--) { while (k >= t && det128(h[k - 2], h[k - 1], pts[i - 1]) <= 0) k--; h[k++] = pts[i - 1]; }
    h.resize(k - 1);
    if (h.size() < 3) return {};
    return h;
}
static std::vector<ll> sortedDistinct(Rng& r, ll lo, ll hi, int n) {
    std::vector<ll> v; for (int i = 0; i < n * 3 && (int) v.size() < n; i++) { ll x = randIn(r, lo, hi); if (std::find(v.begin(), v.end(), x) == v.end()) v.push_back(x); }
    std::sort(v.begin(), v.end()); return v;
}
static std::vector<IP> staircase(Rng& r, const Box& b) {
    int steps = r.range(1, 5);
    std::vector<ll> xs = sortedDistinct(r, b.lox, b.hix, steps + 1), ys = sortedDistinct(r, b.loy, b.hiy, steps + 1);
    size_t k = std::min(xs.size(), ys.size()); if (k < 2) return {};
    k -= 1; std::vector<IP> p; p.push_back(IP{xs[0], ys[0]}); p.push_back(IP{xs[k], ys[0]});
    for (size_t i = 1; i <= k; i++) { p.push_back(IP{xs[k - i + 1], ys[i]}); p.push_back(IP{xs[k - i], ys[i]}); }
    return p;   // rectangle when k == 1
}
static void insertCollinear(Rng& r, std::vector<IP>& p, int pct) {
    std::vector<IP> q; size_t n = p.size();
    for (size_t i = 0; i < n; i++) {
        IP a = p[i], b = p[(i + 1) % n]; q.push_back(a);
        IP d = b - a; ll g = gcdll(d.x, d.y);
        if (g > 1 && r.chance(pct)) {
            IP s{d.x / g, d.y / g}; ll t1 = randIn(r, 1, g - 1), t2 = randIn(r, 1, g - 1);
            if (t1 > t2) std::swap(t1, t2);
            q.push_back(a + t1 * s); if (t2 != t1 && r.chance(50)) q.push_back(a + t2 * s);
        }
    }
    p.swap(q);
}
static void transformInBox(Rng& r, std::vector<IP>& p, const Box& b) {
    // symmetries of the (square) box keep simplicity: transpose, mirror
    if (r.chance(50)) for (auto& q : p) { ll dx = q.x - b.lox, dy = q.y - b.loy; q.x = b.lox + dy; q.y = b.loy + dx; }
    if (r.chance(50)) for (auto& q : p) q.x = b.lox + b.hix - q.x;
    if (r.chance(50)) for (auto& q : p) q.y = b.loy + b.hiy - q.y;
}

static RingG genRing(Rng& r, Out& out, bool forCCW) {
    RingG g; g.box = pickBox(r, out); const Box& b = g.box;
    std::vector<IP> p; g.simple = false;
    int k = (int) r.below(100);
    int simplePct = forCCW ? 70 : 62;
    if (k < simplePct) {
        int m = (int) r.below(100);
        if (m < 35) { p = starPolygon(r, b, r.range(4, 14)); g.kind = "star"; }
        else if (m < 60) { p = staircase(r, b); g.kind = "staircase"; }
        else if (m < 80) { std::vector<IP> pts; int n = r.range(3, 14); for (int i = 0; i < n; i++) pts.push_back(rndIn(r, b)); p = convexHull(pts); g.kind = "hull"; }
        else { IP a = rndIn(r, b), c = rndIn(r, b), d = rndIn(r, b); if (det128(a, c, d) != 0) { p = {a, c, d}; } g.kind = "triangle"; }
        if (p.size() >= 3) {
            g.simple = true;
            transformInBox(r, p, b);
            if (r.chance(40)) insertCollinear(r, p, 50);
            if (r.chance(50)) std::reverse(p.begin(), p.end());
            std::rotate(p.begin(), p.begin() + (long) r.below(p.size()), p.end());
            if (forCCW && r.chance(15)) {          // repeated consecutive points (zero-length edges) keep the area orientation
                std::vector<IP> q; for (auto& x : p) { q.push_back(x); if (r.chance(25)) q.push_back(x); } p.swap(q); g.kind += "_dup";
            }
        }
    }
    if (!g.simple) {
        p.clear();
        int m = (int) r.below(100);
        if (m < 22) { int n = r.range(1, 9); for (int i = 0; i < n; i++) p.push_back(rndIn(r, b)); g.kind = "walk"; }
        else if (m < 34) { int n = r.range(1, 3); for (int i = 0; i < n; i++) p.push_back(rndIn(r, b)); g.kind = "tiny"; }
        else if (m < 50) {                              // flat: all on one line
            IP a = rndIn(r, b); IP s; int d = (int) r.below(4);
            if (d == 0) s = IP{1, 0}; else if (d == 1) s = IP{0, 1}; else if (d == 2) s = IP{1, 1}; else s = IP{randIn(r, -3, 3), randIn(r, -3, 3)};
            if (s.x == 0 && s.y == 0) s.x = 1;
            int n = r.range(2, 7);
            for (int i = 0; i < n; i++) { IP q = a + randIn(r, -6, 6) * s; q.x = clampll(q.x, -GRID, GRID); q.y = clampll(q.y, -GRID, GRID); if (det128(a, a + s, q) == 0) p.push_back(q); }
            if (p.empty()) p.push_back(a);
            g.kind = "flat";
        } else if (m < 62) {                            // bow-tie
            std::vector<ll> xs = sortedDistinct(r, b.lox, b.hix, 2), ys = sortedDistinct(r, b.loy, b.hiy, 2);
            if (xs.size() == 2 && ys.size() == 2) { p = {IP{xs[0], ys[0]}, IP{xs[1], ys[1]}, IP{xs[1], ys[0]}, IP{xs[0], ys[1]}}; if (r.chance(50)) for (auto& q : p) std::swap(q.x, q.y);
                for (auto& q : p) { q.x = clampll(q.x, -GRID, GRID); q.y = clampll(q.y, -GRID, GRID); } }
            else p.push_back(rndIn(r, b));
            g.kind = "bowtie";
        } else {                                        // a simple polygon damaged: repeated vertices, zero-length edges, spikes, revisits
            std::vector<IP> q = r.chance(50) ? staircase(r, b) : starPolygon(r, b, r.range(3, 8));
            if (q.size() < 3) { q.clear(); int n = r.range(3, 6); for (int i = 0; i < n; i++) q.push_back(rndIn(r, b)); }
            if (r.chance(40)) insertCollinear(r, q, 50);
            int what = (int) r.below(4);
            for (size_t i = 0; i < q.size(); i++) {
                p.push_back(q[i]);
                if (!r.chance(30)) continue;
                if (what == 0) p.push_back(q[i]);                                               // zero-length edge
                else if (what == 1) { p.push_back(rndIn(r, b)); p.push_back(q[i]); }            // spike A-B-A
                else if (what == 2) p.push_back(q[r.below(q.size())]);                          // revisit another vertex
                else { p.push_back(q[i]); p.push_back(q[i]); }
            }
            g.kind = what == 0 ? "dup_vertex" : what == 1 ? "spike" : what == 2 ? "revisit" : "triple_vertex";
            if (r.chance(50)) std::reverse(p.begin(), p.end());
        }
    }
    g.v = p; g.v.push_back(p[0]);
    // a ring of exactly one coordinate (no closing copy) now and then
    if (!g.simple && p.size() == 1 && r.chance(30)) { g.v.pop_back(); g.kind = "single"; }
    return g;
}

static IP clampGrid(IP p) { p.x = clampll(p.x, -GRID, GRID); p.y = clampll(p.y, -GRID, GRID); return p; }

static IP genTestPoint(Rng& r, const RingG& g, Out& out) {
    const std::vector<IP>& v = g.v; size_t n = v.size(); const Box& b = g.box;
    ll S = b.hix - b.lox;
    int k = (int) r.below(100);
    if (k < 12) { out.count("pt_kind_vertex"); return v[r.below(n)]; }
    if (k < 30 && n >= 2) {                                // lattice point on an edge
        size_t i = r.below(n - 1); IP a = v[i], d = v[i + 1] - a; ll gg = gcdll(d.x, d.y);
        out.count("pt_kind_on_edge");
        if (gg == 0) return a;
        return a + randIn(r, 0, gg) * IP{d.x / gg, d.y / gg};
    }
    if (k < 42 && n >= 2) {                                // one unit off an edge
        size_t i = r.below(n - 1); IP a = v[i], d = v[i + 1] - a; ll gg = gcdll(d.x, d.y);
        IP q = gg == 0 ? a : a + randIn(r, 0, gg) * IP{d.x / gg, d.y / gg};
        out.count("pt_kind_off_edge_by_one");
        return clampGrid(nudge(r, q, GRID));
    }
    if (k < 62) {                                          // level with a vertex: vertices lie on the ray (or behind it)
        IP a = v[r.below(n)]; ll x;
        int m = (int) r.below(4);
        if (m == 0) x = a.x - randIn(r, 1, std::max<ll>(1, S)); else if (m == 1) x = a.x + randIn(r, 1, std::max<ll>(1, S)); else if (m == 2) x = randIn(r, b.lox - 2, b.hix + 2); else x = a.x - 1;
        out.count("pt_kind_level_with_vertex");
        return clampGrid(IP{x, a.y});
    }
    if (k < 72 && n >= 2) {                                // level with a horizontal edge if there is one
        std::vector<size_t> hs; for (size_t i = 0; i + 1 < n; i++) if (v[i].y == v[i + 1].y) hs.push_back(i);
        if (!hs.empty()) {
            size_t i = hs[r.below(hs.size())]; ll x0 = std::min(v[i].x, v[i + 1].x), x1 = std::max(v[i].x, v[i + 1].x);
            int m = (int) r.below(3); ll x = m == 0 ? randIn(r, x0, x1) : m == 1 ? x0 - randIn(r, 1, 3) : x1 + randIn(r, 1, 3);
            out.count("pt_kind_level_with_horizontal_edge");
            return clampGrid(IP{x, v[i].y});
        }
    }
    if (k < 82 && n >= 4) {                                // mean of three vertices: inside convex / star rings more often than not
        IP a = v[r.below(n)], c = v[r.below(n)], d = v[r.below(n)];
        out.count("pt_kind_vertex_mean");
        return clampGrid(IP{floordiv(a.x + c.x + d.x, 3), floordiv(a.y + c.y + d.y, 3)});
    }
    if (k < 92) { out.count("pt_kind_random"); return clampGrid(IP{randIn(r, b.lox - 2, b.hix + 2), randIn(r, b.loy - 2, b.hiy + 2)}); }
    out.count("pt_kind_far");
    if (r.chance(50)) return IP{randIn(r, -GRID, GRID), randIn(r, -GRID, GRID)};
    IP a = v[r.below(n)];
    return r.chance(50) ? IP{r.chance(50) ? -GRID : GRID, a.y} : IP{a.x, r.chance(50) ? -GRID : GRID};
}

// ------------------------------------------------------------------------------------------ rings: implementation side

struct PolyCache {
    GEOSContextHandle_t h;
    std::vector<double> key; bool valid = false;
    geos::geom::GeometryFactory::Ptr gf;
    std::unique_ptr<geos::geom::Polygon> poly;
    std::unique_ptr<geos::algorithm::locate::IndexedPointInAreaLocator> ipa;
    GEOSGeometry* cpoly = nullptr; const GEOSPreparedGeometry* prep = nullptr;
    geos::algorithm::PointLocator ploc;
    explicit PolyCache(GEOSContextHandle_t hh) : h(hh), gf(geos::geom::GeometryFactory::create()) {}
    void clear() {
        ipa.reset(); poly.reset();
        if (prep) GEOSPreparedGeom_destroy_r(h, prep); prep = nullptr;
        if (cpoly) GEOSGeom_destroy_r(h, cpoly); cpoly = nullptr;
        valid = false;
    }
    void set(const std::vector<double>& xy) {
        if (valid && xy == key) return;
        clear(); key = xy; valid = true;
        size_t n = xy.size() / 2;
        try {
            auto seq = std::make_unique<CoordinateSequence>(0u, false, false);
            seq->reserve(n);
            for (size_t i = 0; i < n; i++) seq->add(CoordinateXY(xy[2 * i], xy[2 * i + 1]));
            auto lr = gf->createLinearRing(std::move(seq));
            poly = gf->createPolygon(std::move(lr));
            ipa = std::make_unique<geos::algorithm::locate::IndexedPointInAreaLocator>(*poly);
        } catch (...) { ipa.reset(); poly.reset(); }
        GEOSCoordSequence* cs = GEOSCoordSeq_copyFromBuffer_r(h, xy.data(), (unsigned) n, 0, 0);
        GEOSGeometry* ring = cs ? GEOSGeom_createLinearRing_r(h, cs) : nullptr;
        cpoly = ring ? GEOSGeom_createPolygon_r(h, ring, nullptr, 0) : nullptr;
        prep = cpoly ? GEOSPrepare_r(h, cpoly) : nullptr;
    }
    ~PolyCache() { clear(); }
};

static std::string ringCaseLine(bool simple, double px, double py, const std::vector<double>& xy) {
    std::string s = "R "; s += simple ? "1 " : "0 "; s += std::to_string(xy.size() / 2);
    s.reserve(s.size() + 17 * (xy.size() + 2));
    addHex(s, px); addHex(s, py);
    for (double d : xy) addHex(s, d);
    return s;
}
static std::string ringExpect(PolyCache& pc, bool simple, double px, double py, const std::vector<double>& xy, char* locOut = nullptr) {
    size_t n = xy.size() / 2;
    CoordinateXY p(px, py);
    CoordinateSequence seq(0u, false, false); seq.reserve(n);
    for (size_t i = 0; i < n; i++) seq.add(CoordinateXY(xy[2 * i], xy[2 * i + 1]));
    std::string s;
    char inPoly = 'X';
    try { char c = locTok(PointLocation::locateInRing(p, seq)); s += c; if (locOut) *locOut = c; } catch (...) { s += "EXC"; }
    s += ' ';
    try {
        RayCrossingCounter rcc(p);
        for (size_t i = 1; i < n; i++) rcc.countSegment(seq.getAt<CoordinateXY>(i - 1), seq.getAt<CoordinateXY>(i));
        s += locTok(rcc.getLocation());
        inPoly = rcc.isPointInPolygon() ? '1' : '0';
    } catch (...) { s += "EXC"; }
    s += ' ';
    try { s += PointLocation::isOnLine(p, &seq) ? '1' : '0'; } catch (...) { s += "EXC"; }
    s += ' ';
    s += inPoly;          // RayCrossingCounter::isPointInPolygon() after all segments
    if (simple) {
        pc.set(xy);
        s += ' ';
        if (!pc.poly) s += "NOPOLY";
        else { try { s += locTok(geos::algorithm::locate::SimplePointInAreaLocator::locate(p, pc.poly.get())); } catch (...) { s += "EXC"; } }
        s += ' ';
        if (!pc.ipa) s += "NOPOLY";
        else { try { s += locTok(pc.ipa->locate(&p)); } catch (...) { s += "EXC"; } }
        s += ' ';
        if (!pc.prep) s += "NOPOLY";
        else { char c = GEOSPreparedIntersectsXY_r(pc.h, pc.prep, px, py); s += c == 1 ? '1' : c == 0 ? '0' : 'E'; }
        s += ' ';
        if (!pc.poly) s += "NOPOLY";
        else { try { s += locTok(pc.ploc.locate(p, static_cast<const geos::geom::Geometry*>(pc.poly.get()))); } catch (...) { s += "EXC"; } }   // the general-purpose PointLocator, one object reused
    }
    return s;
}

// ------------------------------------------------------------------------------------------ segment / segment

static std::string segBoth(GEOSContextHandle_t h, const double v[8], std::string& expect, int* codeOut = nullptr, int* properOut = nullptr) {
    Coordinate p1(v[0], v[1]), p2(v[2], v[3]), q1(v[4], v[5]), q2(v[6], v[7]);
    std::string c = "S"; for (int i = 0; i < 8; i++) addHex(c, v[i]);
    std::string e;
    LineIntersector li;
    bool ok = true; size_t code = 0; bool proper = false;
    try { li.computeIntersection(p1, p2, q1, q2); code = li.getIntersectionNum(); proper = li.isProper(); } catch (...) { ok = false; }
    if (!ok) { c += " - -"; e = "EXC"; }
    else {
        if (proper) { addHex(c, li.getIntersection(0).x); addHex(c, li.getIntersection(0).y); } else c += " - -";
        e += std::to_string(code); e += proper ? " 1" : " 0";
        if (!proper) { for (size_t i = 0; i < code; i++) { addHex(e, li.getIntersection(i).x); addHex(e, li.getIntersection(i).y); } }
        else e += " in:1 close:1";
    }
    double cx = 0, cy = 0;
    int ret = GEOSSegmentIntersection_r(h, v[0], v[1], v[2], v[3], v[4], v[5], v[6], v[7], &cx, &cy);
    e += " c:"; e += std::to_string(ret);
    bool cpok = (ret != 1) || (ok && code > 0 && bits(cx) == bits(li.getIntersection(0).x) && bits(cy) == bits(li.getIntersection(0).y));
    e += cpok ? " cp:ok" : " cp:BAD";
    if (codeOut) *codeOut = ok ? (int) code : -1; if (properOut) *properOut = proper ? 1 : 0;
    expect = e;
    return c;
}

struct Seg4 { IP p1, p2, q1, q2; };

// b = a + m*s : a segment with interior lattice points
static void latticeSeg(Rng& r, ll L, IP& a, IP& b, IP& s, ll& m) {
    a = rndPt(r, L); ll S = std::max<ll>(1, L / 8);
    s = rndPt(r, S); if (s.x == 0 && s.y == 0) s.x = 1;
    m = randIn(r, 2, 8); b = a + m * s;
}
static IP offLine(Rng& r, ll L, const IP& a, const IP& b) {
    for (int i = 0; i < 8; i++) { IP q = rndPt(r, L); if (det128(a, b, q) != 0) return q; }
    IP d = b - a; return IP{a.x - d.y - 1, a.y + d.x + 1};
}

static Seg4 genSeg(Rng& r, Out& out) {
    int lk = (int) r.below(100); ll L = lk < 50 ? 8 : lk < 80 ? 20 : lk < 90 ? 1000 : (1LL << 22);
    out.count(L == 8 ? "seg_span_8" : L == 20 ? "seg_span_20" : L == 1000 ? "seg_span_1000" : "seg_span_2^22");
    Seg4 g; bool shuffle = true;
    int k = (int) r.below(100);
    if (k < 10) {                                           // shared endpoints, all four pairings
        out.count("class_seg_shared_endpoint");
        IP c = rndPt(r, L), a = rndPt(r, L), b = rndPt(r, L);
        switch (r.below(4)) { case 0: g = Seg4{c, a, c, b}; out.count("seg_shared_p1q1"); break; case 1: g = Seg4{c, a, b, c}; out.count("seg_shared_p1q2"); break;
                              case 2: g = Seg4{a, c, c, b}; out.count("seg_shared_p2q1"); break; default: g = Seg4{a, c, b, c}; out.count("seg_shared_p2q2"); break; }
        shuffle = false;
    } else if (k < 30) {                                    // collinear family: o + t*s
        out.count("class_seg_collinear");
        IP o = rndPt(r, L); IP s = rndPt(r, 3); if (s.x == 0 && s.y == 0) s.y = 1;
        if (r.chance(30)) { if (r.chance(50)) s.x = 0; else s.y = 0; if (s.x == 0 && s.y == 0) s.x = 1; }
        ll t[4]; ll a = randIn(r, -5, 2), len = randIn(r, 1, 8);
        switch (r.below(7)) {
            case 0: t[0] = a; t[1] = a + len; t[2] = a + randIn(r, 1, len); t[3] = a + len + randIn(r, 1, 5); if (t[2] == t[1]) t[2]--; out.count("seg_col_partial"); break;
            case 1: t[0] = a; t[1] = a + len + 2; t[2] = a + 1; t[3] = a + 1 + randIn(r, 0, len); out.count("seg_col_contained"); break;
            case 2: t[0] = a; t[1] = a + len; t[2] = a; t[3] = a + len; out.count("seg_col_identical"); break;
            case 3: t[0] = a; t[1] = a + len; t[2] = a + len; t[3] = a; out.count("seg_col_reversed"); break;
            case 4: t[0] = a; t[1] = a + len; t[2] = a + len; t[3] = a + len + randIn(r, 1, 5); out.count("seg_col_touch"); break;
            case 5: t[0] = a; t[1] = a + len; t[2] = a + len + randIn(r, 1, 4); t[3] = t[2] + randIn(r, 0, 5); out.count("seg_col_disjoint"); break;
            default: t[0] = a; t[1] = a + len; t[2] = a; t[3] = a + randIn(r, 1, len + 3); out.count("seg_col_shared_start"); break;
        }
        g = Seg4{o + t[0] * s, o + t[1] * s, o + t[2] * s, o + t[3] * s};
    } else if (k < 42) {                                    // T-junction: an endpoint in the interior of the other segment
        out.count("class_seg_t_junction");
        IP a, b, s; ll m; latticeSeg(r, L, a, b, s, m);
        IP q1 = a + randIn(r, 1, m - 1) * s; IP q2 = offLine(r, L, a, b);
        g = Seg4{a, b, q1, q2};
    } else if (k < 52) {                                    // near miss: the touching endpoint one unit off
        out.count("class_seg_near_miss");
        IP a, b, s; ll m; latticeSeg(r, L, a, b, s, m);
        IP q1 = nudge(r, a + randIn(r, 0, m) * s, 4 * GRID); IP q2 = offLine(r, L, a, b);
        g = Seg4{a, b, q1, q2};
    } else if (k < 62) {                                    // degenerate segments
        out.count("class_seg_degenerate");
        IP a, b, s; ll m; latticeSeg(r, L, a, b, s, m);
        switch (r.below(6)) {
            case 0: { IP c = a + randIn(r, 1, m - 1) * s; g = Seg4{c, c, a, b}; out.count("seg_deg_point_in_interior"); break; }
            case 1: { IP c = r.chance(50) ? a : b; g = Seg4{c, c, a, b}; out.count("seg_deg_point_at_endpoint"); break; }
            case 2: { IP c = offLine(r, L, a, b); g = Seg4{c, c, a, b}; out.count("seg_deg_point_off"); break; }
            case 3: { IP c = a + (m + randIn(r, 1, 3)) * s; g = Seg4{c, c, a, b}; out.count("seg_deg_point_collinear_outside"); break; }
            case 4: g = Seg4{a, a, a, a}; out.count("seg_deg_both_equal"); break;
            default: g = Seg4{a, a, b, b}; out.count("seg_deg_both_different"); break;
        }
    } else if (k < 78) {                                    // proper crossings
        out.count("class_seg_proper_crossing");
        if (r.chance(25)) {
            // nearly parallel long segments crossing properly at a lattice point: directions (n, n-1) and (n-1, n-2) have
            // cross product -1 grid unit^2 while the ordinate differences reach 2^25: the worst conditioning the grid allows
            ll n = r.chance(50) ? randIn(r, 3, 1000) : (r.chance(50) ? randIn(r, 1000, 1LL << 20) : (r.chance(50) ? (GRID / 2) - randIn(r, 0, 64) : GRID - 9 - randIn(r, 0, 64)));   // the longest the grid allows: ordinate differences 2^26
            IP d1{n, n - 1}, d2{n - 1, n - 2};
            if (r.chance(30)) { ll m = randIn(r, 2, 9); d2 = IP{m * n - 1, m * (n - 1) - 1}; if (std::max(d2.x, d2.y) > GRID - 9) d2 = IP{n - 1, n - 2}; }   // cross = n - (n-1)... still tiny
            if (r.chance(50)) { std::swap(d1.x, d1.y); std::swap(d2.x, d2.y); }
            if (r.chance(50)) { d1.x = -d1.x; d2.x = -d2.x; }
            ll i1 = 1, j1 = 1, i2 = 1, j2 = 1;
            if (std::max(std::abs(d1.x), std::abs(d1.y)) < GRID / 16 && std::max(std::abs(d2.x), std::abs(d2.y)) < GRID / 16) { i1 = randIn(r, 1, 4); j1 = randIn(r, 1, 4); i2 = randIn(r, 1, 4); j2 = randIn(r, 1, 4); }
            IP c = rndPt(r, 8);
            g = Seg4{c - i1 * d1, c + j1 * d1, c - i2 * d2, c + j2 * d2};
            out.count("seg_cross_near_parallel");
        } else if (r.chance(50)) {
            IP c = rndPt(r, L); ll S = std::max<ll>(1, L / 8); IP d1 = rndPt(r, S), d2 = rndPt(r, S);
            if (d1.x == 0 && d1.y == 0) d1.x = 1;
            if (cross(d1, d2) == 0) d2 = IP{-d1.y, d1.x};
            g = Seg4{c - randIn(r, 1, 4) * d1, c + randIn(r, 1, 4) * d1, c - randIn(r, 1, 4) * d2, c + randIn(r, 1, 4) * d2};
            out.count("seg_cross_lattice");
        } else {
            for (int i = 0; i < 6; i++) {
                g = Seg4{rndPt(r, L), rndPt(r, L), rndPt(r, L), rndPt(r, L)};
                if (sgn128(det128(g.p1, g.p2, g.q1)) * sgn128(det128(g.p1, g.p2, g.q2)) < 0 && sgn128(det128(g.q1, g.q2, g.p1)) * sgn128(det128(g.q1, g.q2, g.p2)) < 0) break;
            }
            out.count("seg_cross_general");
        }
    } else if (k < 84) {                                    // envelope-disjoint
        out.count("class_seg_envelope_disjoint");
        IP a = rndPt(r, L), b = rndPt(r, L); ll mx = std::max(a.x, b.x), my = std::max(a.y, b.y);
        if (r.chance(50)) g = Seg4{a, b, IP{mx + randIn(r, 1, 5), randIn(r, -L, L)}, IP{mx + randIn(r, 1, 5), randIn(r, -L, L)}};
        else g = Seg4{a, b, IP{randIn(r, -L, L), my + randIn(r, 1, 5)}, IP{randIn(r, -L, L), my + randIn(r, 1, 5)}};
    } else if (k < 90) {                                    // parallel
        out.count("class_seg_parallel");
        IP a = rndPt(r, L), b = rndPt(r, L), o = rndPt(r, std::max<ll>(1, L / 4));
        g = Seg4{a, b, a + o, b + o};
        if (r.chance(30)) g.q2 = g.q2 + (b - a);
    } else if (k < 96) {                                    // axis-parallel
        out.count("class_seg_axis_parallel");
        ll x0 = randIn(r, -L, L), x1 = randIn(r, -L, L), y = randIn(r, -L, L), y0 = randIn(r, -L, L), y1 = randIn(r, -L, L), x;
        int m = (int) r.below(4);
        if (m == 0) x = randIn(r, std::min(x0, x1), std::max(x0, x1)); else if (m == 1) x = r.chance(50) ? x0 : x1; else x = randIn(r, -L, L);
        if (m == 3) y0 = y;
        g = Seg4{IP{x0, y}, IP{x1, y}, IP{x, y0}, IP{x, y1}};
    } else {
        out.count("class_seg_random");
        g = Seg4{rndPt(r, L), rndPt(r, L), rndPt(r, L), rndPt(r, L)};
    }
    if (shuffle) {
        if (r.chance(50)) { std::swap(g.p1, g.q1); std::swap(g.p2, g.q2); }
        if (r.chance(50)) std::swap(g.p1, g.p2);
        if (r.chance(50)) std::swap(g.q1, g.q2);
    }
    // translate into the grid: small offsets mostly, sometimes far out / hugging the 2^25 bound
    IP* P[4] = {&g.p1, &g.p2, &g.q1, &g.q2};
    ll mnx = P[0]->x, mxx = P[0]->x, mny = P[0]->y, mxy = P[0]->y;
    for (auto q : P) { mnx = std::min(mnx, q->x); mxx = std::max(mxx, q->x); mny = std::min(mny, q->y); mxy = std::max(mxy, q->y); }
    ll oxlo = -GRID - mnx, oxhi = GRID - mxx, oylo = -GRID - mny, oyhi = GRID - mxy;
    ll ox = 0, oy = 0; int t = (int) r.below(100);
    if (t < 55) { ox = 0; oy = 0; out.count("seg_offset_none"); }
    else if (t < 70) { ox = randIn(r, -L, L); oy = randIn(r, -L, L); out.count("seg_offset_small"); }
    else if (t < 88) { ox = randIn(r, oxlo, oxhi); oy = randIn(r, oylo, oyhi); out.count("seg_offset_anywhere"); }
    else { ox = r.chance(50) ? oxlo : oxhi; oy = r.chance(50) ? oylo : oyhi; out.count("seg_offset_grid_edge"); }
    ox = clampll(ox, oxlo, oxhi); oy = clampll(oy, oylo, oyhi);
    for (auto q : P) { q->x += ox; q->y += oy; }
    return g;
}

// ------------------------------------------------------------------------------------------ ring orientation

static std::string ccwCaseLine(bool simple, const std::vector<double>& xy) {
    std::string s = "C "; s += simple ? "1 " : "0 "; s += std::to_string(xy.size() / 2);
    s.reserve(s.size() + 17 * xy.size());
    for (double d : xy) addHex(s, d);
    return s;
}
static std::string ccwExpect(GEOSContextHandle_t h, const std::vector<double>& xy, int* res = nullptr) {
    size_t n = xy.size() / 2;
    CoordinateSequence seq(0u, false, false); seq.reserve(n);
    for (size_t i = 0; i < n; i++) seq.add(CoordinateXY(xy[2 * i], xy[2 * i + 1]));
    std::string s;
    try { bool c = Orientation::isCCW(&seq); s += c ? '1' : '0'; if (res) *res = c; } catch (...) { s += "EXC"; }
    s += ' ';
    GEOSCoordSequence* cs = GEOSCoordSeq_copyFromBuffer_r(h, xy.data(), (unsigned) n, 0, 0);
    char val = 0;
    if (!cs || GEOSCoordSeq_isCCW_r(h, cs, &val) != 1) s += 'E'; else s += val ? '1' : '0';
    if (cs) GEOSCoordSeq_destroy_r(h, cs);
    s += " a:ok";
    return s;
}


// ------------------------------------------------------------------------------------------ polygon with holes

struct PolyG { std::vector<std::vector<IP>> rings; Box box; };

static int locRing(const std::vector<IP>& rg, const IP& p) {   // exact: 1 inside, 0 boundary, -1 outside (closed ring)
    bool in = false;
    for (size_t i = 0; i + 1 < rg.size(); i++) { const IP& a = rg[i]; const IP& b = rg[i + 1];
        i128 c = det128(a, b, p);
        if (c == 0 && std::min(a.x, b.x) <= p.x && p.x <= std::max(a.x, b.x) && std::min(a.y, b.y) <= p.y && p.y <= std::max(a.y, b.y)) return 0;
        if ((a.y <= p.y && p.y < b.y && c > 0) || (b.y <= p.y && p.y < a.y && c < 0)) in = !in; }
    return in ? 1 : -1;
}
static std::vector<double> ringXY(const std::vector<IP>& rg, int k) { std::vector<double> xy; for (auto& q : rg) { xy.push_back(sc(q.x, k)); xy.push_back(sc(q.y, k)); } return xy; }
static GEOSGeometry* mkRing(GEOSContextHandle_t h, const std::vector<double>& xy) {
    GEOSCoordSequence* cs = GEOSCoordSeq_copyFromBuffer_r(h, xy.data(), (unsigned) (xy.size() / 2), 0, 0);
    return cs ? GEOSGeom_createLinearRing_r(h, cs) : nullptr; }
static GEOSGeometry* mkPoly(GEOSContextHandle_t h, const std::vector<std::vector<double>>& rings) {
    GEOSGeometry* shell = mkRing(h, rings[0]); if (!shell) return nullptr;
    std::vector<GEOSGeometry*> holes; for (size_t i = 1; i < rings.size(); i++) { GEOSGeometry* g = mkRing(h, rings[i]); if (g) holes.push_back(g); }
    return GEOSGeom_createPolygon_r(h, shell, holes.empty() ? nullptr : holes.data(), (unsigned) holes.size()); }

// shell: the box rectangle (sometimes with extra collinear vertices) or a convex hull; holes: small convex rings strictly inside,
// pairwise disjoint but with freely overlapping envelopes (triangles next to squares), checked with GEOSisValid
static PolyG genPolyIn(GEOSContextHandle_t h, Rng& r, Out& out, const Box& box0) {
    PolyG g; g.box = box0; Box b = g.box;
    if (b.hix - b.lox < 6) b.hix = b.lox + 6; if (b.hiy - b.loy < 6) b.hiy = b.loy + 6;
    if (b.hix > GRID) { b.lox -= b.hix - GRID; b.hix = GRID; } if (b.hiy > GRID) { b.loy -= b.hiy - GRID; b.hiy = GRID; }
    g.box = b;
    std::vector<IP> shell;
    if (r.chance(40)) { std::vector<IP> pts; int n = r.range(4, 9); for (int i = 0; i < n; i++) pts.push_back(IP{randIn(r, b.lox, b.hix), randIn(r, b.loy, b.hiy)}); shell = convexHull(pts); if (!shell.empty()) out.count("poly_shell_hull"); }
    if (shell.empty()) { shell = {IP{b.lox, b.loy}, IP{b.hix, b.loy}, IP{b.hix, b.hiy}, IP{b.lox, b.hiy}}; out.count("poly_shell_rect"); }
    if (r.chance(30)) insertCollinear(r, shell, 50);
    if (r.chance(50)) std::reverse(shell.begin(), shell.end());
    shell.push_back(shell[0]); g.rings.push_back(shell);
    int want = r.range(1, 4);
    for (int tries = 0; tries < 12 && (int) g.rings.size() - 1 < want; tries++) {
        ll w = std::max<ll>(2, (b.hix - b.lox) / r.range(1, 4)), hgt = std::max<ll>(2, (b.hiy - b.loy) / r.range(1, 4));
        ll x0 = randIn(r, b.lox + 1, std::max(b.lox + 1, b.hix - 1 - w)), y0 = randIn(r, b.loy + 1, std::max(b.loy + 1, b.hiy - 1 - hgt));
        ll x1 = std::min(b.hix - 1, x0 + w), y1 = std::min(b.hiy - 1, y0 + hgt); if (x1 <= x0 || y1 <= y0) continue;
        std::vector<IP> hole; int kind = (int) r.below(3);
        if (kind == 0) hole = {IP{x0, y0}, IP{x1, y0}, IP{x1, y1}, IP{x0, y1}};
        else if (kind == 1) { hole = {IP{x0, y0}, IP{x1, y0}, IP{x0, y1}}; ll m = r.below(4); for (auto& q : hole) { if (m & 1) q.x = x0 + x1 - q.x; if (m & 2) q.y = y0 + y1 - q.y; } }   // a corner triangle: half of its envelope is free
        else { std::vector<IP> pts; int n = r.range(3, 6); for (int i = 0; i < n; i++) pts.push_back(IP{randIn(r, x0, x1), randIn(r, y0, y1)}); hole = convexHull(pts); }
        if (hole.size() < 3) continue;
        bool inside = true; for (auto& q : hole) if (locRing(shell, q) != 1) inside = false;
        if (!inside) continue;
        if (r.chance(50)) std::reverse(hole.begin(), hole.end());
        hole.push_back(hole[0]); g.rings.push_back(hole);
        std::vector<std::vector<double>> xs; for (auto& rg : g.rings) xs.push_back(ringXY(rg, 0));
        GEOSGeometry* poly = mkPoly(h, xs); bool ok = poly && GEOSisValid_r(h, poly) == 1; if (poly) GEOSGeom_destroy_r(h, poly);
        if (!ok) g.rings.pop_back();
    }
    out.count("poly_holes_" + std::to_string(g.rings.size() - 1));
    return g;
}

static PolyG genPoly(GEOSContextHandle_t h, Rng& r, Out& out) { Box b = pickBox(r, out); return genPolyIn(h, r, out, b); }

static std::string polyCaseLine(double px, double py, const std::vector<std::vector<double>>& rings) {
    std::string s = "Y " + std::to_string(rings.size()); addHex(s, px); addHex(s, py);
    for (auto& xy : rings) { s += " " + std::to_string(xy.size() / 2); for (double d : xy) addHex(s, d); }
    return s;
}
struct PolyObj { GEOSContextHandle_t h; geos::algorithm::PointLocator ploc; GEOSGeometry* poly = nullptr; const GEOSPreparedGeometry* prep = nullptr; std::unique_ptr<geos::algorithm::locate::IndexedPointInAreaLocator> ipa;
    PolyObj(GEOSContextHandle_t hh, const std::vector<std::vector<double>>& rings) : h(hh) { poly = mkPoly(h, rings);
        if (poly) { prep = GEOSPrepare_r(h, poly); try { ipa = std::make_unique<geos::algorithm::locate::IndexedPointInAreaLocator>(*reinterpret_cast<geos::geom::Geometry*>(poly)); } catch (...) {} } }
    ~PolyObj() { ipa.reset(); if (prep) GEOSPreparedGeom_destroy_r(h, prep); if (poly) GEOSGeom_destroy_r(h, poly); } };
// tokens: SimplePointInAreaLocator  IndexedPointInAreaLocator  GEOSPreparedIntersectsXY  GEOSIntersects(point)  GEOSContains(poly, point)  GEOSPreparedContainsXY
//         PointLocator::locate  GEOSPreparedIntersects(prepared POINT, polygon)  [PreparedPoint -> BasicPreparedGeometry::isAnyTargetComponentInTest -> PointLocator]
static std::string polyExpect(PolyObj& po, double px, double py, char* locOut = nullptr) {
    if (!po.poly) return "NOPOLY";
    CoordinateXY p(px, py); std::string s;
    try { char c = locTok(geos::algorithm::locate::SimplePointInAreaLocator::locate(p, reinterpret_cast<geos::geom::Geometry*>(po.poly))); s += c; if (locOut) *locOut = c; } catch (...) { s += "EXC"; }
    s += ' ';
    if (!po.ipa) s += "NOIPA"; else { try { s += locTok(po.ipa->locate(&p)); } catch (...) { s += "EXC"; } }
    auto tf = [](char c) { return c == 1 ? '1' : c == 0 ? '0' : 'E'; };
    s += ' '; s += po.prep ? tf(GEOSPreparedIntersectsXY_r(po.h, po.prep, px, py)) : 'N';
    GEOSGeometry* pt = GEOSGeom_createPointFromXY_r(po.h, px, py);
    s += ' '; s += pt ? tf(GEOSIntersects_r(po.h, po.poly, pt)) : 'N';
    s += ' '; s += pt ? tf(GEOSContains_r(po.h, po.poly, pt)) : 'N';
    s += ' '; s += po.prep ? tf(GEOSPreparedContainsXY_r(po.h, po.prep, px, py)) : 'N';
    s += ' ';
    try { s += locTok(po.ploc.locate(p, reinterpret_cast<geos::geom::Geometry*>(po.poly))); } catch (...) { s += "EXC"; }
    s += ' ';
    { const GEOSPreparedGeometry* pp = pt ? GEOSPrepare_r(po.h, pt) : nullptr;
      s += pp ? tf(GEOSPreparedIntersects_r(po.h, pp, po.poly)) : 'N';
      if (pp) GEOSPreparedGeom_destroy_r(po.h, pp); }
    if (pt) GEOSGeom_destroy_r(po.h, pt);
    return s;
}

// ------------------------------------------------------------------------------------------ PointLocator on any geometry

static std::string seqTokI(const std::vector<IP>& v, int k) {
    std::string s = "xy " + std::to_string(v.size());
    for (auto& q : v) { addHex(s, sc(q.x, k)); addHex(s, sc(q.y, k)); }
    return s;
}
// geometry trees over lattice points of one box: points, open / closed / zero-length lines, rings, polygons with holes,
// MULTI* and nested collections with empty elements; end points and vertices are re-used between elements so that the
// Mod-2 rule sees boundary counts 0, 1, 2, 3
struct PlocGen {
    GEOSContextHandle_t h; Rng& r; Out& out; Box b; int k;
    std::vector<IP> pool; std::vector<std::vector<IP>> chains;
    PlocGen(GEOSContextHandle_t hh, Rng& rr, Out& oo, const Box& bb, int kk) : h(hh), r(rr), out(oo), b(bb), k(kk) {}
    IP pt() { if (!pool.empty() && r.chance(40)) return pool[r.below(pool.size())]; return rndIn(r, b); }
    std::string point() {
        if (r.chance(6)) { out.count("ploc_elem_point_empty"); return "P xy 0"; }
        IP p = pt(); pool.push_back(p); chains.push_back({p}); out.count("ploc_elem_point"); return "P " + seqTokI({p}, k); }
    std::string line() {
        if (r.chance(5)) { out.count("ploc_elem_line_empty"); return "L xy 0"; }
        std::vector<IP> v; int n = r.range(2, 6); for (int i = 0; i < n; i++) v.push_back(pt());
        int m = (int) r.below(100);
        if (m < 22 && n >= 3) { v.push_back(v[0]); out.count("ploc_elem_line_closed"); }
        else if (m < 28) { v.resize(2); v[1] = v[0]; out.count("ploc_elem_line_zero_length"); }
        else if (m < 40) { insertCollinear(r, v, 60); if (v.size() > 2 && r.chance(50)) v.pop_back(); out.count("ploc_elem_line_collinear_vertices"); }
        else out.count("ploc_elem_line_open");
        pool.push_back(v.front()); pool.push_back(v.back()); if (v.size() > 2) pool.push_back(v[1 + r.below(v.size() - 2)]);
        chains.push_back(v); return "L " + seqTokI(v, k); }
    Box subBox() {
        ll S = b.hix - b.lox; if (S < 14 || r.chance(40)) return b;
        ll w = randIn(r, 6, S), x0 = randIn(r, b.lox, b.hix - w), y0 = randIn(r, b.loy, b.hiy - w);
        return Box{x0, y0, x0 + w, y0 + w}; }
    std::string ring() {
        std::vector<IP> p; Box sb = subBox();
        int m = (int) r.below(3);
        if (m == 0) p = staircase(r, sb); else if (m == 1) p = starPolygon(r, sb, r.range(4, 9)); else { std::vector<IP> pts; int n = r.range(3, 9); for (int i = 0; i < n; i++) pts.push_back(rndIn(r, sb)); p = convexHull(pts); }
        if (p.size() < 3) p = {IP{sb.lox, sb.loy}, IP{sb.hix, sb.loy}, IP{sb.lox, sb.hiy}};
        if (r.chance(30)) insertCollinear(r, p, 50);
        if (r.chance(50)) std::reverse(p.begin(), p.end());
        p.push_back(p[0]); pool.push_back(p[r.below(p.size())]); chains.push_back(p); out.count("ploc_elem_ring");
        return "R " + seqTokI(p, k); }
    std::string poly() {
        if (r.chance(5)) { out.count("ploc_elem_polygon_empty"); return "Y 1 xy 0"; }
        PolyG g = genPolyIn(h, r, out, subBox());
        std::string s = "Y " + std::to_string(g.rings.size());
        for (auto& rg : g.rings) { s += " " + seqTokI(rg, k); chains.push_back(rg); pool.push_back(rg[r.below(rg.size())]); }
        out.count("ploc_elem_polygon"); return s; }
    std::string multi(const char* tag, int kind, int lo, int hi) {
        int n = r.range(lo, hi); std::string s = std::string(tag) + " " + std::to_string(n);
        for (int i = 0; i < n; i++) s += " " + (kind == 0 ? point() : kind == 1 ? line() : poly());
        out.count(std::string("ploc_") + tag); return s; }
    std::string geom(int depth) {
        int t = (int) r.below(100);
        if (depth == 0) {
            if (t < 5) return point(); if (t < 17) return line(); if (t < 23) return ring(); if (t < 38) return poly();
            if (t < 46) return multi("MP", 0, 0, 4); if (t < 62) return multi("ML", 1, 1, 4); if (t < 74) return multi("MY", 2, 1, 3);
        } else {
            if (t < 20) return point(); if (t < 48) return line(); if (t < 54) return ring(); if (t < 76) return poly();
            if (t < 81) return multi("MP", 0, 0, 3); if (t < 89) return multi("ML", 1, 1, 3); if (t < 94 || depth >= 2) return multi("MY", 2, 1, 2);
        }
        int n = r.chance(6) ? 0 : r.range(1, 4); std::string s = "GC " + std::to_string(n);
        for (int i = 0; i < n; i++) s += " " + geom(depth + 1);
        out.count("ploc_GC_depth_" + std::to_string(depth)); return s; }
};
static std::string plocCaseLine(double px, double py, const std::string& gt) { std::string s = "G"; addHex(s, px); addHex(s, py); s += " | 0 " + gt; return s; }
// tokens: PointLocator::locate  PointLocator::intersects  GEOSPreparedIntersects(prepared POINT, geometry)
static std::string plocExpect(GEOSContextHandle_t h, geos::algorithm::PointLocator& pl, const geos::geom::Geometry* g, double px, double py, char* locOut = nullptr) {
    CoordinateXY p(px, py); std::string s;
    try { char c = locTok(pl.locate(p, g)); s += c; if (locOut) *locOut = c; } catch (...) { s += "EXC"; }
    s += ' ';
    try { s += pl.intersects(p, g) ? '1' : '0'; } catch (...) { s += "EXC"; }
    s += ' ';
    GEOSGeometry* pt = GEOSGeom_createPointFromXY_r(h, px, py); const GEOSPreparedGeometry* pp = pt ? GEOSPrepare_r(h, pt) : nullptr;
    if (!pp) s += 'N'; else { char c = GEOSPreparedIntersects_r(h, pp, reinterpret_cast<const GEOSGeometry*>(g)); s += c == 1 ? '1' : c == 0 ? '0' : 'E'; }
    if (pp) GEOSPreparedGeom_destroy_r(h, pp); if (pt) GEOSGeom_destroy_r(h, pt);
    return s;
}

// ------------------------------------------------------------------------------------------ replay

static int replay(GEOSContextHandle_t h, const std::string& stream, const char* path) {
    std::ifstream f(path); if (!f) { fprintf(stderr, "cannot open %s\n", path); return 2; }
    std::string line; PolyCache pc(h);
    while (std::getline(f, line)) {
        std::vector<std::string> tk = split(line); if (tk.empty()) continue;
        try {
            if (tk[0] == "O" && tk.size() == 8) {
                double v[6]; for (int i = 0; i < 6; i++) v[i] = unhex(tk[2 + i]);
                std::cout << orientCaseLine(v) << "\n" << (stream == "orientf" ? orientFExpect(v) : orientExpect(h, v)) << "\n";
            } else if (tk[0] == "R" && tk.size() >= 5) {
                size_t n = std::stoul(tk[2]); if (tk.size() != 5 + 2 * n) throw 1;
                double px = unhex(tk[3]), py = unhex(tk[4]); std::vector<double> xy; for (size_t i = 0; i < 2 * n; i++) xy.push_back(unhex(tk[5 + i]));
                bool simple = tk[1] == "1";
                std::cout << ringCaseLine(simple, px, py, xy) << "\n" << ringExpect(pc, simple, px, py, xy) << "\n";
            } else if (tk[0] == "Y" && tk.size() >= 5) {
                size_t nr = std::stoul(tk[1]); double px = unhex(tk[2]), py = unhex(tk[3]); size_t pos = 4; std::vector<std::vector<double>> rings;
                for (size_t q = 0; q < nr; q++) { if (pos >= tk.size()) throw 1; size_t n = std::stoul(tk[pos++]); if (pos + 2 * n > tk.size()) throw 1;
                    std::vector<double> xy; for (size_t i = 0; i < 2 * n; i++) xy.push_back(unhex(tk[pos++])); rings.push_back(xy); }
                if (pos != tk.size() || rings.empty()) throw 1;
                PolyObj po(h, rings);
                std::cout << polyCaseLine(px, py, rings) << "\n" << polyExpect(po, px, py) << "\n";
            } else if (tk[0] == "G" && tk.size() >= 6 && tk[3] == "|") {
                double px = unhex(tk[1]), py = unhex(tk[2]); std::string gt; for (size_t i = 5; i < tk.size(); i++) { if (i > 5) gt += ' '; gt += tk[i]; }
                auto g = vh::buildGeom("0 " + gt, geos::geom::GeometryFactory::getDefaultInstance());
                std::cout << plocCaseLine(px, py, gt) << "\n" << plocExpect(h, pc.ploc, g.get(), px, py) << "\n";
            } else if (tk[0] == "S" && tk.size() >= 9) {
                double v[8]; for (int i = 0; i < 8; i++) v[i] = unhex(tk[1 + i]);
                std::string e; std::string c = segBoth(h, v, e);
                std::cout << c << "\n" << e << "\n";
            } else if (tk[0] == "C" && tk.size() >= 3) {
                size_t n = std::stoul(tk[2]); if (tk.size() != 3 + 2 * n) throw 1;
                std::vector<double> xy; for (size_t i = 0; i < 2 * n; i++) xy.push_back(unhex(tk[3 + i]));
                std::cout << ccwCaseLine(tk[1] == "1", xy) << "\n" << ccwExpect(h, xy) << "\n";
            } else throw 1;
        } catch (...) { std::cout << line << "\nbad-case-line\n"; }
    }
    return 0;
}

// ------------------------------------------------------------------------------------------ main

int main(int argc, char** argv) {
    if (argc < 4) { fprintf(stderr, "usage: c07 <stream> <seed> <n> <outbase> | c07 replay <stream> <file>\n"); return 2; }
    std::string stream = argv[1];
    GEOSContextHandle_t h = GEOS_init_r();
    GEOSContext_setNoticeHandler_r(h, notice); GEOSContext_setErrorHandler_r(h, errorh);
    if (stream == "replay") { int rc = replay(h, argv[2], argv[3]); GEOS_finish_r(h); return rc; }
    if (argc < 5) { fprintf(stderr, "usage\n"); return 2; }
    uint64_t seed = std::stoull(argv[2]); long n = std::stol(argv[3]);
    int rc = 0;
    {
        Out out(argv[4]); Rng r(seed);
        if (stream == "orient" || stream == "orientarb" || stream == "orientf") {
            for (long i = 0; i < n; i++) {
                double v[6];
                bool grid = stream == "orient" || (stream == "orientf" && (i & 1) == 0);
                g_lastDetClass = -1;
                if (grid) genOrientGrid(r, out, v); else genOrientArb(r, out, v);
                int f = CGAlgorithmsDD::orientationIndexFilter(v[0], v[1], v[2], v[3], v[4], v[5]);
                out.count(f == 2 ? "filter_failure" : "filter_answered");
                if (f == 2 && g_lastDetClass == 0) out.count("filter_failure_lattice_det_zero");
                if (f == 2 && g_lastDetClass == 1) out.count("filter_failure_lattice_det_abs_one");
                if (f == 2 && g_lastDetClass == 2) out.count("filter_failure_lattice_det_other");
                if (stream == "orientf") out.emit(orientCaseLine(v), orientFExpect(v));
                else {
                    std::string e = orientExpect(h, v);
                    out.count(std::string("index_") + e.substr(0, e.find(' ')));
                    out.emit(orientCaseLine(v), e);
                }
            }
        } else if (stream == "ring") {
            PolyCache pc(h); long done = 0;
            while (done < n) {
                RingG g = genRing(r, out, false); int k = commonK(r);
                std::vector<double> xy; for (auto& q : g.v) { xy.push_back(sc(q.x, k)); xy.push_back(sc(q.y, k)); }
                out.count(g.simple ? "ring_simple" : "ring_not_simple"); out.count("ring_kind_" + g.kind);
                size_t nv = g.v.size(); out.count(nv <= 4 ? "ring_n_le_4" : nv <= 8 ? "ring_n_5_8" : nv <= 16 ? "ring_n_9_16" : "ring_n_gt_16");
                int npts = r.range(3, 8);
                for (int j = 0; j < npts && done < n; j++, done++) {
                    IP p = genTestPoint(r, g, out);
                    bool onV = false, lvl = false, hlvl = false;
                    for (size_t i = 0; i < nv; i++) { if (g.v[i] == p) onV = true; if (g.v[i].y == p.y) lvl = true; if (i + 1 < nv && g.v[i].y == p.y && g.v[i + 1].y == p.y && g.v[i] != g.v[i + 1]) hlvl = true; }
                    if (onV) out.count("point_on_vertex"); if (lvl) out.count("point_level_with_vertex"); if (hlvl) out.count("horizontal_edge_level");
                    double px = sc(p.x, k), py = sc(p.y, k); char loc = '?';
                    std::string e = ringExpect(pc, g.simple, px, py, xy, &loc);
                    out.count(std::string("loc_") + loc); out.count(g.simple ? "pt_in_simple_ring" : "pt_in_non_simple_ring");
                    out.emit(ringCaseLine(g.simple, px, py, xy), e);
                }
            }
        } else if (stream == "poly") {
            long done = 0;
            while (done < n) {
                PolyG g = genPoly(h, r, out); int k = commonK(r);
                std::vector<std::vector<double>> rings; for (auto& rg : g.rings) rings.push_back(ringXY(rg, k));
                PolyObj po(h, rings);
                int npts = r.range(4, 10);
                for (int j = 0; j < npts && done < n; j++, done++) {
                    // test points are drawn relative to one ring (holes preferred): its vertices, edge points, one-off points, level points, box points
                    size_t ri = g.rings.size() > 1 && r.chance(75) ? 1 + r.below(g.rings.size() - 1) : 0;
                    RingG tmp; tmp.v = g.rings[ri]; tmp.simple = true; tmp.kind = "poly"; tmp.box = g.box;
                    if (ri > 0 && r.chance(60)) { Box hb{tmp.v[0].x, tmp.v[0].y, tmp.v[0].x, tmp.v[0].y}; for (auto& q : tmp.v) { hb.lox = std::min(hb.lox, q.x); hb.hix = std::max(hb.hix, q.x); hb.loy = std::min(hb.loy, q.y); hb.hiy = std::max(hb.hiy, q.y); } tmp.box = hb; }
                    IP p = genTestPoint(r, tmp, out);
                    int inEnv = 0; for (size_t q = 1; q < g.rings.size(); q++) { Box hb{g.rings[q][0].x, g.rings[q][0].y, g.rings[q][0].x, g.rings[q][0].y}; for (auto& t : g.rings[q]) { hb.lox = std::min(hb.lox, t.x); hb.hix = std::max(hb.hix, t.x); hb.loy = std::min(hb.loy, t.y); hb.hiy = std::max(hb.hiy, t.y); }
                        if (hb.lox <= p.x && p.x <= hb.hix && hb.loy <= p.y && p.y <= hb.hiy) inEnv++; }
                    out.count("pt_in_hole_envelopes_" + std::to_string(std::min(inEnv, 3)));
                    double px = sc(p.x, k), py = sc(p.y, k); char loc = '?';
                    std::string e = polyExpect(po, px, py, &loc);
                    out.count(std::string("poly_loc_") + loc);
                    out.emit(polyCaseLine(px, py, rings), e);
                }
            }
        } else if (stream == "ploc") {
            long done = 0; geos::algorithm::PointLocator pl;          // one locator object for the whole stream (its members are query state)
            auto gf = geos::geom::GeometryFactory::getDefaultInstance();
            while (done < n) {
                Box b = pickBox(r, out); int k = commonK(r);
                PlocGen gen(h, r, out, b, k);
                std::string gt = gen.geom(0);
                std::unique_ptr<geos::geom::Geometry> g;
                try { g = vh::buildGeom("0 " + gt, gf); } catch (...) { out.count("ploc_build_rejected"); continue; }
                out.count(std::string("ploc_top_") + g->getGeometryType()); if (g->isEmpty()) out.count("ploc_top_empty");
                int npts = r.range(4, 10);
                for (int j = 0; j < npts && done < n; j++, done++) {
                    IP p;
                    if (gen.chains.empty()) p = rndIn(r, b);
                    else if (r.chance(25)) { p = gen.pool[r.below(gen.pool.size())]; out.count("pt_kind_shared_vertex"); }
                    else { RingG tmp; tmp.v = gen.chains[r.below(gen.chains.size())]; tmp.simple = false; tmp.kind = "ploc"; tmp.box = b; p = genTestPoint(r, tmp, out); }
                    double px = sc(p.x, k), py = sc(p.y, k); char loc = '?';
                    std::string e = plocExpect(h, pl, g.get(), px, py, &loc);
                    out.count(std::string("ploc_loc_") + loc);
                    out.emit(plocCaseLine(px, py, gt), e);
                }
            }
        } else if (stream == "segseg") {
            for (long i = 0; i < n; i++) {
                Seg4 g = genSeg(r, out); int k = commonK(r);
                double v[8] = {sc(g.p1.x, k), sc(g.p1.y, k), sc(g.p2.x, k), sc(g.p2.y, k), sc(g.q1.x, k), sc(g.q1.y, k), sc(g.q2.x, k), sc(g.q2.y, k)};
                std::string e; int code = 0, proper = 0; std::string c = segBoth(h, v, e, &code, &proper);
                // The proper intersection point is computed from terms cubic in the coordinates
                // (CGAlgorithmsDD::intersection); beyond |coordinate| ~ 2^340 these overflow / underflow, which is
                // outside the property's domain ("determinants exactly computable").  Classification (degree 2) is
                // still exercised on the whole range; proper crossings are re-drawn with |k| <= 300.
                if (proper && (k < -300 || k > 300)) {
                    k = r.range(-300, 300);
                    double w[8] = {sc(g.p1.x, k), sc(g.p1.y, k), sc(g.p2.x, k), sc(g.p2.y, k), sc(g.q1.x, k), sc(g.q1.y, k), sc(g.q2.x, k), sc(g.q2.y, k)};
                    c = segBoth(h, w, e, &code, &proper);
                    out.count("proper_rescaled_to_cubic_safe_range");
                }
                out.count("code_" + std::to_string(code)); if (proper) out.count("proper_1"); else if (code == 1) out.count("point_not_proper");
                out.count(k < -300 ? "scale_k_lt_-300" : k > 300 ? "scale_k_gt_300" : "scale_k_mid");
                out.emit(c, e);
            }
        } else if (stream == "ccw") {
            for (long i = 0; i < n; i++) {
                RingG g = genRing(r, out, true); int k = commonK(r);
                std::vector<double> xy; for (auto& q : g.v) { xy.push_back(sc(q.x, k)); xy.push_back(sc(q.y, k)); }
                out.count(g.simple ? "ring_simple" : "ring_not_simple"); out.count("ring_kind_" + g.kind);
                // flat top: at least two consecutive distinct vertices at the maximal y
                ll ymax = g.v[0].y; for (auto& q : g.v) ymax = std::max(ymax, q.y);
                bool flatTop = false; int nTop = 0; for (size_t j = 0; j + 1 < g.v.size(); j++) { if (g.v[j].y == ymax) nTop++; if (g.v[j].y == ymax && g.v[j + 1].y == ymax && g.v[j] != g.v[j + 1]) flatTop = true; }
                if (flatTop) out.count("ccw_flat_top"); if (nTop >= 3) out.count("ccw_top_3_or_more_vertices");
                i128 a2 = 0; for (size_t j = 0; j + 1 < g.v.size(); j++) a2 += (i128) g.v[j].x * g.v[j + 1].y - (i128) g.v[j + 1].x * g.v[j].y;
                out.count(a2 > 0 ? "area_positive" : a2 < 0 ? "area_negative" : "area_zero");
                int res = -1; std::string e = ccwExpect(h, xy, &res);
                out.count(res == 1 ? "isccw_true" : "isccw_false");
                out.emit(ccwCaseLine(g.simple, xy), e);
            }
        } else { fprintf(stderr, "unknown stream %s\n", stream.c_str()); rc = 2; }
    }
    GEOS_finish_r(h);
    return rc;
}
