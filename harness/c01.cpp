// C01 correspondence harness: grid-exact geometry pairs through every relate path of the C API.
//   c01 relate-grid <seed> <n> <outbase>
//   c01 replay <file>        (file holds case lines; re-evaluates the observations for "A | B" parts)
#include "gridgen.h"
#include <cstdarg>
#include <fstream>
#include <iostream>
using namespace vh;

static void notice(const char*, ...) {}
static void errorh(const char*, ...) {}

static const char* FIXED_PATTERNS[] = {"T*F**FFF*", "FF*FF****", "T********", "****T****", "0********", "1********", "2********",
    "T*T***T**", "1*T***T**", "T*****FF*", "F***1****", "T**FF*FF*", "FT*******", "F**T*****", "F***T****", "*T*******", "***T*****", "******FF*", "**F*F****"};

static char pc(char r) { return r == 0 ? '0' : r == 1 ? '1' : 'E'; }

static std::string observe(GEOSContextHandle_t h, const GEOSGeometry* a, const GEOSGeometry* b, Rng& r, const std::string& fixedPats) {
    std::string s;
    for (int rule = 1; rule <= 4; rule++) {
        char* m = GEOSRelateBoundaryNodeRule_r(h, a, b, rule);
        s += " m" + std::to_string(rule) + "=" + (m ? m : "E"); if (m) GEOSFree_r(h, m); }
    { char* m = GEOSRelate_r(h, a, b); s += std::string(" m=") + (m ? m : "E"); if (m) GEOSFree_r(h, m); }
    { char* m = GEOSRelate_r(h, b, a); s += std::string(" mt=") + (m ? m : "E"); if (m) GEOSFree_r(h, m); }
    const GEOSPreparedGeometry* pa = GEOSPrepare_r(h, a);
    { char* m = pa ? GEOSPreparedRelate_r(h, pa, b) : nullptr; s += std::string(" pm=") + (m ? m : "E"); if (m) GEOSFree_r(h, m); }
    std::string p;   // intersects disjoint touches crosses within contains overlaps equals covers coveredBy
    p += pc(GEOSIntersects_r(h, a, b)); p += pc(GEOSDisjoint_r(h, a, b)); p += pc(GEOSTouches_r(h, a, b)); p += pc(GEOSCrosses_r(h, a, b));
    p += pc(GEOSWithin_r(h, a, b)); p += pc(GEOSContains_r(h, a, b)); p += pc(GEOSOverlaps_r(h, a, b)); p += pc(GEOSEquals_r(h, a, b));
    p += pc(GEOSCovers_r(h, a, b)); p += pc(GEOSCoveredBy_r(h, a, b));
    s += " P=" + p;
    std::string q;   // prepared: intersects disjoint touches crosses within contains overlaps covers coveredBy containsProperly
    if (pa) { q += pc(GEOSPreparedIntersects_r(h, pa, b)); q += pc(GEOSPreparedDisjoint_r(h, pa, b)); q += pc(GEOSPreparedTouches_r(h, pa, b));
        q += pc(GEOSPreparedCrosses_r(h, pa, b)); q += pc(GEOSPreparedWithin_r(h, pa, b)); q += pc(GEOSPreparedContains_r(h, pa, b));
        q += pc(GEOSPreparedOverlaps_r(h, pa, b)); q += pc(GEOSPreparedCovers_r(h, pa, b)); q += pc(GEOSPreparedCoveredBy_r(h, pa, b));
        q += pc(GEOSPreparedContainsProperly_r(h, pa, b)); }
    s += " Q=" + q;
    // patterns
    std::vector<std::string> pats;
    if (!fixedPats.empty()) { std::istringstream is(fixedPats); std::string t; while (std::getline(is, t, ',')) pats.push_back(t); }
    else {
        pats.push_back(FIXED_PATTERNS[r.below(sizeof FIXED_PATTERNS / sizeof FIXED_PATTERNS[0])]);
        for (int k = 0; k < 2; k++) { std::string t; static const char sym[] = "TF*012***"; for (int i = 0; i < 9; i++) t += sym[r.below(9)]; pats.push_back(t); } }
    s += " pat=";
    for (size_t i = 0; i < pats.size(); i++) { if (i) s += ","; s += pats[i] + ":" + pc(GEOSRelatePattern_r(h, a, b, pats[i].c_str())) + pc(pa ? GEOSPreparedRelatePattern_r(h, pa, b, pats[i].c_str()) : 2); }
    if (pa) GEOSPreparedGeom_destroy_r(h, pa);
    return s;
}

int main(int argc, char** argv) {
    if (argc < 3) return 2;
    std::string stream = argv[1];
    GEOSContextHandle_t h = GEOS_init_r(); GEOSContext_setNoticeHandler_r(h, notice); GEOSContext_setErrorHandler_r(h, errorh);
    auto gf = GeometryFactory::getDefaultInstance();
    if (stream == "replay") {
        std::ifstream f(argv[2]); std::string line; Rng r(1);
        while (std::getline(f, line)) { if (line.empty()) continue;
            // "R | A | B | obs" -> recompute obs with the same patterns
            std::vector<std::string> parts; size_t p = 0; while (true) { size_t q = line.find(" | ", p); if (q == std::string::npos) { parts.push_back(line.substr(p)); break; } parts.push_back(line.substr(p, q - p)); p = q + 3; }
            if (parts.size() < 3) continue;
            std::string pats; if (parts.size() >= 4) { size_t k = parts[3].find("pat="); if (k != std::string::npos) { std::istringstream is(parts[3].substr(k + 4)); std::string t; std::string acc;
                while (std::getline(is, t, ',')) { if (!acc.empty()) acc += ","; acc += t.substr(0, 9); } pats = acc; } }
            auto a = buildGeom(parts[1], gf); auto b = buildGeom(parts[2], gf);
            std::cout << "R | " << parts[1] << " | " << parts[2] << " |" << observe(h, (GEOSGeometry*) a.get(), (GEOSGeometry*) b.get(), r, pats) << "\n"; }
        GEOS_finish_r(h); return 0; }
    if (argc < 5) return 2;
    uint64_t seed = std::stoull(argv[2]); long n = std::stol(argv[3]); Out out(argv[4]); Rng r(seed);
    GridGen gen(r, h, &out);
    for (long i = 0; i < n; i++) {
        gen.span = r.chance(70) ? 6 : (r.chance(50) ? 3 : 8);
        gen.setPartner(GGeom{}, 0);
        GGeom A = gen.geom(3, true, true);
        gen.setPartner(A, r.chance(80) ? 55 : 0);
        GGeom B = r.chance(4) ? A : gen.geom(3, true, true);
        if (r.chance(50)) std::swap(A, B);
        Xform t = gen.xform();
        std::string ta = GridGen::geomTok(A, t), tb = GridGen::geomTok(B, t);
        std::unique_ptr<Geometry> ga, gb;
        try { ga = buildGeom(ta, gf); gb = buildGeom(tb, gf); } catch (...) { out.count("build_rejected"); continue; }
        if (GEOSisValid_r(h, (GEOSGeometry*) ga.get()) != 1 || GEOSisValid_r(h, (GEOSGeometry*) gb.get()) != 1) { out.count("invalid_skipped"); continue; }
        out.count(std::string("typeA_") + ga->getGeometryType()); out.count(std::string("typeB_") + gb->getGeometryType());
        { FILE* cf = std::fopen((std::string(argv[4]) + ".current").c_str(), "w"); if (cf) { std::fprintf(cf, "R | %s | %s |\n", ta.c_str(), tb.c_str()); std::fclose(cf); } }
        std::string obs = observe(h, (GEOSGeometry*) ga.get(), (GEOSGeometry*) gb.get(), r, "");
        { size_t k = obs.find(" m="); out.count("matrix_" + obs.substr(k + 3, 9)); }
        out.emit("R | " + ta + " | " + tb + " |" + obs, "ok");
    }
    GEOS_finish_r(h); return 0;
}
