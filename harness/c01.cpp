// C01 correspondence harness: grid-exact geometry pairs through every relate path of the C API.
//   c01 relate-grid <seed> <n> <outbase>
//   c01 prep-core <seed> <n> <outbase>   (the four prepared-polygon fast-path classes and the PreparedPolygon wrappers against the facts of
//                                         their decision core, computed exactly on the lattice: Model/Relate/PrepPoly.lean)
//   c01 replay <file>        (file holds case lines; re-evaluates the observations for "A | B" parts)
#include "relobs.h"
#include "c01gen.h"
#include <geos/geom/prep/PreparedPolygon.h>
#include <geos/geom/prep/PreparedPolygonContains.h>
#include <geos/geom/prep/PreparedPolygonCovers.h>
#include <geos/geom/prep/PreparedPolygonContainsProperly.h>
#include <geos/geom/prep/PreparedPolygonIntersects.h>
#include <geos/geom/Polygon.h>
#include <geos/operation/relateng/RelatePredicate.h>
#include <geos/operation/relateng/RelateMatrixPredicate.h>
#include <geos/operation/relateng/IMPatternMatcher.h>
#include <geos/geom/Envelope.h>
#include <geos/geom/IntersectionMatrix.h>
#include <cstdarg>
#include <fstream>
#include <iostream>
static void notice(const char*, ...) {}
static void errorh(const char*, ...) {}

// ---- stream pred-sm: the real predicate classes driven by random event sequences
static std::string predSM(Rng& r, Out& out, std::string& caseLine) {
    using namespace geos::operation::relateng;
    using geos::geom::Location; using geos::geom::Envelope;
    static const char* kinds[] = {"intersects", "disjoint", "contains", "within", "covers", "coveredBy", "crosses", "equalsTopo", "overlaps", "touches", "pattern"};
    int ki = (int) r.below(11); std::string kind = kinds[ki]; std::string pat;
    std::unique_ptr<TopologyPredicate> p;
    switch (ki) { case 0: p = RelatePredicate::intersects(); break; case 1: p = RelatePredicate::disjoint(); break; case 2: p = RelatePredicate::contains(); break;
        case 3: p = RelatePredicate::within(); break; case 4: p = RelatePredicate::covers(); break; case 5: p = RelatePredicate::coveredBy(); break;
        case 6: p = RelatePredicate::crosses(); break; case 7: p = RelatePredicate::equalsTopo(); break; case 8: p = RelatePredicate::overlaps(); break;
        case 9: p = RelatePredicate::touches(); break;
        default: { static const char sym[] = "TF*012**"; for (int i = 0; i < 9; i++) pat += sym[r.below(8)]; if (r.chance(40)) pat = FIXED_PATTERNS[r.below(sizeof FIXED_PATTERNS / sizeof FIXED_PATTERNS[0])]; p = RelatePredicate::matches(pat); kind += ":" + pat; } }
    out.count("kind_" + std::string(kinds[ki]));
    int dA = r.range(-1, 2), dB = r.range(-1, 2);
    auto box = [&](bool& isnull, int v[4]) { isnull = r.chance(8); int x0 = r.range(0, 4), x1 = r.range(x0, 5), y0 = r.range(0, 4), y1 = r.range(y0, 5); v[0] = x0; v[1] = x1; v[2] = y0; v[3] = y1; };
    bool na, nb; int a[4], b[4]; box(na, a); box(nb, b); if (r.chance(15)) { nb = na; for (int i = 0; i < 4; i++) b[i] = a[i]; }
    Envelope ea = na ? Envelope() : Envelope(a[0], a[1], a[2], a[3]); Envelope eb = nb ? Envelope() : Envelope(b[0], b[1], b[2], b[3]);
    auto st = [&]() -> char { return p->isKnown() ? (p->value() ? 't' : 'f') : 'u'; };
    // requirement flags (requireCovers(A) requireCovers(B) requireExteriorCheck(A) requireExteriorCheck(B) requireInteraction), then the trace
    std::string trace;
    trace += p->requireCovers(true) ? '1' : '0'; trace += p->requireCovers(false) ? '1' : '0';
    trace += p->requireExteriorCheck(true) ? '1' : '0'; trace += p->requireExteriorCheck(false) ? '1' : '0';
    trace += p->requireInteraction() ? '1' : '0'; trace += ' ';
    p->init(dA, dB); trace += st();
    p->init(ea, eb); trace += st();
    int n = r.range(0, 9);
    std::string ups;
    static const Location locs[3] = {Location::INTERIOR, Location::BOUNDARY, Location::EXTERIOR};
    for (int i = 0; i < n; i++) { int la = (int) r.below(3), lb = (int) r.below(3), d = r.range(0, 2);
        // respect the geometric bound for two lines
        if (dA == 1 && dB == 1 && la == 0 && lb == 0 && d == 2) d = 1;
        p->updateDimension(locs[la], locs[lb], d); trace += st();
        ups += " " + std::to_string(la) + std::to_string(lb) + std::to_string(d); }
    p->finish(); trace += st();
    auto envs = [&](bool isnull, int v[4]) { return isnull ? std::string("n") : (std::to_string(v[0]) + " " + std::to_string(v[1]) + " " + std::to_string(v[2]) + " " + std::to_string(v[3])); };
    caseLine = "S " + kind + " " + std::to_string(dA) + " " + std::to_string(dB) + " | " + envs(na, a) + " | " + envs(nb, b) + " |" + ups;
    return trace;
}


// ---- stream prep-core
// AbstractPreparedPolygonContains::isPuntalIgnoringEmpty is private: the same recursion on the public API
static bool puntalIgnoringEmpty(const Geometry* g) {
    if (g->getDimension() == 0) return true;
    if (!g->isCollection()) return false;
    bool hasPoints = false;
    for (std::size_t i = 0; i < g->getNumGeometries(); i++) { const Geometry* e = g->getGeometryN(i); if (e->isEmpty()) continue; if (!puntalIgnoringEmpty(e)) return false; hasPoints = true; }
    return hasPoints; }
static std::string prepCore(const GGeom& T, const GGeom& G, const Geometry* gt, const Geometry* gg, Out& out, std::string& expect) {
    using namespace geos::geom::prep;
    PrepFacts f = prepFacts(T, G);
    auto b = [](bool v) { return v ? "1" : "0"; };
    bool single = gt->getNumGeometries() == 1 && dynamic_cast<const geos::geom::Polygon*>(gt->getGeometryN(0)) && dynamic_cast<const geos::geom::Polygon*>(gt->getGeometryN(0))->getNumInteriorRing() == 0;
    bool polygonal = gg->getGeometryTypeId() == geos::geom::GEOS_POLYGON || gg->getGeometryTypeId() == geos::geom::GEOS_MULTIPOLYGON;
    bool fc = false, fv = false; try { fc = gt->contains(gg); fv = gt->covers(gg); } catch (const std::exception&) { out.count("full_predicate_throws"); }
    bool ec = gt->getEnvelopeInternal()->covers(gg->getEnvelopeInternal()), ei = gt->getEnvelopeInternal()->intersects(gg->getEnvelopeInternal());
    bool rect = gt->isRectangle();
    std::string c = std::string(" tl=") + (f.testLocs.empty() ? "-" : f.testLocs) + " si=" + b(f.segInt) + " pr=" + b(f.proper) + " np=" + b(f.nonProper) +
        " rl=" + (f.repLocs.empty() ? "-" : f.repLocs) + " fc=" + b(fc) + " fv=" + b(fv) + " pie=" + b(puntalIgnoringEmpty(gg)) + " pu=" + b(gg->isPuntal()) +
        " d2=" + b(gg->getDimension() == 2) + " pg=" + b(polygonal) + " ss=" + b(single) + " n=" + std::to_string(gg->getNumPoints()) + " ec=" + b(ec) + " ei=" + b(ei) + " rect=" + b(rect);
    std::string e;
    try { PreparedPolygon pp(gt);     // one prepared polygon answers all eight questions (its point locator turns from simple to indexed on the way)
        e += b(PreparedPolygonContains::contains(&pp, gg)); e += b(PreparedPolygonCovers::covers(&pp, gg));
        e += b(PreparedPolygonContainsProperly::containsProperly(&pp, gg)); e += b(PreparedPolygonIntersects::intersects(&pp, gg)); e += ' ';
        if (rect) e += "----"; else { e += b(pp.contains(gg)); e += b(pp.covers(gg)); e += b(pp.containsProperly(gg)); e += b(pp.intersects(gg)); } }
    catch (const std::exception&) { e = "X"; }
    // which branch decides (distribution only)
    bool puntalIE = puntalIgnoringEmpty(gg);
    out.count(puntalIE ? "branch_puntal" : f.testLocs.find('E') != std::string::npos ? "branch_test_point_outside" : f.segInt ? (f.nonProper ? (polygonal && f.proper ? "branch_proper_intersection" : "branch_FULL_TOPOLOGY") : "branch_only_proper_intersections")
              : gg->getDimension() == 2 ? (f.repLocs.find_first_not_of('E') != std::string::npos ? "branch_target_ring_in_test_area" : "branch_no_contact_all_rings_outside") : "branch_no_contact_lower_dim");
    expect = e; return c; }

int main(int argc, char** argv) {
    if (argc < 3) return 2;
    std::string stream = argv[1];
    GEOSContextHandle_t h = GEOS_init_r(); GEOSContext_setNoticeHandler_r(h, notice); GEOSContext_setErrorHandler_r(h, errorh);
    auto gf = GeometryFactory::getDefaultInstance();
    if (stream == "replay") {
        std::ifstream f(argv[2]); std::string line; Rng r(1);
        while (std::getline(f, line)) { if (line.empty()) continue;
            // "R | A | B | obs" -> recompute obs with the same patterns
            std::vector<std::string> parts; size_t p = 0; while (true) { size_t q = line.find(" | ", p); if (q == std::string::npos) { parts.push_back(line.substr(p)); break; } parts.push_back(line.substr(p, q - p)); p = q + 3; }
            if (parts.size() < 3) continue;
            if (parts[0] == "W") {      // WKT form: W | <wkt A> | <wkt B>
                GEOSGeometry* wa = GEOSGeomFromWKT_r(h, parts[1].c_str()); GEOSGeometry* wb = GEOSGeomFromWKT_r(h, parts[2].c_str());
                if (!wa || !wb) { std::cout << "invalid\n"; continue; }
                parts[1] = dumpGeom((Geometry*) wa); parts[2] = dumpGeom((Geometry*) wb);
                GEOSGeom_destroy_r(h, wa); GEOSGeom_destroy_r(h, wb); }
            std::string pats; if (parts.size() >= 4) { size_t k = parts[3].find("pat="); if (k != std::string::npos) { std::istringstream is(parts[3].substr(k + 4)); std::string t; std::string acc;
                while (std::getline(is, t, ',')) { if (!acc.empty()) acc += ","; acc += t.substr(0, 9); } pats = acc; } }
            std::unique_ptr<Geometry> a, b;
            try { a = buildGeom(parts[1], gf); b = buildGeom(parts[2], gf); } catch (...) { std::cout << "invalid\n"; continue; }
            if (GEOSisValid_r(h, (GEOSGeometry*) a.get()) != 1 || GEOSisValid_r(h, (GEOSGeometry*) b.get()) != 1) { std::cout << "invalid\n"; continue; }
            std::cout << "R | " << parts[1] << " | " << parts[2] << " |" << observe(h, (GEOSGeometry*) a.get(), (GEOSGeometry*) b.get(), r, pats) << "\n"; }
        GEOS_finish_r(h); return 0; }
    if (argc < 5) return 2;
    uint64_t seed = std::stoull(argv[2]); long n = std::stol(argv[3]); Out out(argv[4]); Rng r(seed);
    if (stream == "imcase") {   // c01 imcase <matrix> <dimA> <dimB> <pattern>: the real IntersectionMatrix answers for one argument tuple
        if (argc < 6) return 2;
        using geos::geom::IntersectionMatrix; std::string m = argv[2], pat = argv[5]; int dA = std::atoi(argv[3]), dB = std::atoi(argv[4]);
        IntersectionMatrix im(m); std::string e; auto b = [](bool v) { return v ? '1' : '0'; };
        e += b(im.isDisjoint()); e += b(im.isIntersects()); e += b(im.isTouches(dA, dB)); e += b(im.isCrosses(dA, dB)); e += b(im.isWithin()); e += b(im.isContains());
        e += b(im.isEquals(dA, dB)); e += b(im.isOverlaps(dA, dB)); e += b(im.isCovers()); e += b(im.isCoveredBy());
        e += ' '; e += b(im.matches(pat)); e += pc(GEOSRelatePatternMatch_r(h, m.c_str(), pat.c_str()));
        IntersectionMatrix t(m); t.transpose(); e += ' ' + t.toString();
        std::cout << "M " << m << " " << dA << " " << dB << " " << pat << "\n" << e << "\n"; GEOS_finish_r(h); return 0; }
    if (stream == "immatrix") {
        // the real geom::IntersectionMatrix class (and GEOSRelatePatternMatch_r) on random matrices, dimensions and patterns
        using geos::geom::IntersectionMatrix;
        static const char dims[] = "F012"; static const char sym[] = "TF*012";
        for (long i = 0; i < n; i++) {
            std::string m, pat; for (int k = 0; k < 9; k++) { m += dims[r.chance(35) ? 0 : r.below(4)]; pat += sym[r.below(6)]; }
            if (r.chance(30)) pat = FIXED_PATTERNS[r.below(sizeof FIXED_PATTERNS / sizeof FIXED_PATTERNS[0])];
            if (r.chance(10)) { pat = m; for (auto& ch : pat) if (ch != 'F' && r.chance(50)) ch = 'T'; }           // a pattern that matches
            int dA = r.range(-1, 2), dB = r.range(-1, 2);
            IntersectionMatrix im(m); std::string e;
            auto b = [](bool v) { return v ? '1' : '0'; };
            e += b(im.isDisjoint()); e += b(im.isIntersects()); e += b(im.isTouches(dA, dB)); e += b(im.isCrosses(dA, dB)); e += b(im.isWithin()); e += b(im.isContains());
            e += b(im.isEquals(dA, dB)); e += b(im.isOverlaps(dA, dB)); e += b(im.isCovers()); e += b(im.isCoveredBy());
            e += ' '; e += b(im.matches(pat)); e += pc(GEOSRelatePatternMatch_r(h, m.c_str(), pat.c_str()));
            IntersectionMatrix t(m); t.transpose(); e += ' ' + t.toString();
            out.count(std::string("match_") + (im.matches(pat) ? "true" : "false"));
            out.emit("M " + m + " " + std::to_string(dA) + " " + std::to_string(dB) + " " + pat, e); }
        GEOS_finish_r(h); return 0; }
    if (stream == "pred-sm") {
        for (long i = 0; i < n; i++) { std::string c; std::string t = predSM(r, out, c); out.emit(c, t); }
        GEOS_finish_r(h); return 0; }
    if (stream == "prep-core") {
        GridGen gen(r, h, &out); gen.walkPct = 15;
        for (long i = 0; i < n; i++) {
            GGeom T, G; int fam = (int) r.below(100);
            if (fam < 35) { NoContact nc = noContactAreaPair(r, gen); if (!nc.ok) { out.count("nc_rejected"); continue; } T = nc.T; G = nc.B; out.count("family_no_contact"); }
            else { gen.span = r.chance(60) ? 6 : 10; gen.setPartner(GGeom{}, 0);
                if (r.chance(25)) { Cheese c = makeCheese(r, gen); T.container = 0; T.elems.push_back(c.poly); } else T = gen.geom(2, false, false);
                int mode = (int) r.below(100);
                gen.setPartner(T, r.chance(80) ? 55 : 0);
                if (mode < 12 && gen.holeSwallower(T, G)) {}
                else if (mode < 30) G = gen.partialCover(T, true);
                else { if (mode < 50) gen.setPartnerInterior(T); G = gen.geom(3, true, true); }
                out.count("family_general"); }
            Xform t = gen.xform();
            std::string ta = GridGen::geomTok(T, t), tb = GridGen::geomTok(G, t);
            std::unique_ptr<Geometry> ga, gb;
            try { ga = buildGeom(ta, gf); gb = buildGeom(tb, gf); } catch (...) { out.count("build_rejected"); continue; }
            if (ga->isEmpty() || (ga->getGeometryTypeId() != geos::geom::GEOS_POLYGON && ga->getGeometryTypeId() != geos::geom::GEOS_MULTIPOLYGON)) { out.count("target_not_polygonal"); continue; }
            if (GEOSisValid_r(h, (GEOSGeometry*) ga.get()) != 1 || GEOSisValid_r(h, (GEOSGeometry*) gb.get()) != 1) { out.count("invalid_skipped"); continue; }
            out.count(std::string("typeT_") + ga->getGeometryType()); out.count(std::string("typeG_") + gb->getGeometryType());
            std::string e; std::string c = prepCore(T, G, ga.get(), gb.get(), out, e);
            out.count("answers_" + e.substr(0, 4));
            out.emit("K | " + ta + " | " + tb + " |" + c, e); }
        GEOS_finish_r(h); return 0; }
    GridGen gen(r, h, &out); gen.walkPct = 15;
    // series: ONE prepared geometry of a multi-element A answers for several partners in a row (what an index join does);
    // every answer is still compared with the exact reference of its own pair
    GGeom seriesA; int seriesLeft = 0; Xform seriesT; std::unique_ptr<Geometry> seriesGa; const GEOSPreparedGeometry* seriesPrep = nullptr; std::string seriesTa;
    for (long i = 0; i < n; i++) {
        if (seriesLeft > 0) {
            seriesLeft--;
            gen.setPartner(seriesA, r.chance(80) ? 60 : 0);
            GGeom B; int mode = (int) r.below(100);
            if (mode < 20) B = gen.partialCover(seriesA, true); else { if (mode < 35) gen.setPartnerInterior(seriesA); gen.span = r.chance(50) ? 3 : 6; B = gen.geom(3, true, true); }
            std::string tb = GridGen::geomTok(B, seriesT); std::unique_ptr<Geometry> gb;
            try { gb = buildGeom(tb, gf); } catch (...) { out.count("build_rejected"); continue; }
            if (GEOSisValid_r(h, (GEOSGeometry*) gb.get()) != 1) { out.count("invalid_skipped"); continue; }
            { FILE* cf = std::fopen((std::string(argv[4]) + ".current").c_str(), "w"); if (cf) { std::fprintf(cf, "R | %s | %s |\n", seriesTa.c_str(), tb.c_str()); std::fclose(cf); } }
            std::string obs = observe(h, (GEOSGeometry*) seriesGa.get(), (GEOSGeometry*) gb.get(), r, "", seriesPrep);
            out.count("prepared_reused");
            out.emit("R | " + seriesTa + " | " + tb + " |" + obs, "ok");
            if (seriesLeft == 0) { GEOSPreparedGeom_destroy_r(h, seriesPrep); seriesPrep = nullptr; seriesGa.reset(); }
            continue; }
        gen.span = r.chance(60) ? 6 : (r.chance(40) ? 3 : 10);
        gen.setPartner(GGeom{}, 0);
        GGeom A = gen.geom(3, true, true);
        if (r.chance(8)) {       // open a series on a multi-element A
            gen.span = 10; GGeom M; M.container = 1; int kind = r.chance(60) ? 2 : 1; int ne = r.range(2, 4);
            for (int q = 0; q < ne; q++) { GGeom one = gen.geom(kind, false, false); for (auto& e : one.elems) if (e.kind == kind) M.elems.push_back(e); }
            Xform t = gen.xform(); std::string ta = GridGen::geomTok(M, t); std::unique_ptr<Geometry> ga;
            try { ga = buildGeom(ta, gf); } catch (...) { ga.reset(); }
            if (ga && M.elems.size() >= 2 && GEOSisValid_r(h, (GEOSGeometry*) ga.get()) == 1) {
                seriesPrep = GEOSPrepare_r(h, (GEOSGeometry*) ga.get());
                if (seriesPrep) { seriesA = M; seriesT = t; seriesTa = ta; seriesGa = std::move(ga); seriesLeft = r.range(2, 4); out.count("series_opened"); continue; } } }
        gen.setPartner(A, r.chance(80) ? 55 : 0);
        GGeom B;
        int mode = (int) r.below(100);
        bool keepOrder = false;
        NoContact nc;
        if (r.chance(9) && (nc = noContactAreaPair(r, gen)).ok) {
            // a polygonal geometry with SEVERAL rings (holes, MultiPolygon elements in any order, nested frames) and an areal partner whose boundary
            // never touches its boundary: every prepared fast path is decided by point-in-area tests alone, the last of which has to look at EVERY
            // ring of the prepared geometry.  Three times out of four the multi-ring geometry is the prepared one.
            A = nc.T; B = nc.B; keepOrder = r.chance(50); }
        else if (r.chance(5)) {
            // an axis-parallel RECTANGLE (the argument for which Geometry::intersects takes the rectangle fast path) inside the bounding box of a
            // NON-CONVEX hole: a tongue (or two) of polygon material pokes into the hole from one side; the rectangle's corners lie in the hole, off
            // the shell, and the rectangle crosses the tongue, reaches into it, just misses it, or touches it — the hole rings decide
            long a = r.range(1, 2), W = r.range(7, 10), H = r.range(6, 9), S0 = a, S1 = a + W, T1 = a + H;          // hole box [S0,S1] x [a,T1]
            long t0 = S0 + r.range(2, (int) W - 4), t1 = t0 + r.range(1, 2), tb = a + r.range(1, (int) H - 3);         // tongue [t0,t1] x [tb,T1] from the top
            std::vector<IPt> shell = {{0, 0}, {S1 + a, 0}, {S1 + a, T1 + a}, {0, T1 + a}, {0, 0}};
            std::vector<IPt> hole = {{S0, a}, {S1, a}, {S1, T1}, {t1, T1}, {t1, tb}, {t0, tb}, {t0, T1}, {S0, T1}, {S0, a}};
            if (r.chance(50)) std::reverse(hole.begin(), hole.end());
            GElem pe; pe.kind = 2; pe.rings.push_back(shell); pe.rings.push_back(hole);
            A = GGeom{}; A.container = r.chance(25) ? 2 : 0; A.elems.push_back(pe);
            if (A.container == 2 && r.chance(50)) { GElem q; q.kind = 0; q.rings.push_back({IPt{S1 + a + 2, 1}}); A.elems.push_back(q); }
            long rx0, rx1, ry0, ry1; int how = (int) r.below(4);
            ry0 = tb + (how == 2 ? -1 : 0) + (tb + 1 < T1 - 1 ? r.range(0, 0) : 0); if (how != 2) ry0 = std::min(T1 - 2, tb + r.range(0, 1)); ry1 = std::min(T1 - 1, ry0 + r.range(1, 2)); if (ry1 <= ry0) ry1 = ry0 + 1;
            if (how == 0) { rx0 = S0 + 1; rx1 = S1 - 1; }                                   // crosses the tongue from side to side
            else if (how == 1) { rx0 = S0 + 1; rx1 = t0 + (t1 > t0 + 1 ? 1 : 0); if (rx1 <= rx0) rx1 = rx0 + 1; }      // reaches into (or touches) the tongue from the left
            else if (how == 2) { rx0 = S0 + 1; rx1 = S1 - 1; ry1 = tb; ry0 = std::max(a + 1 - 1, tb - r.range(1, 2)); if (ry0 >= ry1) ry0 = ry1 - 1; if (ry0 <= a) { ry0 = a; } }   // below the tongue: touches its tip or misses it
            else { rx0 = t1 + 1; rx1 = S1 - 1; if (rx1 <= rx0) { rx0 = S0 + 1; rx1 = t0 - 1; } if (rx1 <= rx0) rx1 = rx0 + 1; }  // beside the tongue, in the hole
            B = GGeom{}; B.container = 0; { GElem re; re.kind = 2; re.rings.push_back({{rx0, ry0}, {rx1, ry0}, {rx1, ry1}, {rx0, ry1}, {rx0, ry0}}); B.elems.push_back(re); }
            keepOrder = r.chance(50); out.count("family_rectangle_in_tongued_hole"); }
        else if (r.chance(4)) {
            // a mixed-dimension collection (polygon + line + maybe a point) and a partner lying entirely on its LOWER-dimensional part:
            // points on the line element / equal to the point element, or a chain along the line — the situation in which nothing but the
            // dimension-based defaults of the engine can supply the entries for the exterior of the partner
            GGeom P = gen.geom(2, false, false), L = gen.geom(1, false, false);
            GGeom M; M.container = 2;
            for (auto& e : P.elems) M.elems.push_back(e);
            for (auto& e : L.elems) M.elems.push_back(e);
            IPt lone{r.range(0, gen.span), r.range(0, gen.span)};
            bool hasLone = r.chance(50);
            if (hasLone) { GElem pe; pe.kind = 0; pe.rings.push_back({lone}); M.elems.push_back(pe); }
            if (r.chance(50)) std::reverse(M.elems.begin(), M.elems.end());
            gen.setPartner(L, 100);
            std::vector<IPt> cand = gen.pool; if (hasLone) cand.push_back(lone);
            GGeom Q;
            if (!cand.empty() && r.chance(70)) { int np = r.range(1, 3); Q.container = np == 1 && r.chance(50) ? 0 : 1;
                for (int q = 0; q < np; q++) { GElem pe; pe.kind = 0; pe.rings.push_back({cand[r.below(cand.size())]}); Q.elems.push_back(pe); } }
            else { int keep = gen.walkPct; gen.walkPct = 100; Q = gen.geom(1, r.chance(30), false); gen.walkPct = keep; }
            A = M; B = Q; out.count("partner_on_lower_dim_part_of_mixed_collection"); }
        else if (mode < 4) B = A;
        else if (mode < 14 && gen.holeSwallower(A, B)) {}
        else if (mode < 26) B = gen.partialCover(A, true);
        else { if (mode < 36) gen.setPartnerInterior(A); B = gen.geom(3, true, true); }
        if (!keepOrder && r.chance(50)) std::swap(A, B);
        Xform t = gen.xform();
        std::string ta = GridGen::geomTok(A, t), tb = GridGen::geomTok(B, t);
        std::unique_ptr<Geometry> ga, gb;
        try { ga = buildGeom(ta, gf); gb = buildGeom(tb, gf); } catch (...) { out.count("build_rejected"); continue; }
        if (GEOSisValid_r(h, (GEOSGeometry*) ga.get()) != 1 || GEOSisValid_r(h, (GEOSGeometry*) gb.get()) != 1) { out.count("invalid_skipped"); continue; }
        out.count(std::string("typeA_") + ga->getGeometryType()); out.count(std::string("typeB_") + gb->getGeometryType());
        { FILE* cf = std::fopen((std::string(argv[4]) + ".current").c_str(), "w"); if (cf) { std::fprintf(cf, "R | %s | %s |\n", ta.c_str(), tb.c_str()); std::fclose(cf); } }
        std::string obs = observe(h, (GEOSGeometry*) ga.get(), (GEOSGeometry*) gb.get(), r, "");
        { size_t k = obs.find(" m="); out.count("matrix_" + obs.substr(k + 3, 9)); }
        out.emit("R | " + ta + " | " + tb + " |" + obs, "ok");
    }
    if (seriesPrep) GEOSPreparedGeom_destroy_r(h, seriesPrep);
    GEOS_finish_r(h); return 0;
}
