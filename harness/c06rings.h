// C06, stream `rings`: the ring-assembly core of the buffer (geomgraph::DirectedEdgeStar::linkResultDirectedEdges /
// linkMinimalDirectedEdges, operation::buffer::MaximalEdgeRing, MinimalEdgeRing, PolygonBuilder) called DIRECTLY on planar graphs
// built from noded lattice polygon arrangements, against Model/Buffer/Rings.lean.  Used only by harness/c06.cpp.
#pragma once
#include "c06contact.h"
#include <geos/geomgraph/PlanarGraph.h>
#include <geos/geomgraph/Edge.h>
#include <geos/geomgraph/Label.h>
#include <geos/geomgraph/Node.h>
#include <geos/geomgraph/NodeMap.h>
#include <geos/geomgraph/DirectedEdge.h>
#include <geos/geomgraph/DirectedEdgeStar.h>
#include <geos/geomgraph/EdgeRing.h>
#include <geos/operation/buffer/BufferNodeFactory.h>
#include <geos/operation/buffer/MaximalEdgeRing.h>
#include <geos/operation/buffer/MinimalEdgeRing.h>
#include <geos/operation/buffer/PolygonBuilder.h>
#include <geos/util/GEOSException.h>

namespace vh {
using geos::geomgraph::PlanarGraph; using geos::geomgraph::Edge; using geos::geomgraph::Label; using geos::geomgraph::DirectedEdge;
using geos::geomgraph::EdgeRing; using geos::geomgraph::Node;
using geos::operation::buffer::MaximalEdgeRing; using geos::operation::buffer::MinimalEdgeRing; using geos::operation::buffer::PolygonBuilder;

struct REdge { std::vector<IPt> pts; bool interiorRight; };      // interiorRight: the FORWARD directed edge is the result edge

// noded edge set of a valid lattice polygon arrangement; cut: 0 = one edge per segment, 1 = maximal chains between nodes, 2 = random cuts
inline std::vector<REdge> nodedEdges(const GGeom& g, int cut, Rng& r, Out* out) {
    std::vector<std::vector<IPt>> rings; std::vector<bool> shell;
    for (auto& e : g.elems) if (e.kind == 2 && !e.empty) for (size_t k = 0; k < e.rings.size(); k++) {
        std::vector<IPt> v; for (auto& p : e.rings[k]) if (v.empty() || !(v.back() == p)) v.push_back(p);
        if (v.size() >= 4) { rings.push_back(v); shell.push_back(k == 0); } }
    std::map<IPt, int> occ; for (auto& rg : rings) for (size_t i = 0; i + 1 < rg.size(); i++) occ[rg[i]]++;
    std::vector<REdge> edges;
    for (size_t ri = 0; ri < rings.size(); ri++) { auto& rg = rings[ri];
        long a2 = 0; for (size_t i = 0; i + 1 < rg.size(); i++) a2 += rg[i].x * rg[i + 1].y - rg[i + 1].x * rg[i].y;
        bool ccw = a2 > 0; bool interiorRight = shell[ri] ? !ccw : ccw;
        // split every segment at the vertices of the arrangement lying strictly inside it
        std::vector<IPt> v; std::vector<bool> isNode;
        for (size_t i = 0; i + 1 < rg.size(); i++) { const IPt& a = rg[i]; const IPt& b = rg[i + 1];
            std::vector<std::pair<long, IPt>> mid;
            for (auto& kv : occ) { const IPt& p = kv.first; if (p == a || p == b) continue;
                if (cross(a, b, p) == 0 && std::min(a.x, b.x) <= p.x && p.x <= std::max(a.x, b.x) && std::min(a.y, b.y) <= p.y && p.y <= std::max(a.y, b.y))
                    mid.push_back({(p.x - a.x) * (b.x - a.x) + (p.y - a.y) * (b.y - a.y), p}); }
            std::sort(mid.begin(), mid.end());
            v.push_back(a); isNode.push_back(occ[a] > 1);
            for (auto& m : mid) { v.push_back(m.second); isNode.push_back(true); if (out) out->count("split_points"); } }
        // a vertex of another ring inside a segment makes the END POINTS of that other ring's segments nodes too: count again
        size_t n = v.size(); size_t start = 0; bool anyNode = false;
        for (size_t i = 0; i < n; i++) if (isNode[i]) { start = i; anyNode = true; break; }
        (void) anyNode;
        std::vector<IPt> cur;
        for (size_t k = 0; k <= n; k++) { size_t i = (start + k) % n; cur.push_back(v[i]);
            bool cutHere = k == n || (k > 0 && (cut == 0 || isNode[i] || (cut == 2 && r.chance(40))));
            if (cutHere && cur.size() >= 2) { edges.push_back(REdge{cur, interiorRight}); cur.clear(); cur.push_back(v[i]); } } }
    // a ring vertex that another ring's segment was split at is a node of BOTH rings: re-cut chains there
    std::map<IPt, int> ends; for (auto& e : edges) { ends[e.pts.front()]++; ends[e.pts.back()]++; }
    std::vector<REdge> res;
    for (auto& e : edges) { std::vector<IPt> cur;
        for (size_t i = 0; i < e.pts.size(); i++) { cur.push_back(e.pts[i]);
            if (i > 0 && i + 1 < e.pts.size() && ends.count(e.pts[i])) { res.push_back(REdge{cur, e.interiorRight}); cur.clear(); cur.push_back(e.pts[i]); } }
        if (cur.size() >= 2) res.push_back(REdge{cur, e.interiorRight}); }
    return res; }

inline std::string edgesTok(const std::vector<REdge>& es) {
    std::string s = "G";
    for (auto& e : es) { s += " | " + std::to_string(e.pts.size()); for (auto& p : e.pts) s += " " + std::to_string(p.x) + " " + std::to_string(p.y);
        s += e.interiorRight ? " 1 0" : " 0 1"; }
    return s; }

inline void fillGraph(PlanarGraph& graph, const std::vector<REdge>& es) {
    using geos::geom::Location;
    std::vector<Edge*> edges;
    for (auto& e : es) { auto cs = new CoordinateSequence(); for (auto& p : e.pts) cs->add(Coordinate((double) p.x, (double) p.y));
        Label lab(0, Location::BOUNDARY, e.interiorRight ? Location::EXTERIOR : Location::INTERIOR, e.interiorRight ? Location::INTERIOR : Location::EXTERIOR);
        edges.push_back(new Edge(cs, lab)); }
    graph.addEdges(edges);
    auto ee = graph.getEdgeEnds();
    for (size_t i = 0; i < es.size(); i++) { auto de = static_cast<DirectedEdge*>((*ee)[2 * i + (es[i].interiorRight ? 0 : 1)]); de->setInResult(true); } }

inline std::string canonRing(std::vector<int> ids, bool hole) {
    if (ids.empty()) return hole ? "H:" : "S:";
    size_t m = 0; for (size_t i = 0; i < ids.size(); i++) if (ids[i] < ids[m]) m = i;
    std::string s = hole ? "H:" : "S:";
    for (size_t i = 0; i < ids.size(); i++) { if (i) s += ","; s += std::to_string(ids[(m + i) % ids.size()]); }
    return s; }
inline std::string joinSorted(std::vector<std::string> v) { std::sort(v.begin(), v.end()); std::string s; for (auto& x : v) { if (!s.empty()) s += ";"; s += x; } return s.empty() ? "-" : s; }

// (a) the ring classes called one by one, exactly as PolygonBuilder::add does up to buildMinimalEdgeRings
inline std::string ringsDirect(const std::vector<REdge>& es, const GeometryFactory* gf, Out* out) {
    PlanarGraph graph(geos::operation::buffer::BufferNodeFactory::instance()); fillGraph(graph, es);
    auto ee = graph.getEdgeEnds(); std::map<const DirectedEdge*, int> id; for (size_t i = 0; i < ee->size(); i++) id[static_cast<DirectedEdge*>((*ee)[i])] = (int) i;
    std::vector<Node*> nodes; for (auto& it : graph.getNodeMap()->nodeMap) nodes.push_back(it.second.get());
    std::vector<std::string> rs; std::vector<MaximalEdgeRing*> maxs;
    auto ids = [&](EdgeRing* er) { std::vector<int> v; for (auto de : er->getEdges()) v.push_back(id[de]); return v; };
    try {
        PlanarGraph::linkResultDirectedEdges(nodes.begin(), nodes.end());
        for (size_t i = 0; i < ee->size(); i++) { auto de = static_cast<DirectedEdge*>((*ee)[i]);
            if (de->isInResult() && de->getLabel().isArea() && de->getEdgeRing() == nullptr) { auto er = new MaximalEdgeRing(de, gf); maxs.push_back(er); er->setInResult(); } }
        for (auto er : maxs) {
            if (er->getMaxNodeDegree() > 2) { if (out) out->count("max_ring_split");
                er->linkDirectedEdgesForMinimalEdgeRings();
                std::vector<MinimalEdgeRing*> mins; er->buildMinimalRings(mins);
                if (out) out->count("min_rings", (long) mins.size());
                for (auto m : mins) { rs.push_back(canonRing(ids(m), m->isHole())); delete m; } }
            else { if (out) out->count("max_ring_simple"); rs.push_back(canonRing(ids(er), er->isHole())); } }
    } catch (const geos::util::GEOSException&) { for (auto er : maxs) delete er; return "throw"; }
    for (auto er : maxs) delete er;
    return joinSorted(rs); }

// (b) the production path: PolygonBuilder::add(PlanarGraph*) + getPolygons(); rings mapped back to directed edge numbers
inline std::string ringsBuilder(const std::vector<REdge>& es, const GeometryFactory* gf, Out* out) {
    PlanarGraph graph(geos::operation::buffer::BufferNodeFactory::instance()); fillGraph(graph, es);
    std::map<std::pair<std::pair<long, long>, std::pair<long, long>>, int> first;
    for (size_t i = 0; i < es.size(); i++) { auto& p = es[i].pts; size_t n = p.size();
        first[{{p[0].x, p[0].y}, {p[1].x, p[1].y}}] = (int) (2 * i); first[{{p[n - 1].x, p[n - 1].y}, {p[n - 2].x, p[n - 2].y}}] = (int) (2 * i + 1); }
    std::vector<std::string> rs;
    try {
        PolygonBuilder pb(gf); pb.add(&graph); auto polys = pb.getPolygons();
        if (out) out->count("builder_polygons", (long) polys.size());
        auto ring = [&](const LinearRing* lr, bool hole) { auto cs = lr->getCoordinatesRO(); std::vector<int> v;
            for (size_t k = 0; k + 1 < cs->size(); k++) { auto it = first.find({{(long) cs->getAt(k).x, (long) cs->getAt(k).y}, {(long) cs->getAt(k + 1).x, (long) cs->getAt(k + 1).y}}); if (it != first.end()) v.push_back(it->second); }
            return canonRing(v, hole); };
        // one entry per polygon: shell[hole/hole/...] (holes sorted): the hole -> shell assignment is part of the answer
        for (auto& g : polys) { auto p = static_cast<const Polygon*>(g.get()); std::vector<std::string> hs;
            for (size_t h = 0; h < p->getNumInteriorRing(); h++) hs.push_back(ring(p->getInteriorRingN(h), true));
            std::sort(hs.begin(), hs.end()); std::string s = ring(p->getExteriorRing(), false) + "[";
            for (size_t h = 0; h < hs.size(); h++) { if (h) s += "/"; s += hs[h]; }
            rs.push_back(s + "]"); if (out && !hs.empty()) out->count("builder_polygons_with_holes"); }
    } catch (const geos::util::GEOSException&) { return "throw"; }
    return joinSorted(rs); }

} // namespace vh
