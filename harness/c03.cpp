// C03 correspondence harness: overlay operations of the C API on generated valid pairs / collections.
//   c03 overlay-grid <seed> <n> <outbase>     grid-exact pairs, exact lattice transforms
//   c03 overlay-dbl  <seed> <n> <outbase>     the same shapes under arbitrary-double similarity maps (+ ulp perturbation)
//   c03 replay <file>                         lines "O | A | B | op ... | op ..." (only the op names are read) or "W | wktA | wktB | op | op"
// Case line:   O | <A tokens> | <B tokens> | <rec> | <rec> ...
//   rec      = <op>:<variant> <valid 0|1|-> <exc - | class> <result tokens | ->
//   op       = int uni dif sym (binary)  uu (GEOSUnaryUnion) uc (GEOSUnionCascaded) dsu (GEOSDisjointSubsetUnion)
//              cu (GEOSCoverageUnion)  clip (GEOSClipByRect; variant = a:<xmin>:<ymin>:<xmax>:<ymax> as hex doubles)
//   variant  = ab | ba | aa | ae<k> | ea<k>   (k: kind of EMPTY operand, see EMPTY_WKT)      unary: a | gab (collection {A,B})
// Expect line is always "ok": the driver evaluates the exact point-set specification on (A, B, result).
#include "gridgen.h"
#include "c03clip.h"
#include <geos/operation/overlayng/OverlayNG.h>
#include <geos/operation/overlayng/OverlayNGRobust.h>
#include <geos/operation/overlayng/OverlayUtil.h>
#include <geos/geom/Location.h>
#include <geos/noding/snap/SnappingNoder.h>
#include <geos/geom/PrecisionModel.h>
#include <cstdarg>
#include <fstream>
#include <iostream>
using namespace vh;

static std::string lastErr;
static void notice(const char*, ...) {}
static void errorh(const char* fmt, ...) { char buf[512]; va_list ap; va_start(ap, fmt); std::vsnprintf(buf, sizeof buf, fmt, ap); va_end(ap); lastErr = buf; }

static const char* EMPTY_WKT[] = {"POINT EMPTY", "LINESTRING EMPTY", "POLYGON EMPTY", "GEOMETRYCOLLECTION EMPTY", "MULTIPOLYGON EMPTY", "MULTILINESTRING EMPTY", "MULTIPOINT EMPTY"};
static const int N_EMPTY = 7;

// class of an error message: first word, letters only
static std::string errClass(const std::string& m) { std::string s; for (char c : m) { if (std::isalpha((unsigned char) c)) s += c; else break; } return s.empty() ? std::string("Error") : s; }

struct DX { double a = 1, b = 0, c = 0, d = 1, tx = 0, ty = 0; int ulpPct = 0; double noise = 0; Rng* r = nullptr;
    void apply(const IPt& p, double& x, double& y) const { x = a * (double) p.x + b * (double) p.y + tx; y = c * (double) p.x + d * (double) p.y + ty; } };
static std::string seqTokD(const std::vector<IPt>& ps, const DX& t, bool closed) {
    std::string s = "xy " + std::to_string(ps.size()); std::string first;
    for (size_t i = 0; i < ps.size(); i++) { double x, y; t.apply(ps[i], x, y);
        if (t.noise > 0) { x += t.noise * (t.r->unit() - 0.5); y += t.noise * (t.r->unit() - 0.5); }
        if (t.ulpPct && t.r->chance(t.ulpPct)) { x = std::nextafter(x, t.r->chance(50) ? 1e300 : -1e300); if (t.r->chance(50)) y = std::nextafter(y, t.r->chance(50) ? 1e300 : -1e300); }
        std::string p = " " + hex(x) + " " + hex(y);
        if (i == 0) first = p;
        if (closed && i + 1 == ps.size() && ps[i] == ps[0]) p = first;       // rings stay closed
        s += p; }
    return s; }
static std::string elemTokD(const GElem& e, const DX& t) {
    if (e.kind == 0) return e.empty ? "P xy 0" : "P " + seqTokD(e.rings[0], t, false);
    if (e.kind == 1) return e.empty ? "L xy 0" : "L " + seqTokD(e.rings[0], t, e.rings[0].size() > 2);
    if (e.empty) return "Y 1 xy 0";
    std::string s = "Y " + std::to_string(e.rings.size()); for (auto& rg : e.rings) s += " " + seqTokD(rg, t, true); return s; }
static std::string geomTokD(const GGeom& g, const DX& t) {
    if (g.container == 0) return "0 " + elemTokD(g.elems[0], t);
    std::string tag = "GC";
    if (g.container == 1) tag = g.elems.empty() ? "GC" : (g.elems[0].kind == 0 ? "MP" : g.elems[0].kind == 1 ? "ML" : "MY");
    std::string s = "0 " + tag + " " + std::to_string(g.elems.size());
    for (auto& e : g.elems) s += " " + elemTokD(e, t); return s; }

static std::vector<std::string> splitBar(const std::string& line) { std::vector<std::string> parts; size_t p = 0;
    while (true) { size_t q = line.find(" | ", p); if (q == std::string::npos) { parts.push_back(line.substr(p)); break; } parts.push_back(line.substr(p, q - p)); p = q + 3; } return parts; }

struct Ctx { GEOSContextHandle_t h; Out* out; };

static std::string typeName(const GEOSGeometry* g) { return ((const Geometry*) g)->getGeometryType(); }

// one record: run the named operation, dump result + validity + exception class
static std::string record(Ctx& c, const std::string& opv, const GEOSGeometry* A, const GEOSGeometry* B) {
    GEOSContextHandle_t h = c.h;
    size_t k = opv.find(':'); std::string op = opv.substr(0, k), var = k == std::string::npos ? "" : opv.substr(k + 1);
    GEOSGeometry* e = nullptr; GEOSGeometry* gc = nullptr;
    const GEOSGeometry *x = A, *y = B;
    if (var == "ba") { x = B; y = A; }
    else if (var == "aa") { x = A; y = A; }
    else if (var.size() >= 3 && var.substr(0, 2) == "ae") { e = GEOSGeomFromWKT_r(h, EMPTY_WKT[std::stoi(var.substr(2)) % N_EMPTY]); x = A; y = e; }
    else if (var.size() >= 3 && var.substr(0, 2) == "ea") { e = GEOSGeomFromWKT_r(h, EMPTY_WKT[std::stoi(var.substr(2)) % N_EMPTY]); x = e; y = A; }
    else if (var == "gab") { GEOSGeometry* parts[2] = {GEOSGeom_clone_r(h, A), GEOSGeom_clone_r(h, B)}; gc = GEOSGeom_createCollection_r(h, 7, parts, 2); x = gc; }
    lastErr.clear();
    GEOSGeometry* r = nullptr;
    if (op == "int") r = GEOSIntersection_r(h, x, y);
    else if (op == "uni") r = GEOSUnion_r(h, x, y);
    else if (op == "dif") r = GEOSDifference_r(h, x, y);
    else if (op == "sym") r = GEOSSymDifference_r(h, x, y);
    else if (op == "uu") r = GEOSUnaryUnion_r(h, x);
    else if (op == "uc") r = GEOSUnionCascaded_r(h, x);
    else if (op == "dsu") r = GEOSDisjointSubsetUnion_r(h, x);
    else if (op == "cu") r = GEOSCoverageUnion_r(h, x);
    else if (op == "clip") { // variant a:<xmin>:<ymin>:<xmax>:<ymax>
        std::vector<std::string> f; { std::istringstream is(var); std::string t; while (std::getline(is, t, ':')) f.push_back(t); }
        if (f.size() == 5) r = GEOSClipByRect_r(h, A, frombits(std::stoull(f[1], nullptr, 16)), frombits(std::stoull(f[2], nullptr, 16)), frombits(std::stoull(f[3], nullptr, 16)), frombits(std::stoull(f[4], nullptr, 16))); }
    std::string s = opv;
    if (!r) { s += " - " + errClass(lastErr) + " -"; if (c.out) { c.out->count("exception_" + op); c.out->count("exception_class_" + errClass(lastErr)); } }
    else {
        char v = GEOSisValid_r(h, r);
        s += std::string(" ") + (v == 1 ? "1" : v == 0 ? "0" : "-") + " - " + dumpGeom((Geometry*) r);
        if (c.out) { c.out->count("op_" + op); c.out->count("result_" + op + "_" + typeName(r) + (GEOSisEmpty_r(h, r) == 1 ? "_EMPTY" : ""));
            if (v != 1) c.out->count("result_invalid_" + op); }
        GEOSGeom_destroy_r(h, r); }
    if (e) GEOSGeom_destroy_r(h, e);
    if (gc) GEOSGeom_destroy_r(h, gc);
    return s;
}

// which rung of OverlayNGRobust's ladder a pair needs (observed from outside: same public building blocks, statistics only)
static void probeRung(Ctx& c, const Geometry* a, const Geometry* b) {
    using namespace geos::operation::overlayng;
    for (int op = 1; op <= 4; op++) {
        try { geos::geom::PrecisionModel pmf; auto r = OverlayNG::overlay(a, b, op, &pmf); c.out->count("rung_float_ok"); continue; } catch (const std::exception&) { c.out->count("rung_float_failed"); }
        double tol = OverlayNGRobust::snapTolerance(a, b); bool done = false;
        for (int i = 0; i < 5 && !done; i++) {
            try { geos::noding::snap::SnappingNoder sn(tol); auto r = OverlayNG::overlay(a, b, op, &sn); c.out->count("rung_snap_" + std::to_string(i) + "_ok"); done = true; } catch (const std::exception&) {}
            tol *= 10; }
        if (!done) c.out->count("rung_after_plain_snapping");
    }
}

static bool isHandledMixed(const Geometry* g) { return g->getGeometryTypeId() == geos::geom::GEOS_GEOMETRYCOLLECTION; }

static std::string caseLine(Ctx& c, const std::string& ta, const std::string& tb, const GEOSGeometry* a, const GEOSGeometry* b, const std::vector<std::string>& ops) {
    std::string s = "O | " + ta + " | " + tb;
    for (auto& o : ops) s += " | " + record(c, o, a, b);
    return s;
}

// a valid polygonal coverage: unit squares / half-square triangles of a small lattice, random subset, grouped
static GGeom coverage(Rng& r, Out& out) {
    GGeom g; g.container = r.chance(70) ? 1 : 2; int w = r.range(1, 4), hgt = r.range(1, 4);
    for (long i = 0; i < w; i++) for (long j = 0; j < hgt; j++) {
        if (r.chance(25)) continue;
        int mode = (int) r.below(4);
        auto poly = [&](std::vector<IPt> ps) { GElem e; e.kind = 2; ps.push_back(ps[0]); e.rings.push_back(ps); g.elems.push_back(e); };
        if (mode <= 1) poly({{i, j}, {i + 1, j}, {i + 1, j + 1}, {i, j + 1}});
        else if (mode == 2) { poly({{i, j}, {i + 1, j}, {i + 1, j + 1}}); if (r.chance(70)) poly({{i, j}, {i + 1, j + 1}, {i, j + 1}}); }
        else { poly({{i, j}, {i + 1, j}, {i, j + 1}}); if (r.chance(70)) poly({{i + 1, j}, {i + 1, j + 1}, {i, j + 1}}); } }
    if (g.elems.empty()) { GElem e; e.kind = 2; e.rings.push_back({{0, 0}, {1, 0}, {1, 1}, {0, 1}, {0, 0}}); g.elems.push_back(e); }
    out.count("coverage_cells", (long) g.elems.size());
    return g; }

// the same point sets with many vertices: every coordinate times m, every edge of the chosen operand cut into m equal lattice pieces.
// Lines / rings with more than 20 vertices and partly overlapping envelopes are what reaches OverlayNG's clipping and line limiting.
static void scaleGeom(GGeom& g, long m, bool subdivide) {
    for (auto& e : g.elems) for (auto& ring : e.rings) {
        std::vector<IPt> o;
        for (size_t i = 0; i < ring.size(); i++) {
            IPt p{ring[i].x * m, ring[i].y * m};
            if (subdivide && e.kind != 0 && i + 1 < ring.size()) {
                long dx = ring[i + 1].x - ring[i].x, dy = ring[i + 1].y - ring[i].y;
                for (long j = 0; j < m; j++) o.push_back(IPt{p.x + j * dx, p.y + j * dy}); }
            else o.push_back(p); }
        ring.swap(o); }
}

int main(int argc, char** argv) {
    if (argc < 3) return 2;
    std::string stream = argv[1];
    GEOSContextHandle_t h = GEOS_init_r(); GEOSContext_setNoticeHandler_r(h, notice); GEOSContext_setErrorHandler_r(h, errorh);
    auto gf = GeometryFactory::getDefaultInstance();
    if (stream == "replay") {
        std::ifstream f(argv[2]); std::string line; Ctx c{h, nullptr};
        while (std::getline(f, line)) { if (line.empty()) continue; auto parts = splitBar(line); if (parts.size() < 4) { std::cout << "invalid\n"; continue; }
            if (parts[0] == "W") { GEOSGeometry* wa = GEOSGeomFromWKT_r(h, parts[1].c_str()); GEOSGeometry* wb = GEOSGeomFromWKT_r(h, parts[2].c_str());
                if (!wa || !wb) { std::cout << "invalid\n"; continue; } parts[1] = dumpGeom((Geometry*) wa); parts[2] = dumpGeom((Geometry*) wb); GEOSGeom_destroy_r(h, wa); GEOSGeom_destroy_r(h, wb); }
            std::vector<std::string> ops; for (size_t i = 3; i < parts.size(); i++) { std::istringstream is(parts[i]); std::string o; is >> o; if (!o.empty()) ops.push_back(o); }
            std::unique_ptr<Geometry> a, b;
            try { a = buildGeom(parts[1], gf); b = buildGeom(parts[2], gf); } catch (...) { std::cout << "invalid\n"; continue; }
            if (GEOSisValid_r(h, (GEOSGeometry*) a.get()) != 1 || GEOSisValid_r(h, (GEOSGeometry*) b.get()) != 1) { std::cout << "invalid\n"; continue; }
            std::cout << caseLine(c, parts[1], parts[2], (GEOSGeometry*) a.get(), (GEOSGeometry*) b.get(), ops) << "\n"; }
        GEOS_finish_r(h); return 0; }
    if (argc < 5) return 2;
    uint64_t seed = std::stoull(argv[2]); long n = std::stol(argv[3]); Out out(argv[4]); Rng r(seed);
    if (stream == "overlay-core") {
        // the real decision functions, exhaustively / on random facts:  R op l0 l1 | D op d0 d1 | E op | boxA | boxB   (box = n | x0 x1 y0 y1)
        using geos::operation::overlayng::OverlayNG; using geos::operation::overlayng::OverlayUtil; using geos::geom::Location;
        static const Location locs[3] = {Location::INTERIOR, Location::BOUNDARY, Location::EXTERIOR};
        for (int op = 0; op <= 5; op++) for (int a = 0; a < 3; a++) for (int b = 0; b < 3; b++) {
            out.emit("R " + std::to_string(op) + " " + std::to_string(a) + " " + std::to_string(b), OverlayNG::isResultOfOp(op, locs[a], locs[b]) ? "1" : "0"); out.count("isResultOfOp"); }
        for (int op = 1; op <= 4; op++) for (int a = -3; a <= 2; a++) for (int b = -3; b <= 2; b++) {
            out.emit("D " + std::to_string(op) + " " + std::to_string(a) + " " + std::to_string(b), std::to_string(OverlayUtil::resultDimension(op, a, b))); out.count("resultDimension"); }
        for (int d = -3; d <= 3; d++) { std::string t = "X";
            try { auto g = OverlayUtil::createEmptyResult(d, gf); t = std::to_string((int) g->getGeometryTypeId()); } catch (const std::exception&) { t = "assert"; }
            out.emit("T " + std::to_string(d), t); out.count("createEmptyResult"); }
        geos::geom::PrecisionModel pmf;
        for (long i = 0; i < n; i++) {
            int op = r.range(1, 4);
            auto mk = [&](std::string& tok) -> std::unique_ptr<Geometry> {
                if (r.chance(20)) { tok = "n"; out.count("empty_operand"); return gf->createPolygon(); }
                int x0 = r.range(0, 5), x1 = r.range(x0, 6), y0 = r.range(0, 5), y1 = r.range(y0, 6);
                tok = std::to_string(x0) + " " + std::to_string(x1) + " " + std::to_string(y0) + " " + std::to_string(y1);
                geos::geom::Envelope e(x0, x1, y0, y1); return gf->toGeometry(&e); };
            std::string ta, tb; auto a = mk(ta); auto b = mk(tb);
            bool v = OverlayUtil::isEmptyResult(op, a.get(), b.get(), &pmf);
            out.count(std::string("isEmptyResult_") + (v ? "true" : "false"));
            out.emit("E " + std::to_string(op) + " | " + ta + " | " + tb, v ? "1" : "0"); }
        GEOS_finish_r(h); return 0; }
    if (stream == "overlay-input") { c03clip::streamInput(r, h, out, n); GEOS_finish_r(h); return 0; }
    bool dbl = stream == "overlay-dbl";
    GridGen gen(r, h, &out); Ctx c{h, &out};
    static const char* BIN[] = {"int", "uni", "dif", "sym"};
    for (long i = 0; i < n; i++) {
        gen.span = r.chance(70) ? 6 : (r.chance(50) ? 3 : 8);
        gen.setPartner(GGeom{}, 0);
        bool cov = r.chance(6);
        GGeom A, B;
        bool bigSmall = !cov && r.chance(dbl ? 4 : 9);
        // families that reach OverlayNG's input preparation (ring clipping, clip-envelope computation, line limiting), a fixed share of every run
        int special = (!cov && r.chance(dbl ? 12 : 19)) ? 1 + (int) r.below(4) : 0;
        if (special) bigSmall = false;
        if (cov) { A = coverage(r, out); B.container = 2; }
        else if (special == 1) {
            // a polygon that wraps around its partner without containing it (thick C with tabs reaching into the cavity), partner inside the
            // cavity at the end of a tab: the clipped ring runs along the clip rectangle and back
            long S = r.range(8, 14); auto hs = c03clip::horseshoe(r, S); GElem e; e.kind = 2; e.rings.push_back(hs.ring); A.container = 0; A.elems.push_back(e);
            long wx0, wy0, wx1, wy1;
            if (!hs.tabEnds.empty() && r.chance(80)) { IPt te = hs.tabEnds[r.below(hs.tabEnds.size())]; wx0 = te.x - r.range(1, 3); wx1 = te.x + r.range(0, 2); wy0 = te.y - r.range(1, 2); wy1 = te.y + 1 + r.range(1, 2); }
            else { wx0 = r.range((int) hs.cx0, (int) hs.cx1 - 1); wy0 = r.range((int) hs.cy0, (int) hs.cy1 - 1); wx1 = wx0 + r.range(1, 3); wy1 = wy0 + r.range(1, 3); }
            long lo = hs.cx0 + (r.chance(80) ? 1 : 0), hi = hs.cx1 - (r.chance(80) ? 1 : 0);
            wx0 = std::max(lo, std::min(hi - 1, wx0)); wx1 = std::max(wx0 + 1, std::min(hi, wx1)); wy0 = std::max(lo, std::min(hi - 1, wy0)); wy1 = std::max(wy0 + 1, std::min(hi, wy1));
            B = c03clip::smallPartner(r, wx0, wy0, wx1, wy1);
            if (r.chance(50)) std::swap(A, B);
            out.count("wrap_around_partner"); }
        else if (special == 2) {
            // a polygon with a large hole with sloped edges; a small partner with exact contacts (vertices on it, a side along it) on ONE hole edge,
            // much shorter than that edge
            long S = 2 * r.range(4, 8); GElem e = c03clip::holed(r, S); A.container = 0; A.elems.push_back(e);
            long wx0 = 1, wy0 = 1, wx1 = 3, wy1 = 3; std::vector<IPt> must;
            if (e.rings.size() > 1) { auto& hl = e.rings[1]; size_t q = r.below(hl.size() - 1); IPt a = hl[q], b = hl[q + 1]; long g = gcdl(b.x - a.x, b.y - a.y);
                if (g > 0) { long ux = (b.x - a.x) / g, uy = (b.y - a.y) / g; long i0 = r.range(0, (int) g - 1), i1 = std::min(g, i0 + r.range(1, 2)); IPt c0{a.x + i0 * ux, a.y + i0 * uy}, c1{a.x + i1 * ux, a.y + i1 * uy};
                    int mode = (int) r.below(100); if (mode < 55) { must.push_back(c0); must.push_back(c1); } else if (mode < 85) must.push_back(c0);
                    wx0 = std::min(c0.x, c1.x) - r.range(0, 2); wx1 = std::max(c0.x, c1.x) + r.range(0, 2); wy0 = std::min(c0.y, c1.y) - r.range(0, 2); wy1 = std::max(c0.y, c1.y) + r.range(0, 2); } }
            wx0 = std::max(1L, wx0); wy0 = std::max(1L, wy0); wx1 = std::min(S - 1, std::max(wx0 + 1, wx1)); wy1 = std::min(S - 1, std::max(wy0 + 1, wy1));
            B = c03clip::smallPartner(r, wx0, wy0, wx1, wy1, must);
            if (r.chance(50)) std::swap(A, B);
            out.count("hole_edge_contact"); }
        else if (special == 3) {
            // several long lattice walks (more than 20 vertices each) wandering in and out of the neighbourhood of a small area
            long U = r.range(9, 14); long wx0 = r.range(2, (int) U - 5), wy0 = r.range(2, (int) U - 5), wx1 = wx0 + r.range(2, 3), wy1 = wy0 + r.range(2, 3);
            A.container = 1; int nl = r.chance(75) ? 2 : 3;        // (the exact oracle is quadratic in the number of segments: keep them just above the limit of 20)
            for (int q = 0; q < nl; q++) { GElem e; e.kind = 1; e.rings.push_back(c03clip::walkLine(r, U, r.range(21, 24))); A.elems.push_back(e); }
            B = c03clip::smallPartner(r, wx0, wy0, wx1, wy1); if (B.elems[0].kind != 2) { GElem e; e.kind = 2; e.rings.push_back({{wx0, wy0}, {wx1, wy0}, {wx1, wy1}, {wx0, wy1}, {wx0, wy0}}); B.elems[0] = e; }
            if (r.chance(50)) std::swap(A, B);
            out.count("long_lines_small_area"); }
        else if (special == 4) {
            // a collection with all three dimensions whose elements do NOT meet: a rectangle, a closed line (a loop that bounds no area) away from
            // it, and points strictly inside the loop / inside the rectangle / far from both — for the unary union the loop is linework, a point
            // inside it is covered by nothing
            long w = r.range(2, 4), hgt = r.range(2, 4), lx = w + r.range(2, 4), ls = r.range(3, 5);
            A.container = 2;
            { GElem e; e.kind = 2; e.rings.push_back({{0, 0}, {w, 0}, {w, hgt}, {0, hgt}, {0, 0}}); A.elems.push_back(e); }
            { GElem e; e.kind = 1; std::vector<IPt> loop = {{lx, 0}, {lx + ls, 0}, {lx + ls, ls}, {lx, ls}, {lx, 0}};
              if (r.chance(40)) loop = {{lx, 0}, {lx + ls, 0}, {lx + ls / 2, ls}, {lx, 0}};
              std::rotate(loop.begin(), loop.begin() + (long) r.below(loop.size() - 1), loop.end() - 1); loop.back() = loop.front();
              e.rings.push_back(loop); A.elems.push_back(e); }
            { GElem e; e.kind = 0; e.rings.push_back({IPt{lx + ls / 2, 1}}); A.elems.push_back(e); }                       // strictly inside the loop
            if (r.chance(60)) { GElem e; e.kind = 0; e.rings.push_back({IPt{1, 1}}); A.elems.push_back(e); }                // inside the rectangle
            if (r.chance(60)) { GElem e; e.kind = 0; e.rings.push_back({IPt{lx + ls + 3, ls + 3}}); A.elems.push_back(e); } // far from both
            for (size_t q = A.elems.size(); q > 1; q--) std::swap(A.elems[q - 1], A.elems[r.below(q)]);
            B = gen.geom(r.chance(50) ? 2 : 1, false, false);
            out.count("loop_with_inner_point"); }
        else if (bigSmall) {
            // a big operand with many vertices (every edge cut into m lattice pieces) and a small partner somewhere inside its extent,
            // with exact contacts on the big one's linework: the envelopes overlap only partly and the rings / lines have more than
            // 20 vertices — the situation in which OverlayNG clips rings and limits lines before noding
            auto kind = [&]() { int k = (int) r.below(100); return k < 55 ? 2 : k < 90 ? 1 : 3; };
            A = gen.geom(kind(), true, false);
            if (r.chance(45)) {          // several long lines in one operand (the limiter / clipper objects are reused from member to member)
                A = GGeom{}; A.container = 1; int nl = r.range(2, 4);
                for (int q = 0; q < nl; q++) { GGeom one = gen.geom(1, false, false); for (auto& e : one.elems) if (e.kind == 1) A.elems.push_back(e); }
                if (A.elems.empty()) A = gen.geom(1, true, false);
                out.count("big_small_multiline"); }
            long m = r.range(4, 8); scaleGeom(A, m, true);
            long W = (long) gen.span * m; int small = r.range(3, 5);
            long ox = r.range(0, (int) std::max<long>(0, W - small)), oy = r.range(0, (int) std::max<long>(0, W - small));
            for (auto& e : A.elems) for (auto& ring : e.rings) for (auto& p : ring) { p.x -= ox; p.y -= oy; }
            gen.span = small; gen.setPartner(A, 65);
            gen.pool.erase(std::remove_if(gen.pool.begin(), gen.pool.end(), [&](const IPt& p) { return p.x < -1 || p.y < -1 || p.x > small + 1 || p.y > small + 1; }), gen.pool.end());
            B = gen.geom(r.chance(60) ? 2 : 1, true, false);
            if (r.chance(50)) std::swap(A, B);
            out.count("big_small"); }
        else {
            auto kind = [&]() { int k = (int) r.below(100); return k < 50 ? 2 : k < 78 ? 1 : k < 88 ? 0 : 3; };
            A = r.chance(5) ? gen.nestedFrames() : gen.geom(kind(), true, false);
            gen.setPartner(A, r.chance(80) ? 55 : 0);
            B = r.chance(4) ? A : gen.geom(kind(), true, false);
            if (r.chance(50)) std::swap(A, B); }
        long scaleM = 1;
        if (!cov && !bigSmall && !special && r.chance(dbl ? 4 : 7)) {
            long m = r.range(5, 9); int which = (int) r.below(2); scaleM = m;          // one operand gets the vertices (the exact oracle is quadratic in them)
            scaleGeom(A, m, which == 0); scaleGeom(B, m, which == 1); out.count("many_vertices"); }
        std::string ta, tb; Xform t; DX d;
        if (!dbl) { t = gen.xform(); ta = GridGen::geomTok(A, t); tb = GridGen::geomTok(B, t); }
        else {
            double mag = std::pow(10.0, r.range(-3, 9) + r.unit()); double th = r.chance(25) ? 0.0 : r.unit() * 6.283185307179586;
            d.a = mag * std::cos(th); d.b = -mag * std::sin(th); d.c = mag * std::sin(th); d.d = mag * std::cos(th);
            if (th == 0.0) { d.b = 0; d.c = 0; out.count("axis_parallel"); }
            double off = r.chance(30) ? 0.0 : std::pow(10.0, r.range(-3, 9)); d.tx = off * (r.unit() - 0.5) * 2; d.ty = off * (r.unit() - 0.5) * 2;
            if (off >= 1e8) out.count("offset_ge_1e8");
            d.r = &r; d.ulpPct = (!cov && r.chance(35)) ? 30 : 0; if (d.ulpPct) out.count("ulp_perturbed");
            ta = geomTokD(A, d);
            if (!cov && r.chance(15)) {       // near-coincident copy: B = A displaced by a relative 1e-15 .. 1e-8 of the coordinate magnitude
                double m = std::max(std::fabs(d.tx), std::fabs(d.ty)) + mag * gen.span * (double) scaleM; DX d2 = d; d2.noise = m * std::pow(10.0, -15.0 + 7.0 * r.unit()); B = A; out.count("near_coincident_copy");
                tb = geomTokD(B, d2); }
            else tb = geomTokD(B, d); }
        // a collection wrapped in a one-element collection is the same point set and must take the same route
        auto wrap = [&](std::string& tk) { if (tk.rfind("0 ", 0) == 0 && r.chance(6)) { tk = "0 GC 1 " + tk.substr(2); out.count("wrapped_in_singleton_collection"); } };
        if (!cov) { wrap(ta); wrap(tb); }
        std::unique_ptr<Geometry> ga, gb;
        try { ga = buildGeom(ta, gf); gb = buildGeom(tb, gf); } catch (...) { out.count("build_rejected"); continue; }
        if (GEOSisValid_r(h, (GEOSGeometry*) ga.get()) != 1 || GEOSisValid_r(h, (GEOSGeometry*) gb.get()) != 1) { out.count("invalid_skipped"); continue; }
        out.count(std::string("typeA_") + ga->getGeometryType()); out.count(std::string("typeB_") + gb->getGeometryType());
        out.count("dims_" + std::to_string((int) ga->getDimension()) + "_" + std::to_string((int) gb->getDimension()));
        std::vector<std::string> ops;
        if (cov) { ops = {"cu:a", "uu:a", "dsu:a"}; if (ga->getGeometryTypeId() == geos::geom::GEOS_MULTIPOLYGON) ops.push_back("uc:a"); out.count("case_coverage"); }
        else {
            for (auto o : BIN) ops.push_back(std::string(o) + ":ab");
            if (r.chance(50)) for (auto o : BIN) ops.push_back(std::string(o) + ":ba");
            if (r.chance(12)) for (auto o : BIN) ops.push_back(std::string(o) + ":aa");
            if (r.chance(12)) { int k = (int) r.below(N_EMPTY); for (auto o : BIN) { ops.push_back(std::string(o) + ":ae" + std::to_string(k)); ops.push_back(std::string(o) + ":ea" + std::to_string(k)); } }
            if (special == 4 || r.chance(35)) { ops.push_back("uu:a"); if (r.chance(50)) ops.push_back("dsu:a"); if (ga->getGeometryTypeId() == geos::geom::GEOS_MULTIPOLYGON) ops.push_back("uc:a"); }
            if (r.chance(10)) ops.push_back("uu:gab");
            if (!dbl && r.chance(20)) {      // clip by a lattice rectangle (axis-parallel under the 8 lattice symmetries)
                long x0 = r.range(-1, gen.span - 1), y0 = r.range(-1, gen.span - 1), x1 = r.range((int) x0 + 1, gen.span + 1), y1 = r.range((int) y0 + 1, gen.span + 1);
                x0 *= scaleM; y0 *= scaleM; x1 *= scaleM; y1 *= scaleM;
                double ax, ay, bx, by; t.apply(IPt{x0, y0}, ax, ay); t.apply(IPt{x1, y1}, bx, by);
                ops.push_back("clip:a:" + hex(std::min(ax, bx)) + ":" + hex(std::min(ay, by)) + ":" + hex(std::max(ax, bx)) + ":" + hex(std::max(ay, by))); }
        }
        { FILE* cf = std::fopen((std::string(argv[4]) + ".current").c_str(), "w"); if (cf) { std::string s = "O | " + ta + " | " + tb; for (auto& o : ops) s += " | " + o; std::fprintf(cf, "%s\n", s.c_str()); std::fclose(cf); } }
        if (dbl && !cov && ga->getGeometryTypeId() != geos::geom::GEOS_GEOMETRYCOLLECTION && gb->getGeometryTypeId() != geos::geom::GEOS_GEOMETRYCOLLECTION
            && !(ga->getDimension() == 0 || gb->getDimension() == 0)) probeRung(c, ga.get(), gb.get());
        out.emit(caseLine(c, ta, tb, (GEOSGeometry*) ga.get(), (GEOSGeometry*) gb.get(), ops), "ok");
    }
    GEOS_finish_r(h); return 0;
}
