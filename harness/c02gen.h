// Generators of C02 beyond gridgen.h: polygons whose HOLES decide the answer, probe walks for the XY forms,
// and exact lattice helpers used only for the STAT distribution of stream rect-fast.
#pragma once
#include "gridgen.h"

namespace vh {

struct Cheese { GElem poly; std::vector<IPt> inHoles, inSolid; long W = 0, H = 0; };

inline IPt symPt(int sym, const IPt& p) {
    switch (sym & 7) { case 0: return {p.x, p.y}; case 1: return {-p.y, p.x}; case 2: return {-p.x, -p.y}; case 3: return {p.y, -p.x};
                       case 4: return {-p.x, p.y}; case 5: return {p.x, -p.y}; case 6: return {p.y, p.x}; default: return {-p.y, -p.x}; } }

// A shell around an nx x ny grid of cells; most cells carry a hole (sub-rectangle, triangle, L or U shape), solid walls between
// them.  Coordinates are doubled afterwards so that narrow slots of the non-convex holes have interior lattice points.  Returns the
// lattice points strictly inside holes / strictly inside the solid part: partners built from `inHoles` have every vertex OUTSIDE
// the polygon although their edges cross it - only the hole rings can tell.
inline Cheese makeCheese(Rng& r, GridGen& gen) {
    for (int tries = 0; tries < 10; tries++) {
        Cheese c; int nx = r.range(1, 3), ny = r.range(1, 3); long p = r.range(3, 5), w = p - 1;
        long W = nx * p + 1, H = ny * p + 1;
        std::vector<std::vector<IPt>> rings;
        std::vector<IPt> shell = {{0, 0}, {W, 0}, {W, H}, {0, H}, {0, 0}};
        if (r.chance(25)) { long m = r.range(1, (int) W - 1); shell.insert(shell.begin() + 1, IPt{m, -1}); gen.cnt("cheese_shell_bump"); }
        rings.push_back(shell);
        for (int i = 0; i < nx; i++) for (int j = 0; j < ny; j++) {
            if (!r.chance(80)) continue;
            long a = i * p + 1, b = j * p + 1; int shape = (int) r.below(100); std::vector<IPt> h;
            if (shape < 35) { long u0 = r.range(0, (int) w - 1), u1 = r.range((int) u0 + 1, (int) w), v0 = r.range(0, (int) w - 1), v1 = r.range((int) v0 + 1, (int) w);
                h = {{a + u0, b + v0}, {a + u1, b + v0}, {a + u1, b + v1}, {a + u0, b + v1}, {a + u0, b + v0}}; gen.cnt("cheese_hole_rect"); }
            else if (shape < 50) { std::vector<IPt> cs = {{a, b}, {a + w, b}, {a + w, b + w}, {a, b + w}}; cs.erase(cs.begin() + (long) r.below(4)); cs.push_back(cs[0]); h = cs; gen.cnt("cheese_hole_triangle"); }
            else if (shape < 78 || w < 3) { long k = r.range(1, (int) w - 1);
                h = {{a, b}, {a + w, b}, {a + w, b + k}, {a + k, b + k}, {a + k, b + w}, {a, b + w}, {a, b}}; gen.cnt("cheese_hole_L"); }
            else { long m1 = r.range(1, (int) w - 2), m2 = r.range((int) m1 + 1, (int) w - 1), d = r.range(1, (int) w - 1);
                h = {{a, b}, {a + w, b}, {a + w, b + w}, {a + m2, b + w}, {a + m2, b + d}, {a + m1, b + d}, {a + m1, b + w}, {a, b + w}, {a, b}}; gen.cnt("cheese_hole_U"); }
            // a symmetry of the cell box keeps the hole inside its cell
            int s = (int) r.below(8); for (auto& q : h) { IPt t = symPt(s, IPt{2 * (q.x - a) - w, 2 * (q.y - b) - w}); q = IPt{a + (t.x + w) / 2, b + (t.y + w) / 2}; }
            rings.push_back(h); }
        if (rings.size() < 2) continue;
        int s = (int) r.below(8); long mx = 1 << 30, my = 1 << 30;
        for (auto& rg : rings) for (auto& q : rg) { q = symPt(s, IPt{2 * q.x, 2 * q.y}); mx = std::min(mx, q.x); my = std::min(my, q.y); }
        for (auto& rg : rings) for (auto& q : rg) { q.x -= mx; q.y -= my; c.W = std::max(c.W, q.x); c.H = std::max(c.H, q.y); }
        for (auto& rg : rings) gen.vary(rg, true);
        c.poly.kind = 2; c.poly.rings = rings;
        if (!gen.validElem(c.poly)) continue;
        for (long x = 0; x <= c.W; x++) for (long y = 0; y <= c.H; y++) { IPt q{x, y};
            if (GridGen::locate(rings[0], q) != 1) continue; int in = 0, on = 0;
            for (size_t k = 1; k < rings.size(); k++) { int l = GridGen::locate(rings[k], q); if (l == 1) in = 1; if (l == 0) on = 1; }
            if (in) c.inHoles.push_back(q); else if (!on) c.inSolid.push_back(q); }
        if (c.inHoles.size() < 2) continue;
        gen.cnt("cheese_holes_" + std::to_string(rings.size() - 1));
        return c; }
    Cheese c; c.poly.kind = 2; c.W = c.H = 12;
    c.poly.rings = {{{0, 0}, {12, 0}, {12, 12}, {0, 12}, {0, 0}}, {{2, 2}, {5, 2}, {5, 5}, {2, 5}, {2, 2}}, {{7, 2}, {10, 2}, {10, 5}, {7, 5}, {7, 2}}};
    c.inHoles = {{3, 3}, {4, 4}, {8, 3}, {9, 4}}; c.inSolid = {{6, 6}, {1, 1}}; return c; }

// an axis-parallel rectangle with two opposite corners drawn from `pts` (false if none can be formed)
inline bool rectFrom(Rng& r, const std::vector<IPt>& pts, GElem& e) {
    for (int tries = 0; tries < 30 && pts.size() >= 2; tries++) { IPt p = pts[r.below(pts.size())], q = pts[r.below(pts.size())];
        if (p.x == q.x || p.y == q.y) continue; long x0 = std::min(p.x, q.x), x1 = std::max(p.x, q.x), y0 = std::min(p.y, q.y), y1 = std::max(p.y, q.y);
        e = GElem{}; e.kind = 2; e.rings.push_back({{x0, y0}, {x1, y0}, {x1, y1}, {x0, y1}, {x0, y0}}); return true; }
    return false; }

// any of the eight vertex orders of the same rectangle ring (start corner, direction)
inline void respin(Rng& r, std::vector<IPt>& ring) {
    std::vector<IPt> c(ring.begin(), ring.begin() + 4); if (r.chance(50)) std::reverse(c.begin(), c.end());
    std::rotate(c.begin(), c.begin() + (long) r.below(4), c.end()); c.push_back(c[0]); ring = c; }

// a walk of probe points for the XY forms: consecutive probes usually differ in ONE ordinate only (scanning a row or a column),
// ordinates are those of the target's vertices, their neighbours, and values beyond its envelope on either side
inline std::vector<IPt> probeWalk(Rng& r, const GGeom& a) {
    std::vector<long> xs, ys; long x0 = 1 << 30, x1 = -(1 << 30), y0 = x0, y1 = x1;
    for (auto& e : a.elems) if (!e.empty) for (auto& rg : e.rings) for (auto& p : rg) { xs.push_back(p.x); ys.push_back(p.y);
        x0 = std::min(x0, p.x); x1 = std::max(x1, p.x); y0 = std::min(y0, p.y); y1 = std::max(y1, p.y); }
    std::vector<IPt> w; if (xs.empty()) return w;
    auto pick = [&](const std::vector<long>& v, long lo, long hi) -> long { int m = (int) r.below(100);
        if (m < 30) return v[r.below(v.size())]; if (m < 60) return v[r.below(v.size())] + (r.chance(50) ? 1 : -1);
        if (m < 75) return lo + (long) r.below((uint64_t) (hi - lo + 1)); return r.chance(50) ? lo - r.range(1, 4) : hi + r.range(1, 4); };
    IPt p{pick(xs, x0, x1), pick(ys, y0, y1)}; int n = r.range(2, 6);
    for (int k = 0; k < n; k++) { w.push_back(p); int m = (int) r.below(100);
        if (m < 42) p.x = pick(xs, x0, x1); else if (m < 84) p.y = pick(ys, y0, y1); else if (m < 92) { p.x = pick(xs, x0, x1); p.y = pick(ys, y0, y1); } /* else: the same point again */ }
    return w; }

// ---- exact lattice helpers (STAT only: which visitor of RectangleIntersects has to decide)
inline bool segMeet(const IPt& a, const IPt& b, const IPt& c, const IPt& d) {
    auto sg = [](long v) { return (v > 0) - (v < 0); };
    auto onSeg = [](const IPt& p, const IPt& q, const IPt& x) { return cross(p, q, x) == 0 && std::min(p.x, q.x) <= x.x && x.x <= std::max(p.x, q.x) && std::min(p.y, q.y) <= x.y && x.y <= std::max(p.y, q.y); };
    int d1 = sg(cross(a, b, c)), d2 = sg(cross(a, b, d)), d3 = sg(cross(c, d, a)), d4 = sg(cross(c, d, b));
    if (d1 * d2 < 0 && d3 * d4 < 0) return true;
    return onSeg(a, b, c) || onSeg(a, b, d) || onSeg(c, d, a) || onSeg(c, d, b); }
inline bool ringsMeet(const std::vector<IPt>& r1, const std::vector<IPt>& r2) {
    for (size_t i = 0; i + 1 < r1.size(); i++) for (size_t j = 0; j + 1 < r2.size(); j++) if (segMeet(r1[i], r1[i + 1], r2[j], r2[j + 1])) return true;
    return false; }

// ---- "one element away from an area-less partner": a target WITHOUT area (lines, points or both; its envelope has positive area) and a source
// of 2-3 elements of which some lie in the target (chains along its linework, its vertices / edge points) and one is FREE: it shares no point
// with the target although it lies inside the target's envelope.  Against a target without area RelateNG tests the points of the source only
// when the predicate asks for it (requireExteriorCheck / requireCovers) - which differs between a predicate and its converse.
inline bool ptOnSeg(const IPt& a, const IPt& b, const IPt& x) { return cross(a, b, x) == 0 && std::min(a.x, b.x) <= x.x && x.x <= std::max(a.x, b.x) && std::min(a.y, b.y) <= x.y && x.y <= std::max(a.y, b.y); }
inline bool ptOnChain(const std::vector<IPt>& l, const IPt& x) { if (l.size() == 1) return l[0] == x; for (size_t i = 0; i + 1 < l.size(); i++) if (ptOnSeg(l[i], l[i + 1], x)) return true; return false; }
inline bool ptInPolyClosed(const GElem& poly, const IPt& x) { int l = GridGen::locate(poly.rings[0], x); if (l < 0) return false; if (l == 0) return true;
    for (size_t k = 1; k < poly.rings.size(); k++) if (GridGen::locate(poly.rings[k], x) == 1) return false; return true; }
// does element e share a point with the area-less geometry g? (exact)
inline bool elemMeets(const GElem& e, const GGeom& g) {
    for (auto& t : g.elems) { if (t.empty || t.rings.empty() || t.rings[0].empty()) continue; const std::vector<IPt>& tl = t.rings[0];
        if (e.kind == 0) { if (ptOnChain(tl, e.rings[0][0])) return true; }
        else if (e.kind == 1) { if (tl.size() == 1) { if (ptOnChain(e.rings[0], tl[0])) return true; } else if (ringsMeet(e.rings[0], tl)) return true; }
        else { for (auto& rg : e.rings) { if (tl.size() == 1) { if (ptOnChain(rg, tl[0])) return true; } else if (ringsMeet(rg, tl)) return true; }
               if (ptInPolyClosed(e, tl[0])) return true; } }
    return false; }

struct FreePair { GGeom S, T; bool ok = false; };
inline FreePair freeElementPair(Rng& r, GridGen& gen) {
    FreePair fp; int keepSpan = gen.span, keepWalk = gen.walkPct; gen.span = r.chance(50) ? 5 : 8; gen.setPartner(GGeom{}, 0); gen.walkPct = 0;
    int tk = (int) r.below(100); GGeom T;
    for (int tries = 0; tries < 8; tries++) { T = GGeom{};
        if (tk < 60) T = gen.geom(1, false, false);
        else if (tk < 78) { T.container = 1; int np = r.range(2, 4); for (int q = 0; q < np; q++) T.elems.push_back(gen.point()); }
        else { T.container = 2; T.elems.push_back(gen.line()); if (r.chance(50)) T.elems.push_back(gen.line()); int np = r.range(1, 2); for (int q = 0; q < np; q++) T.elems.push_back(gen.point());
               for (size_t k = T.elems.size(); k > 1; k--) std::swap(T.elems[k - 1], T.elems[r.below(k)]); }
        for (auto& e : T.elems) for (auto& rg : e.rings) for (auto& p : rg) { p.x *= 2; p.y *= 2; }
        long x0 = 1L << 40, y0 = x0, x1 = -x0, y1 = -x0; bool any = false;
        for (auto& e : T.elems) if (!e.empty) for (auto& rg : e.rings) for (auto& p : rg) { any = true; x0 = std::min(x0, p.x); x1 = std::max(x1, p.x); y0 = std::min(y0, p.y); y1 = std::max(y1, p.y); }
        if (!any || x1 - x0 < 4 || y1 - y0 < 4) continue;
        // covered elements
        gen.setPartner(T, 100); std::vector<GElem> cov; int nc = r.range(1, 2);
        for (int q = 0; q < nc; q++) { GElem e; bool haveLine = !gen.poolRings.empty();
            if (haveLine && r.chance(75)) { e.kind = 1; std::vector<IPt> w = gen.walk(); if (w.size() < 2) continue; e.rings.push_back(w); }
            else { e.kind = 0; e.rings.push_back({gen.pool[r.below(gen.pool.size())]}); }
            cov.push_back(e); }
        if (cov.empty()) continue;
        // the free element: inside the envelope of T, no point in common with T
        GElem fr; bool got = false;
        for (int t2 = 0; t2 < 25 && !got; t2++) { fr = GElem{}; int fk = (int) r.below(100);
            auto rp = [&]() { return IPt{x0 + (long) r.below((uint64_t) (x1 - x0 + 1)), y0 + (long) r.below((uint64_t) (y1 - y0 + 1))}; };
            if (fk < 60) { fr.kind = 1; int n = r.range(2, 3); std::vector<IPt> ps; for (int k = 0; k < n; k++) ps.push_back(rp()); if (ps[0] == ps[1]) continue; if (n == 3 && ps[2] == ps[1]) ps.pop_back(); fr.rings.push_back(ps); }
            else if (fk < 82) { fr.kind = 2; std::vector<IPt> ps; for (int k = 0; k < 4; k++) ps.push_back(rp()); auto hl = GridGen::hull(ps); if (hl.empty()) continue; fr.rings.push_back(hl); if (!gen.validElem(fr)) continue; }
            else { fr.kind = 0; fr.rings.push_back({rp()}); }
            if (elemMeets(fr, T)) continue;
            got = true; }
        if (!got) continue;
        GGeom S; for (auto& e : cov) S.elems.push_back(e); S.elems.push_back(fr);
        for (size_t k = S.elems.size(); k > 1; k--) std::swap(S.elems[k - 1], S.elems[r.below(k)]);
        bool same = true; for (auto& e : S.elems) if (e.kind != S.elems[0].kind) same = false;
        S.container = (same && !r.chance(25)) ? 1 : 2;
        gen.cnt(std::string("free_target_") + (tk < 60 ? "lines" : tk < 78 ? "points" : "lines_and_points"));
        gen.cnt(std::string("free_element_") + (fr.kind == 0 ? "point" : fr.kind == 1 ? "line" : "polygon"));
        fp.S = S; fp.T = T; fp.ok = true; break; }
    gen.span = keepSpan; gen.walkPct = keepWalk; gen.setPartner(GGeom{}, 0);
    return fp; }

} // namespace vh
