// Infrastructure self-test: GTree tokens -> GEOS geometry -> tokens must be the identity (for inputs GEOS accepts),
// and the Lean driver's parser/printer must agree (stream gtree-echo).
#include "gtree.h"
using namespace vh;
int main(int argc, char** argv) {
    if (argc < 5) return 2;
    std::string stream = argv[1]; uint64_t seed = std::stoull(argv[2]); long n = std::stol(argv[3]); Out out(argv[4]); Rng r(seed);
    auto gf = GeometryFactory::create();
    GenCfg cfg; cfg.mixedDims = (stream == "gtree-mixed");
    GTreeGen gen(r, cfg, &out);
    for (long i = 0; i < n; i++) {
        std::string line = gen.geom();
        try { auto g = buildGeom(line, gf.get()); std::string d = dumpGeom(g.get());
              if (d == line) out.count("roundtrip_identical"); else out.count("roundtrip_changed");
              out.emit(line, line); }
        catch (std::exception& e) { out.count("rejected"); out.count(std::string("rejected: ") + std::string(e.what()).substr(0, 60)); }
    }
    return 0;
}
