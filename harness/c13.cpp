// C13 support harness (NOT proof): threads with their own contexts and objects.
//   c13 threads <seed> <n> <outbase>      n cases; each: T in 2..16 threads run random scripts of reentrant calls on private
//                                         data and on shared pre-built immutable geometries, with context creation/destruction
//                                         inside the scripts; every thread's transcript is compared with the transcript of the
//                                         same script run alone beforehand.
//   c13 sharedlocate <seed> <n> <outbase> n cases; each: one lattice polygon prepared and fully built before sharing, then 2..8 threads ask
//                                         point predicates of it at once (different points, many rounds); letters I/B/E/X per point
//   c13 replay <file>                     case lines -> observation on stdout
//   c13 scenario <name> <threads> <iters> targeted scenarios for the race candidates (meant for the tsan flavour):
//                                         refcount | interrupt | version | hasz | gcflags | sharedprep
// case line  : T <threads> <caseseed> | <abstract script of thread 0> ; <thread 1> ; ...
//              abstract ops: n = GEOS_init_r, x = GEOS_finish_r, g = call creating/destroying private geometries,
//              p = call that polls for interrupts, r = read-only call on a shared geometry
// expect line: ok   |   diff thread=<t> op=<i> kind=<k>
#include "common.h"
#include <geos_c.h>
#include <thread>
#include <atomic>
#include <fstream>
#include <iostream>
#include <functional>

using namespace vh;

static void noth(const char*, void*) {}
static void noopcb(void) {}

static GEOSContextHandle_t newCtx() {
    GEOSContextHandle_t h = GEOS_init_r();
    GEOSContext_setErrorMessageHandler_r(h, noth, nullptr);
    GEOSContext_setNoticeMessageHandler_r(h, noth, nullptr);
    return h;
}

static std::string wkbHex(GEOSContextHandle_t h, const GEOSGeometry* g) {
    if (!g) return "null";
    GEOSWKBWriter* w = GEOSWKBWriter_create_r(h); GEOSWKBWriter_setOutputDimension_r(h, w, 3);
    size_t sz = 0; unsigned char* b = GEOSWKBWriter_write_r(h, w, g, &sz);
    std::string s = b ? hexbytes(b, sz) : "wkb-error"; if (b) GEOSFree_r(h, b); GEOSWKBWriter_destroy_r(h, w);
    // keep transcripts short: length + FNV hash of the bytes
    uint64_t f = 1469598103934665603ULL; for (char c : s) { f ^= (unsigned char) c; f *= 1099511628211ULL; }
    char o[48]; snprintf(o, sizeof o, "%zu:%016llx", s.size(), (unsigned long long) f); return o;
}

static GEOSGeometry* star(GEOSContextHandle_t h, Rng& r, double cx, double cy, double rad, int nv, bool z = false) {
    std::vector<double> b; double a0 = r.unit() * 6.28;
    for (int i = 0; i <= nv; i++) { int k = i % nv; double a = a0 + 6.283185307179586 * k / nv;
        // radius must be a function of k so that the ring closes
        Rng q(r.s + (uint64_t) k * 7919); double rr = rad * (0.5 + 0.5 * q.unit());
        b.push_back(cx + rr * std::cos(a)); b.push_back(cy + rr * std::sin(a)); if (z) b.push_back(1.0 + k); }
    GEOSCoordSequence* cs = GEOSCoordSeq_copyFromBuffer_r(h, b.data(), (unsigned) (nv + 1), z ? 1 : 0, 0);
    r.next();
    return GEOSGeom_createPolygon_r(h, GEOSGeom_createLinearRing_r(h, cs), nullptr, 0);
}

// ---------------------------------------------------------------------------------------------- shared immutable objects
struct Shared {
    std::vector<GEOSGeometry*> geoms;           // built (and fully exercised once) before any thread starts
    GEOSSTRtree* tree = nullptr;                // built AND queried before sharing
    const GEOSPreparedGeometry* prep = nullptr; // prepared and warmed (intersects/contains with point and polygon) before sharing
    std::vector<GEOSGeometry*> treeItems;
};
static Shared S;
static GEOSContextHandle_t H0;

static void qcb(void* item, void* ud) { ((std::vector<long>*) ud)->push_back((long) (intptr_t) item); }

static void buildShared(uint64_t seed) {
    Rng r(seed);
    S.geoms.push_back(star(H0, r, 0, 0, 5, 40));
    S.geoms.push_back(star(H0, r, 2, 1, 4, 25, true));
    { GEOSGeometry* parts[3] = { star(H0, r, 10, 0, 2, 12), GEOSGeom_createPointFromXY_r(H0, 3, 3), star(H0, r, -8, 2, 3, 9, true) };
      S.geoms.push_back(GEOSGeom_createCollection_r(H0, GEOS_GEOMETRYCOLLECTION, parts, 3)); }
    { std::vector<double> b; for (int i = 0; i < 30; i++) { b.push_back(i * 0.7 - 8); b.push_back(std::sin(i * 0.9) * 4); }
      S.geoms.push_back(GEOSGeom_createLineString_r(H0, GEOSCoordSeq_copyFromBuffer_r(H0, b.data(), 30, 0, 0))); }
    { GEOSGeometry* polys[4]; for (int i = 0; i < 4; i++) polys[i] = star(H0, r, i * 12, 20, 4, 15);
      S.geoms.push_back(GEOSGeom_createCollection_r(H0, GEOS_MULTIPOLYGON, polys, 4)); }
    // exercise every lazily computed attribute once, single-threaded ("built before sharing")
    for (GEOSGeometry* g : S.geoms) {
        double a; GEOSArea_r(H0, g, &a); GEOSLength_r(H0, g, &a); GEOSHasZ_r(H0, g); GEOSGeom_getCoordinateDimension_r(H0, g);
        GEOSGeom_getDimensions_r(H0, g); GEOSisValid_r(H0, g); GEOSGeometry* e = GEOSEnvelope_r(H0, g); GEOSGeom_destroy_r(H0, e);
        GEOSisEmpty_r(H0, g); GEOSGetNumGeometries_r(H0, g);
    }
    S.tree = GEOSSTRtree_create_r(H0, 6);
    for (int i = 0; i < 60; i++) { GEOSGeometry* p = GEOSGeom_createPointFromXY_r(H0, r.unit() * 40 - 10, r.unit() * 40 - 10);
        S.treeItems.push_back(p); GEOSSTRtree_insert_r(H0, S.tree, p, (void*) (intptr_t) (i + 1)); }
    GEOSSTRtree_build_r(H0, S.tree);
    { std::vector<long> v; GEOSSTRtree_query_r(H0, S.tree, S.geoms[0], qcb, &v); }
    S.prep = GEOSPrepare_r(H0, S.geoms[0]);
    { GEOSGeometry* p = GEOSGeom_createPointFromXY_r(H0, 0.1, 0.2);
      GEOSPreparedIntersects_r(H0, S.prep, p); GEOSPreparedContains_r(H0, S.prep, p);
      GEOSPreparedIntersects_r(H0, S.prep, S.geoms[1]); GEOSPreparedContains_r(H0, S.prep, S.geoms[1]);
      GEOSPreparedIntersects_r(H0, S.prep, S.geoms[3]);
      GEOSGeom_destroy_r(H0, p); }
}

// ---------------------------------------------------------------------------------------------- scripts
struct Op { int code; uint64_t arg; };
static const int NCODES = 22;
static char classOf(int code) {
    switch (code) {
    case 0: return 'n'; case 1: return 'x';
    case 2: case 3: case 4: case 5: case 6: case 7: case 8: case 9: return 'g';
    case 10: case 11: case 12: return 'p';
    default: return 'r';
    }
}

static std::vector<Op> genScript(Rng& r, int len) {
    std::vector<Op> v;
    for (int i = 0; i < len; i++) { Op o; o.code = (int) r.below(NCODES); o.arg = r.next(); v.push_back(o); }
    return v;
}

static std::string dbl(double d) { return hex(d); }

// run one script with own contexts; transcript entry per op
static void runScript(const std::vector<Op>& script, std::vector<std::string>& tr) {
    GEOSContextHandle_t h = newCtx();
    std::vector<GEOSContextHandle_t> extra;
    for (const Op& o : script) {
        Rng r(o.arg); std::string out;
        switch (o.code) {
        case 0: { extra.push_back(newCtx()); out = "ctx+"; break; }
        case 1: { if (!extra.empty()) { GEOS_finish_r(extra.back()); extra.pop_back(); out = "ctx-"; } else out = "ctx0"; break; }
        case 2: { GEOSGeometry* g = star(h, r, 0, 0, 3, 5 + (int) r.below(30)); double a = 0; GEOSArea_r(h, g, &a); out = "area:" + dbl(a); GEOSGeom_destroy_r(h, g); break; }
        case 3: { GEOSGeometry* g = star(h, r, 0, 0, 3, 5 + (int) r.below(20)); GEOSWKTWriter* w = GEOSWKTWriter_create_r(h); char* t = GEOSWKTWriter_write_r(h, w, g);
                  GEOSWKTReader* rd = GEOSWKTReader_create_r(h); GEOSGeometry* g2 = GEOSWKTReader_read_r(h, rd, t); out = "wkt:" + wkbHex(h, g2);
                  GEOSGeom_destroy_r(h, g2); GEOSWKTReader_destroy_r(h, rd); GEOSFree_r(h, t); GEOSWKTWriter_destroy_r(h, w); GEOSGeom_destroy_r(h, g); break; }
        case 4: { GEOSGeometry* a = star(h, r, 0, 0, 3, 6 + (int) r.below(20)); GEOSGeometry* b = star(h, r, 1, 1, 3, 6 + (int) r.below(20));
                  GEOSGeometry* c = GEOSIntersection_r(h, a, b); out = "int:" + wkbHex(h, c); if (c) GEOSGeom_destroy_r(h, c); GEOSGeom_destroy_r(h, a); GEOSGeom_destroy_r(h, b); break; }
        case 5: { GEOSGeometry* a = star(h, r, 0, 0, 3, 6 + (int) r.below(20)); GEOSGeometry* b = star(h, r, 1, 1, 3, 6 + (int) r.below(20));
                  GEOSGeometry* c = GEOSUnion_r(h, a, b); out = "uni:" + wkbHex(h, c); if (c) GEOSGeom_destroy_r(h, c); GEOSGeom_destroy_r(h, a); GEOSGeom_destroy_r(h, b); break; }
        case 6: { GEOSGeometry* a = star(h, r, 0, 0, 3, 6 + (int) r.below(15)); char v = GEOSisValid_r(h, a); char s = GEOSisSimple_r(h, a); out = std::string("val:") + (char) ('0' + v) + (char) ('0' + s); GEOSGeom_destroy_r(h, a); break; }
        case 7: { GEOSSTRtree* t = GEOSSTRtree_create_r(h, 4); std::vector<GEOSGeometry*> ps;
                  for (int i = 0; i < 25; i++) { GEOSGeometry* p = GEOSGeom_createPointFromXY_r(h, r.unit() * 10, r.unit() * 10); ps.push_back(p); GEOSSTRtree_insert_r(h, t, p, (void*) (intptr_t) (i + 1)); }
                  GEOSGeometry* q = star(h, r, 5, 5, 3, 8); std::vector<long> v; GEOSSTRtree_query_r(h, t, q, qcb, &v); std::sort(v.begin(), v.end());
                  out = "tree:"; for (long x : v) out += std::to_string(x) + ","; GEOSGeom_destroy_r(h, q); GEOSSTRtree_destroy_r(h, t); for (auto p : ps) GEOSGeom_destroy_r(h, p); break; }
        case 8: { GEOSGeometry* a = star(h, r, 0, 0, 3, 6 + (int) r.below(15)); const GEOSPreparedGeometry* pg = GEOSPrepare_r(h, a); GEOSGeometry* p = GEOSGeom_createPointFromXY_r(h, r.unit() * 4 - 2, r.unit() * 4 - 2);
                  out = std::string("prep:") + (char) ('0' + GEOSPreparedContains_r(h, pg, p)); GEOSGeom_destroy_r(h, p); GEOSPreparedGeom_destroy_r(h, pg); GEOSGeom_destroy_r(h, a); break; }
        case 9: { GEOSGeometry* a = star(h, r, 0, 0, 3, 6 + (int) r.below(15)); GEOSGeometry* c = GEOSGeom_clone_r(h, a); GEOSNormalize_r(h, c); out = "norm:" + wkbHex(h, c); GEOSGeom_destroy_r(h, c); GEOSGeom_destroy_r(h, a); break; }
        case 10: { GEOSGeometry* a = star(h, r, 0, 0, 3, 6 + (int) r.below(25)); GEOSGeometry* c = GEOSBuffer_r(h, a, 0.3, 4); out = "buf:" + wkbHex(h, c); if (c) GEOSGeom_destroy_r(h, c); GEOSGeom_destroy_r(h, a); break; }
        case 11: { GEOSGeometry* a = star(h, r, 0, 0, 3, 6 + (int) r.below(25)); GEOSGeometry* c = GEOSConvexHull_r(h, a); out = "hull:" + wkbHex(h, c); if (c) GEOSGeom_destroy_r(h, c); GEOSGeom_destroy_r(h, a); break; }
        case 12: { GEOSGeometry* a = star(h, r, 0, 0, 3, 6 + (int) r.below(25)); GEOSGeometry* c = GEOSMakeValid_r(h, a); out = "mv:" + wkbHex(h, c); if (c) GEOSGeom_destroy_r(h, c); GEOSGeom_destroy_r(h, a); break; }
        // ---- read-only calls on shared immutable geometries
        case 13: { const GEOSGeometry* g = S.geoms[r.below(S.geoms.size())]; double a = 0, l = 0; GEOSArea_r(h, g, &a); GEOSLength_r(h, g, &l); out = "sarea:" + dbl(a) + dbl(l); break; }
        case 14: { const GEOSGeometry* g = S.geoms[r.below(S.geoms.size())]; out = "swkb:" + wkbHex(h, g); break; }
        case 15: { const GEOSGeometry* a = S.geoms[r.below(S.geoms.size())]; const GEOSGeometry* b = S.geoms[r.below(S.geoms.size())];
                   char* m = GEOSRelate_r(h, a, b); out = std::string("srel:") + (m ? m : "null"); if (m) GEOSFree_r(h, m); break; }
        case 16: { const GEOSGeometry* a = S.geoms[r.below(S.geoms.size())]; const GEOSGeometry* b = S.geoms[r.below(S.geoms.size())]; double d = -1; GEOSDistance_r(h, a, b, &d); out = "sdist:" + dbl(d); break; }
        case 17: { const GEOSGeometry* g = S.geoms[r.below(S.geoms.size())]; out = "sdim:" + std::to_string(GEOSHasZ_r(h, g)) + std::to_string(GEOSGeom_getCoordinateDimension_r(h, g)) + std::to_string(GEOSGeom_getDimensions_r(h, g)) + std::to_string(GEOSGetNumGeometries_r(h, g)); break; }
        case 18: { const GEOSGeometry* g = S.geoms[r.below(S.geoms.size())]; GEOSGeometry* p = star(h, r, 0, 0, 4, 8); GEOSGeometry* c = GEOSIntersection_r(h, g, p); out = "sint:" + wkbHex(h, c); if (c) GEOSGeom_destroy_r(h, c); GEOSGeom_destroy_r(h, p); break; }
        case 19: { GEOSGeometry* q = star(h, r, r.unit() * 20, r.unit() * 20, 6, 8); std::vector<long> v; GEOSSTRtree_query_r(h, S.tree, q, qcb, &v); std::sort(v.begin(), v.end());
                   out = "stree:"; for (long x : v) out += std::to_string(x) + ","; GEOSGeom_destroy_r(h, q); break; }
        case 20: { GEOSGeometry* p = GEOSGeom_createPointFromXY_r(h, r.unit() * 10 - 5, r.unit() * 10 - 5); // point arguments only: with a lineal/areal argument PreparedPolygon::intersects keeps per-call state in the shared
                   // FastSegmentSetIntersectionFinder and crashes when called concurrently (scenario `sharedprep` shows it in a child process)
                   out = std::string("sprep:") + (char) ('0' + GEOSPreparedContains_r(h, S.prep, p)) + (char) ('0' + GEOSPreparedIntersects_r(h, S.prep, p)); GEOSGeom_destroy_r(h, p); break; }
        default: { const GEOSGeometry* g = S.geoms[r.below(S.geoms.size())]; GEOSGeometry* c = GEOSGeom_clone_r(h, g); GEOSGeometry* e = GEOSEnvelope_r(h, c); out = "sclone:" + wkbHex(h, e); GEOSGeom_destroy_r(h, e); GEOSGeom_destroy_r(h, c); break; }
        }
        tr.push_back(out);
    }
    for (auto e : extra) GEOS_finish_r(e);
    GEOS_finish_r(h);
}

static std::string runCase(int T, uint64_t cseed, std::string* caseLine, Out* out) {
    std::vector<std::vector<Op>> scripts;
    Rng r(cseed);
    for (int t = 0; t < T; t++) scripts.push_back(genScript(r, 6 + (int) r.below(20)));
    if (caseLine) {
        std::string s = "T " + std::to_string(T) + " " + std::to_string(cseed) + " |";
        for (int t = 0; t < T; t++) { s += t ? " ; " : " "; s += 'n'; for (auto& o : scripts[t]) s += classOf(o.code); s += 'x'; }
        *caseLine = s;
    }
    std::vector<std::vector<std::string>> seq(T), con(T);
    for (int t = 0; t < T; t++) runScript(scripts[t], seq[t]);           // each script alone
    std::atomic<int> go{0};
    std::vector<std::thread> th;
    for (int t = 0; t < T; t++) th.emplace_back([&, t]() { go.fetch_add(1); while (go.load() < T) std::this_thread::yield(); runScript(scripts[t], con[t]); });
    for (auto& x : th) x.join();
    if (out) { out->count("threads." + std::to_string(T)); for (auto& sc : scripts) for (auto& o : sc) out->count(std::string("opclass.") + classOf(o.code)); out->count("calls", 0); for (auto& sc : scripts) out->count("calls", (long) sc.size()); }
    for (int t = 0; t < T; t++) {
        if (seq[t].size() != con[t].size()) return "diff thread=" + std::to_string(t) + " op=len kind=-";
        for (size_t i = 0; i < seq[t].size(); i++) if (seq[t][i] != con[t][i])
            return "diff thread=" + std::to_string(t) + " op=" + std::to_string(i) + " kind=" + seq[t][i].substr(0, seq[t][i].find(':'));
    }
    return "ok";
}

// ---------------------------------------------------------------------------------------------- stream `sharedlocate`
// One prepared polygon (lattice coordinates), every lazily created part built before sharing (point predicates asked by the
// main thread until the simple locator, the indexed locator, its interval index and the facet-distance index exist), then
// asked point questions by T threads at once — own contexts, own point objects, different points whose locations differ, each
// thread cycling through its points for many rounds.  Every single answer of every round is compared with what the location of
// the point implies; the location letter reported for a point is I / B / E when all its answers agreed with one location and
// X otherwise.  The Lean side (`Model/Conc/IndexedLocate.lean`) computes the letters from rings and points alone.
// case line  : SL <T> <rounds> <nrings> {<n> x y ...} {<k> x y ...}(T times)      (decimal lattice integers; converted exactly)
// expect line: letters of thread 0 ; letters of thread 1 ; ...
struct LPt { long x, y; };
struct SLCase { int T = 0; long rounds = 0; std::vector<std::vector<LPt>> rings; std::vector<std::vector<LPt>> pts; };

static long gcdl(long a, long b) { a = std::labs(a); b = std::labs(b); while (b) { long t = a % b; a = b; b = t; } return a; }

static SLCase genSL(Rng& r, Out* out) {
    SLCase c; c.T = 2 + (int) r.below(7); c.rounds = 400 + (long) r.below(1600);
    int kind = (int) r.below(10);
    if (kind == 0) {            // rectangle (answered by the rectangle short cuts, not by the locator)
        long w = 1 + (long) r.below(12), h = 1 + (long) r.below(12); c.rings.push_back({{0, 0}, {w, 0}, {w, h}, {0, h}, {0, 0}});
        if (out) out->count("poly.rectangle");
    } else {                    // star-shaped lattice ring around the origin, optionally with a hole (a smaller star)
        std::vector<LPt> dirs; int m = 1 + (int) r.below(3);
        for (long x = -m; x <= m; x++) for (long y = -m; y <= m; y++) if ((x || y) && gcdl(x, y) == 1) dirs.push_back({x, y});
        std::sort(dirs.begin(), dirs.end(), [](const LPt& a, const LPt& b) { return std::atan2((double) a.y, (double) a.x) < std::atan2((double) b.y, (double) b.x); });
        for (;;) { std::vector<LPt> sel; int keep = 30 + (int) r.below(70); for (auto& d : dirs) if (r.chance(keep)) sel.push_back(d);
            if (sel.size() < 3) continue; bool ok = true;
            for (size_t i = 0; i < sel.size(); i++) { const LPt& a = sel[i]; const LPt& b = sel[(i + 1) % sel.size()]; if (a.x * b.y - a.y * b.x <= 0) ok = false; }
            if (!ok) continue;
            std::vector<LPt> shell, hole; bool withHole = r.chance(40);
            for (auto& d : sel) { long k = 2 + (long) r.below(5); shell.push_back({d.x * k * 2, d.y * k * 2}); hole.push_back({d.x * (1 + (long) r.below(2)), d.y * (1 + (long) r.below(2))}); }
            shell.push_back(shell[0]); hole.push_back(hole[0]);
            if (r.chance(50)) std::reverse(shell.begin(), shell.end());
            c.rings.push_back(shell); if (withHole) c.rings.push_back(hole);
            if (out) out->count(withHole ? "poly.star+hole" : "poly.star");
            break; }
    }
    long lo = 0, hi = 0; for (auto& p : c.rings[0]) { lo = std::min(lo, std::min(p.x, p.y)); hi = std::max(hi, std::max(p.x, p.y)); }
    for (int t = 0; t < c.T; t++) { int k = 1 + (int) r.below(5); std::vector<LPt> v;
        for (int i = 0; i < k; i++) { int w = (int) r.below(10); LPt q;
            if (w < 6) q = {lo - 1 + (long) r.below((uint64_t) (hi - lo + 3)), lo - 1 + (long) r.below((uint64_t) (hi - lo + 3))};       // lattice point in or just outside the envelope
            else if (w < 8) { auto& rg = c.rings[r.below(c.rings.size())]; q = rg[r.below(rg.size())]; }                               // a vertex
            else if (w < 9) { auto& rg = c.rings[r.below(c.rings.size())]; size_t e = r.below(rg.size() - 1); q = {(rg[e].x + rg[e + 1].x) / 2, (rg[e].y + rg[e + 1].y) / 2}; }   // (near) an edge midpoint
            else q = {0, 0};
            v.push_back(q); }
        c.pts.push_back(v); }
    return c;
}

static std::string slLine(const SLCase& c) {
    std::string s = "SL " + std::to_string(c.T) + " " + std::to_string(c.rounds) + " " + std::to_string(c.rings.size());
    for (auto& rg : c.rings) { s += " " + std::to_string(rg.size()); for (auto& p : rg) s += " " + std::to_string(p.x) + " " + std::to_string(p.y); }
    for (auto& v : c.pts) { s += " " + std::to_string(v.size()); for (auto& p : v) s += " " + std::to_string(p.x) + " " + std::to_string(p.y); }
    return s;
}

static bool slParse(const std::string& line, SLCase& c) {
    std::istringstream is(line); std::string tag; long nr; if (!(is >> tag >> c.T >> c.rounds >> nr) || tag != "SL" || c.T < 1 || c.T > 64 || nr < 1) return false;
    for (long i = 0; i < nr; i++) { long n; if (!(is >> n) || n < 4) return false; std::vector<LPt> rg((size_t) n); for (auto& p : rg) if (!(is >> p.x >> p.y)) return false; c.rings.push_back(rg); }
    for (int t = 0; t < c.T; t++) { long k; if (!(is >> k) || k < 0) return false; std::vector<LPt> v((size_t) k); for (auto& p : v) if (!(is >> p.x >> p.y)) return false; c.pts.push_back(v); }
    return true;
}

static GEOSGeometry* slRing(GEOSContextHandle_t h, const std::vector<LPt>& rg) {
    std::vector<double> b; for (auto& p : rg) { b.push_back((double) p.x); b.push_back((double) p.y); }
    return GEOSGeom_createLinearRing_r(h, GEOSCoordSeq_copyFromBuffer_r(h, b.data(), (unsigned) rg.size(), 0, 0));
}

// the answers one question must give for a point at location loc (0 interior, 1 boundary, 2 exterior); question kinds 0..7
static const int SLKINDS = 8;
static int slAsk(GEOSContextHandle_t h, const GEOSPreparedGeometry* pg, const GEOSGeometry* pt, double x, double y, int kind) {
    switch (kind) {
    case 0: return GEOSPreparedContains_r(h, pg, pt);
    case 1: return GEOSPreparedIntersects_r(h, pg, pt);
    case 2: return GEOSPreparedCovers_r(h, pg, pt);
    case 3: return GEOSPreparedContainsXY_r(h, pg, x, y);
    case 4: return GEOSPreparedIntersectsXY_r(h, pg, x, y);
    case 5: return GEOSPreparedContainsProperly_r(h, pg, pt);
    case 6: return GEOSPreparedDisjoint_r(h, pg, pt);
    default: return GEOSPreparedTouches_r(h, pg, pt);
    }
}
static int slWant(int kind, int loc) {
    switch (kind) { case 0: case 3: case 5: return loc == 0; case 1: case 2: case 4: return loc != 2; case 6: return loc == 2; default: return loc == 1; }
}

static std::string runSL(const SLCase& c, Out* out) {
    std::vector<GEOSGeometry*> holes; for (size_t i = 1; i < c.rings.size(); i++) holes.push_back(slRing(H0, c.rings[i]));
    GEOSGeometry* poly = GEOSGeom_createPolygon_r(H0, slRing(H0, c.rings[0]), holes.data(), (unsigned) holes.size());
    if (!poly) return "bad-polygon";
    const GEOSPreparedGeometry* pg = GEOSPrepare_r(H0, poly);
    // build before sharing + sequential reference: the location of every point, from contains / intersects asked alone
    std::vector<std::vector<int>> loc(c.pts.size());
    for (int rep = 0; rep < 2; rep++) for (size_t t = 0; t < c.pts.size(); t++) { loc[t].assign(c.pts[t].size(), 2);
        for (size_t i = 0; i < c.pts[t].size(); i++) { double x = (double) c.pts[t][i].x, y = (double) c.pts[t][i].y; GEOSGeometry* p = GEOSGeom_createPointFromXY_r(H0, x, y);
            int con = GEOSPreparedContains_r(H0, pg, p), its = GEOSPreparedIntersects_r(H0, pg, p); loc[t][i] = con == 1 ? 0 : its == 1 ? 1 : 2;
            for (int k = 0; k < SLKINDS; k++) if (slAsk(H0, pg, p, x, y, k) != slWant(k, loc[t][i])) loc[t][i] = 3;    // not even consistent alone
            double d = -1; GEOSPreparedDistance_r(H0, pg, p, &d); if ((d == 0.0) != (loc[t][i] != 2) && loc[t][i] != 3) loc[t][i] = 3;
            GEOSGeom_destroy_r(H0, p); } }
    { GEOSGeometry* p = GEOSGeom_createPointFromXY_r(H0, 0.5, 0.25); for (int i = 0; i < 4; i++) { GEOSPreparedContains_r(H0, pg, p); GEOSPreparedIntersects_r(H0, pg, p); } GEOSGeom_destroy_r(H0, p); }
    std::vector<std::vector<int>> bad(c.pts.size()); for (size_t t = 0; t < c.pts.size(); t++) bad[t].assign(c.pts[t].size(), 0);
    std::atomic<int> go{0}; std::vector<std::thread> th; const int T = c.T; long calls = 0;
    for (int t = 0; t < T; t++) th.emplace_back([&, t]() {
        GEOSContextHandle_t h = newCtx(); std::vector<GEOSGeometry*> mine;
        for (auto& q : c.pts[t]) mine.push_back(GEOSGeom_createPointFromXY_r(h, (double) q.x, (double) q.y));
        go.fetch_add(1); while (go.load() < T) std::this_thread::yield();
        for (long rd = 0; rd < c.rounds; rd++) for (size_t i = 0; i < mine.size(); i++) {
            int kind = (int) ((rd + (long) i + t) % SLKINDS);
            if (loc[t][i] != 3 && slAsk(h, pg, mine[i], (double) c.pts[t][i].x, (double) c.pts[t][i].y, kind) != slWant(kind, loc[t][i])) bad[t][i]++;
            if (rd % 64 == 63 && loc[t][i] != 3) { double d = -1; GEOSPreparedDistance_r(h, pg, mine[i], &d); if ((d == 0.0) != (loc[t][i] != 2)) bad[t][i]++; }
        }
        for (auto g : mine) GEOSGeom_destroy_r(h, g);
        GEOS_finish_r(h);
    });
    for (auto& x : th) x.join();
    std::string e;
    for (size_t t = 0; t < c.pts.size(); t++) { if (t) e += ';'; if (c.pts[t].empty()) e += '-';
        for (size_t i = 0; i < c.pts[t].size(); i++) { calls += c.rounds; e += (bad[t][i] || loc[t][i] == 3) ? 'X' : "IBE"[loc[t][i]]; if (out) out->count(std::string("loc.") + "IBEX"[loc[t][i]]); } }
    if (out) { out->count("threads." + std::to_string(T)); out->count("calls", calls); }
    GEOSPreparedGeom_destroy_r(H0, pg); GEOSGeom_destroy_r(H0, poly);
    return e;
}

// ---------------------------------------------------------------------------------------------- targeted scenarios (tsan)
// fresh shared object per round: all threads hit the not-yet-computed lazy cache together
static int lazyRounds(const std::string& name, int T, long rounds) {
    std::atomic<long> bad{0}; std::atomic<int> arrived{0}; std::atomic<long> phase{0}; GEOSGeometry* shared = nullptr;
    auto barrier = [&](long& my) { my++; if (arrived.fetch_add(1) + 1 == T + 1) { arrived.store(0); phase.store(my); } else while (phase.load() < my) std::this_thread::yield(); };
    std::vector<std::thread> th;
    for (int t = 0; t < T; t++) th.emplace_back([&, t]() {
        GEOSContextHandle_t h = newCtx(); long my = 0;
        for (long i = 0; i < rounds; i++) {
            barrier(my);     // main has built `shared`
            if (name == "freshread") {
                // a big fresh immutable line: every thread's first read-only question arrives while any lazily computed summary
                // (envelope, flags, caches) of the object would still be under construction
                const long n = 400000; double x = (double) n - 1.5;
                GEOSCoordSequence* cs = GEOSCoordSeq_create_r(h, 2, 2); GEOSCoordSeq_setXY_r(h, cs, 0, x, -1.0); GEOSCoordSeq_setXY_r(h, cs, 1, x, 2.0);
                GEOSGeometry* mine = GEOSGeom_createLineString_r(h, cs);
                switch (t % 4) {
                    case 0: if (GEOSIntersects_r(h, shared, mine) != 1) bad++; break;
                    case 1: if (GEOSDisjoint_r(h, mine, shared) != 0) bad++; break;
                    case 2: { double v = -1; if (GEOSGeom_getXMax_r(h, shared, &v) != 1 || v != (double) (n - 1)) bad++; double w = -1; if (GEOSGeom_getYMax_r(h, shared, &w) != 1 || w != 1.0) bad++; break; }
                    default: { double d = -1; if (GEOSDistance_r(h, shared, mine, &d) != 1 || d != 0.0) bad++; } }
                GEOSGeom_destroy_r(h, mine);
            }
            else if (name == "hasz") { if (t % 2) { if (GEOSGeom_getCoordinateDimension_r(h, shared) != 3) bad++; } else { GEOSGeom_getCoordinateDimension_r(h, shared); if (GEOSHasZ_r(h, shared) != 1) bad++; } }
            else { if (GEOSGeom_getDimensions_r(h, shared) != 2) bad++; if (GEOSHasZ_r(h, shared) != 0) bad++; }
            barrier(my);     // everybody done, main may destroy it
        }
        GEOS_finish_r(h);
    });
    long my = 0; Rng r(5);
    for (long i = 0; i < rounds; i++) {
        if (name == "freshread") {
            const unsigned n = 400000; std::vector<double> buf(2 * (size_t) n); for (unsigned k = 0; k < n; k++) { buf[2 * k] = (double) k; buf[2 * k + 1] = (double) (k % 2); }
            shared = GEOSGeom_createLineString_r(H0, GEOSCoordSeq_copyFromBuffer_r(H0, buf.data(), n, 0, 0));
        } else if (name == "hasz") {   // sequence created with unknown dimension (dims = 0): m_hasdim / m_hasz are filled lazily by const getters
            GEOSCoordSequence* cs = GEOSCoordSeq_create_r(H0, 3, 0);
            for (unsigned k = 0; k < 3; k++) GEOSCoordSeq_setXYZ_r(H0, cs, k, k, k * 2.0, 5.0);
            shared = GEOSGeom_createLineString_r(H0, cs);
        } else { GEOSGeometry* parts[2] = { star(H0, r, 0, 0, 2, 8), GEOSGeom_createPointFromXY_r(H0, 9, 9) }; shared = GEOSGeom_createCollection_r(H0, GEOS_GEOMETRYCOLLECTION, parts, 2); }
        barrier(my); barrier(my);
        GEOSGeom_destroy_r(H0, shared);
    }
    for (auto& x : th) x.join();
    printf("scenario %s threads=%d rounds=%ld wrong_results=%ld\n", name.c_str(), T, rounds, bad.load());
    return bad.load() ? 1 : 0;
}

static int scenario(const std::string& name, int T, long iters) {
    if (name == "freshread") return lazyRounds(name, T, std::max(1L, iters));
    if (name == "hasz" || name == "gcflags") return lazyRounds(name, T, std::max(1L, iters / 20));
    std::vector<std::thread> th; std::atomic<int> go{0}; std::atomic<long> bad{0};
    GEOSGeometry* sharedSeqGeom = nullptr; GEOSGeometry* sharedGC = nullptr;
    std::vector<GEOSGeometry*> probes; std::vector<char> want;
    if (name == "sharedprep") {   // a prepared polygon, every index built before sharing, asked `intersects(polygon)` from all threads
        buildShared(12345); Rng r(77);
        for (int i = 0; i < 16; i++) { probes.push_back(star(H0, r, r.unit() * 16 - 8, r.unit() * 16 - 8, 1.5, 10)); want.push_back(GEOSPreparedIntersects_r(H0, S.prep, probes.back())); }
    }
    if (name == "hasz") {   // sequence created with unknown dimension (dims = 0): m_hasdim / m_hasz are filled lazily by const getters
        GEOSCoordSequence* cs = GEOSCoordSeq_create_r(H0, 3, 0);
        for (unsigned i = 0; i < 3; i++) GEOSCoordSeq_setXYZ_r(H0, cs, i, i, i * 2.0, 5.0);
        sharedSeqGeom = GEOSGeom_createLineString_r(H0, cs);
    }
    if (name == "gcflags") { Rng r(5); GEOSGeometry* parts[2] = { star(H0, r, 0, 0, 2, 8), GEOSGeom_createPointFromXY_r(H0, 9, 9) }; sharedGC = GEOSGeom_createCollection_r(H0, GEOS_GEOMETRYCOLLECTION, parts, 2); }
    for (int t = 0; t < T; t++) th.emplace_back([&, t]() {
        go.fetch_add(1); while (go.load() < T) std::this_thread::yield();
        if (name == "refcount") { GEOSContextHandle_t h = newCtx(); for (long i = 0; i < iters; i++) { GEOSGeometry* p = GEOSGeom_createPointFromXY_r(h, 1, 2); GEOSGeom_destroy_r(h, p); } GEOS_finish_r(h); }
        else if (name == "interrupt" && t == 0) { for (long i = 0; i < iters; i++) { GEOS_interruptRegisterCallback(i % 2 ? nullptr : noopcb); std::this_thread::yield(); } GEOS_interruptRegisterCallback(nullptr); }
        else if (name == "interrupt") { for (long i = 0; i < iters; i++) { GEOSContextHandle_t h = newCtx(); Rng r(i); GEOSGeometry* a = star(h, r, 0, 0, 3, 12); GEOSGeometry* c = GEOSConvexHull_r(h, a); GEOSGeom_destroy_r(h, c); GEOSGeom_destroy_r(h, a); GEOS_finish_r(h); } }
        else if (name == "version") { for (long i = 0; i < iters; i++) { const char* v = GEOSversion(); if (!v || !v[0]) bad++; } }
        else if (name == "hasz") { GEOSContextHandle_t h = newCtx(); for (long i = 0; i < iters; i++) { if (GEOSHasZ_r(h, sharedSeqGeom) != 1) bad++; GEOSGeom_getCoordinateDimension_r(h, sharedSeqGeom); } GEOS_finish_r(h); }
        else if (name == "sharedprep") { GEOSContextHandle_t h = newCtx(); for (long i = 0; i < iters; i++) { size_t k = (size_t) ((i + t) % 16); if (GEOSPreparedIntersects_r(h, S.prep, probes[k]) != want[k]) bad++; } GEOS_finish_r(h); }
        else if (name == "gcflags") { GEOSContextHandle_t h = newCtx(); for (long i = 0; i < iters; i++) { if (GEOSGeom_getDimensions_r(h, sharedGC) != 2) bad++; GEOSHasZ_r(h, sharedGC); } GEOS_finish_r(h); }
    });
    for (auto& x : th) x.join();
    if (sharedSeqGeom) GEOSGeom_destroy_r(H0, sharedSeqGeom);
    if (sharedGC) GEOSGeom_destroy_r(H0, sharedGC);
    printf("scenario %s threads=%d iters=%ld wrong_results=%ld\n", name.c_str(), T, iters, bad.load());
    return bad.load() ? 1 : 0;
}

static std::vector<std::string> split(const std::string& s) { std::istringstream is(s); std::vector<std::string> v; std::string t; while (is >> t) v.push_back(t); return v; }

int main(int argc, char** argv) {
    if (argc < 3) { fprintf(stderr, "usage\n"); return 2; }
    std::string stream = argv[1];
    H0 = newCtx();
    int rc = 0;
    if (stream == "scenario") {
        rc = scenario(argv[2], argc > 3 ? atoi(argv[3]) : 4, argc > 4 ? atol(argv[4]) : 2000);
    } else {
        buildShared(12345);
        if (stream == "replay") {
            std::ifstream f(argv[2]); std::string line;
            while (std::getline(f, line)) { auto tk = split(line);
                if (!tk.empty() && tk[0] == "SL") { SLCase c; if (!slParse(line, c)) std::cout << "bad-line\n"; else std::cout << runSL(c, nullptr) << "\n"; continue; }
                if (tk.size() < 3 || tk[0] != "T") { std::cout << "bad-line\n"; continue; }
                std::cout << runCase(std::stoi(tk[1]), std::stoull(tk[2]), nullptr, nullptr) << "\n"; }
        } else if (stream == "sharedlocate") {
            if (argc < 5) return 2;
            uint64_t seed = std::stoull(argv[2]); long n = std::stol(argv[3]); Out out(argv[4]); Rng r(seed ^ 0x51ULL);
            for (long i = 0; i < n; i++) { SLCase c = genSL(r, &out); out.emit(slLine(c), runSL(c, &out)); }
        } else if (stream == "threads") {
            if (argc < 5) return 2;
            uint64_t seed = std::stoull(argv[2]); long n = std::stol(argv[3]); Out out(argv[4]); Rng r(seed);
            for (long i = 0; i < n; i++) { int T = 2 + (int) r.below(15); uint64_t cs = r.next() % 1000000007ULL; std::string c;
                std::string e = runCase(T, cs, &c, &out); out.emit(c, e); }
        } else { fprintf(stderr, "unknown stream\n"); return 2; }
        GEOSPreparedGeom_destroy_r(H0, S.prep); GEOSSTRtree_destroy_r(H0, S.tree);
        for (auto g : S.treeItems) GEOSGeom_destroy_r(H0, g);
        for (auto g : S.geoms) GEOSGeom_destroy_r(H0, g);
    }
    GEOS_finish_r(H0);
    return rc;
}
