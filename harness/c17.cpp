// C17 correspondence harness: the invalid (and valid) generators of C05 through GEOSMakeValidWithParams, both methods,
// keepCollapsed off / on.  One case line per (geometry, configuration):
//   M | <input tokens> | <output tokens or NULL> | method=L|S keep=0|1 ov=<isValid(out)> idem=<1|0|E|->
// idem: fix(fix g) equalsExact fix g after normalisation (computed here with GEOS); W = equal up to wrapping a single element in a Multi*.
//   c17 makevalid <seed> <n> <outbase>
//   c17 replay <file>    lines "M | <input tokens> | ... | method=.. keep=.." (re-run) or "W <method> <keep> <wkt>"
#include "validgen.h"
#include "c17nest.h"
#include <cstdarg>
#include <csignal>
#include <unistd.h>
#include <sys/wait.h>
#include <poll.h>
#include <fstream>
#include <iostream>
// the hole phase of GeometryFixer::fixPolygonElement is private: the stream `hole-class` calls the real fixRing / fixHoles /
// classifyHoles (all other headers are included before this point, so only this class is affected)
// (C17_NO_HOLECLASS: built without that stream when these private members no longer exist under these names — the check then ties the
// hole phase through the makevalid stream alone, see checks/C17.py)
#ifndef C17_NO_HOLECLASS
#define private public
#endif
#include <geos/geom/util/GeometryFixer.h>
#ifndef C17_NO_HOLECLASS
#undef private
#endif
using namespace vh;
static void notice(const char*, ...) {}
static void errorh(const char* fmt, ...) { if (std::getenv("C17_VERBOSE")) { va_list ap; va_start(ap, fmt); std::vfprintf(stderr, fmt, ap); std::fputc('\n', stderr); va_end(ap); } }

static GEOSGeometry* mv(GEOSContextHandle_t h, const GEOSGeometry* g, int method, int keep) {
    GEOSMakeValidParams* p = GEOSMakeValidParams_create_r(h);
    GEOSMakeValidParams_setMethod_r(h, p, method == 0 ? GEOS_MAKE_VALID_LINEWORK : GEOS_MAKE_VALID_STRUCTURE);
    GEOSMakeValidParams_setKeepCollapsed_r(h, p, keep);
    GEOSGeometry* out = GEOSMakeValidWithParams_r(h, g, p);
    GEOSMakeValidParams_destroy_r(h, p); return out;
}

static std::string runDirect(GEOSContextHandle_t h, const Geometry* g, const std::string& inToks, int method, int keep, Out* out) {
    const GEOSGeometry* cg = (const GEOSGeometry*) g;
    GEOSGeometry* o = mv(h, cg, method, keep);
    std::string outToks = "NULL", ov = "-", idem = "-";
    if (o) {
        try { outToks = dumpGeom((Geometry*) o); } catch (...) { outToks = "UNSUPPORTED"; }
        char v = GEOSisValid_r(h, o); ov = v == 1 ? "1" : v == 0 ? "0" : "E";
        GEOSGeometry* o2 = mv(h, o, method, keep);
        if (!o2) idem = "E";
        else { GEOSGeometry* a = GEOSGeom_clone_r(h, o); GEOSGeometry* b = GEOSGeom_clone_r(h, o2); GEOSNormalize_r(h, a); GEOSNormalize_r(h, b);
            char e = GEOSEqualsExact_r(h, a, b, 0.0); idem = e == 1 ? "1" : e == 0 ? "0" : "E";
            if (e == 0) {   // does the second pass only unwrap / wrap a one-element Multi*?
                const GEOSGeometry* a1 = GEOSGetNumGeometries_r(h, a) == 1 ? GEOSGetGeometryN_r(h, a, 0) : nullptr; const GEOSGeometry* b1 = GEOSGetNumGeometries_r(h, b) == 1 ? GEOSGetGeometryN_r(h, b, 0) : nullptr;
                if ((a1 && GEOSEqualsExact_r(h, a1, b, 0.0) == 1) || (b1 && GEOSEqualsExact_r(h, a, b1, 0.0) == 1) || (a1 && b1 && GEOSEqualsExact_r(h, a1, b1, 0.0) == 1)) idem = "W"; } GEOSGeom_destroy_r(h, a); GEOSGeom_destroy_r(h, b); GEOSGeom_destroy_r(h, o2); }
        if (out) out->count(std::string("outtype_") + ((Geometry*) o)->getGeometryType());
        GEOSGeom_destroy_r(h, o);
    } else if (out) out->count("out_null");
    if (out) { out->count(std::string("method_") + (method == 0 ? "L" : "S") + (keep != 0 ? "1" : "0")); if (keep != 0 && keep != 1) out->count("keep_raw_other"); out->count("outvalid_" + ov); out->count("idem_" + idem); }
    return "M | " + inToks + " | " + outToks + " | method=" + (method == 0 ? "L" : "S") + " keep=" + (keep != 0 ? "1" : "0") + " ov=" + ov + " idem=" + idem + " kraw=" + std::to_string(keep);
}

// watchdog for calls that never return: the first alarm asks GEOS to interrupt, the second gives up on the process
static volatile sig_atomic_t g_alarms = 0;
static void onAlarm(int) { g_alarms++; if (g_alarms == 1) { GEOS_interruptRequest(); alarm(10); } else { const char m[] = "c17: MakeValid does not return\n"; (void) !write(2, m, sizeof m - 1); _exit(7); } }

// Inputs with non-finite ordinates are run in a forked child with a time limit (a known family makes the noder spin
// forever while allocating); everything else runs in-process under the watchdog.
static std::string runOne(GEOSContextHandle_t h, const Geometry* g, const std::string& inToks, int method, int keep, Out* out, bool nonFinite) {
    if (!nonFinite) { g_alarms = 0; alarm(60); std::string r = runDirect(h, g, inToks, method, keep, out); alarm(0); if (g_alarms) GEOS_interruptCancel(); return r; }
    int fd[2]; if (pipe(fd) != 0) return runDirect(h, g, inToks, method, keep, out);
    std::fflush(nullptr);
    pid_t pid = fork();
    if (pid == 0) { close(fd[0]); std::string r = runDirect(h, g, inToks, method, keep, nullptr); size_t off = 0; while (off < r.size()) { ssize_t k = write(fd[1], r.data() + off, r.size() - off); if (k <= 0) break; off += (size_t) k; } _exit(0); }
    close(fd[1]); std::string res; bool timedOut = false; int waited = 0;
    while (true) { struct pollfd pf{fd[0], POLLIN, 0}; int pr = poll(&pf, 1, 250); waited += 250;
        if (pr > 0) { char buf[65536]; ssize_t k = read(fd[0], buf, sizeof buf); if (k <= 0) break; res.append(buf, (size_t) k); }
        else if (waited >= 5000) { timedOut = true; break; } }
    close(fd[0]); if (timedOut) kill(pid, SIGKILL); int st = 0; waitpid(pid, &st, 0);
    std::string cfg = std::string(" | method=") + (method == 0 ? "L" : "S") + " keep=" + (keep != 0 ? "1" : "0");
    if (timedOut) { if (out) out->count("timeout"); return "M | " + inToks + " | TIMEOUT" + cfg + " ov=- idem=- kraw=" + std::to_string(keep); }
    if (res.empty() || !WIFEXITED(st) || WEXITSTATUS(st) != 0) { if (out) out->count("child_crash"); return "M | " + inToks + " | CRASH" + cfg + " ov=- idem=- kraw=" + std::to_string(keep); }
    if (out) { out->count(std::string("method_") + (method == 0 ? "L" : "S") + (keep != 0 ? "1" : "0")); out->count("forked_nonfinite"); }
    return res;
}

// C17's own families (on top of the C05 generators): collapsing elements inside collections and at every position of a
// MultiLineString (the keep-collapsed clause), self-touching rings for the linework method.  The lattice map of the generator is
// applied to them like to every other input.
static const Tmpl C17_TEMPLATES[] = {
    {"c17_coll_collapsed_line", "GEOMETRYCOLLECTION(LINESTRING(3 4,3 4))"},
    {"c17_coll_collapsed_line_mixed", "GEOMETRYCOLLECTION(LINESTRING(0 0,5 5),LINESTRING(2 2,2 2),POINT(1 1))"},
    {"c17_coll_collapsed_polygon", "GEOMETRYCOLLECTION(POLYGON((0 0,4 4,8 8,0 0)),POINT(9 1))"},
    {"c17_coll_point_polygon", "GEOMETRYCOLLECTION(POLYGON((2 2,2 2,2 2,2 2)),LINESTRING(0 0,1 0))"},
    {"c17_coll_collapsed_ring", "GEOMETRYCOLLECTION(LINEARRING(1 1,1 1,1 1,1 1),POINT(4 4))"},
    {"c17_coll_short_ring", "GEOMETRYCOLLECTION(LINEARRING(1 1,5 5,1 1,1 1))"},
    {"c17_coll_nested", "GEOMETRYCOLLECTION(GEOMETRYCOLLECTION(LINESTRING(7 7,7 7)),LINESTRING(0 0,1 0))"},
    {"c17_coll_multiline_collapsed", "GEOMETRYCOLLECTION(MULTILINESTRING((1 1,1 1),(0 0,3 3)))"},
    {"c17_coll_multipolygon_collapsed", "GEOMETRYCOLLECTION(MULTIPOLYGON(((0 0,4 4,8 8,0 0)),((10 0,14 0,14 4,10 0))))"},
    {"c17_mline_collapsed_first", "MULTILINESTRING((1 1,1 1),(0 0,3 3),(4 0,6 0))"},
    {"c17_mline_collapsed_middle", "MULTILINESTRING((0 0,3 3),(1 5,1 5),(4 0,6 0))"},
    {"c17_mline_collapsed_last", "MULTILINESTRING((0 0,3 3),(4 0,6 0),(1 5,1 5))"},
    {"c17_mline_collapsed_two", "MULTILINESTRING((2 2,2 2),(0 0,3 3),(1 5,1 5))"},
    {"c17_mline_collapsed_before_last_line", "MULTILINESTRING((0 0,3 3),(2 7,2 7),(4 0,6 0),(5 5,8 5))"},
    {"c17_mline_all_collapsed", "MULTILINESTRING((2 2,2 2),(1 5,1 5))"},
    {"c17_mline_one_collapsed", "MULTILINESTRING((2 2,2 2))"},
    {"c17_mline_one_collapsed_one_empty", "MULTILINESTRING((2 2,2 2),EMPTY,(0 0,1 1))"},
    {"c17_selftouch_ring_hole", "POLYGON((5 0,10 0,10 10,0 10,0 0,5 0,3 4,7 4,5 0))"},
    {"c17_selftouch_ring_hole_2", "POLYGON((0 0,10 0,10 10,5 10,4 6,6 6,5 10,0 10,0 0))"},
    {"c17_exverted_hole", "POLYGON((0 0,20 0,20 20,0 20,0 0),(5 5,10 10,15 5,15 15,10 10,5 15,5 5))"},
    {"c17_inverted_shell_multi", "MULTIPOLYGON(((5 0,10 0,10 10,0 10,0 0,5 0,3 4,7 4,5 0)),((20 0,24 0,24 4,20 0)))"},
    {"c17_hole_touching_shell_twice", "POLYGON((0 0,10 0,10 10,0 10,0 0),(5 0,8 5,5 10,2 5,5 0))"},
};
// share (per cent) of the cut-tree family (harness/c17nest.h: keyhole rings with 2..7 nesting levels, shells that repair into
// several parts joined by zero-width corridors, holes derived from the boxes) among the generated geometries of every run
static const int CUTTREE_SHARE = 12;
static const int N_C17_TEMPLATES = (int) (sizeof(C17_TEMPLATES) / sizeof(C17_TEMPLATES[0]));

static std::string field(const std::string& s, const std::string& k) { size_t p = s.find(k + "="); if (p == std::string::npos) return ""; size_t q = s.find(' ', p); return s.substr(p + k.size() + 1, q == std::string::npos ? std::string::npos : q - p - k.size() - 1); }

// one line of stream hole-class: H | <polygon tokens> | <one digit per interior ring: 1 = classifyHoles put the fixed hole into
// `holes` (subtracted), 0 = into `shells` (added)>, `-` without interior rings, `shell-empty` when the fixed shell is empty
static std::string holeClassLine(const Polygon* p, const std::string& toks, Out* out) {
    std::string res;
#ifdef C17_NO_HOLECLASS
    (void) p; (void) out; res = "unavailable";
#else
    try {
        geos::geom::util::GeometryFixer fx(p);
        std::unique_ptr<Geometry> fixShell = fx.fixRing(p->getExteriorRing());
        if (fixShell->isEmpty()) res = "shell-empty";
        else {
            std::vector<std::unique_ptr<Geometry>> holesFixed = fx.fixHoles(p);
            std::vector<const Geometry*> holes, shells;
            fx.classifyHoles(fixShell.get(), holesFixed, holes, shells);
            if (holesFixed.size() != p->getNumInteriorRing()) res = "hole-count";
            else { for (auto& hf : holesFixed) res += std::find(holes.begin(), holes.end(), hf.get()) != holes.end() ? '1' : '0'; if (res.empty()) res = "-"; }
            if (out) { out->count("shell_parts_" + std::to_string(std::min<size_t>(fixShell->getNumGeometries(), 5))); out->count("holes_subtracted", (long) holes.size()); out->count("holes_added", (long) shells.size());
                if (fixShell->getNumGeometries() > 1 && !holes.empty()) out->count("multipart_shell_with_subtracted_hole"); }
        }
    } catch (std::exception&) { res = "exception"; }
#endif
    return "H | " + toks + " | " + res;
}

int main(int argc, char** argv) {
    if (argc < 3) return 2;
    std::string stream = argv[1];
    GEOSContextHandle_t h = GEOS_init_r(); GEOSContext_setNoticeHandler_r(h, notice); GEOSContext_setErrorHandler_r(h, errorh);
    std::signal(SIGALRM, onAlarm);
    auto gf = GeometryFactory::getDefaultInstance();
    if (stream == "replay") {
        std::ifstream f(argv[2]); std::string line;
        while (std::getline(f, line)) { if (line.empty()) continue;
            try {
                std::string toks; int method = 1, keep = 0;
                if (line.rfind("H | ", 0) == 0) { size_t q = line.find(" | ", 4); std::string t2 = line.substr(4, q == std::string::npos ? std::string::npos : q - 4); HGeo hg = parseHLine(t2); auto g = buildH(hg, gf);
                    if (g->getGeometryTypeId() != geos::geom::GEOS_POLYGON) { std::cout << "invalid\n"; continue; } std::cout << holeClassLine(static_cast<const Polygon*>(g.get()), dumpGeom(g.get()), nullptr) << "\n"; continue; }
                if (line.rfind("W ", 0) == 0) { std::istringstream is(line.substr(2)); std::string m; is >> m >> keep; std::string wkt; std::getline(is, wkt); method = m == "L" ? 0 : 1;
                    GEOSGeometry* wg = GEOSGeomFromWKT_r(h, wkt.c_str()); if (!wg) { std::cout << "invalid\n"; continue; } toks = dumpGeom((Geometry*) wg); GEOSGeom_destroy_r(h, wg); }
                else { std::vector<std::string> parts; size_t p = 0; while (true) { size_t q = line.find(" | ", p); if (q == std::string::npos) { parts.push_back(line.substr(p)); break; } parts.push_back(line.substr(p, q - p)); p = q + 3; }
                    if (parts.size() < 4) { std::cout << "invalid\n"; continue; }
                    toks = parts[1]; method = field(parts[3], "method") == "L" ? 0 : 1; std::string kr = field(parts[3], "kraw"); if (kr.empty()) kr = field(parts[3], "keep"); try { keep = std::stoi(kr); } catch (...) { keep = 0; } }
                HGeo hg = parseHLine(toks); auto g = buildH(hg, gf);
                std::cout << runOne(h, g.get(), dumpGeom(g.get()), method, keep, nullptr, hasNonFinite(hg)) << "\n";
            } catch (std::exception& e) { std::cout << "invalid " << e.what() << "\n"; }
        }
        GEOS_finish_r(h); return 0; }
    if (argc < 5) return 2;
    uint64_t seed = std::stoull(argv[2]); long n = std::stol(argv[3]); Out out(argv[4]); Rng r(seed);
    ValidGen gen(r, h, &out); CutTreeGen cutTree(r, &out);
    long emitted = 0;
    if (stream == "hole-class") {
        // polygons with interior rings: cut trees (multi-part shells, nested levels, holes derived from the boxes) and the C05 families
        while (emitted < n) {
            std::string family; HGeo hg;
            try { if (r.chance(55)) hg = cutTree.generate(family); else hg = gen.generate(family); } catch (std::exception&) { out.count("generator_error"); continue; }
            if (hg.type == 6 && !hg.kids.empty()) { HGeo k = hg.kids[r.below(hg.kids.size())]; hg = k; }
            if (hg.type != 3 || hg.seqs.size() < 2 || hasNonFinite(hg)) continue;
            Xform t = gen.gg.xform(); if (r.chance(40)) { t = Xform{}; t.sym = (int) r.below(8); }
            applyX(hg, t);
            std::unique_ptr<Geometry> g; bool loose = false;
            try { g = buildH(hg, gf, &loose); } catch (...) { out.count("build_rejected"); continue; }
            if (loose || g->isEmpty()) continue;
            out.count("family_" + family);
            out.emit(holeClassLine(static_cast<const Polygon*>(g.get()), dumpGeom(g.get()), &out), "ok"); emitted++; }
        GEOS_finish_r(h); return 0; }
    while (emitted < n) {
        std::string family; HGeo hg;
        try { if (r.chance(CUTTREE_SHARE)) hg = cutTree.generate(family); else if (r.chance(9)) { const Tmpl& t = C17_TEMPLATES[r.below(N_C17_TEMPLATES)]; hg = gen.fromWkt(t.wkt); family = t.family; } else hg = gen.generate(family); }
        catch (std::exception& e) { out.count("generator_error"); continue; }
        Xform t = gen.gg.xform(); if (r.chance(40)) { t = Xform{}; t.sym = (int) r.below(8); }
        applyX(hg, t);
        std::unique_ptr<Geometry> g; bool loose = false;
        try { g = buildH(hg, gf, &loose); } catch (...) { out.count("build_rejected"); continue; }
        if (loose) { out.count("skipped_ill_formed"); continue; }        // unclosed / 1-2 point rings are not well-formed inputs
        out.count("family_" + family); out.count(std::string("type_") + g->getGeometryType());
        out.count(std::string("input_valid_") + (GEOSisValid_r(h, (GEOSGeometry*) g.get()) == 1 ? "1" : "0"));
        std::string toks = dumpGeom(g.get()); bool nf = hasNonFinite(hg);
        // keepCollapsed is an int in the C API: any non-zero value asks for keeping; now and then one other than 1 is used
        static const int otherKeep[] = {2, -1, 16, 255, -128};
        int cfg[3][2] = {{0, 0}, {1, 0}, {1, 1}};
        if (r.chance(12)) cfg[2][1] = otherKeep[r.below(5)];
        for (auto& c : cfg) {
            { FILE* cf = std::fopen((std::string(argv[4]) + ".current").c_str(), "w"); if (cf) { std::fprintf(cf, "M | %s | ? | method=%s keep=%d\n", toks.c_str(), c[0] == 0 ? "L" : "S", c[1]); std::fclose(cf); } }
            out.emit(runOne(h, g.get(), toks, c[0], c[1], &out, nf), "ok"); emitted++; }
    }
    GEOS_finish_r(h); return 0;
}
