// C05 generators (owned by C05; validgen.h / gridgen.h / c05touch.h roles are not changed):
//
// NestGen::dwellers — MULTI-HOLE NESTING.  An outer polygon with 0..6 convex holes laid out in cells (hole order shuffled, every
//   ring with a random start vertex and direction) and 1..3 further rings placed relative to ONE of the holes: inside it with
//   their vertices mostly ON the hole's ring (lattice points of its edges and its vertices) — very often so that the FIRST TWO
//   vertices of the inner ring both lie on the hole ring, which is the only way to get past the two point-location shortcuts
//   of IndexedNestedPolygonTester / IndexedNestedHoleTester into their incident-segment paths —, straddling its ring, beside it
//   in the solid part, or in a cell without a hole.  The further rings are elements of a MultiPolygon (shell in a hole of
//   another element: valid; in the solid part: nested shells) or further holes of the same polygon (hole in a hole: nested
//   holes).  Which hole of the list is the relevant one is random, so every loop over holes / candidates has to be complete.
//
// FlowerGen::flower — MULTI-PASS SELF-TOUCH NODES.  A ring that passes 2..5 times through one node (and optionally through a second
//   one): at a lattice point of a base edge, or at a convex corner, 1..4 closed loops ("petals") leave and re-enter the node,
//   each either INTO the base (an inverted pocket: with the self-touching-ring flag a legal hole) or OUT of it (an exverted lobe:
//   cuts the lobe's interior off), in random order along the ring and each in random direction (so crossing passes occur
//   too), as shell, as hole, with an element inside a pocket, with an ordinary hole.  With k passes there are k(k-1)/2 pairs
//   of passes at one location; the interior-connectedness decision of the flag mode has to look at all of them.
//
// Validity is never known to the generators: the exact Lean reference decides.
#pragma once
#include "c05touch.h"

namespace vh {

struct NestGen {
    Rng& r; Out* out; TouchGen& touch;
    NestGen(Rng& rr, Out* o, TouchGen& t) : r(rr), out(o), touch(t) {}
    void cnt(const std::string& k) { if (out) out->count(k); }
    typedef std::vector<HP> Ring;
    typedef std::vector<IPt> IRing;

    static Ring toRing(const IRing& v) { Ring o; for (auto& p : v) o.push_back({(double) p.x, (double) p.y}); return o; }
    // all lattice points of a closed ring (vertices and points inside its edges)
    struct BPt { IPt p; size_t edge; bool vertex; };
    static std::vector<BPt> boundaryPts(const IRing& rg) { std::vector<BPt> v;
        for (size_t i = 0; i + 1 < rg.size(); i++) { long dx = rg[i + 1].x - rg[i].x, dy = rg[i + 1].y - rg[i].y, g = gcdl(dx, dy); if (g == 0) continue;
            for (long t = 0; t < g; t++) v.push_back(BPt{IPt{rg[i].x + dx / g * t, rg[i].y + dy / g * t}, i, t == 0}); }
        return v; }
    static void rotateI(IRing& s, size_t k) { size_t n = s.size() - 1; k %= n; if (!k) return; IRing q; for (size_t i = 0; i < n; i++) q.push_back(s[(i + k) % n]); q.push_back(q[0]); s = q; }

    IRing cellHole(long x0, long y0) {      // a convex ring inside [x0+1, x0+9] x [y0+1, y0+9]
        for (int tries = 0; tries < 20; tries++) {
            std::vector<IPt> ps;
            if (r.chance(35)) { long a = r.range(1, 5), b = r.range(1, 5), w = r.range(2, 9 - (int) a), h = r.range(2, 9 - (int) b);
                ps = {{x0 + a, y0 + b}, {x0 + a + w, y0 + b}, {x0 + a + w, y0 + b + h}, {x0 + a, y0 + b + h}}; }
            else { int n = r.range(3, 6); for (int i = 0; i < n; i++) ps.push_back(IPt{x0 + r.range(1, 9), y0 + r.range(1, 9)}); }
            auto h = GridGen::hull(ps); if (!h.empty()) return h; }
        return {{x0 + 2, y0 + 2}, {x0 + 8, y0 + 2}, {x0 + 8, y0 + 8}, {x0 + 2, y0 + 8}, {x0 + 2, y0 + 2}}; }

    // a ring placed relative to the hole `h` of the cell at (x0, y0); mode 0 inside (closed hole), 1 anywhere in the cell mixing ring points, 2 cell lattice only
    IRing dweller(const IRing& h, long x0, long y0, int mode, bool& firstTwo) {
        firstTwo = false;
        auto bp = h.empty() ? std::vector<BPt>{} : boundaryPts(h); size_t ne = h.empty() ? 0 : h.size() - 1;
        for (int tries = 0; tries < 12; tries++) {
            std::vector<IPt> ps; int n = r.range(3, 5); std::vector<bool> usedEdge(ne + 1, false); bool distinctEdges = r.chance(85);
            // a point of the hole ring; mostly no two of them on one edge of the hole (two would make the rings overlap along that edge)
            auto ringPt = [&](IPt& q) { for (int t = 0; t < 8; t++) { const BPt& b = bp[r.below(bp.size())]; size_t e2 = b.vertex ? (b.edge + ne - 1) % ne : b.edge;
                    if (distinctEdges && (usedEdge[b.edge] || usedEdge[e2])) continue; usedEdge[b.edge] = true; usedEdge[e2] = true; q = b.p; return true; } return false; };
            for (int i = 0; i < n; i++) { IPt q{0, 0};
                if (!bp.empty() && mode <= 1 && r.chance(mode == 0 ? 65 : 45) && ringPt(q)) { ps.push_back(q); continue; }
                if (mode == 0 && !h.empty()) { bool ok = false; for (int t = 0; t < 12 && !ok; t++) { q = IPt{x0 + r.range(1, 9), y0 + r.range(1, 9)}; ok = GridGen::locate(h, q) == 1; }
                    if (ok || ringPt(q)) ps.push_back(q); continue; }
                ps.push_back(IPt{x0 + r.range(0, 10), y0 + r.range(0, 10)}); }
            auto d = GridGen::hull(ps); if (d.empty()) continue;
            if (!h.empty() && r.chance(65)) {   // start the ring so that its first two vertices lie on the hole ring, when it has such an edge
                std::vector<std::pair<size_t, bool>> opts; size_t m = d.size() - 1;
                for (int rev = 0; rev < 2; rev++) { IRing e = d; if (rev) std::reverse(e.begin(), e.end());
                    for (size_t k = 0; k < m; k++) if (GridGen::locate(h, e[k]) == 0 && GridGen::locate(h, e[(k + 1) % m]) == 0) opts.push_back({k, rev == 1}); }
                if (!opts.empty()) { auto o = opts[r.below(opts.size())]; if (o.second) std::reverse(d.begin(), d.end()); rotateI(d, o.first); firstTwo = true; return d; } }
            if (r.chance(50)) std::reverse(d.begin(), d.end()); rotateI(d, r.below(d.size() - 1));
            return d; }
        return {}; }

    HGeo dwellers(std::string& family) {
        int nx = r.range(1, 3), ny = r.range(1, 2);
        struct Cell { long x0, y0; IRing hole; };
        std::vector<Cell> cells; for (int i = 0; i < nx; i++) for (int j = 0; j < ny; j++) { Cell c{10L * i, 10L * j, {}}; if (r.chance(75)) c.hole = cellHole(c.x0, c.y0); cells.push_back(c); }
        IRing shell = {{-1, -1}, {10L * nx + 1, -1}, {10L * nx + 1, 10L * ny + 1}, {-1, 10L * ny + 1}, {-1, -1}};
        bool asHoles = r.chance(25);
        std::vector<Ring> holes, inner; int nHoles = 0;
        for (auto& c : cells) if (!c.hole.empty()) { Ring q = toRing(c.hole); touch.spin(q, false); holes.push_back(q); nHoles++; }
        int m = r.range(1, 3), two = 0;
        std::vector<bool> taken(cells.size(), false);
        for (int k = 0; k < m; k++) { size_t ci = r.below(cells.size()); if (taken[ci] && r.chance(80)) { for (size_t t = 0; t < cells.size(); t++) if (!taken[(ci + t) % cells.size()]) { ci = (ci + t) % cells.size(); break; } } taken[ci] = true;
            Cell& c = cells[ci]; int mode = c.hole.empty() ? 2 : (r.chance(70) ? 0 : 1); bool ft = false;
            IRing d = dweller(c.hole, c.x0, c.y0, mode, ft); if (d.empty()) continue; if (ft) two++;
            inner.push_back(toRing(d)); cnt(std::string("dweller_mode_") + std::to_string(mode)); }
        if (two) cnt("dweller_first_two_on_hole_ring");
        cnt("dweller_holes_" + std::to_string(nHoles));
        for (size_t i = holes.size(); i > 1; i--) std::swap(holes[i - 1], holes[r.below(i)]);
        Ring sh = toRing(shell); touch.spin(sh, false);
        HGeo g;
        if (asHoles) { std::vector<Ring> rs = holes; for (auto& q : inner) rs.insert(rs.begin() + (long) r.below(rs.size() + 1), q); rs.insert(rs.begin(), sh); g = TouchGen::poly(rs); }
        else { std::vector<Ring> rs = holes; rs.insert(rs.begin(), sh); g.type = 6; g.kids.push_back(TouchGen::poly(rs)); for (auto& q : inner) g.kids.push_back(TouchGen::poly({q}));
            if (r.chance(15)) g.kids.push_back(TouchGen::poly({TouchGen::closed({{-20, -20}, {-18, -20}, {-18, -18}})}));
            for (size_t i = g.kids.size(); i > 1; i--) std::swap(g.kids[i - 1], g.kids[r.below(i)]); }
        if (r.chance(40)) { int s = r.range(1, 2) * (r.chance(50) ? 1 : -1); bool xs = r.chance(50);
            eachSeq(g, [&](std::vector<HP>& q, bool, int) { for (auto& v : q) { if (xs) v.x += s * v.y; else v.y += s * v.x; } }); cnt("dweller_sheared"); }
        family = std::string("dwell_") + (asHoles ? "holes" : "elements");
        return g; }
};

struct FlowerGen {
    Rng& r; Out* out; TouchGen& touch;
    FlowerGen(Rng& rr, Out* o, TouchGen& t) : r(rr), out(o), touch(t) {}
    void cnt(const std::string& k) { if (out) out->count(k); }
    typedef std::vector<HP> Ring;
    struct Petal { bool inward; Ring pts; Ring occupant; int lo = 0; };

    // the loops at one node in the local frame (node at the origin, base interior above the x axis); rays in counter-clockwise order
    std::vector<Petal> petals(int k, int maxScale) {
        static const int U[8][2] = {{4, 1}, {3, 2}, {2, 3}, {1, 4}, {-1, 4}, {-2, 3}, {-3, 2}, {-4, 1}};
        std::vector<Petal> ps; bool usedIn[8] = {false}, usedOut[8] = {false}; int pin = (int) r.below(100); pin = pin < 25 ? 100 : pin < 35 ? 0 : 55;
        for (int t = 0; t < k; t++) { Petal p; p.inward = r.chance(pin); bool* used = p.inward ? usedIn : usedOut; int i = -1, j = -1;
            if (r.chance(85)) {     // a sector that no earlier loop on this side uses
                for (int tries = 0; tries < 10 && i < 0; tries++) { int a = r.range(0, 6), w = r.chance(70) ? 1 : r.range(1, 3), b = std::min(7, a + w); bool free = true; for (int q = a; q <= b; q++) if (used[q]) free = false; if (free) { i = a; j = b; } } }
            if (i < 0) { i = r.range(0, 6); j = r.range(i + 1, 7); cnt("flower_sector_overlap"); }
            for (int q = i; q <= j; q++) used[q] = true;
            double sg = p.inward ? 1.0 : -1.0; int s1 = r.range(1, maxScale), s2 = r.range(1, maxScale);
            HP u{sg * U[i][0], sg * U[i][1]}, v{sg * U[j][0], sg * U[j][1]};      // inward: upper rays; outward: the opposite rays (lower half plane)
            HP a{u.x * s1, u.y * s1}, b{v.x * s2, v.y * s2};
            if (s1 == 1 && s2 == 1 && r.chance(30)) p.pts = {a, {a.x + b.x, a.y + b.y}, b};
            else p.pts = {a, b};
            if (s1 == 2 && s2 == 2 && p.pts.size() == 2) p.occupant = TouchGen::closed({u, v, {u.x + v.x, u.y + v.y}});
            p.lo = i; ps.push_back(p); }
        if (r.chance(72)) {
            // the planar order: coming from the local west, pockets are visited clockwise (decreasing angle, out on the higher ray, back on the
            // lower one), lobes counter-clockwise (out on the ray nearer to the west); pockets and lobes interleave freely.  No two passes cross.
            std::vector<Petal> in, ou, res; for (auto& p : ps) (p.inward ? in : ou).push_back(p);
            std::sort(in.begin(), in.end(), [](const Petal& x, const Petal& y) { return x.lo > y.lo; }); std::sort(ou.begin(), ou.end(), [](const Petal& x, const Petal& y) { return x.lo < y.lo; });
            for (auto& p : in) std::reverse(p.pts.begin(), p.pts.end());
            size_t a = 0, b = 0; while (a < in.size() || b < ou.size()) { bool takeIn = b >= ou.size() || (a < in.size() && r.chance(50)); res.push_back(takeIn ? in[a++] : ou[b++]); }
            cnt("flower_planar_order"); return res; }
        for (auto& p : ps) if (r.chance(50)) std::reverse(p.pts.begin(), p.pts.end());
        for (size_t i = ps.size(); i > 1; i--) std::swap(ps[i - 1], ps[r.below(i)]);
        return ps; }

    HGeo flower(std::string& family) {
        int a = r.range(11, 13), b = r.range(11, 13), H = r.range(9, 12);
        bool twoNodes = r.chance(35), corner = r.chance(25);
        int k = (int) r.below(100); k = k < 15 ? 1 : k < 55 ? 2 : k < 88 ? 3 : 4;
        auto P = petals(k, twoNodes ? 1 : 2);
        Ring g; Ring occupant; int nin = 0, nout = 0;
        g.push_back(corner ? HP{(double) -a, 1} : HP{(double) -a, 0}); g.push_back({0, 0});
        for (auto& p : P) { for (auto& q : p.pts) g.push_back(q); g.push_back({0, 0}); (p.inward ? nin : nout)++; if (p.inward && !p.occupant.empty()) occupant = p.occupant; }
        g.push_back({(double) b, 0}); g.push_back({(double) b, (double) H});
        if (twoNodes) { int k2 = r.range(1, 3); auto Q = petals(k2, 1); g.push_back({0, (double) H});
            for (auto& p : Q) { for (auto& q : p.pts) g.push_back({-q.x, H - q.y}); g.push_back({0, (double) H}); } cnt("flower_two_nodes"); }
        g.push_back({(double) -a, (double) H}); g = TouchGen::closed(g);
        cnt("flower_passes_" + std::to_string(k + 1)); if (nin && nout) cnt("flower_pocket_and_lobe_at_one_node"); if (corner) cnt("flower_node_at_corner");
        touch.spin(g, false);
        int role = (int) r.below(100); HGeo out;
        Ring big = TouchGen::closed({{(double) -a - 3, -12}, {(double) b + 3, -12}, {(double) b + 3, (double) H + 12}, {(double) -a - 3, (double) H + 12}});
        Ring small = TouchGen::closed({{(double) b - 2, 1}, {(double) b - 1, 1}, {(double) b - 1, 3}});
        if (role < 40) { out = TouchGen::poly({g}); family = "flower_shell"; }
        else if (role < 65) { touch.spin(big, false); out = TouchGen::poly({big, g}); family = "flower_hole"; }
        else if (role < 80) { touch.spin(small, false); out = TouchGen::poly({g, small}); family = "flower_shell_with_hole"; }
        else { out.type = 6; out.kids.push_back(TouchGen::poly({g}));
            if (!occupant.empty() && r.chance(70)) { touch.spin(occupant, false); out.kids.push_back(TouchGen::poly({occupant})); family = "flower_pocket_occupant"; }
            else { out.kids.push_back(TouchGen::poly({TouchGen::closed({{-30, -30}, {-28, -30}, {-28, -28}})})); family = "flower_multipolygon"; }
            if (r.chance(50)) std::reverse(out.kids.begin(), out.kids.end()); }
        if (r.chance(40)) { int s = r.range(1, 2) * (r.chance(50) ? 1 : -1); bool xs = r.chance(50);
            eachSeq(out, [&](std::vector<HP>& q, bool, int) { for (auto& v : q) { if (xs) v.x += s * v.y; else v.y += s * v.x; } }); cnt("flower_sheared"); }
        return out; }
};

} // namespace vh
