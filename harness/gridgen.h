// Grid-exact geometry generator shared by the topology checks (C01, C02, C03, C05, C17 ...).
// Geometries live on a small integer lattice (dense degeneracy), pairs share vertices / edge points /
// sub-edges by contact injection, and a pair is finally mapped by one lattice symmetry, one integer
// translation and one power-of-two scale (all exact in binary64).  Validity is filtered with GEOSisValid.
#pragma once
#include "gtree.h"
#include <geos_c.h>

namespace vh {

struct IPt { long x, y; bool operator==(const IPt& o) const { return x == o.x && y == o.y; } bool operator<(const IPt& o) const { return x < o.x || (x == o.x && y < o.y); } };

struct GElem { int kind = 0; /*0 point 1 line 2 polygon*/ std::vector<std::vector<IPt>> rings; bool empty = false; };
struct GGeom { int container = 0; /*0 single 1 multi 2 collection*/ std::vector<GElem> elems; };

struct Xform { int sym = 0; long tx = 0, ty = 0; int k = 0;
    void apply(const IPt& p, double& x, double& y) const {
        long a = p.x, b = p.y, u, v;
        switch (sym & 7) { case 0: u = a; v = b; break; case 1: u = -b; v = a; break; case 2: u = -a; v = -b; break; case 3: u = b; v = -a; break;
                           case 4: u = -a; v = b; break; case 5: u = a; v = -b; break; case 6: u = b; v = a; break; default: u = -b; v = -a; }
        x = std::ldexp((double)(u + tx), k); y = std::ldexp((double)(v + ty), k);
    } };

inline long gcdl(long a, long b) { a = std::labs(a); b = std::labs(b); while (b) { long t = a % b; a = b; b = t; } return a; }
inline long cross(const IPt& o, const IPt& a, const IPt& b) { return (a.x - o.x) * (b.y - o.y) - (a.y - o.y) * (b.x - o.x); }

struct GridGen {
    Rng& r; GEOSContextHandle_t h; Out* out; int span = 8;
    std::vector<IPt> pool;          // contact candidates (vertices and edge lattice points of the partner)
    std::vector<std::pair<IPt, IPt>> poolEdges;
    std::vector<std::vector<IPt>> poolRings;   // the partner's rings / lines as vertex chains
    int contactPct = 0;
    int walkPct = 0;                // opt-in: share of lines that walk along the partner's linework (set by C01/C02)
    GridGen(Rng& rr, GEOSContextHandle_t hh, Out* o) : r(rr), h(hh), out(o) {}
    void cnt(const std::string& k) { if (out) out->count(k); }

    IPt rpt() { if (!pool.empty() && r.chance(contactPct)) { cnt("contact_point_reuse"); return pool[r.below(pool.size())]; } return IPt{r.range(0, span), r.range(0, span)}; }

    // ---- tokens (after transform)
    static std::string seqTok(const std::vector<IPt>& ps, const Xform& t) {
        std::string s = "xy " + std::to_string(ps.size());
        for (auto& p : ps) { double x, y; t.apply(p, x, y); s += " " + hex(x) + " " + hex(y); } return s; }
    static std::string elemTok(const GElem& e, const Xform& t) {
        if (e.kind == 0) return e.empty ? "P xy 0" : "P " + seqTok(e.rings[0], t);
        if (e.kind == 1) return e.empty ? "L xy 0" : "L " + seqTok(e.rings[0], t);
        if (e.empty) return "Y 1 xy 0";
        std::string s = "Y " + std::to_string(e.rings.size()); for (auto& rg : e.rings) s += " " + seqTok(rg, t); return s; }
    static std::string geomTok(const GGeom& g, const Xform& t) {
        if (g.container == 0) return "0 " + elemTok(g.elems[0], t);
        std::string tag = "GC";
        if (g.container == 1) tag = g.elems.empty() ? "GC" : (g.elems[0].kind == 0 ? "MP" : g.elems[0].kind == 1 ? "ML" : "MY");
        std::string s = "0 " + tag + " " + std::to_string(g.elems.size());
        for (auto& e : g.elems) s += " " + elemTok(e, t); return s; }

    std::unique_ptr<Geometry> build(const GGeom& g, const Xform& t) { return buildGeom(geomTok(g, t), GeometryFactory::getDefaultInstance()); }
    bool valid(const GGeom& g) {
        try { auto geo = build(g, Xform{}); return GEOSisValid_r(h, (GEOSGeometry*) geo.get()) == 1; } catch (...) { return false; } }
    bool validElem(const GElem& e) { GGeom g; g.container = 0; g.elems.push_back(e); return valid(g); }

    // ---- elements
    GElem point() { GElem e; e.kind = 0; e.rings.push_back({rpt()}); return e; }
    GElem line() {
        GElem e; e.kind = 1; std::vector<IPt> ps;
        int mode = (int) r.below(100);
        if (!poolRings.empty() && walkPct > 0 && r.chance(walkPct)) ps = walk();
        if (ps.empty() && !poolEdges.empty() && mode < 20) {           // collinear sub/super segment of a partner edge
            auto ed = poolEdges[r.below(poolEdges.size())]; long dx = ed.second.x - ed.first.x, dy = ed.second.y - ed.first.y; long g = gcdl(dx, dy);
            if (g > 0) { long ux = dx / g, uy = dy / g; long a = r.range(-1, (int) g), b = r.range(0, (int) g + 1); if (a == b) b = a + 1;
                ps.push_back(IPt{ed.first.x + a * ux, ed.first.y + a * uy}); ps.push_back(IPt{ed.first.x + b * ux, ed.first.y + b * uy}); cnt("contact_collinear_edge"); } }
        if (ps.empty()) {
            int n = r.range(2, 5);
            for (int i = 0; i < n; i++) { IPt p; int tries = 0; do { p = rpt(); } while (!ps.empty() && p == ps.back() && ++tries < 10); ps.push_back(p); }
            if (mode >= 90 && ps.size() >= 3) { ps.push_back(ps[0]); cnt("line_closed"); }
        }
        vary(ps, false);
        bool allEq = true; for (auto& p : ps) if (!(p == ps[0])) allEq = false;
        if (allEq) { ps.resize(2); ps[1] = IPt{ps[0].x + 1, ps[0].y}; }
        e.rings.push_back(ps); return e; }
    // a chain lying in the partner's linework: starts at a lattice point of one edge, follows 0..3 vertices, ends on an edge
    static IPt onEdge(const IPt& a, const IPt& b, long t, long g) { return IPt{a.x + (b.x - a.x) / g * t, a.y + (b.y - a.y) / g * t}; }
    std::vector<IPt> walk() {
        std::vector<IPt> ps; auto& rg = poolRings[r.below(poolRings.size())]; size_t m = rg.size(); if (m < 2) return ps;
        bool closed = m >= 4 && rg[0] == rg[m - 1]; size_t ne = m - 1;
        size_t i = r.below(ne); long g0 = gcdl(rg[i + 1].x - rg[i].x, rg[i + 1].y - rg[i].y); if (g0 == 0) return ps;
        long t0 = r.range(0, (int) g0); ps.push_back(onEdge(rg[i], rg[i + 1], t0, g0));
        int j = (int) r.below(4); size_t e = i;
        for (int s = 0; s < j; s++) { size_t nx = e + 1; if (nx >= ne) { if (!closed) break; nx = 0; } if (!(rg[e + 1] == ps.back())) ps.push_back(rg[e + 1]); e = nx; }
        long g1 = gcdl(rg[e + 1].x - rg[e].x, rg[e + 1].y - rg[e].y); if (g1 == 0) return ps.size() >= 2 ? ps : std::vector<IPt>{};
        long lo = (e == i && ps.size() == 1) ? t0 + 1 : 1; if (lo > g1) { if (ps.size() >= 2) { cnt("line_boundary_walk"); return ps; } return {}; }
        IPt q = onEdge(rg[e], rg[e + 1], r.range((int) lo, (int) g1), g1); if (!(q == ps.back())) ps.push_back(q);
        if (ps.size() < 2) return {};
        if (r.chance(50)) std::reverse(ps.begin(), ps.end());
        cnt("line_boundary_walk"); return ps; }
    GElem zeroLine() { GElem e; e.kind = 1; IPt p = rpt(); e.rings.push_back({p, p}); cnt("line_zero_length"); return e; }

    static std::vector<IPt> hull(std::vector<IPt> p) {
        std::sort(p.begin(), p.end()); p.erase(std::unique(p.begin(), p.end()), p.end());
        if (p.size() < 3) return {};
        std::vector<IPt> hl(2 * p.size()); size_t k = 0;
        for (size_t i = 0; i < p.size(); i++) { while (k >= 2 && cross(hl[k - 2], hl[k - 1], p[i]) <= 0) k--; hl[k++] = p[i]; }
        for (size_t i = p.size() - 1, t = k + 1; i > 0; i--) { while (k >= t && cross(hl[k - 2], hl[k - 1], p[i - 1]) <= 0) k--; hl[k++] = p[i - 1]; }
        hl.resize(k); if (hl.size() < 4) return {}; return hl; }    // closed (first == last)

    // exact point-in-ring on the lattice: 1 inside, 0 on the ring, -1 outside
    static int locate(const std::vector<IPt>& rg, const IPt& p) {
        bool in = false;
        for (size_t i = 0; i + 1 < rg.size(); i++) { const IPt& a = rg[i]; const IPt& b = rg[i + 1];
            long c = cross(a, b, p);
            if (c == 0 && std::min(a.x, b.x) <= p.x && p.x <= std::max(a.x, b.x) && std::min(a.y, b.y) <= p.y && p.y <= std::max(a.y, b.y)) return 0;
            if ((a.y <= p.y && p.y < b.y && c > 0) || (b.y <= p.y && p.y < a.y && c < 0)) in = !in; }
        return in ? 1 : -1; }
    // lattice points strictly inside a polygon (shell minus closed holes)
    std::vector<IPt> interiorPoints(const GElem& poly) {
        std::vector<IPt> v; if (poly.kind != 2 || poly.empty || poly.rings.empty()) return v;
        long x0 = 1 << 30, x1 = -(1 << 30), y0 = x0, y1 = x1;
        for (auto& p : poly.rings[0]) { x0 = std::min(x0, p.x); x1 = std::max(x1, p.x); y0 = std::min(y0, p.y); y1 = std::max(y1, p.y); }
        for (long x = x0; x <= x1; x++) for (long y = y0; y <= y1; y++) { IPt p{x, y};
            if (locate(poly.rings[0], p) != 1) continue; bool ok = true;
            for (size_t h = 1; h < poly.rings.size(); h++) if (locate(poly.rings[h], p) >= 0) { ok = false; break; }
            if (ok) v.push_back(p); }
        return v; }

    // valid variations that must not change any answer: ring direction, a repeated vertex
    void vary(std::vector<IPt>& rg, bool closed) {
        if (closed && r.chance(50)) { std::reverse(rg.begin(), rg.end()); cnt("ring_clockwise"); }
        if (rg.size() >= 2 && r.chance(12)) { size_t i = r.below(rg.size()); rg.insert(rg.begin() + (long) i, rg[i]); cnt("repeated_vertex"); }
    }
    std::vector<IPt> ring() { auto rg = ring0(); vary(rg, true); return rg; }
    std::vector<IPt> ring0() {
        for (int tries = 0; tries < 20; tries++) {
            int mode = (int) r.below(100);
            if (mode < 20) { long x0 = r.range(0, span - 1), y0 = r.range(0, span - 1), x1 = r.range((int) x0 + 1, span), y1 = r.range((int) y0 + 1, span);
                cnt("ring_rect"); return {{x0, y0}, {x1, y0}, {x1, y1}, {x0, y1}, {x0, y0}}; }
            std::vector<IPt> ps; int n = r.range(3, 7); for (int i = 0; i < n; i++) ps.push_back(rpt());
            if (mode < 60) { auto hl = hull(ps); if (!hl.empty()) { cnt("ring_hull"); return hl; } continue; }
            // angular sort around the centroid (may be non-simple; filtered by validity later)
            std::sort(ps.begin(), ps.end()); ps.erase(std::unique(ps.begin(), ps.end()), ps.end()); if (ps.size() < 3) continue;
            double cx = 0, cy = 0; for (auto& p : ps) { cx += (double) p.x; cy += (double) p.y; } cx /= (double) ps.size(); cy /= (double) ps.size();
            std::sort(ps.begin(), ps.end(), [&](const IPt& a, const IPt& b) { return std::atan2((double) a.y - cy, (double) a.x - cx) < std::atan2((double) b.y - cy, (double) b.x - cx); });
            ps.push_back(ps[0]); cnt("ring_star"); return ps;
        }
        return {{0, 0}, {1, 0}, {0, 1}, {0, 0}};
    }
    GElem polygon() {
        for (int tries = 0; tries < 12; tries++) {
            GElem e; e.kind = 2; e.rings.push_back(ring());
            if (r.chance(35)) {                                   // holes: small rings of interior lattice points, sometimes touching the shell at a vertex
                int nh = r.range(1, 2); auto inner = interiorPoints(e);
                for (int i = 0; i < nh && inner.size() >= 3; i++) { std::vector<IPt> ps;
                    for (int j = 0; j < 3; j++) ps.push_back(inner[r.below(inner.size())]);
                    if (r.chance(20)) ps[0] = e.rings[0][r.below(e.rings[0].size())];
                    auto hl = hull(ps); if (!hl.empty()) { vary(hl, true); e.rings.push_back(hl); } }
            }
            if (validElem(e)) { if (e.rings.size() > 1) cnt("polygon_with_holes"); return e; }
            GElem e2; e2.kind = 2; e2.rings.push_back(e.rings[0]); if (validElem(e2)) return e2;
        }
        GElem e; e.kind = 2; e.rings.push_back({{0, 0}, {2, 0}, {0, 2}, {0, 0}}); return e;
    }
    GElem elem(int kind) { return kind == 0 ? point() : kind == 1 ? line() : polygon(); }

    // kind: 0 point, 1 line, 2 polygon, 3 any
    GGeom geom(int kind, bool allowCollection, bool allowZeroLen) {
        GGeom g; int k = kind == 3 ? (int) r.below(3) : kind;
        int c = (int) r.below(100);
        if (c < 55) { g.container = 0; g.elems.push_back((k == 1 && allowZeroLen && r.chance(4)) ? zeroLine() : elem(k)); }
        else if (c < 85 || !allowCollection) {
            g.container = 1; int n = r.range(1, 3);
            for (int i = 0; i < n; i++) { g.elems.push_back(elem(k)); if (k == 2 && !valid(g)) g.elems.pop_back(); }
            if (g.elems.empty()) g.elems.push_back(elem(k));
            if (r.chance(8) && k != 2) { GElem e; e.kind = k; e.empty = true; g.elems.push_back(e); cnt("multi_empty_element"); }
            cnt("container_multi"); }
        else { g.container = 2; int n = r.range(1, 3); for (int i = 0; i < n; i++) g.elems.push_back(elem((int) r.below(3)));
            if (r.chance(10)) { GElem e; e.kind = (int) r.below(3); e.empty = true; g.elems.push_back(e); }
            cnt("container_collection"); }
        return g; }

    void setPartner(const GGeom& a, int pct) {
        pool.clear(); poolEdges.clear(); poolRings.clear(); contactPct = pct;
        for (auto& e : a.elems) if (!e.empty) for (auto& rg : e.rings) {
            if (e.kind >= 1 && rg.size() >= 2) poolRings.push_back(rg);
            for (auto& p : rg) pool.push_back(p);
            for (size_t i = 0; i + 1 < rg.size(); i++) { long dx = rg[i + 1].x - rg[i].x, dy = rg[i + 1].y - rg[i].y; long g = gcdl(dx, dy);
                if (g > 0) { poolEdges.push_back({rg[i], rg[i + 1]}); for (long t = 1; t < g; t++) pool.push_back(IPt{rg[i].x + dx / g * t, rg[i].y + dy / g * t}); } } }
    }
    // partner mode "strictly inside": every new vertex is a lattice point strictly inside one polygon of `a`
    // (no boundary contact) — exercises containment paths that never see a segment intersection
    bool setPartnerInterior(const GGeom& a) {
        for (auto& e : a.elems) if (e.kind == 2 && !e.empty) { auto in = interiorPoints(e); if (in.size() >= 3) { pool = in; poolEdges.clear(); poolRings.clear(); contactPct = 100; cnt("partner_strictly_inside"); return true; } }
        return false; }
    // partner mode "swallow a hole": the new geometry is a polygon around a hole of `a`, inside its shell
    bool holeSwallower(const GGeom& a, GGeom& out) {
        for (auto& e : a.elems) if (e.kind == 2 && !e.empty && e.rings.size() > 1) {
            auto& h = e.rings[1 + r.below(e.rings.size() - 1)];
            long x0 = 1 << 30, x1 = -(1 << 30), y0 = x0, y1 = x1; for (auto& p : h) { x0 = std::min(x0, p.x); x1 = std::max(x1, p.x); y0 = std::min(y0, p.y); y1 = std::max(y1, p.y); }
            GElem q; q.kind = 2; q.rings.push_back({{x0 - 1, y0 - 1}, {x1 + 1, y0 - 1}, {x1 + 1, y1 + 1}, {x0 - 1, y1 + 1}, {x0 - 1, y0 - 1}});
            out = GGeom{}; out.container = 0; out.elems.push_back(q); cnt("partner_swallows_hole"); return true; }
        return false; }

    // partner mode "partly covered": elements lying in the closure of `b` (chains in its linework, its vertices and edge points,
    // interior lattice points of its polygons) plus, usually, one free element — the shape that separates covers/contains/within
    // from their envelope and per-element shortcuts
    GGeom partialCover(const GGeom& b, bool allowCollection) {
        setPartner(b, 100); int keepWalk = walkPct; walkPct = 70;
        for (auto& e : b.elems) if (e.kind == 2 && !e.empty) { auto in = interiorPoints(e); pool.insert(pool.end(), in.begin(), in.end()); }
        GGeom g; bool hasArea = false; for (auto& e : b.elems) if (e.kind == 2 && !e.empty) hasArea = true;
        if (pool.empty()) { walkPct = keepWalk; return geom(3, allowCollection, false); }
        int n = r.range(1, 3); int k0 = (int) r.below(hasArea ? 3 : 2);
        for (int i = 0; i < n; i++) { int k = allowCollection && r.chance(30) ? (int) r.below(hasArea ? 3 : 2) : k0; g.elems.push_back(elem(k)); }
        if (r.chance(60)) { contactPct = r.chance(50) ? 0 : 30; walkPct = 0; g.elems.push_back(elem(allowCollection && r.chance(30) ? (int) r.below(3) : k0)); cnt("partial_cover_free_element");
            if (r.chance(50)) std::swap(g.elems.front(), g.elems.back()); }
        walkPct = keepWalk;
        bool same = true; for (auto& e : g.elems) if (e.kind != g.elems[0].kind) same = false;
        g.container = same ? (g.elems.size() == 1 && r.chance(50) ? 0 : 1) : 2;
        if (g.container == 1 && g.elems[0].kind == 2 && !valid(g)) { g.elems.resize(1); g.container = 0; }
        cnt("partner_partial_cover"); return g; }

    // 2..4 nested frames (polygon with one hole; the innermost may be solid), each strictly inside the hole of the previous one,
    // as ONE MultiPolygon whose elements come in random order — shells inside holes of other shells, three levels deep
    GGeom nestedFrames() {
        GGeom g; g.container = 1; int k = r.range(2, 4); long step = r.range(1, 2); long S = step * (4 * k + r.range(0, 2));
        long lo = 0, hi = S;
        for (int i = 0; i < k; i++) { GElem e; e.kind = 2;
            std::vector<IPt> sh = {{lo, lo}, {hi, lo}, {hi, hi}, {lo, hi}, {lo, lo}}; vary(sh, true); e.rings.push_back(sh);
            bool solid = (i == k - 1) && r.chance(50);
            if (!solid) { long a = lo + step, b = hi - step; if (b - a < 2 * step + 1 && i < k - 1) break;
                if (b > a) { std::vector<IPt> ho = {{a, a}, {b, a}, {b, b}, {a, b}, {a, a}}; if (i == k - 1 && r.chance(30)) ho = {{a, a}, {b, a}, {a, b}, {a, a}}; vary(ho, true); e.rings.push_back(ho); } }
            g.elems.push_back(e); lo += 2 * step; hi -= 2 * step; if (hi - lo < 1) break; }
        for (size_t i = g.elems.size(); i > 1; i--) std::swap(g.elems[i - 1], g.elems[r.below(i)]);
        if (g.elems.size() == 1) g.container = 0;
        if (!valid(g)) { g.elems.resize(1); g.container = 0; }
        cnt("nested_frames_" + std::to_string(g.elems.size())); return g; }

    Xform xform() { Xform t; t.sym = (int) r.below(8);
        switch (r.below(4)) { case 0: break; case 1: t.tx = r.range(-100, 100); t.ty = r.range(-100, 100); break;
                              case 2: t.tx = r.range(-30000000, 30000000); t.ty = r.range(-30000000, 30000000); break;
                              default: t.tx = r.range(-1000, 1000); t.ty = r.range(-1000, 1000); }
        t.k = r.chance(50) ? 0 : r.range(-30, 30); return t; }
};

} // namespace vh
