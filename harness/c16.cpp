// C16 correspondence harness: Delaunay / constrained Delaunay / Voronoi through the C API.
// A case line carries the input bits AND the implementation's output bits; the Lean driver (drv_c16)
// runs the exact certificate checker on it and answers `ok` or the violated clause.  The expectation
// written by the harness is therefore always `ok` (or `ok-error` where the API documents a NULL result).
//   c16 delaunay <seed> <n> <outbase>
//   c16 cdt      <seed> <n> <outbase>
//   c16 cdtcoll  <seed> <n> <outbase>   constrained triangulation of collections of interior-disjoint polygons (GC / MultiPolygon / nested)
//   c16 voronoi  <seed> <n> <outbase>
//   c16 predicates <seed> <n> <outbase>   the geometric decision functions themselves (TrianglePredicate, Vertex::isCCW/rightOf/leftOf/
//                  isInCircle) on small-integer quadruples, where double arithmetic is exact: PR <8 hex doubles>  ->  7 integers (robust normalized nonrobust isCCW rightOf leftOf isInCircle)
//   c16 replay   <file>          re-run the implementation on the input part of each case line, print fresh case lines
//   c16 incircle ax ay bx by cx cy dx dy | incirclef <file>   the implementation's in-circle predicate on hex doubles
//   c16 sites    <tolhex> x y x y ...   (decimal integers) convenience: print a delaunay case line
// Case grammar (tokens; geometry = GTree tokens, doubles = 16 hex digits):
//   D <tol> <input MultiPoint> T (<geom>|ERR) E (<geom>|ERR)
//   C <input Polygon | collection containing polygons> T (<geom>|ERR)
//   V <tol> <flags> (N | B <minx> <maxx> <miny> <maxy>) <input MultiPoint> O (<geom>|ERR)
#include "common.h"
#include "gtree.h"
#include <geos_c.h>
#include <geos/triangulate/quadedge/TrianglePredicate.h>
#include <geos/triangulate/quadedge/Vertex.h>
#include <geos/triangulate/quadedge/QuadEdge.h>
#include <geos/triangulate/quadedge/QuadEdgeQuartet.h>
#include <deque>
#include <geos/triangulate/DelaunayTriangulationBuilder.h>
#include <geos/triangulate/VoronoiDiagramBuilder.h>
#include <geos/geom/GeometryCollection.h>
#include <geos/geom/MultiLineString.h>
#include <cstdarg>
#include <set>
#include <fstream>
#include <iostream>

using namespace vh;
typedef long long i64;
typedef __int128 i128;

static void notice(const char*, ...) {}
static std::string lastError;
static void errorh(const char* fmt, ...) { char b[512]; va_list ap; va_start(ap, fmt); vsnprintf(b, sizeof b, fmt, ap); va_end(ap); lastError = b; }

struct P { i64 x, y; };
static bool operator<(const P& a, const P& b) { return a.x < b.x || (a.x == b.x && a.y < b.y); }
static bool operator==(const P& a, const P& b) { return a.x == b.x && a.y == b.y; }

static GEOSContextHandle_t H;

static const geos::geom::Geometry* cpp(const GEOSGeometry* g) { return reinterpret_cast<const geos::geom::Geometry*>(g); }
static std::string dumpOrErr(GEOSGeometry* g) {
    if (!g) return "ERR";
    std::string s = dumpGeom(cpp(g)); GEOSGeom_destroy_r(H, g); return s;
}

// ------------------------------------------------------------------ running the implementation on token inputs
static std::string runDelaunay(double tol, const std::string& inputToks) {
    auto in = buildGeom(inputToks, geos::geom::GeometryFactory::getDefaultInstance());
    const GEOSGeometry* g = reinterpret_cast<const GEOSGeometry*>(in.get());
    std::string t = dumpOrErr(GEOSDelaunayTriangulation_r(H, g, tol, 0));
    std::string e = dumpOrErr(GEOSDelaunayTriangulation_r(H, g, tol, 1));
    return "D " + hex(tol) + " " + inputToks + " T " + t + " E " + e;
}
// one builder object queried repeatedly: triangles, edges, triangles again (and the Voronoi builder: diagram, edges, diagram) must
// answer alike each time and like the one-shot C API call — a query must not disturb the subdivision it reads
static std::string runReuse(double tol, const std::string& inputToks, std::string& verdict) {
    auto gf = geos::geom::GeometryFactory::getDefaultInstance();
    auto in = buildGeom(inputToks, gf);
    const GEOSGeometry* g = reinterpret_cast<const GEOSGeometry*>(in.get());
    std::string ct = dumpOrErr(GEOSDelaunayTriangulation_r(H, g, tol, 0)), ce = dumpOrErr(GEOSDelaunayTriangulation_r(H, g, tol, 1));
    std::string t1 = "ERR", e1 = "ERR", t2 = "ERR", e2 = "ERR", v1 = "ERR", v2 = "ERR", cv = dumpOrErr(GEOSVoronoiDiagram_r(H, g, nullptr, tol, 0));
    try { geos::triangulate::DelaunayTriangulationBuilder b; b.setSites(*in); b.setTolerance(tol);
          t1 = dumpGeom(b.getTriangles(*gf).get()); e1 = dumpGeom(b.getEdges(*gf).get()); t2 = dumpGeom(b.getTriangles(*gf).get()); e2 = dumpGeom(b.getEdges(*gf).get()); } catch (std::exception&) {}
    try { geos::triangulate::VoronoiDiagramBuilder vb; vb.setSites(*in); vb.setTolerance(tol);
          v1 = dumpGeom(vb.getDiagram(*gf).get()); (void) vb.getDiagramEdges(*gf); v2 = dumpGeom(vb.getDiagram(*gf).get()); } catch (std::exception&) {}
    verdict = "consistent";
    if (t1 != t2) verdict = "inconsistent triangles-second-call";
    else if (e1 != e2) verdict = "inconsistent edges-second-call";
    else if (t1 != ct) verdict = "inconsistent triangles-vs-capi";
    else if (e1 != ce) verdict = "inconsistent edges-vs-capi";
    else if (v1 != v2) verdict = "inconsistent voronoi-second-call";
    else if (v1 != cv) verdict = "inconsistent voronoi-vs-capi";
    return "RU D " + hex(tol) + " " + inputToks;
}
static std::string runCdt(const std::string& inputToks) {
    auto in = buildGeom(inputToks, geos::geom::GeometryFactory::getDefaultInstance());
    const GEOSGeometry* g = reinterpret_cast<const GEOSGeometry*>(in.get());
    return "C " + inputToks + " T " + dumpOrErr(GEOSConstrainedDelaunayTriangulation_r(H, g));
}
struct Box { bool has; double minx, maxx, miny, maxy; };
static std::string runVoronoi(double tol, int flags, const Box& b, const std::string& inputToks) {
    auto in = buildGeom(inputToks, geos::geom::GeometryFactory::getDefaultInstance());
    const GEOSGeometry* g = reinterpret_cast<const GEOSGeometry*>(in.get());
    GEOSGeometry* env = nullptr;
    if (b.has) {
        GEOSCoordSequence* cs = GEOSCoordSeq_create_r(H, 2, 2);
        GEOSCoordSeq_setXY_r(H, cs, 0, b.minx, b.miny); GEOSCoordSeq_setXY_r(H, cs, 1, b.maxx, b.maxy);
        env = GEOSGeom_createLineString_r(H, cs);
    }
    std::string o = dumpOrErr(GEOSVoronoiDiagram_r(H, g, env, tol, flags));
    if (env) GEOSGeom_destroy_r(H, env);
    std::string s = "V " + hex(tol) + " " + std::to_string(flags) + " ";
    if (b.has) s += "B " + hex(b.minx) + " " + hex(b.maxx) + " " + hex(b.miny) + " " + hex(b.maxy); else s += "N";
    return s + " " + inputToks + " O " + o;
}

// take one geometry's tokens off the front of v starting at p (GTree grammar), return them joined
static size_t skipSeq(const std::vector<std::string>& v, size_t p) {
    const std::string& f = v.at(p); size_t dims = 2 + (f.find('z') != std::string::npos) + (f.find('m') != std::string::npos);
    size_t n = std::stoull(v.at(p + 1)); return p + 2 + n * dims;
}
static size_t skipG(const std::vector<std::string>& v, size_t p) {
    const std::string& t = v.at(p);
    if (t == "P" || t == "L" || t == "R" || t == "C") return skipSeq(v, p + 1);
    size_t k = std::stoull(v.at(p + 1)); p += 2;
    if (t == "Y") { for (size_t i = 0; i < k; i++) p = skipSeq(v, p); return p; }
    for (size_t i = 0; i < k; i++) p = skipG(v, p);
    return p;
}
static std::string joinToks(const std::vector<std::string>& v, size_t a, size_t b) { std::string s; for (size_t i = a; i < b; i++) { if (i > a) s += ' '; s += v[i]; } return s; }

static std::string rerun(const std::string& line) {
    auto v = splitToks(line);
    if (v.empty()) return "bad-line";
    try {
        if (v[0] == "D") { double tol = frombits(std::stoull(v.at(1), nullptr, 16)); size_t e = skipG(v, 3); return runDelaunay(tol, joinToks(v, 2, e)); }
        if (v[0] == "C") { size_t e = skipG(v, 2); return runCdt(joinToks(v, 1, e)); }
        if (v[0] == "V") {
            double tol = frombits(std::stoull(v.at(1), nullptr, 16)); int flags = std::stoi(v.at(2)); Box b{}; size_t p = 3;
            if (v.at(p) == "B") { b.has = true; b.minx = frombits(std::stoull(v.at(p + 1), nullptr, 16)); b.maxx = frombits(std::stoull(v.at(p + 2), nullptr, 16));
                b.miny = frombits(std::stoull(v.at(p + 3), nullptr, 16)); b.maxy = frombits(std::stoull(v.at(p + 4), nullptr, 16)); p += 5; } else { b.has = false; p += 1; }
            size_t e = skipG(v, p + 1); return runVoronoi(tol, flags, b, joinToks(v, p, e));
        }
    } catch (std::exception& ex) { return std::string("bad-line ") + ex.what(); }
    return "bad-line";
}

// ------------------------------------------------------------------ site-set generators (integer lattice, then 2^k scaling)
static const i64 LIM = (i64) 1 << 25;

static std::string multiPointToks(const std::vector<P>& pts, int k) {
    std::string s = "0 MP " + std::to_string(pts.size());
    for (auto& p : pts) s += " P xy 1 " + hex(std::ldexp((double) p.x, k)) + " " + hex(std::ldexp((double) p.y, k));
    return s;
}

static i128 det3(const P& a, const P& b, const P& c) { return (i128)(b.x - a.x) * (c.y - a.y) - (i128)(b.y - a.y) * (c.x - a.x); }
// exact in-circle determinant (fits: |diff| <= 2^26 -> |D| < 2^110)
static i128 inCircleExact(const P& a, const P& b, const P& c, const P& d) {
    i128 ax = a.x - d.x, ay = a.y - d.y, bx = b.x - d.x, by = b.y - d.y, cx = c.x - d.x, cy = c.y - d.y;
    return (ax * ax + ay * ay) * (bx * cy - by * cx) - (bx * bx + by * by) * (ax * cy - ay * cx) + (cx * cx + cy * cy) * (ax * by - ay * bx);
}

// lattice points d with a non-zero in-circle determinant w.r.t. (a,b,c) that the double-precision predicate cannot decide
static bool findUndecided(Rng& r, const P& a, const P& b, const P& c, P& out, long budget) {
    using geos::triangulate::quadedge::TrianglePredicate; using geos::geom::CoordinateXY; using geos::geom::Location;
    long double ax = a.x, ay = a.y, bx = b.x - ax, by = b.y - ay, cx = c.x - ax, cy = c.y - ay;
    long double d = 2 * (bx * cy - by * cx); if (d == 0) return false;
    long double ux = (cy * (bx * bx + by * by) - by * (cx * cx + cy * cy)) / d, uy = (bx * (cx * cx + cy * cy) - cx * (bx * bx + by * by)) / d;
    long double R2 = ux * ux + uy * uy, R = sqrtl(R2); long double ox = ax + ux, oy = ay + uy;
    i64 xlo = std::max<i64>(-LIM, (i64) ceill(ox - R)), xhi = std::min<i64>(LIM, (i64) floorl(ox + R));
    if (xhi <= xlo) return false;
    i64 x = xlo + (i64) r.below((uint64_t)(xhi - xlo + 1));
    CoordinateXY A((double) a.x, (double) a.y), B((double) b.x, (double) b.y), C((double) c.x, (double) c.y);
    for (long it = 0; it < budget; it++, x++) {
        if (x > xhi) x = xlo;
        long double dx = x - ox, h2 = R2 - dx * dx; if (h2 < 0) continue;
        long double hgt = sqrtl(h2);
        for (int s = -1; s <= 1; s += 2) {
            long double yy = oy + s * hgt; long double yr = roundl(yy);
            if (fabsl(yy - yr) > 3e-7L) continue;
            i64 y = (i64) yr; if (y < -LIM || y > LIM) continue;
            P dd{x, y}; if (dd == a || dd == b || dd == c) continue;
            i128 D = inCircleExact(a, b, c, dd); if (D == 0) continue;
            CoordinateXY Dd((double) x, (double) y);
            if (TrianglePredicate::isInCircleRobust(A, B, C, Dd) == Location::BOUNDARY) { out = dd; return true; }
        }
    }
    return false;
}

struct SiteCase { std::vector<P> pts; std::string cls; };

static P rndPt(Rng& r, i64 R) { return P{ (i64) r.below((uint64_t)(2 * R + 1)) - R, (i64) r.below((uint64_t)(2 * R + 1)) - R }; }
static i64 pickRange(Rng& r) { static const i64 Rs[] = {1, 2, 3, 4, 8, 16, 64, 1024, 1 << 20, (1 << 24)}; return Rs[r.below(10)]; }
static int pickN(Rng& r) { int k = (int) r.below(100); if (k < 55) return r.range(1, 12); if (k < 88) return r.range(13, 50); return r.range(51, 200); }

static SiteCase genSites(Rng& r, Out& out, bool allowHuge) {
    SiteCase sc; int k = (int) r.below(100);
    if (k < 26) { sc.cls = "random"; int n = pickN(r); i64 R = pickRange(r); for (int i = 0; i < n; i++) sc.pts.push_back(rndPt(r, R)); }
    else if (k < 38) { sc.cls = "collinear"; int n = r.range(1, 30); i64 dx = r.range(-5, 5), dy = r.range(-5, 5); if (!dx && !dy) dx = 1;
        for (int i = 0; i < n; i++) { i64 t = r.range(-40, 40); sc.pts.push_back(P{t * dx, t * dy}); }
        int extra = r.chance(50) ? 0 : r.range(1, 2); for (int i = 0; i < extra; i++) sc.pts.push_back(rndPt(r, 50));
        if (extra) sc.cls = "collinear+off"; }
    else if (k < 50) { sc.cls = "lattice-grid"; int w = r.range(1, 7), h = r.range(1, 7); i64 sx = r.range(1, 4), sy = r.range(1, 4);
        for (int i = 0; i <= w; i++) for (int j = 0; j <= h; j++) if (r.chance(85)) sc.pts.push_back(P{i * sx, j * sy});
        if (r.chance(30)) { sc.pts.clear(); sc.cls = "rectangle"; i64 W = r.range(1, 1000), Hh = r.range(1, 1000); sc.pts = {P{0, 0}, P{W, 0}, P{W, Hh}, P{0, Hh}}; if (r.chance(50)) sc.pts.push_back(rndPt(r, 1000)); } }
    else if (k < 62) { sc.cls = "lattice-circle"; i64 m = r.range(1, 40);
        static const int C[12][2] = {{3,4},{4,3},{5,0},{4,-3},{3,-4},{0,-5},{-3,-4},{-4,-3},{-5,0},{-4,3},{-3,4},{0,5}};
        for (int i = 0; i < 12; i++) if (r.chance(70)) sc.pts.push_back(P{C[i][0] * m, C[i][1] * m});
        if (r.chance(40)) sc.pts.push_back(P{0, 0});
        int extra = r.chance(50) ? 0 : r.range(1, 6); for (int i = 0; i < extra; i++) sc.pts.push_back(rndPt(r, 7 * m));
        if (r.chance(30)) { i64 m2 = r.range(1, 40); for (int i = 0; i < 12; i++) if (r.chance(50)) sc.pts.push_back(P{C[i][0] * m2, C[i][1] * m2}); sc.cls = "lattice-circles-concentric"; } }
    else if (k < 72) { sc.cls = "duplicated"; int n = r.range(1, 40); i64 R = pickRange(r); for (int i = 0; i < n; i++) sc.pts.push_back(rndPt(r, R));
        int d = r.range(1, 40); for (int i = 0; i < d; i++) sc.pts.push_back(sc.pts[r.below(sc.pts.size())]);
        for (size_t i = sc.pts.size(); i > 1; i--) std::swap(sc.pts[i - 1], sc.pts[r.below(i)]); }
    else if (k < 84) { sc.cls = "clustered"; int nc = r.range(2, 6); i64 sep = pickRange(r) * 64; if (sep > (1 << 24)) sep = 1 << 24;
        for (int c = 0; c < nc; c++) { P ctr = rndPt(r, sep); int m = r.range(1, 12); i64 spread = r.range(1, 3); for (int i = 0; i < m; i++) { P q = rndPt(r, spread); sc.pts.push_back(P{ctr.x + q.x, ctr.y + q.y}); } } }
    else if (k < 96) { sc.cls = "near-edge"; // a point one lattice step off a long lattice segment, plus random company
        i64 L = pickRange(r) * 8 + 8; P a = rndPt(r, L), b = rndPt(r, L); sc.pts = {a, b};
        int m = r.range(1, 6); for (int i = 0; i < m; i++) { i64 t = r.range(1, 15); P q{a.x + (b.x - a.x) * t / 16, a.y + (b.y - a.y) * t / 16}; q.x += r.range(-1, 1); q.y += r.range(-1, 1); sc.pts.push_back(q); }
        int extra = r.range(0, 8); for (int i = 0; i < extra; i++) sc.pts.push_back(rndPt(r, L)); }
    else { sc.cls = "near-cocircular"; // big lattice triangle + a lattice point whose in-circle sign the double predicate cannot decide
        if (!allowHuge) { sc.cls = "random"; int n = pickN(r); for (int i = 0; i < n; i++) sc.pts.push_back(rndPt(r, 64)); }
        else {
            P a = rndPt(r, LIM), b = rndPt(r, LIM), c = rndPt(r, LIM), d;
            sc.pts = {a, b, c};
            if (findUndecided(r, a, b, c, d, 30000000L)) { sc.pts.push_back(d); out.count("nearcocirc_found"); } else out.count("nearcocirc_not_found");
            int extra = r.chance(50) ? 0 : r.range(1, 5); for (int i = 0; i < extra; i++) sc.pts.push_back(rndPt(r, LIM));
        } }
    return sc;
}

// translate within the grid bound, choose the unit 2^k
static int placeOnGrid(Rng& r, std::vector<P>& pts, Out& out) {
    i64 mx = 0; for (auto& p : pts) mx = std::max<i64>(mx, std::max<i64>(std::llabs(p.x), std::llabs(p.y)));
    i64 room = LIM - mx; if (room < 0) room = 0;
    i64 tx = 0, ty = 0;
    switch (r.below(4)) { case 0: break; case 1: tx = (i64) r.below((uint64_t)(2 * std::min<i64>(room, 1000) + 1)) - std::min<i64>(room, 1000); ty = (i64) r.below((uint64_t)(2 * std::min<i64>(room, 1000) + 1)) - std::min<i64>(room, 1000); break;
        case 2: tx = room * (r.chance(50) ? 1 : -1); ty = room * (r.chance(50) ? 1 : -1); out.count("translated_to_limit"); break;
        default: tx = (i64) r.below((uint64_t)(2 * room + 1)) - room; ty = (i64) r.below((uint64_t)(2 * room + 1)) - room; }
    for (auto& p : pts) { p.x += tx; p.y += ty; }
    int k = 0; switch (r.below(4)) { case 0: k = 0; break; case 1: k = r.range(-10, 10); break; case 2: k = r.range(-40, 40); break; default: k = 0; }
    if (k) out.count("scaled_unit");
    return k;
}

static void sizeStat(Out& out, const char* pre, size_t n) {
    const char* b = n <= 3 ? "1-3" : n <= 12 ? "4-12" : n <= 50 ? "13-50" : "51+";
    out.count(std::string(pre) + b);
}

// ------------------------------------------------------------------ polygons for the constrained triangulation
struct Poly { std::vector<std::vector<P>> rings; std::string cls; };   // rings closed (first == last)

static i64 gcdll(i64 a, i64 b) { a = std::llabs(a); b = std::llabs(b); while (b) { i64 t = a % b; a = b; b = t; } return a; }

// primitive lattice directions sorted counter-clockwise
static std::vector<P> directions(int m) {
    std::vector<P> d; for (int x = -m; x <= m; x++) for (int y = -m; y <= m; y++) if ((x || y) && gcdll(x, y) == 1) d.push_back(P{x, y});
    std::sort(d.begin(), d.end(), [](const P& a, const P& b) { return std::atan2((double) a.y, (double) a.x) < std::atan2((double) b.y, (double) b.x); });
    return d;
}
// star-shaped ring around the origin: radii r_i along a subset of directions with all angular gaps < 180 degrees
static std::vector<P> starRing(Rng& r, int m, int keepPct, i64 rmin, i64 rmax, std::vector<P>* dirsOut = nullptr, std::vector<i64>* radOut = nullptr) {
    for (;;) {
        auto ds = directions(m); std::vector<P> sel;
        for (auto& d : ds) if (r.chance(keepPct)) sel.push_back(d);
        if (sel.size() < 3) continue;
        bool ok = true; for (size_t i = 0; i < sel.size(); i++) { const P& a = sel[i]; const P& b = sel[(i + 1) % sel.size()]; if (a.x * b.y - a.y * b.x <= 0) ok = false; }
        if (!ok) continue;
        std::vector<P> ring; std::vector<i64> rad;
        for (auto& d : sel) { i64 k = rmin + (i64) r.below((uint64_t)(rmax - rmin + 1)); rad.push_back(k); ring.push_back(P{d.x * k, d.y * k}); }
        ring.push_back(ring[0]);
        if (dirsOut) *dirsOut = sel; if (radOut) *radOut = rad;
        return ring;
    }
}
static std::vector<P> shift(std::vector<P> v, i64 dx, i64 dy, i64 mul = 1) { for (auto& p : v) { p.x = p.x * mul + dx; p.y = p.y * mul + dy; } return v; }

static Poly genPoly(Rng& r, Out& out, bool allowHuge = true) {
    Poly po; int k = (int) r.below(100);
    if (k < 30) {           // star-shaped shell, optional shrunken copy as a hole (possibly touching the shell at a vertex)
        po.cls = "star"; std::vector<P> dirs; std::vector<i64> rad;
        auto ring = starRing(r, r.range(1, 3), r.range(30, 90), 1, r.range(1, 6), &dirs, &rad);
        int mode = (int) r.below(4);
        if (mode == 0) { po.rings.push_back(ring); }
        else {
            po.rings.push_back(shift(ring, 0, 0, 4));
            std::vector<P> hole = ring;
            if (mode == 2) { size_t i = r.below(hole.size() - 1); hole[i] = P{ring[i].x * 4, ring[i].y * 4}; if (i == 0) hole.back() = hole[0]; po.cls = "star+hole-touching-vertex"; }
            else if (mode == 3 && dirs.size() >= 4) { // hole = shrunken copy of a sub-star (different shape), scaled 1..3 of 4
                po.cls = "star+hole-scaled"; i64 f = r.range(1, 3); hole = shift(ring, 0, 0, f); }
            else po.cls = "star+hole";
            po.rings.push_back(hole);
        }
    } else if (k < 55) {    // histogram / staircase: base on y=0, columns of height h_i; holes in the common base band
        po.cls = "staircase"; int n = r.range(1, 8); i64 cw = r.range(1, 4) * 6; i64 Hmin = 6 * r.range(1, 3);
        std::vector<i64> h; for (int i = 0; i < n; i++) h.push_back(Hmin + (r.chance(30) ? 0 : r.range(0, 12)));
        bool mono = r.chance(30); if (mono) std::sort(h.begin(), h.end());
        bool baseVerts = r.chance(50);
        std::vector<P> ring; ring.push_back(P{0, 0});
        for (int i = 1; i <= n; i++) { if (baseVerts || i == n) ring.push_back(P{i * cw, 0}); }
        for (int i = n - 1; i >= 0; i--) { i64 xr = (i + 1) * cw, xl = i * cw;
            if (i == n - 1 || h[i] != h[i + 1] || r.chance(40)) ring.push_back(P{xr, h[i]});
            if (i == 0 || h[i] != h[i - 1] || r.chance(40)) ring.push_back(P{xl, h[i]});
            else if (false) {} }
        // remove exact repeats
        std::vector<P> rr; for (auto& p : ring) if (rr.empty() || !(rr.back() == p)) rr.push_back(p);
        if (!(rr.front() == rr.back())) rr.push_back(rr.front());
        po.rings.push_back(rr);
        // holes: one small shape per column cell [i*cw,(i+1)*cw] x [0,Hmin], strictly inside or touching the base / a neighbour
        for (int i = 0; i < n; i++) if (r.chance(45)) {
            i64 cx = i * cw + cw / 2, cy = Hmin / 2; int hm = (int) r.below(5);
            std::vector<P> hole;
            if (hm == 0) hole = {P{cx - 1, cy - 1}, P{cx + 1, cy - 1}, P{cx + 1, cy + 1}, P{cx - 1, cy + 1}, P{cx - 1, cy - 1}};
            else if (hm == 1) { hole = {P{cx, 0}, P{cx + 2, cy}, P{cx - 2, cy}, P{cx, 0}}; po.cls = "staircase+hole-touching"; }      // touches the base (vertex or edge interior)
            else if (hm == 2) { hole = {P{i * cw, Hmin}, P{cx, cy}, P{i * cw + 1, cy + 1}, P{i * cw, Hmin}};                            // touches the shell at a possible vertex (i*cw, Hmin)
                if (i == 0) hole = {P{cx, 1}, P{cx + 1, 2}, P{cx - 1, 2}, P{cx, 1}}; else po.cls = "staircase+hole-touching"; }
            else if (hm == 3) { auto s = starRing(r, 1, 70, 1, 2); hole = shift(s, cx, cy); }
            else hole = {P{cx - 2, cy}, P{cx, cy - 2}, P{cx + 2, cy}, P{cx, cy + 2}, P{cx - 2, cy}};
            po.rings.push_back(hole);
        }
        if (po.rings.size() > 1 && po.cls == "staircase") po.cls = "staircase+holes";
    } else if (k < 63) {    // a chain of holes: the first touches the shell in one point, each further one touches its predecessor at a vertex
        // (diamonds / triangles strung along a horizontal line from the left edge of a rectangle, the last one ending short of the right edge;
        // the joined ring then passes several times through the touch points, with passes that run exactly back along each other)
        po.cls = "hole-chain"; int n = r.range(2, 4); std::vector<i64> w, a, b; i64 tot = 0;
        for (int j = 0; j < n; j++) { w.push_back(2 * r.range(1, 3)); i64 aj = r.range(0, 3), bj = r.range(0, 3); if (aj == 0 && bj == 0) { if (r.chance(50)) aj = r.range(1, 3); else bj = r.range(1, 3); } a.push_back(aj); b.push_back(bj); tot += w.back(); }
        i64 Sx = tot + r.range(2, 6), Sy = 8 + r.range(0, 6), h = r.range(4, (int) Sy - 4);
        std::vector<P> ring = {P{0, 0}, P{Sx, 0}, P{Sx, Sy}, P{0, Sy}};
        if (r.chance(50)) ring.push_back(P{0, h});          // the touch point of the first hole is a shell vertex or lies inside a shell edge
        ring.push_back(ring[0]); po.rings.push_back(ring);
        i64 x = 0; std::vector<std::vector<P>> holes;
        for (int j = 0; j < n; j++) { i64 x1 = x + w[j], m = x + w[j] / 2; std::vector<P> hole = {P{x, h}};
            if (a[j] > 0) hole.push_back(P{m, h - a[j]});
            hole.push_back(P{x1, h});
            if (b[j] > 0) hole.push_back(P{m, h + b[j]});
            hole.push_back(P{x, h}); holes.push_back(hole); x = x1; }
        // the holes are listed in random order (the joiner sorts them itself)
        for (size_t i = holes.size(); i > 1; i--) std::swap(holes[i - 1], holes[r.below(i)]);
        for (auto& hl : holes) po.rings.push_back(hl);
    } else if (k < 70) {    // convex hull of random lattice points (monotone chain), optionally keeping collinear boundary points
        po.cls = "convex"; int n = r.range(3, 25); i64 R = pickRange(r); if (R > 1024) R = 1024; std::vector<P> pts; for (int i = 0; i < n; i++) pts.push_back(rndPt(r, R));
        std::sort(pts.begin(), pts.end()); pts.erase(std::unique(pts.begin(), pts.end()), pts.end());
        bool keepCol = r.chance(50);
        std::vector<P> hh(2 * pts.size() + 2); size_t m = 0;
        auto bad = [&](const P& a, const P& b, const P& c) { i128 d = det3(a, b, c); return keepCol ? d < 0 : d <= 0; };
        for (size_t i = 0; i < pts.size(); i++) { while (m >= 2 && bad(hh[m - 2], hh[m - 1], pts[i])) m--; hh[m++] = pts[i]; }
        for (size_t i = pts.size() - 1, t = m + 1; i > 0; i--) { while (m >= t && bad(hh[m - 2], hh[m - 1], pts[i - 1])) m--; hh[m++] = pts[i - 1]; }
        hh.resize(m);
        po.rings.push_back(hh);
    } else if (k < 85) {    // lattice rectangle with many boundary vertices (cocircular everywhere) and a grid of holes
        po.cls = "rect-grid"; int nx = r.range(1, 5), ny = r.range(1, 4); i64 c = 6;
        std::vector<P> ring; for (int i = 0; i <= nx; i++) if (i == 0 || i == nx || r.chance(60)) ring.push_back(P{i * c, 0});
        for (int j = 1; j <= ny; j++) if (j == ny || r.chance(60)) ring.push_back(P{nx * c, j * c});
        for (int i = nx - 1; i >= 0; i--) if (i == 0 || r.chance(60)) ring.push_back(P{i * c, ny * c});
        for (int j = ny - 1; j >= 1; j--) if (r.chance(60)) ring.push_back(P{0, j * c});
        ring.push_back(ring[0]); po.rings.push_back(ring);
        for (int i = 0; i < nx; i++) for (int j = 0; j < ny; j++) if (r.chance(50)) {
            i64 x0 = i * c, y0 = j * c; int hm = (int) r.below(4); std::vector<P> hole;
            if (hm == 0) hole = {P{x0 + 1, y0 + 1}, P{x0 + 5, y0 + 1}, P{x0 + 5, y0 + 5}, P{x0 + 1, y0 + 5}, P{x0 + 1, y0 + 1}};
            else if (hm == 1) hole = {P{x0 + 3, y0 + 1}, P{x0 + 5, y0 + 3}, P{x0 + 3, y0 + 5}, P{x0 + 1, y0 + 3}, P{x0 + 3, y0 + 1}};
            else if (hm == 2) { hole = {P{x0, y0}, P{x0 + 4, y0 + 2}, P{x0 + 2, y0 + 4}, P{x0, y0}}; po.cls = "rect-grid+touching"; }   // corner of the cell: touches shell (if on the border) or the neighbouring holes' corners
            else hole = {P{x0 + 2, y0 + 2}, P{x0 + 4, y0 + 2}, P{x0 + 3, y0 + 4}, P{x0 + 2, y0 + 2}};
            po.rings.push_back(hole);
        }
    } else if (k < 87 && allowHuge) {    // convex quadrilateral whose four corners are nearly cocircular at the top of the grid range
        po.cls = "near-cocircular-quad";
        P a = rndPt(r, LIM), b = rndPt(r, LIM), c = rndPt(r, LIM), d;
        if (det3(a, b, c) != 0 && findUndecided(r, a, b, c, d, 30000000L)) {
            std::vector<P> q = {a, b, c, d}; long double ox = 0, oy = 0; for (auto& p : q) { ox += p.x / 4.0L; oy += p.y / 4.0L; }
            std::sort(q.begin(), q.end(), [&](const P& u, const P& v) { return atan2l(u.y - oy, u.x - ox) < atan2l(v.y - oy, v.x - ox); });
            q.push_back(q[0]); po.rings.push_back(q); out.count("nearcocirc_found");
        } else { out.count("nearcocirc_not_found"); po.cls = "star-large"; po.rings.push_back(starRing(r, 2, 50, 1, 1 << 10)); }
    } else {                // large / scaled star
        po.cls = "star-large"; auto ring = starRing(r, r.range(2, 4), r.range(20, 70), 1, 1 << r.range(1, allowHuge ? 18 : 5)); po.rings.push_back(ring);
    }
    // random orientation of every ring; random start vertex
    for (auto& rg : po.rings) {
        rg.pop_back();
        if (r.chance(50)) std::reverse(rg.begin(), rg.end());
        std::rotate(rg.begin(), rg.begin() + (long) r.below(rg.size()), rg.end());
        rg.push_back(rg[0]);
    }
    // lattice symmetry
    int sym = (int) r.below(8);
    for (auto& rg : po.rings) for (auto& p : rg) { i64 x = p.x, y = p.y; if (sym & 1) x = -x; if (sym & 2) y = -y; if (sym & 4) std::swap(x, y); p.x = x; p.y = y; }
    return po;
}

static std::string polyToks(const Poly& po, int k) {
    std::string s = "0 Y " + std::to_string(po.rings.size());
    for (auto& rg : po.rings) { s += " xy " + std::to_string(rg.size()); for (auto& p : rg) s += " " + hex(std::ldexp((double) p.x, k)) + " " + hex(std::ldexp((double) p.y, k)); }
    return s;
}

// ------------------------------------------------------------------ collections of polygons for the constrained triangulation
// Components are valid polygons with pairwise disjoint interiors; they may share complete boundary edges, parts of edges
// (T-junctions) or single vertices — all legal in a GeometryCollection (a MultiPolygon tag is used only when GEOS calls the
// MultiPolygon valid).  Families: sectors of a star-shaped region around a common apex, a polygon with its holes plugged by
// further polygons, columns of a histogram, cells of a lattice grid (whole, or cut along a diagonal), a triangle strip between
// two lines (triangles alone or merged in pairs), independent polygons placed next to each other.  A random invertible integer
// linear map (shear / stretch / reflection) is applied to the whole collection: validity and incidence are preserved, the
// Delaunay condition is not, so edges shared by two components very often fail the in-circle test.
struct Coll { std::vector<Poly> comps; std::string cls; std::vector<std::string> extras; bool nest = false; };

static std::vector<P> closeRing(std::vector<P> v) { v.push_back(v[0]); return v; }

static void fanSectors(Rng& r, const std::vector<P>& ringClosed, P apex, int dropPct, std::vector<Poly>& outp) {
    size_t n = ringClosed.size() - 1; std::vector<size_t> cuts;
    for (size_t i = 0; i < n; i++) if (r.chance(50)) cuts.push_back(i);
    while (cuts.size() < 2) { size_t c = r.below(n); if (std::find(cuts.begin(), cuts.end(), c) == cuts.end()) cuts.push_back(c); std::sort(cuts.begin(), cuts.end()); }
    for (size_t j = 0; j < cuts.size(); j++) {
        size_t a = cuts[j], b = cuts[(j + 1) % cuts.size()];
        std::vector<P> rg; rg.push_back(apex);
        for (size_t i = a;; i = (i + 1) % n) { rg.push_back(ringClosed[i]); if (i == b) break; }
        if (r.chance(dropPct)) continue;
        Poly po; po.rings.push_back(closeRing(rg)); outp.push_back(po);
    }
}

static Coll genColl(Rng& r, Out& out) {
    Coll co; int k = (int) r.below(100);
    if (k < 24) {           // sectors of a star-shaped region around the origin
        co.cls = "fan-sectors";
        auto ring = starRing(r, r.range(1, 3), r.range(40, 95), 1, r.range(1, 8));
        fanSectors(r, ring, P{0, 0}, 12, co.comps);
    } else if (k < 40) {    // a polygon with a hole, and the hole filled by one polygon or by sectors
        co.cls = "hole-plug";
        auto ring = starRing(r, r.range(1, 3), r.range(30, 90), 1, r.range(1, 6));
        i64 f = r.range(1, 3); std::vector<P> shell = shift(ring, 0, 0, 4), hole = shift(ring, 0, 0, f);
        if (r.chance(30)) { size_t i = r.below(hole.size() - 1); hole[i] = shell[i]; if (i == 0) hole.back() = hole[0]; co.cls = "hole-plug-touching"; }
        Poly donut; donut.rings = {shell, hole}; co.comps.push_back(donut);
        if (r.chance(50)) { Poly plug; plug.rings = {hole}; co.comps.push_back(plug); }
        else fanSectors(r, hole, P{0, 0}, 10, co.comps);
        if (r.chance(30)) { // a further ring of sectors outside the shell, sharing the shell's edges
            std::vector<P> outer = shift(ring, 0, 0, 8); size_t n = ring.size() - 1;
            for (size_t i = 0; i < n; i++) if (r.chance(60)) { Poly q; q.rings.push_back({shell[i], outer[i], outer[i + 1], shell[i + 1], shell[i]}); co.comps.push_back(q); }
            co.cls += "+collar";
        }
    } else if (k < 55) {    // columns of a histogram: neighbours share (part of) a vertical side
        co.cls = "columns"; int n = r.range(2, 7); bool conform = r.chance(50); if (conform) co.cls = "columns-conforming";
        std::vector<i64> xs{0}, h; for (int i = 0; i < n; i++) { xs.push_back(xs.back() + r.range(1, 9)); h.push_back(r.range(1, 12)); }
        for (int i = 0; i < n; i++) { if (r.chance(10)) continue;
            std::vector<P> rg{P{xs[i], 0}}; if (xs[i + 1] - xs[i] >= 2 && r.chance(30)) rg.push_back(P{xs[i] + (xs[i + 1] - xs[i]) / 2, 0});
            rg.push_back(P{xs[i + 1], 0});
            if (conform && i + 1 < n && h[i + 1] < h[i]) rg.push_back(P{xs[i + 1], h[i + 1]});
            rg.push_back(P{xs[i + 1], h[i]}); rg.push_back(P{xs[i], h[i]});
            if (conform && i > 0 && h[i - 1] < h[i]) rg.push_back(P{xs[i], h[i - 1]});
            Poly po; po.rings.push_back(closeRing(rg)); co.comps.push_back(po); }
    } else if (k < 72) {    // cells of a lattice grid, whole or cut along a diagonal, some with a plugged hole
        co.cls = "grid-cells"; int nx = r.range(1, 5), ny = r.range(1, 4); i64 cx = r.range(1, 6) * 4, cy = r.range(1, 6) * 4;
        for (int i = 0; i < nx; i++) for (int j = 0; j < ny; j++) { if (r.chance(15)) continue;
            P a{i * cx, j * cy}, b{(i + 1) * cx, j * cy}, c{(i + 1) * cx, (j + 1) * cy}, d{i * cx, (j + 1) * cy}; int m = (int) r.below(5);
            if (m == 0) { Poly p1, p2; p1.rings.push_back({a, b, c, a}); p2.rings.push_back({a, c, d, a}); co.comps.push_back(p1); co.comps.push_back(p2); }
            else if (m == 1) { Poly p1, p2; p1.rings.push_back({a, b, d, a}); p2.rings.push_back({b, c, d, b}); co.comps.push_back(p1); co.comps.push_back(p2); }
            else if (m == 2) { P o{a.x + cx / 4 * r.range(1, 3), a.y + cy / 4 * r.range(1, 3)};   // four triangles around an interior lattice point
                P q[5] = {a, b, c, d, a}; for (int e = 0; e < 4; e++) { Poly t; t.rings.push_back({o, q[e], q[e + 1], o}); co.comps.push_back(t); } }
            else if (m == 3) { P o{a.x + cx / 2, a.y + cy / 2}; std::vector<P> hole = {P{o.x - 1, o.y}, P{o.x, o.y - 1}, P{o.x + 1, o.y}, P{o.x, o.y + 1}, P{o.x - 1, o.y}};
                Poly cell; cell.rings = {{a, b, c, d, a}, hole}; co.comps.push_back(cell); if (r.chance(70)) { Poly plug; plug.rings = {hole}; co.comps.push_back(plug); } }
            else { Poly cell; cell.rings.push_back({a, b, c, d, a}); co.comps.push_back(cell); } }
    } else if (k < 88) {    // triangle strip between the lines y = 0 and y = H; triangles alone or merged in pairs
        co.cls = "strip"; i64 H = r.range(1, 6); std::vector<P> bot{P{r.range(-6, 6), 0}}, top{P{r.range(-6, 6), H}};
        int nb = r.range(1, 6), nt = r.range(1, 6); for (int i = 0; i < nb; i++) bot.push_back(P{bot.back().x + r.range(1, 9), 0}); for (int i = 0; i < nt; i++) top.push_back(P{top.back().x + r.range(1, 9), H});
        size_t i = 0, j = 0; std::vector<std::vector<P>> tris;
        while (i + 1 < bot.size() || j + 1 < top.size()) {
            bool adv = (j + 1 >= top.size()) ? true : (i + 1 >= bot.size()) ? false : r.chance(50);
            if (adv) { tris.push_back({bot[i], bot[i + 1], top[j]}); i++; } else { tris.push_back({top[j], bot[i], top[j + 1]}); j++; }
        }
        for (size_t t = 0; t < tris.size(); t++) {
            if (r.chance(8)) continue;
            Poly po;
            if (t + 1 < tris.size() && r.chance(25)) {   // merge with the next triangle (they share the diagonal): a quadrilateral
                std::vector<P> a = tris[t], b = tris[t + 1]; std::vector<P> sh, oa, ob;
                for (auto& p : a) { if (std::find(b.begin(), b.end(), p) != b.end()) sh.push_back(p); else oa.push_back(p); }
                for (auto& p : b) if (std::find(a.begin(), a.end(), p) == a.end()) ob.push_back(p);
                if (sh.size() == 2 && oa.size() == 1 && ob.size() == 1 && det3(oa[0], sh[0], ob[0]) != 0 && det3(oa[0], sh[1], ob[0]) != 0) { po.rings.push_back({oa[0], sh[0], ob[0], sh[1], oa[0]}); t++; co.cls = "strip-merged"; }
                else po.rings.push_back(closeRing(a));
            } else po.rings.push_back(closeRing(tris[t]));
            co.comps.push_back(po);
        }
    } else {                // independent polygons (every class of the single-polygon stream) placed next to each other
        co.cls = "scattered"; int n = r.range(2, 4); i64 at = 0;
        for (int c = 0; c < n; c++) { Poly po = genPoly(r, out, false);
            i64 mn = po.rings[0][0].x, mx = mn; for (auto& rg : po.rings) for (auto& p : rg) { mn = std::min(mn, p.x); mx = std::max(mx, p.x); }
            i64 dx = at - mn; for (auto& rg : po.rings) for (auto& p : rg) p.x += dx; at += (mx - mn) + r.range(0, 3); co.comps.push_back(po); }
    }
    if (co.comps.empty()) { Poly po; po.rings.push_back({P{0, 0}, P{3, 0}, P{0, 2}, P{0, 0}}); co.comps.push_back(po); }
    // random ring orientation / start vertex, random order of the components
    for (auto& po : co.comps) for (auto& rg : po.rings) { rg.pop_back(); if (r.chance(50)) std::reverse(rg.begin(), rg.end()); std::rotate(rg.begin(), rg.begin() + (long) r.below(rg.size()), rg.end()); rg.push_back(rg[0]); }
    for (size_t i = co.comps.size(); i > 1; i--) std::swap(co.comps[i - 1], co.comps[r.below(i)]);
    // invertible integer linear map
    if (r.chance(60)) { i64 a, b, c, d; do { a = r.range(-2, 2); b = r.range(-3, 3); c = r.range(-2, 2); d = r.range(-2, 2); } while (a * d - b * c == 0);
        for (auto& po : co.comps) for (auto& rg : po.rings) for (auto& p : rg) { i64 x = a * p.x + b * p.y, y = c * p.x + d * p.y; p.x = x; p.y = y; }
        out.count("linear_map"); }
    co.nest = r.chance(25);
    return co;
}

static std::string polyBody(const Poly& po, int k) { return polyToks(po, k).substr(2); }

// tokens of the collection; `asMulti`: MultiPolygon tag.  With `nest`, polygons are spread over nested collections together with
// members the triangulator must ignore (points, lines, an empty polygon)
static std::string collToks(Rng& r, const Coll& co, int k, bool asMulti) {
    std::vector<std::string> m; for (auto& po : co.comps) m.push_back(polyBody(po, k));
    if (asMulti) { std::string s = "0 MY " + std::to_string(m.size()); for (auto& b : m) s += " " + b; return s; }
    if (!co.nest) { std::string s = "0 GC " + std::to_string(m.size()); for (auto& b : m) s += " " + b; return s; }
    std::vector<std::string> top; size_t i = 0;
    const std::string pt = "P xy 1 " + hex(std::ldexp(1.0, k)) + " " + hex(std::ldexp(2.0, k)), ln = "L xy 2 " + hex(0.0) + " " + hex(0.0) + " " + hex(std::ldexp(3.0, k)) + " " + hex(std::ldexp(1.0, k));
    while (i < m.size()) {
        int w = (int) r.below(4);
        if (w == 0) { top.push_back(pt); top.push_back(m[i++]); }
        else if (w == 1) { size_t g = 1 + r.below(3); std::string s; size_t cnt = 0; for (; cnt < g && i < m.size(); cnt++) s += " " + m[i++]; top.push_back("GC " + std::to_string(cnt + 1) + " " + ln + s); }
        else if (w == 2) { top.push_back("Y 1 xy 0"); top.push_back(m[i++]); }
        else top.push_back(m[i++]);
    }
    std::string s = "0 GC " + std::to_string(top.size()); for (auto& b : top) s += " " + b; return s;
}

// ------------------------------------------------------------------ the decision functions themselves (stream `predicates`)
// isInCircleRobust isInCircleNormalized isInCircleNonRobust Vertex::isCCW rightOf leftOf isInCircle on the points a b c d = v[0..7]
static std::string evalPredicates(const double* v, int& rob) {
    using geos::triangulate::quadedge::TrianglePredicate; using geos::triangulate::quadedge::Vertex;
    using geos::triangulate::quadedge::QuadEdge; using geos::triangulate::quadedge::QuadEdgeQuartet; using geos::geom::CoordinateXY;
    CoordinateXY a(v[0], v[1]), b(v[2], v[3]), c(v[4], v[5]), d(v[6], v[7]);
    rob = (int) TrianglePredicate::isInCircleRobust(a, b, c, d);
    int nor = (int) TrianglePredicate::isInCircleNormalized(a, b, c, d);
    int non = (int) TrianglePredicate::isInCircleNonRobust(a, b, c, d);
    // (TrianglePredicate::triArea is private and has no caller; Vertex::isCCW evaluates the same determinant)
    Vertex va(v[0], v[1]), vb(v[2], v[3]), vc(v[4], v[5]), vd(v[6], v[7]);
    std::deque<QuadEdgeQuartet> qs; QuadEdge* e = QuadEdge::makeEdge(vb, vc, qs);
    int ccw = va.isCCW(vb, vc) ? 1 : 0, ro = va.rightOf(*e) ? 1 : 0, lo = va.leftOf(*e) ? 1 : 0, vin = vd.isInCircle(va, vb, vc) ? 1 : 0;
    return std::to_string(rob) + " " + std::to_string(nor) + " " + std::to_string(non) + " " + std::to_string(ccw) + " " + std::to_string(ro) + " " +
           std::to_string(lo) + " " + std::to_string(vin);
}

// ------------------------------------------------------------------ main
int main(int argc, char** argv) {
    if (argc < 3) { fprintf(stderr, "usage: c16 <stream> <seed> <n> <outbase> | c16 replay <file> | c16 sites <tolhex> x y ...\n"); return 2; }
    std::string stream = argv[1];
    H = GEOS_init_r(); GEOSContext_setNoticeHandler_r(H, notice); GEOSContext_setErrorHandler_r(H, errorh);
    if (stream == "replay") {
        std::ifstream f(argv[2]); std::string line;
        while (std::getline(f, line)) if (!line.empty()) std::cout << rerun(line) << "\n";
        GEOS_finish_r(H); return 0;
    }
    if (stream == "incircle") {   // c16 incircle ax ay bx by cx cy dx dy (hex doubles): the implementation's predicate, 0 interior / 1 undecided-or-on / 2 exterior
        using geos::triangulate::quadedge::TrianglePredicate; using geos::geom::CoordinateXY;
        if (argc < 10) return 2; double v[8]; for (int i = 0; i < 8; i++) v[i] = frombits(std::stoull(argv[2 + i], nullptr, 16));
        std::cout << (int) TrianglePredicate::isInCircleRobust(CoordinateXY(v[0], v[1]), CoordinateXY(v[2], v[3]), CoordinateXY(v[4], v[5]), CoordinateXY(v[6], v[7])) << "\n";
        GEOS_finish_r(H); return 0;
    }
    if (stream == "incirclef") {   // c16 incirclef <file>: one query (8 hex doubles) per line, one answer per line
        using geos::triangulate::quadedge::TrianglePredicate; using geos::geom::CoordinateXY;
        std::ifstream f(argv[2]); std::string line;
        while (std::getline(f, line)) { auto t = splitToks(line); if (t.size() < 8) { std::cout << "-1\n"; continue; }
            double v[8]; for (int i = 0; i < 8; i++) v[i] = frombits(std::stoull(t[i], nullptr, 16));
            std::cout << (int) TrianglePredicate::isInCircleRobust(CoordinateXY(v[0], v[1]), CoordinateXY(v[2], v[3]), CoordinateXY(v[4], v[5]), CoordinateXY(v[6], v[7])) << "\n"; }
        GEOS_finish_r(H); return 0;
    }
    if (stream == "predicates-eval") {   // c16 predicates-eval <file>: `PR <8 hex doubles>` per line -> the implementation's seven answers per line
        std::ifstream f(argv[2]); std::string line;
        while (std::getline(f, line)) { auto t = splitToks(line); if (t.size() < 9 || t[0] != "PR") { std::cout << "bad-line\n"; continue; }
            double v[8]; for (int i = 0; i < 8; i++) v[i] = frombits(std::stoull(t[1 + i], nullptr, 16));
            int rob; std::cout << evalPredicates(v, rob) << "\n"; }
        GEOS_finish_r(H); return 0;
    }
    if (stream == "sites") {
        double tol = frombits(std::stoull(argv[2], nullptr, 16)); std::vector<P> pts;
        for (int i = 3; i + 1 < argc; i += 2) pts.push_back(P{std::stoll(argv[i]), std::stoll(argv[i + 1])});
        std::cout << runDelaunay(tol, multiPointToks(pts, 0)) << "\n"; GEOS_finish_r(H); return 0;
    }
    if (argc < 5) { fprintf(stderr, "usage\n"); return 2; }
    uint64_t seed = std::stoull(argv[2]); long n = std::stol(argv[3]); Out out(argv[4]); Rng r(seed);
    static const double TOLS[] = {0.25, 0.5, 1.0, 1.5, 3.0, 10.0};
    if (stream == "predicates") {
        // The functions the translator tie regenerates (translate/specs/tri_predicates.py), called directly.  Ordinates are integers
        // of magnitude <= 1000 times 2^k: every product and sum of the determinants is exact in double (and long double), and the
        // error bound of isInCircleRobust stays below 1 unit of the (integer) determinant, so the answers must equal the exact model.
        for (long i = 0; i < n; i++) {
            P q[4]; int cls = (int) r.below(6);
            i64 M = r.chance(50) ? 12 : 1000;
            for (auto& p : q) p = P{(i64) r.below(2 * M + 1) - M, (i64) r.below(2 * M + 1) - M};
            if (cls == 1) {           // cocircular: four points of a lattice circle (x,y) -> (+-x,+-y),(+-y,+-x) about a centre
                i64 u = 1 + (i64) r.below(M / 3), v = (i64) r.below(M / 3), cx = (i64) r.below(M / 3), cy = (i64) r.below(M / 3);
                P c8[8] = {{u, v}, {-v, u}, {-u, -v}, {v, -u}, {v, u}, {-u, v}, {-v, -u}, {u, -v}};
                for (int j = 0; j < 4; j++) { P t = c8[(r.below(8) + 0) % 8]; q[j] = P{cx + t.x, cy + t.y}; }
            } else if (cls == 2) {    // fourth point one unit off the circle through a lattice right triangle
                q[0] = P{0, 0}; q[1] = P{(i64) (1 + r.below(M / 2)), 0}; q[2] = P{0, (i64) (1 + r.below(M / 2))};
                q[3] = P{q[1].x + (i64) r.below(3) - 1, q[2].y + (i64) r.below(3) - 1};
            } else if (cls == 3) {    // collinear triple
                i64 dx = (i64) r.below(M / 2 + 1) - M / 4, dy = (i64) r.below(M / 2 + 1) - M / 4;
                q[0] = P{q[0].x / 2, q[0].y / 2}; q[1] = P{q[0].x + dx, q[0].y + dy}; q[2] = P{q[0].x + 2 * dx, q[0].y + 2 * dy};
            } else if (cls == 4) {    // repeated point
                q[r.below(4)] = q[r.below(4)];
            }
            static const char* CN[] = {"random", "cocircular", "near-circle", "collinear", "repeated", "random"};
            out.count(std::string("class_") + CN[cls]);
            int k = r.chance(30) ? (int) r.below(41) - 20 : 0;
            double v[8]; for (int j = 0; j < 4; j++) { v[2 * j] = std::ldexp((double) q[j].x, k); v[2 * j + 1] = std::ldexp((double) q[j].y, k); }
            int rob = 1; std::string ans = evalPredicates(v, rob);
            out.count(std::string("robust_") + (rob == 0 ? "interior" : rob == 1 ? "boundary" : "exterior"));
            std::string cs = "PR"; for (double x : v) cs += " " + hex(x);
            out.emit(cs, ans);
        }
        GEOS_finish_r(H); return 0;
    }
    if (stream == "delaunay") {
        for (long i = 0; i < n; i++) {
            SiteCase sc = genSites(r, out, true);
            int k = placeOnGrid(r, sc.pts, out);
            if (r.chance(40)) for (size_t j = sc.pts.size(); j > 1; j--) std::swap(sc.pts[j - 1], sc.pts[r.below(j)]);
            double tol = 0.0; if (sc.cls != "near-cocircular" && r.chance(30)) { tol = std::ldexp(TOLS[r.below(6)], k); out.count("tolerance_positive"); } else out.count("tolerance_zero");
            out.count("class_" + sc.cls); sizeStat(out, "sites_", sc.pts.size());
            std::string c = runDelaunay(tol, multiPointToks(sc.pts, k));
            if (c.find(" ERR") != std::string::npos) out.count("impl_error");
            out.emit(c, "ok");
        }
    } else if (stream == "reuse") {
        for (long i = 0; i < n; i++) {
            SiteCase sc = genSites(r, out, true);
            int k = placeOnGrid(r, sc.pts, out);
            double tol = 0.0; if (sc.cls != "near-cocircular" && r.chance(30)) tol = std::ldexp(TOLS[r.below(6)], k);
            out.count("class_" + sc.cls);
            std::string v; std::string c = runReuse(tol, multiPointToks(sc.pts, k), v);
            out.count(v == "consistent" ? "reuse_consistent" : "reuse_inconsistent");
            out.emit(c, v);
        }
    } else if (stream == "cdt") {
        for (long i = 0; i < n; i++) {
            Poly po = genPoly(r, out);
            std::vector<P> all; for (auto& rg : po.rings) for (auto& p : rg) all.push_back(p);
            int k = placeOnGrid(r, all, out); size_t q = 0; for (auto& rg : po.rings) for (auto& p : rg) p = all[q++];
            std::string toks = polyToks(po, k);
            // safety net only (polygons are valid by construction): skip anything GEOS itself calls invalid
            { bool valid = false;
              try { auto in = buildGeom(toks, geos::geom::GeometryFactory::getDefaultInstance());
                    valid = GEOSisValid_r(H, reinterpret_cast<const GEOSGeometry*>(in.get())) == 1 && !in->isEmpty(); } catch (std::exception&) { valid = false; }
              if (!valid) { out.count("generated_invalid_skipped"); out.count("invalid_" + po.cls); i--; continue; } }
            out.count("class_" + po.cls); out.count(std::string("holes_") + (po.rings.size() == 1 ? "0" : po.rings.size() <= 3 ? "1-2" : "3+"));
            std::string c = runCdt(toks);
            if (c.find(" ERR") != std::string::npos) out.count("impl_error");
            out.emit(c, "ok");
        }
    } else if (stream == "cdtcoll") {
        for (long i = 0; i < n; i++) {
            Coll co = genColl(r, out);
            std::vector<P> all; for (auto& po : co.comps) for (auto& rg : po.rings) for (auto& p : rg) all.push_back(p);
            int k = placeOnGrid(r, all, out); size_t q = 0; for (auto& po : co.comps) for (auto& rg : po.rings) for (auto& p : rg) p = all[q++];
            // safety net only (valid and interior-disjoint by construction): every component valid and non-empty, no two interiors meet
            bool ok = true; std::vector<std::unique_ptr<geos::geom::Geometry>> gs;
            try { for (auto& po : co.comps) { gs.push_back(buildGeom(polyToks(po, k), geos::geom::GeometryFactory::getDefaultInstance()));
                      if (gs.back()->isEmpty() || GEOSisValid_r(H, reinterpret_cast<const GEOSGeometry*>(gs.back().get())) != 1) ok = false; }
                  for (size_t a = 0; ok && a < gs.size(); a++) for (size_t b = a + 1; ok && b < gs.size(); b++)
                      if (gs[a]->getEnvelopeInternal()->intersects(gs[b]->getEnvelopeInternal()) &&
                          GEOSRelatePattern_r(H, reinterpret_cast<const GEOSGeometry*>(gs[a].get()), reinterpret_cast<const GEOSGeometry*>(gs[b].get()), "2********") != 0) ok = false;
            } catch (std::exception&) { ok = false; }
            if (!ok) { out.count("generated_invalid_skipped"); out.count("invalid_" + co.cls); i--; continue; }
            bool asMulti = false;
            if (r.chance(40)) { std::string mt = collToks(r, co, k, true);
                try { auto in = buildGeom(mt, geos::geom::GeometryFactory::getDefaultInstance()); asMulti = GEOSisValid_r(H, reinterpret_cast<const GEOSGeometry*>(in.get())) == 1; } catch (std::exception&) {} }
            std::string toks = collToks(r, co, k, asMulti);
            out.count("class_" + co.cls); out.count(asMulti ? "container_multipolygon" : co.nest ? "container_nested_collection" : "container_collection");
            out.count(std::string("components_") + (co.comps.size() <= 2 ? "1-2" : co.comps.size() <= 6 ? "3-6" : "7+"));
            // how many pairs of components share a complete boundary edge (same two end points)
            { std::set<std::pair<P, P>> seen; long shared = 0;
              for (auto& po : co.comps) { std::set<std::pair<P, P>> mine; for (auto& rg : po.rings) for (size_t e = 0; e + 1 < rg.size(); e++) { P a = rg[e], b = rg[e + 1]; if (b < a) std::swap(a, b); mine.insert({a, b}); }
                  for (auto& e : mine) { if (seen.count(e)) shared++; else seen.insert(e); } }
              out.count(shared ? "has_shared_edges" : "no_shared_edges"); out.count("shared_edges", shared); }
            std::string c = runCdt(toks);
            if (c.find(" ERR") != std::string::npos) out.count("impl_error");
            out.emit(c, "ok");
        }
    } else if (stream == "voronoi") {
        for (long i = 0; i < n; i++) {
            SiteCase sc = genSites(r, out, false);
            if (sc.pts.size() > 60) sc.pts.resize(60);
            int k = placeOnGrid(r, sc.pts, out);
            int flags = r.chance(40) ? GEOS_VORONOI_PRESERVE_ORDER : 0;
            std::set<P> uniq(sc.pts.begin(), sc.pts.end());
            bool dup = uniq.size() != sc.pts.size();
            Box b{}; b.has = r.chance(50) || uniq.size() == 1;
            if (b.has) {
                i64 mnx = sc.pts[0].x, mxx = mnx, mny = sc.pts[0].y, mxy = mny; for (auto& p : sc.pts) { mnx = std::min(mnx, p.x); mxx = std::max(mxx, p.x); mny = std::min(mny, p.y); mxy = std::max(mxy, p.y); }
                i64 span = std::max<i64>(1, std::max(mxx - mnx, mxy - mny)); int m = (int) r.below(3);
                i64 a = m == 0 ? span * 4 : m == 1 ? 1 : -(span / 3);   // much larger, slightly larger, smaller than the site envelope
                if (uniq.size() == 1 && a <= 0) a = 1;
                b.minx = std::ldexp((double)(mnx - a), k); b.maxx = std::ldexp((double)(mxx + a), k); b.miny = std::ldexp((double)(mny - a), k); b.maxy = std::ldexp((double)(mxy + a), k);
                if (b.minx > b.maxx) std::swap(b.minx, b.maxx); if (b.miny > b.maxy) std::swap(b.miny, b.maxy);
                out.count(m == 0 ? "clip_env_large" : m == 1 ? "clip_env_tight" : "clip_env_inside");
            } else out.count("clip_env_none");
            out.count(flags ? "ordered" : "unordered"); if (dup) out.count("has_duplicates");
            out.count("class_" + sc.cls); sizeStat(out, "sites_", sc.pts.size());
            std::string c = runVoronoi(0.0, flags, b, multiPointToks(sc.pts, k));
            bool err = c.find(" ERR") != std::string::npos; if (err) out.count("impl_error");
            out.emit(c, (flags && dup) ? "ok-error" : "ok");
        }
    } else { fprintf(stderr, "unknown stream\n"); return 2; }
    GEOS_finish_r(H);
    return 0;
}
