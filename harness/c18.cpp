// C18 correspondence harness: simplifiers.
//   c18 dp       <seed> <n> <outbase>   GEOSSimplify_r; expect = flattened result geometry (vertex bits)
//   c18 tps      <seed> <n> <outbase>   GEOSTopologyPreserveSimplify_r; case carries input + output, expect = ok
//   c18 hull     <seed> <n> <outbase>   GEOSPolygonHullSimplify(Mode)_r;  case carries input + output, expect = ok
//   c18 coverage <seed> <n> <outbase>   GEOSCoverageSimplifyVW_r;         case carries input + output, expect = ok
//   c18 replay   <file>                 re-run the case lines of <file> on the implementation, print `case-with-fresh-output \t expect`
#include "common.h"
#include "gtree.h"
#include <geos_c.h>
#include <geos/algorithm/LineIntersector.h>
#include <geos/algorithm/Distance.h>
#include <geos/simplify/DouglasPeuckerLineSimplifier.h>
#include <geos/simplify/ComponentJumpChecker.h>
#include <geos/simplify/TaggedLineString.h>
#include <geos/index/VertexSequencePackedRtree.h>
#include <geos/geom/LineSegment.h>
#include <geos/geom/LineString.h>
#include <geos/geom/Envelope.h>
#include <cstdarg>
#include <climits>
#include <fstream>
#include <iostream>
#include <set>
#include <functional>

using namespace vh;
using geos::geom::Geometry;
using geos::geom::GeometryFactory;
using geos::geom::CoordinateSequence;

static void notice(const char*, ...) {}
static void errorh(const char*, ...) {}

struct V { double x, y; };
typedef std::vector<V> Seq;
struct Poly { std::vector<Seq> rings; };          // closed rings, shell first
struct Shape { std::vector<Seq> lines; std::vector<Poly> polys; };

// ------------------------------------------------------------------ tokens
static std::string seqTok(const Seq& s) {
    std::string t = "xy " + std::to_string(s.size());
    for (auto& v : s) t += " " + hex(v.x) + " " + hex(v.y);
    return t;
}
static std::string lineTok(const Seq& s) { return "L " + seqTok(s); }
static std::string ringTok(const Seq& s) { return "R " + seqTok(s); }
static std::string polyTok(const Poly& p) {
    std::string t = "Y " + std::to_string(p.rings.size());
    for (auto& r : p.rings) t += " " + seqTok(r);
    return t;
}

// flattened dump (leaves only, x y bits) -- the format the Lean driver prints for the dp stream
static void flatSeq(const CoordinateSequence* cs, std::string& o) {
    o += " " + std::to_string(cs->size());
    for (std::size_t i = 0; i < cs->size(); i++) { o += " " + hex(cs->getX(i)) + " " + hex(cs->getY(i)); }
}
static void flat(const Geometry* g, std::string& o) {
    using namespace geos::geom;
    if (g->isEmpty()) return;
    switch (g->getGeometryTypeId()) {
    case geos::geom::GEOS_POINT: { auto cs = static_cast<const Point*>(g)->getCoordinatesRO(); o += " P " + hex(cs->getX(0)) + " " + hex(cs->getY(0)); break; }
    case geos::geom::GEOS_LINESTRING: o += " L"; flatSeq(static_cast<const LineString*>(g)->getCoordinatesRO(), o); break;
    case geos::geom::GEOS_LINEARRING: o += " R"; flatSeq(static_cast<const LinearRing*>(g)->getCoordinatesRO(), o); break;
    case geos::geom::GEOS_POLYGON: {
        auto p = static_cast<const Polygon*>(g);
        o += " Y " + std::to_string(p->getNumInteriorRing() + 1);
        flatSeq(p->getExteriorRing()->getCoordinatesRO(), o);
        for (std::size_t i = 0; i < p->getNumInteriorRing(); i++) flatSeq(p->getInteriorRingN(i)->getCoordinatesRO(), o);
        break; }
    default:
        for (std::size_t i = 0; i < g->getNumGeometries(); i++) flat(g->getGeometryN(i), o);
    }
}
static std::string flatGeom(const Geometry* g) { std::string o; flat(g, o); if (o.empty()) return "EMPTY"; return o.substr(1); }

// ------------------------------------------------------------------ exactness helpers on the harness side (input filtering only)
static bool contactFree(const Shape& sh) {
    // all vertices distinct (closing vertex aside), segments meet only at the shared endpoint of consecutive segments
    struct S { V a, b; int comp, idx, n; bool closed; };
    std::vector<S> segs; std::set<std::pair<double, double>> seen; int comp = 0;
    auto addSeq = [&](const Seq& s) -> bool {
        bool closed = s.size() > 1 && s.front().x == s.back().x && s.front().y == s.back().y;
        if (closed && s.size() < 4) return false;
        size_t nv = closed ? s.size() - 1 : s.size();
        for (size_t i = 0; i < nv; i++) if (!seen.insert({s[i].x + 0.0, s[i].y + 0.0}).second) return false;
        int n = (int) s.size() - 1;
        for (int i = 0; i < n; i++) segs.push_back({s[i], s[i + 1], comp, i, n, closed});
        comp++; return true;
    };
    for (auto& l : sh.lines) if (l.size() < 2 || !addSeq(l)) return false;
    for (auto& p : sh.polys) for (auto& r : p.rings) if (r.size() < 4 || !addSeq(r)) return false;
    geos::algorithm::LineIntersector li;
    for (size_t i = 0; i < segs.size(); i++) for (size_t j = i + 1; j < segs.size(); j++) {
        const S& s = segs[i]; const S& t = segs[j];
        if (std::max(s.a.x, s.b.x) < std::min(t.a.x, t.b.x) || std::max(t.a.x, t.b.x) < std::min(s.a.x, s.b.x)) continue;
        if (std::max(s.a.y, s.b.y) < std::min(t.a.y, t.b.y) || std::max(t.a.y, t.b.y) < std::min(s.a.y, s.b.y)) continue;
        geos::geom::Coordinate p1(s.a.x, s.a.y), p2(s.b.x, s.b.y), q1(t.a.x, t.a.y), q2(t.b.x, t.b.y);
        li.computeIntersection(p1, p2, q1, q2);
        if (!li.hasIntersection()) continue;
        bool adjacent = s.comp == t.comp && (t.idx == s.idx + 1 || (s.closed && s.idx == 0 && t.idx == s.n - 1));
        if (!adjacent) return false;
        if (li.getIntersectionNum() != 1) return false;
    }
    return true;
}

// ------------------------------------------------------------------ shape generators (model space, integer coordinates)
typedef std::vector<std::pair<long, long>> ISeq;

static long gcdl(long a, long b) { a = std::labs(a); b = std::labs(b); while (b) { long t = a % b; a = b; b = t; } return a; }

// star-shaped closed ring around (0,0): distinct directions, sorted by angle, largest angular gap < pi; CCW
static bool starRing(Rng& r, int n, long R, ISeq& out) {
    std::set<std::pair<long, long>> dirs; std::vector<std::pair<double, std::pair<long, long>>> pts;
    for (int tries = 0; tries < 8 * n && (int) pts.size() < n; tries++) {
        long x = r.range((int) -R, (int) R), y = r.range((int) -R, (int) R);
        if (x == 0 && y == 0) continue;
        if (x * x + y * y < (R * R) / 16) continue;
        long g = gcdl(x, y);
        if (!dirs.insert({x / g, y / g}).second) continue;
        pts.push_back({std::atan2((double) y, (double) x), {x, y}});
    }
    if (pts.size() < 3) return false;
    std::sort(pts.begin(), pts.end());
    for (size_t i = 0; i < pts.size(); i++) {
        double a = pts[i].first, b = pts[(i + 1) % pts.size()].first;
        double gap = b - a; if (gap <= 0) gap += 2 * M_PI;
        if (gap >= M_PI - 1e-6) return false;
    }
    out.clear();
    for (auto& p : pts) out.push_back(p.second);
    out.push_back(out.front());
    return true;
}

// x-monotone staircase-ish polygon: lower chain left->right, upper chain right->left
static void monotoneRing(Rng& r, int n, long R, ISeq& out) {
    out.clear();
    int k = std::max(2, n / 2); long x = -R;
    std::vector<long> xs;
    for (int i = 0; i < k; i++) { xs.push_back(x); x += r.range(1, std::max(1, (int) (2 * R / k))); }
    for (int i = 0; i < k; i++) out.push_back({xs[i], -r.range(1, (int) R)});
    for (int i = k - 1; i >= 0; i--) out.push_back({xs[i] + (i == k - 1 ? 0 : 0), r.range(1, (int) R)});
    out.push_back(out.front());
}

static void translate(ISeq& s, long dx, long dy) { for (auto& p : s) { p.first += dx; p.second += dy; } }

// open polyline; kinds: monotone zigzag, plateau (ties), near-collinear, random walk, arbitrary
static void lineSeq(Rng& r, int n, long R, int kind, ISeq& out) {
    out.clear();
    long x = -R, y = 0;
    for (int i = 0; i < n; i++) {
        switch (kind) {
        case 0: x += r.range(1, 4); y = r.range((int) -R, (int) R); break;                       // zigzag
        case 1: x += 2; y = (i % 2) ? (r.chance(70) ? 5 : r.range(1, 6)) : 0; break;               // equal heights: ties
        case 2: x += r.range(1, 5); y = r.chance(80) ? 0 : r.range(-1, 1); break;                  // near collinear
        case 3: x += r.range(-3, 6); y += r.range(-5, 5); break;                                   // walk (may self-cross)
        default: x = r.range((int) -R, (int) R); y = r.range((int) -R, (int) R); break;            // arbitrary (repeats, spikes possible)
        }
        out.push_back({x, y});
    }
}

// ------------------------------------------------------------------ coordinate realisation
struct Xf { bool grid; double s, c, sn, tx, ty; };
static Xf pickXf(Rng& r, Out& out, bool allowFull = true) {
    Xf t; t.grid = !allowFull || r.chance(50);
    if (t.grid) { static const double sc[] = {1, 1, 1, 0.5, 8, 1000}; t.s = sc[r.below(6)]; t.c = 1; t.sn = 0; t.tx = (double) r.range(-50, 50) * t.s; t.ty = (double) r.range(-50, 50) * t.s; out.count("coords_grid"); }
    else { double th = r.unit() * 2 * M_PI; t.s = std::pow(10.0, (double) r.range(-3, 6)) * (0.5 + r.unit()); t.c = std::cos(th); t.sn = std::sin(th);
           double mag = std::pow(10.0, (double) r.range(-3, 9)); t.tx = (r.unit() - 0.5) * mag; t.ty = (r.unit() - 0.5) * mag; out.count("coords_full_precision"); }
    return t;
}
static V apply(const Xf& t, long x, long y) {
    if (t.grid) return V{(double) x * t.s + t.tx, (double) y * t.s + t.ty};
    return V{t.s * (t.c * (double) x - t.sn * (double) y) + t.tx, t.s * (t.sn * (double) x + t.c * (double) y) + t.ty};
}
static Seq realise(const Xf& t, const ISeq& s) {
    Seq o; for (auto& p : s) o.push_back(apply(t, p.first, p.second));
    if (s.size() > 1 && s.front() == s.back()) o.back() = o.front();
    return o;
}
static double extent(const Shape& sh) {
    double lo = INFINITY, hi = -INFINITY, lo2 = INFINITY, hi2 = -INFINITY;
    auto f = [&](const Seq& s) { for (auto& v : s) { lo = std::min(lo, v.x); hi = std::max(hi, v.x); lo2 = std::min(lo2, v.y); hi2 = std::max(hi2, v.y); } };
    for (auto& l : sh.lines) f(l); for (auto& p : sh.polys) for (auto& q : p.rings) f(q);
    if (!(hi >= lo)) return 1; return std::max(std::max(hi - lo, hi2 - lo2), 1e-300);
}

// a polygon (star or monotone shell, 0..2 star holes near the centre) in model space, centred at (cx,cy)
static bool genPolyI(Rng& r, long R, long cx, long cy, std::vector<ISeq>& rings, Out& out, bool holesOK) {
    rings.clear(); ISeq shell;
    bool star = r.chance(75);
    int n = r.chance(20) ? r.range(3, 5) : r.range(5, 22);
    if (star) { if (!starRing(r, n, R, shell)) return false; } else monotoneRing(r, n, R, shell);
    out.count(star ? "poly_star" : "poly_monotone");
    rings.push_back(shell);
    int nh = (holesOK && star && R >= 24) ? (r.chance(50) ? 0 : r.range(1, 2)) : 0;
    // the disc of radius R/4 around the centre is inside a star whose vertices have radius >= R/4 and gaps < pi? not in general:
    // holes are validated by the caller (contactFree + containment), here we only place candidates
    for (int h = 0; h < nh; h++) {
        ISeq hole; long hr = std::max<long>(3, R / 10);
        if (!starRing(r, r.range(3, 8), hr, hole)) continue;
        long ox = nh == 1 ? 0 : (h == 0 ? -hr - 1 : hr + 1);
        translate(hole, ox, 0);
        std::reverse(hole.begin(), hole.end());
        rings.push_back(hole);
    }
    out.count("poly_holes_" + std::to_string(rings.size() - 1));
    for (auto& q : rings) translate(q, cx, cy);
    return true;
}

static bool pointInRingI(const ISeq& ring, long px, long py) {   // strict interior, integer crossing test
    bool in = false;
    for (size_t i = 0; i + 1 < ring.size(); i++) {
        long ax = ring[i].first, ay = ring[i].second, bx = ring[i + 1].first, by = ring[i + 1].second;
        if ((ay <= py && py < by) || (by <= py && py < ay)) {
            long det = (bx - ax) * (py - ay) - (by - ay) * (px - ax);
            if (det == 0) return false;
            if ((by > ay) == (det > 0)) in = !in;
        }
    }
    return in;
}

// ------------------------------------------------------------------ geometry assembly
struct Built { std::string tok; Shape shape; bool hasPoly = false; };

static std::string wrapMulti(const char* tag, const std::vector<std::string>& parts) {
    std::string t = std::string(tag) + " " + std::to_string(parts.size());
    for (auto& p : parts) t += " " + p; return t;
}

// valid (contact-free) input geometry for tps / hull; kind: 0 line(s), 1 polygon(s), 2 mixed collection
static bool genValid(Rng& r, Out& out, int kind, Built& b, bool polysOnly) {
    for (int attempt = 0; attempt < 40; attempt++) {
        b = Built(); Xf t = pickXf(r, out);
        int k = r.chance(55) ? 1 : r.range(2, 3);
        std::vector<std::string> parts; long R = r.chance(50) ? 30 : 60; bool ok = true; bool anyPoly = false, anyLine = false;
        for (int i = 0; i < k && ok; i++) {
            long cx = (long) i * (3 * R + 7), cy = (long) (i % 2) * 5;
            bool poly = polysOnly || kind == 1 || (kind == 2 && r.chance(50));
            if (poly) {
                std::vector<ISeq> rings; if (!genPolyI(r, R, cx, cy, rings, out, true)) { ok = false; break; }
                for (size_t h = 1; h < rings.size(); h++) for (auto& p : rings[h]) if (!pointInRingI(rings[0], p.first, p.second)) ok = false;
                Poly p; for (auto& q : rings) p.rings.push_back(realise(t, q));
                b.shape.polys.push_back(p); parts.push_back(polyTok(p)); anyPoly = true;
            } else {
                ISeq s; int lk = (int) r.below(4); int n = r.chance(15) ? r.range(2, 3) : r.range(4, 30);
                bool closedLine = r.chance(15);
                if (closedLine) { if (!starRing(r, std::max(3, n / 2), R, s)) { ok = false; break; } out.count("line_closed"); }
                else { lineSeq(r, n, R, lk, s); out.count("line_kind_" + std::to_string(lk)); }
                translate(s, cx, cy);
                Seq q = realise(t, s); b.shape.lines.push_back(q); parts.push_back(lineTok(q)); anyLine = true;
            }
        }
        if (!ok || !contactFree(b.shape)) { out.count("gen_rejected"); continue; }
        b.hasPoly = anyPoly;
        if (k == 1 && r.chance(80)) b.tok = parts[0];
        else if (anyPoly && !anyLine) b.tok = (polysOnly || r.chance(80)) ? wrapMulti("MY", parts) : wrapMulti("GC", parts);
        else if (anyLine && !anyPoly) b.tok = r.chance(80) ? wrapMulti("ML", parts) : wrapMulti("GC", parts);
        else b.tok = wrapMulti("GC", parts);
        out.count(std::string("geom_") + b.tok.substr(0, b.tok.find(' ')));
        return true;
    }
    return false;
}

// arbitrary input for dp (validity not required)
static void genDP(Rng& r, Out& out, Built& b) {
    b = Built(); Xf t = pickXf(r, out);
    int form = (int) r.below(100);
    auto mkLine = [&](Seq& q) { ISeq s; int lk = (int) r.below(5); int n = r.chance(15) ? r.range(2, 3) : r.range(4, 40); lineSeq(r, n, 40, lk, s);
                                 if (r.chance(10) && s.size() > 3) s.push_back(s.front());
                                 out.count("line_kind_" + std::to_string(lk)); q = realise(t, s); };
    auto mkPoly = [&](Poly& p, long cx) -> bool { std::vector<ISeq> rings; long R = r.chance(50) ? 30 : 60;
                                 if (!genPolyI(r, R, cx, 0, rings, out, true)) return false; p.rings.clear(); for (auto& q : rings) p.rings.push_back(realise(t, q)); return true; };
    if (form < 35) { Seq q; mkLine(q); b.shape.lines.push_back(q); b.tok = lineTok(q); out.count("geom_L"); }
    else if (form < 45) { ISeq s; Seq q; if (starRing(r, r.range(3, 20), 40, s)) { q = realise(t, s); b.shape.lines.push_back(q); b.tok = ringTok(q); out.count("geom_R"); } else { mkLine(q); b.shape.lines.push_back(q); b.tok = lineTok(q); out.count("geom_L"); } }
    else if (form < 70) { Poly p; if (!mkPoly(p, 0)) { Seq q; mkLine(q); b.shape.lines.push_back(q); b.tok = lineTok(q); out.count("geom_L"); return; }
                          b.shape.polys.push_back(p); b.tok = polyTok(p); b.hasPoly = true; out.count("geom_Y"); }
    else if (form < 80) { std::vector<std::string> parts; int k = r.range(1, 3); for (int i = 0; i < k; i++) { Seq q; mkLine(q); b.shape.lines.push_back(q); parts.push_back(lineTok(q)); } b.tok = wrapMulti("ML", parts); out.count("geom_ML"); }
    else if (form < 92) { std::vector<std::string> parts; int k = r.range(1, 3); for (int i = 0; i < k; i++) { Poly p; if (mkPoly(p, (long) i * (r.chance(85) ? 200 : 40))) { b.shape.polys.push_back(p); parts.push_back(polyTok(p)); } }
                          b.tok = wrapMulti("MY", parts); b.hasPoly = true; out.count("geom_MY"); }
    else { std::vector<std::string> parts; int k = r.range(1, 3); for (int i = 0; i < k; i++) {
               if (r.chance(12)) { V v = apply(t, r.range(-40, 40), r.range(-40, 40)); parts.push_back("P xy 1 " + hex(v.x) + " " + hex(v.y)); out.count("gc_point"); continue; }
               if (r.chance(8)) { parts.push_back(r.chance(50) ? "L xy 0" : "Y 1 xy 0"); out.count("gc_empty_component"); continue; }
               if (r.chance(50)) { Seq q; mkLine(q); b.shape.lines.push_back(q); parts.push_back(lineTok(q)); } else { Poly p; if (mkPoly(p, (long) i * 200)) { b.shape.polys.push_back(p); parts.push_back(polyTok(p)); b.hasPoly = true; } } }
           b.tok = wrapMulti("GC", parts); out.count("geom_GC"); }
}

static double pickTol(Rng& r, Out& out, const Shape& sh, bool allowBad) {
    double ext = extent(sh);
    int k = (int) r.below(100);
    if (k < 10) { out.count("tol_zero"); return 0.0; }
    if (k < 20) { out.count("tol_tiny"); return ext * 1e-13 * (1 + r.unit()); }
    if (k < 30) { // exactly a distance the code will compute: vertex to the chord of its component (ties at the <= boundary)
        const Seq* s = nullptr; if (!sh.lines.empty()) s = &sh.lines[r.below(sh.lines.size())]; else if (!sh.polys.empty()) s = &sh.polys[0].rings[0];
        if (s && s->size() > 2) { size_t i = 1 + r.below(s->size() - 2);
            geos::geom::Coordinate p((*s)[i].x, (*s)[i].y), a(s->front().x, s->front().y), c((*s)[s->size() - 1].x, (*s)[s->size() - 1].y);
            if (a.x == c.x && a.y == c.y && s->size() > 3) { c = geos::geom::Coordinate((*s)[s->size() - 2].x, (*s)[s->size() - 2].y); }
            out.count("tol_exact_distance"); return geos::algorithm::Distance::pointToSegment(p, a, c); } }
    if (k < 75) { out.count("tol_mid"); return ext * std::pow(10.0, -3.0 * r.unit()); }
    if (k < 92) { out.count("tol_large"); return ext * (0.3 + r.unit()); }
    if (k < 97 || !allowBad) { out.count("tol_gt_extent"); return ext * (1.5 + 10 * r.unit()); }
    if (k < 99) { out.count("tol_negative"); return -ext * r.unit() - 1e-9; }
    out.count("tol_nan"); return std::numeric_limits<double>::quiet_NaN();
}

// ------------------------------------------------------------------ running the implementation
static const GeometryFactory* GF() { return GeometryFactory::getDefaultInstance(); }

static std::string runDP(GEOSContextHandle_t h, const std::string& geomTok, double tol, Out* out) {
    std::unique_ptr<Geometry> g = buildGeom("0 " + geomTok, GF());
    GEOSGeometry* res = GEOSSimplify_r(h, reinterpret_cast<const GEOSGeometry*>(g.get()), tol);
    if (!res) return "ERR";
    const Geometry* rg = reinterpret_cast<const Geometry*>(res);
    std::string f = flatGeom(rg);
    if (out) { size_t ni = g->getNumPoints(), no = rg->getNumPoints();
        out->count(no == ni ? "out_unchanged" : no == 0 ? "out_empty" : "out_reduced"); }
    GEOSGeom_destroy_r(h, res);
    return f;
}

// the rough DP result of the polygons, built from the public line simplifier (distribution statistics only)
static bool roughEqualsResult(const std::string& geomTok, double tol, const std::string& flatOut) {
    std::unique_ptr<Geometry> g = buildGeom("0 " + geomTok, GF());
    std::string o;
    std::function<void(const Geometry*)> rec = [&](const Geometry* x) {
        using namespace geos::geom;
        if (x->isEmpty()) return;
        if (x->getGeometryTypeId() == geos::geom::GEOS_POLYGON) {
            auto p = static_cast<const Polygon*>(x); std::vector<std::unique_ptr<CoordinateSequence>> rs;
            auto sh = geos::simplify::DouglasPeuckerLineSimplifier::simplify(*p->getExteriorRing()->getCoordinatesRO(), tol, false);
            if (sh->size() < 4) return;
            rs.push_back(std::move(sh));
            for (std::size_t i = 0; i < p->getNumInteriorRing(); i++) { auto q = geos::simplify::DouglasPeuckerLineSimplifier::simplify(*p->getInteriorRingN(i)->getCoordinatesRO(), tol, false); if (q->size() >= 4) rs.push_back(std::move(q)); }
            o += " Y " + std::to_string(rs.size()); for (auto& q : rs) flatSeq(q.get(), o);
        } else if (x->getGeometryTypeId() == geos::geom::GEOS_LINESTRING) {
            auto q = geos::simplify::DouglasPeuckerLineSimplifier::simplify(*static_cast<const LineString*>(x)->getCoordinatesRO(), tol, true); o += " L"; flatSeq(q.get(), o);
        } else if (x->getGeometryTypeId() == geos::geom::GEOS_LINEARRING) { o += " ?"; }
        else if (x->getGeometryTypeId() == geos::geom::GEOS_POINT) { auto cs = static_cast<const Point*>(x)->getCoordinatesRO(); o += " P " + hex(cs->getX(0)) + " " + hex(cs->getY(0)); }
        else if (x->isCollection()) for (std::size_t i = 0; i < x->getNumGeometries(); i++) rec(x->getGeometryN(i));
    };
    rec(g.get());
    std::string f = o.empty() ? "EMPTY" : o.substr(1);
    return f == flatOut;
}

static std::string runContract(GEOSContextHandle_t h, const std::vector<std::string>& tk, std::string* caseOut) {
    // tk: T tol IN... | ...   /  H outer mode param IN | ...  /  C pb tol IN | ...   -> recompute the output part
    size_t p = 1; std::string head = tk[0];
    double tol = 0, param = 0; int outer = 0, pb = 0; char mode = 'v';
    if (head == "T") { tol = frombits(std::stoull(tk[p++], nullptr, 16)); head += " " + tk[1]; }
    else if (head == "H") { outer = std::stoi(tk[p++]); mode = tk[p++][0]; param = frombits(std::stoull(tk[p++], nullptr, 16)); head += " " + tk[1] + " " + tk[2] + " " + tk[3]; }
    else { pb = std::stoi(tk[p++]); tol = frombits(std::stoull(tk[p++], nullptr, 16)); head += " " + tk[1] + " " + tk[2]; }
    std::string in; for (; p < tk.size() && tk[p] != "|"; p++) { if (!in.empty()) in += " "; in += tk[p]; }
    std::unique_ptr<Geometry> g = buildGeom(in, GF());
    const GEOSGeometry* cg = reinterpret_cast<const GEOSGeometry*>(g.get());
    GEOSGeometry* res = nullptr;
    if (tk[0] == "T") res = GEOSTopologyPreserveSimplify_r(h, cg, tol);
    else if (tk[0] == "H") res = (mode == 'v') ? GEOSPolygonHullSimplify_r(h, cg, (unsigned) outer, param)
                                              : GEOSPolygonHullSimplifyMode_r(h, cg, (unsigned) outer, GEOSHULL_PARAM_AREA_RATIO, param);
    else res = GEOSCoverageSimplifyVW_r(h, cg, tol, pb);
    std::string o = res ? dumpGeom(reinterpret_cast<const Geometry*>(res)) : "ERR";
    if (res) GEOSGeom_destroy_r(h, res);
    *caseOut = head + " " + in + " | " + o;
    return "ok";
}

static bool twoOptRing(Rng& r, int n, long R, ISeq& out);
static int bigRingSize(Rng& r, Out& out, int hi);
// ------------------------------------------------------------------ coverage generator
// lattice W x H of square cells of side S; some cells split by a diagonal; cells merged into regions; every lattice edge is a
// fixed jittered polyline shared by both neighbours; regions are unioned with GEOSCoverageUnion; the Lean driver re-checks
// exactly that the result is an edge-matched coverage (covInputOK) before judging the output.
struct CovGen {
    Rng& r; Out& out; long S; int W, H;
    std::map<std::pair<std::pair<long, long>, std::pair<long, long>>, ISeq> edgePts;   // key: ordered endpoints, value: interior points from first to second
    CovGen(Rng& rr, Out& o) : r(rr), out(o) {}
    ISeq edge(std::pair<long, long> a, std::pair<long, long> b) {       // full polyline a..b inclusive
        bool fwd = a < b; auto k = fwd ? std::make_pair(a, b) : std::make_pair(b, a);
        auto it = edgePts.find(k);
        if (it == edgePts.end()) {
            ISeq mid; long dx = k.second.first - k.first.first, dy = k.second.second - k.first.second;   // each in {-S,0,S}
            long ux = dx / S, uy = dy / S;                                                                 // unit step per S (components -1,0,1)
            long nx = -uy, ny = ux;                                                                        // a normal direction (not normalised for diagonals: fine)
            int cnt = (int) r.below(4);
            std::vector<long> pos;
            for (long q = S / 4; q <= 3 * S / 4; q += S / 8) if ((int) pos.size() < cnt && r.chance(45)) pos.push_back(q);
            for (long q : pos) { long off = r.range(-(int) (S / 16), (int) (S / 16)); if (ux != 0 && uy != 0) off = off / 2;
                mid.push_back({k.first.first + ux * q + nx * off, k.first.second + uy * q + ny * off}); }
            it = edgePts.insert({k, mid}).first;
        }
        ISeq res; res.push_back(a);
        if (fwd) for (auto& p : it->second) res.push_back(p); else for (auto i = it->second.rbegin(); i != it->second.rend(); ++i) res.push_back(*i);
        res.push_back(b); return res;
    }
    ISeq cellRing(const std::vector<std::pair<long, long>>& corners) {
        ISeq ring; for (size_t i = 0; i < corners.size(); i++) { ISeq e = edge(corners[i], corners[(i + 1) % corners.size()]); for (size_t j = 0; j + 1 < e.size(); j++) ring.push_back(e[j]); }
        ring.push_back(ring.front()); return ring;
    }
};

static bool genCoverage(GEOSContextHandle_t h, Rng& r, Out& out, std::string& tok, Shape& shape) {
    CovGen cg(r, out); cg.S = 32; cg.W = r.range(2, 5); cg.H = r.range(2, 4);
    Xf t = pickXf(r, out);
    // cells (triangles when split), union-find over cells
    struct Cell { ISeq ring; int gx, gy, part; };   // part: 0 whole, 1/2 the two triangles
    std::vector<Cell> cells; std::vector<std::vector<std::vector<int>>> at(cg.W, std::vector<std::vector<int>>(cg.H));
    std::vector<std::vector<int>> diag(cg.W, std::vector<int>(cg.H, 0));
    for (int x = 0; x < cg.W; x++) for (int y = 0; y < cg.H; y++) {
        std::pair<long, long> a{x * cg.S, y * cg.S}, b{(x + 1) * cg.S, y * cg.S}, c{(x + 1) * cg.S, (y + 1) * cg.S}, d{x * cg.S, (y + 1) * cg.S};
        int dg = r.chance(25) ? (r.chance(50) ? 1 : 2) : 0; diag[x][y] = dg;
        if (dg == 0) { at[x][y].push_back((int) cells.size()); cells.push_back({cg.cellRing({a, b, c, d}), x, y, 0}); }
        else if (dg == 1) { at[x][y].push_back((int) cells.size()); cells.push_back({cg.cellRing({a, b, c}), x, y, 1});      // diagonal a-c: lower-right, upper-left
                            at[x][y].push_back((int) cells.size()); cells.push_back({cg.cellRing({a, c, d}), x, y, 2}); }
        else { at[x][y].push_back((int) cells.size()); cells.push_back({cg.cellRing({a, b, d}), x, y, 1});                    // diagonal b-d: lower-left, upper-right
               at[x][y].push_back((int) cells.size()); cells.push_back({cg.cellRing({b, c, d}), x, y, 2}); }
    }
    std::vector<int> uf(cells.size()); for (size_t i = 0; i < uf.size(); i++) uf[i] = (int) i;
    std::function<int(int)> find = [&](int i) { return uf[i] == i ? i : uf[i] = find(uf[i]); };
    // which cell of (x,y) touches side: 0 bottom, 1 right, 2 top, 3 left
    auto sideCell = [&](int x, int y, int side) -> int {
        int dg = diag[x][y]; if (dg == 0) return at[x][y][0];
        if (dg == 1) return (side == 0 || side == 1) ? at[x][y][0] : at[x][y][1];
        return (side == 0 || side == 3) ? at[x][y][0] : at[x][y][1];
    };
    int mergePct = r.range(10, 60);
    int ix = -1, iy = -1;                                   // forced island: the 8 cells around (ix,iy) become one region
    if (cg.W >= 3 && cg.H >= 3 && r.chance(35)) { ix = r.range(1, cg.W - 2); iy = r.range(1, cg.H - 2); out.count("cov_forced_island"); }
    auto isIsl = [&](int x, int y) { return x == ix && y == iy; };
    for (int x = 0; x < cg.W; x++) for (int y = 0; y < cg.H; y++) {
        if (x + 1 < cg.W && !isIsl(x, y) && !isIsl(x + 1, y) && r.chance(mergePct)) uf[find(sideCell(x, y, 1))] = find(sideCell(x + 1, y, 3));
        if (y + 1 < cg.H && !isIsl(x, y) && !isIsl(x, y + 1) && r.chance(mergePct)) uf[find(sideCell(x, y, 2))] = find(sideCell(x, y + 1, 0));
        if (diag[x][y] && r.chance(15)) uf[find(at[x][y][0])] = find(at[x][y][1]);
    }
    if (ix >= 0) {
        static const int ring8[8][2] = {{-1,-1},{0,-1},{1,-1},{1,0},{1,1},{0,1},{-1,1},{-1,0}};
        int first = -1;
        for (auto& d : ring8) { int x = ix + d[0], y = iy + d[1]; for (int c : at[x][y]) { if (first < 0) first = c; uf[find(c)] = find(first); } }
    }
    std::map<int, std::vector<int>> regions; for (size_t i = 0; i < cells.size(); i++) regions[find((int) i)].push_back((int) i);
    int gapPct = r.chance(50) ? 0 : 15;
    std::vector<std::string> parts; shape = Shape(); int nIsl = 0;
    for (auto& kv : regions) {
        if (r.chance(gapPct)) { out.count("cov_gap_region"); continue; }
        std::vector<GEOSGeometry*> gs;
        for (int ci : kv.second) { Poly p; p.rings.push_back(realise(t, cells[ci].ring));
            std::unique_ptr<Geometry> g = buildGeom("0 " + polyTok(p), GF()); gs.push_back(reinterpret_cast<GEOSGeometry*>(g.release())); }
        GEOSGeometry* coll = GEOSGeom_createCollection_r(h, ::GEOS_GEOMETRYCOLLECTION, gs.data(), (unsigned) gs.size());
        GEOSGeometry* u = gs.size() == 1 ? GEOSGeom_clone_r(h, gs[0]) : GEOSCoverageUnion_r(h, coll);
        GEOSGeom_destroy_r(h, coll);
        if (!u) return false;
        const Geometry* ug = reinterpret_cast<const Geometry*>(u);
        for (std::size_t i = 0; i < ug->getNumGeometries(); i++) {
            auto p = dynamic_cast<const geos::geom::Polygon*>(ug->getGeometryN(i)); if (!p || p->isEmpty()) { GEOSGeom_destroy_r(h, u); return false; }
            Poly q; auto add = [&](const geos::geom::LinearRing* lr) { Seq s; auto cs = lr->getCoordinatesRO(); for (std::size_t j = 0; j < cs->size(); j++) s.push_back(V{cs->getX(j), cs->getY(j)}); q.rings.push_back(s); };
            add(p->getExteriorRing()); for (std::size_t j = 0; j < p->getNumInteriorRing(); j++) add(p->getInteriorRingN(j));
            for (auto& rg : q.rings) { std::set<std::pair<double, double>> sv; for (size_t j = 0; j + 1 < rg.size(); j++) if (!sv.insert({rg[j].x, rg[j].y}).second) { GEOSGeom_destroy_r(h, u); out.count("cov_rejected_self_touch"); return false; } }
            if (q.rings.size() > 1) nIsl++;
            shape.polys.push_back(q); parts.push_back(polyTok(q));
        }
        GEOSGeom_destroy_r(h, u);
    }
    // a fixed share of coverages also contains isolated polygons (members that touch nothing: their boundary is one free ring), arbitrary
    // simple polygons with ring sizes around the multiples of 16 as well as small ones
    if (r.chance(30)) {
        int k = r.range(1, 2);
        for (int i = 0; i < k; i++) {
            ISeq ring; long R = 40; int n = r.chance(60) ? bigRingSize(r, out, 48) : r.range(4, 14);
            if (!(r.chance(70) ? twoOptRing(r, n, R, ring) : starRing(r, n, R, ring))) continue;
            translate(ring, (long) cg.W * cg.S + 60 + (long) i * 100, r.range(-20, 60));
            Poly q; q.rings.push_back(realise(t, ring)); Shape one; one.polys.push_back(q);
            if (!contactFree(one)) continue;
            shape.polys.push_back(q); parts.push_back(polyTok(q)); out.count("cov_isolated_polygon");
        }
    }
    if (parts.empty()) return false;
    out.count("cov_polys", (long) parts.size()); out.count(nIsl ? "cov_with_holes" : "cov_no_holes");
    out.count("cov_cells_" + std::to_string(cg.W) + "x" + std::to_string(cg.H));
    tok = wrapMulti("GC", parts);
    return true;
}


// ------------------------------------------------------------------ S8 additions: generic families the quick run must always contain
// (1) arbitrary simple polygons (random points polygonised by 2-opt untangling: pockets, fingers, hooks -- not star-shaped, not monotone),
//     ring sizes drawn around the multiples of the vertex-index node capacity (16k-1 .. 16k+2) as well as uniformly;
// (2) "archipelago" inputs: a large polygon with several tiny rings scattered over its bounding box -- those inside become holes (in
//     random order), those outside become further elements (small polygons / lines) of a multi-geometry, so that several small
//     components lie in the pockets of another component on either side of its boundary.
static int sgnl(long v) { return v > 0 ? 1 : v < 0 ? -1 : 0; }
static long crossI(const std::pair<long, long>& a, const std::pair<long, long>& b, const std::pair<long, long>& c) {
    return (b.first - a.first) * (c.second - a.second) - (b.second - a.second) * (c.first - a.first);
}
static bool onSegI(const std::pair<long, long>& a, const std::pair<long, long>& b, const std::pair<long, long>& p) {
    return std::min(a.first, b.first) <= p.first && p.first <= std::max(a.first, b.first) && std::min(a.second, b.second) <= p.second && p.second <= std::max(a.second, b.second);
}
static bool segsMeetI(const std::pair<long, long>& a, const std::pair<long, long>& b, const std::pair<long, long>& c, const std::pair<long, long>& d) {
    int o1 = sgnl(crossI(a, b, c)), o2 = sgnl(crossI(a, b, d)), o3 = sgnl(crossI(c, d, a)), o4 = sgnl(crossI(c, d, b));
    if (o1 != o2 && o3 != o4) return true;
    if (o1 == 0 && onSegI(a, b, c)) return true;
    if (o2 == 0 && onSegI(a, b, d)) return true;
    if (o3 == 0 && onSegI(c, d, a)) return true;
    if (o4 == 0 && onSegI(c, d, b)) return true;
    return false;
}
// closed CCW ring with n distinct vertices (n + 1 coordinates) in [-R, R]^2
static bool twoOptRing(Rng& r, int n, long R, ISeq& out) {
    std::set<std::pair<long, long>> seen; ISeq p;
    for (int tries = 0; tries < 20 * n && (int) p.size() < n; tries++) {
        std::pair<long, long> q{r.range((int) -R, (int) R), r.range((int) -R, (int) R)};
        if (seen.insert(q).second) p.push_back(q);
    }
    if ((int) p.size() < n || n < 3) return false;
    bool clean = false;
    for (int sweep = 0; sweep < 400 && !clean; sweep++) {
        clean = true;
        for (int i = 0; i < n; i++) for (int j = i + 2; j < n; j++) {
            if (i == 0 && j == n - 1) continue;
            if (segsMeetI(p[i], p[i + 1], p[j], p[(j + 1) % n])) { std::reverse(p.begin() + i + 1, p.begin() + j + 1); clean = false; }
        }
    }
    if (!clean) return false;
    // adjacent segments must not fold back onto each other
    for (int i = 0; i < n; i++) { auto& a = p[i]; auto& b = p[(i + 1) % n]; auto& c = p[(i + 2) % n]; if (crossI(a, b, c) == 0 && onSegI(a, b, c)) return false; if (crossI(a, b, c) == 0 && onSegI(b, c, a)) return false; }
    long area2 = 0; for (int i = 0; i < n; i++) area2 += p[i].first * p[(i + 1) % n].second - p[(i + 1) % n].first * p[i].second;
    if (area2 == 0) return false;
    if (area2 < 0) std::reverse(p.begin(), p.end());
    out = p; out.push_back(out.front());
    return true;
}
// number of distinct vertices of a "large" ring: around the multiples of 16 (the node capacity of the vertex index) or uniform
static int bigRingSize(Rng& r, Out& out, int hi) {
    int k = (int) r.below(100);
    if (k < 30) { int m = r.range(1, std::max(1, hi / 16)); out.count("ringsize_16k_plus_1"); return 16 * m; }            // 16m + 1 coordinates
    if (k < 50) { int m = r.range(1, std::max(1, hi / 16)); static const int d[] = {-2, -1, 1, 2}; out.count("ringsize_near_16k"); return std::max(3, 16 * m + d[r.below(4)]); }
    out.count("ringsize_uniform"); return r.range(5, hi);
}
static void bboxI(const ISeq& s, long& x0, long& x1, long& y0, long& y1) {
    x0 = y0 = LONG_MAX; x1 = y1 = LONG_MIN; for (auto& p : s) { x0 = std::min(x0, p.first); x1 = std::max(x1, p.first); y0 = std::min(y0, p.second); y1 = std::max(y1, p.second); }
}
// large shell (star / monotone / 2-opt) + tiny rings scattered over its bounding box
static bool genArchipelago(Rng& r, Out& out, Built& b, bool polysOnly, bool bigSizes) {
    for (int attempt = 0; attempt < 30; attempt++) {
        b = Built(); Xf t = pickXf(r, out);
        long R = r.chance(50) ? 60 : 150; ISeq shell; int kind = (int) r.below(100);
        int n = bigSizes ? bigRingSize(r, out, 50) : (r.chance(30) ? bigRingSize(r, out, 48) : r.range(5, 30));
        if (kind < 50) { if (!twoOptRing(r, n, R, shell)) { out.count("gen_rejected"); continue; } out.count("shell_2opt"); }
        else if (kind < 85) { if (!starRing(r, n, R, shell)) { out.count("gen_rejected"); continue; } out.count("shell_star"); }
        else { monotoneRing(r, std::max(4, n), R, shell); out.count("shell_monotone"); }
        Poly big; big.rings.push_back(realise(t, shell));
        Shape cur; cur.polys.push_back(big);
        if (!contactFree(cur)) { out.count("gen_rejected"); continue; }
        long x0, x1, y0, y1; bboxI(shell, x0, x1, y0, y1);
        int m = r.chance(12) ? 0 : r.range(2, 14);
        std::vector<std::pair<long, long>> centres; std::vector<Seq> outside; std::vector<bool> outsideIsLine;
        for (int i = 0; i < m; i++) {
            long rr = r.range(2, 4); long cx = r.range((int) x0 - 3, (int) x1 + 3), cy = r.range((int) y0 - 3, (int) y1 + 3);
            bool far = true; for (auto& c : centres) if (std::labs(c.first - cx) < 10 && std::labs(c.second - cy) < 10) far = false;
            if (!far) continue;
            ISeq tiny; if (!starRing(r, r.range(3, 5), rr, tiny)) continue;
            translate(tiny, cx, cy);
            int in = 0; for (size_t q = 0; q + 1 < tiny.size(); q++) if (pointInRingI(shell, tiny[q].first, tiny[q].second)) in++;
            bool allIn = in == (int) tiny.size() - 1, allOut = in == 0;
            if (!allIn && !allOut) continue;
            Shape trial = cur;
            if (allIn) { std::reverse(tiny.begin(), tiny.end()); trial.polys[0].rings.push_back(realise(t, tiny)); }
            else { bool asLine = !polysOnly && r.chance(35); Seq q = realise(t, tiny); if (asLine) { q.pop_back(); trial.lines.push_back(q); } else { Poly sp; sp.rings.push_back(q); trial.polys.push_back(sp); } }
            if (!contactFree(trial)) continue;
            cur = trial; centres.push_back({cx, cy});
        }
        // element order: the large polygon at a random position among the small elements
        std::vector<std::string> parts; std::vector<int> order; int ne = (int) cur.polys.size() + (int) cur.lines.size();
        for (int i = 0; i < ne; i++) order.push_back(i);
        for (int i = ne - 1; i > 0; i--) std::swap(order[i], order[r.below(i + 1)]);
        Shape fin; bool anyLine = false;
        for (int i : order) { if (i < (int) cur.polys.size()) { fin.polys.push_back(cur.polys[i]); parts.push_back(polyTok(cur.polys[i])); } else { auto& l = cur.lines[i - cur.polys.size()]; fin.lines.push_back(l); parts.push_back(lineTok(l)); anyLine = true; } }
        b.shape = fin; b.hasPoly = true;
        out.count("arch_holes", (long) cur.polys[0].rings.size() - 1); out.count("arch_outside_elements", ne - 1);
        out.count("arch_shell_coords_" + std::string(shell.size() % 16 == 1 ? "16k+1" : "other"));
        if (ne == 1) b.tok = (r.chance(75) ? parts[0] : wrapMulti("MY", parts));
        else if (anyLine) b.tok = wrapMulti("GC", parts);
        else b.tok = (polysOnly || r.chance(75)) ? wrapMulti("MY", parts) : wrapMulti("GC", parts);
        out.count(std::string("geom_") + b.tok.substr(0, b.tok.find(' ')));
        out.count("mode_archipelago");
        return true;
    }
    return false;
}
static double archTol(Rng& r, Out& out, const Shape& sh) {
    if (r.chance(65)) { out.count("tol_flattening"); return extent(sh) * (0.02 + 0.5 * r.unit() * r.unit()); }
    return pickTol(r, out, sh, false);
}


// ------------------------------------------------------------------ direct streams against two small decision cores used by the simplifiers
//   jump     ComponentJumpChecker::hasJump (both overloads) on hand-built TaggedLineStrings
//   vsindex  index::VertexSequencePackedRtree: build, remove, query, getBounds (the vertex index of RingHull and TPVWSimplifier::Edge)
static long long dkey(double d) { uint64_t u = bits(d); return (u >> 63) ? -(long long) (u & 0x7fffffffffffffffULL) : (long long) u; }

// evaluate a `J ...` case line on the implementation
static std::string runJump(const std::vector<std::string>& tk) {
    using namespace geos::geom; using geos::simplify::TaggedLineString; using geos::simplify::ComponentJumpChecker;
    size_t p = 1; std::string var = tk[p++]; size_t self = std::stoul(tk[p++]);
    auto rd = [&]() { return frombits(std::stoull(tk[p++], nullptr, 16)); };
    auto rdSeg = [&]() { double a = rd(), b = rd(), c = rd(), d = rd(); return LineSegment(Coordinate(a, b), Coordinate(c, d)); };
    size_t start = 0, end = 0; LineSegment s1, s2, seg;
    if (var == "s") { start = std::stoul(tk[p++]); end = std::stoul(tk[p++]); seg = rdSeg(); } else { s1 = rdSeg(); s2 = rdSeg(); seg = rdSeg(); }
    size_t nc = std::stoul(tk[p++]);
    auto gf = GF(); std::vector<std::unique_ptr<LineString>> ls; std::vector<std::unique_ptr<TaggedLineString>> tl; std::vector<TaggedLineString*> ptrs;
    for (size_t c = 0; c < nc; c++) { p++; size_t k = std::stoul(tk[p++]); auto cs = std::make_unique<CoordinateSequence>(); for (size_t i = 0; i < k; i++) { double x = rd(), y = rd(); cs->add(Coordinate(x, y)); }
        ls.push_back(gf->createLineString(std::move(cs))); tl.push_back(std::make_unique<TaggedLineString>(ls.back().get(), 2, false)); ptrs.push_back(tl.back().get()); }
    ComponentJumpChecker jc(ptrs);
    bool res = var == "s" ? jc.hasJump(ptrs[self], start, end, seg) : jc.hasJump(ptrs[self], &s1, &s2, seg);
    return res ? "1" : "0";
}

static void genJumpCase(Rng& r, Out& out) {
    Xf t = pickXf(r, out); long R = r.chance(60) ? 6 : 30;
    int n = r.range(3, 10); ISeq line;
    for (int i = 0; i < n; i++) line.push_back({r.range((int) -R, (int) R), r.range((int) -R, (int) R)});
    if (r.chance(25)) line.back() = line.front();
    int start = r.range(0, n - 2), end = r.range(start + 1, n - 1);
    long x0, x1, y0, y1; ISeq sect(line.begin() + start, line.begin() + end + 1); bboxI(sect, x0, x1, y0, y1);
    int nc = r.range(1, 6); std::vector<ISeq> comps;
    for (int c = 0; c < nc; c++) {
        ISeq q; int k = r.range(2, 4);
        for (int i = 0; i < k; i++) q.push_back({r.range((int) -R, (int) R), r.range((int) -R, (int) R)});
        int w = (int) r.below(100); auto& cp = q[1];                       // the component point of an unsimplified line is its vertex 1
        if (w < 55) cp = {r.range((int) x0, (int) x1), r.range((int) y0, (int) y1)};                   // inside the section's box
        else if (w < 70) cp = {r.range((int) x0 - 2, (int) x1), line[r.range(start, end)].second};     // ray through a section vertex
        else if (w < 80) cp = line[r.range(start, end)];                                              // on a section vertex
        else if (w < 88) cp = {(line[start].first + line[end].first) / 2, (line[start].second + line[end].second) / 2};   // on / near the flattening segment
        comps.push_back(q);
    }
    int self = r.range(0, nc);                                           // position of the simplified line in the component list
    std::vector<ISeq> all; for (int c = 0; c < nc; c++) { if (c == self) all.push_back(line); all.push_back(comps[c]); } if (self == nc) all.push_back(line);
    std::vector<Seq> real; for (auto& q : all) real.push_back(realise(t, q));
    const Seq& L = real[self];
    auto segTok = [&](const V& a, const V& b) { return hex(a.x) + " " + hex(a.y) + " " + hex(b.x) + " " + hex(b.y); };
    std::string compsTok = std::to_string(all.size()); for (auto& sq : real) compsTok += " " + seqTok(sq);
    std::string c;
    if (r.chance(70)) {
        V a = L[start], bb = L[end]; if (r.chance(12)) { bb = apply(t, r.range((int) -R, (int) R), r.range((int) -R, (int) R)); out.count("jump_seg_arbitrary"); }
        c = "J s " + std::to_string(self) + " " + std::to_string(start) + " " + std::to_string(end) + " " + segTok(a, bb) + " " + compsTok;
        out.count("jump_section");
    } else {
        // ring end point variant: the first and the last result segment of a ring and the segment replacing them
        V a = L[0], b1 = L[1], c0 = L[n - 2];
        c = "J e " + std::to_string(self) + " " + segTok(a, b1) + " " + segTok(c0, a) + " " + segTok(c0, b1) + " " + compsTok;
        out.count("jump_ring_endpoint");
    }
    std::string e = runJump(splitToks(c));
    out.count(e == "1" ? "jump_true" : "jump_false"); out.count("jump_components_" + std::to_string(nc));
    out.emit(c, e);
}

// evaluate a `V n pts nops ops` case line on the implementation
static std::string runVsIndex(const std::vector<std::string>& tk) {
    using namespace geos::geom; using geos::index::VertexSequencePackedRtree;
    size_t p = 1; size_t n = std::stoul(tk[p++]);
    auto rd = [&]() { return frombits(std::stoull(tk[p++], nullptr, 16)); };
    CoordinateSequence cs; for (size_t i = 0; i < n; i++) { double x = rd(), y = rd(); cs.add(Coordinate(x, y)); }
    VertexSequencePackedRtree tree(cs); std::string e;
    size_t nops = std::stoul(tk[p++]);
    for (size_t o = 0; o < nops; o++) {
        std::string op = tk[p++];
        if (op == "r") { tree.remove(std::stoul(tk[p++])); }
        else { double ax = rd(), bx = rd(), ay = rd(), by = rd(); Envelope env(ax, bx, ay, by); std::vector<std::size_t> res; tree.query(env, res); e += "q"; for (auto i : res) e += " " + std::to_string(i); e += ";"; }
    }
    auto bnds = tree.getBounds(); e += "b";
    for (auto& b : bnds) { if (b.isNull()) e += " -"; else e += " " + std::to_string(dkey(b.getMinX())) + "," + std::to_string(dkey(b.getMaxX())) + "," + std::to_string(dkey(b.getMinY())) + "," + std::to_string(dkey(b.getMaxY())); }
    return e;
}

static void genVsIndexCase(Rng& r, Out& out) {
    int n; int k = (int) r.below(100);
    if (k < 25) n = 16 * r.range(1, 6) + 1;
    else if (k < 45) { static const int d[] = {-1, 0, 2}; n = 16 * r.range(1, 6) + d[r.below(3)]; }
    else if (k < 60) { static const int d[] = {-1, 0, 1, 2, 16, 17}; n = 256 + d[r.below(6)]; }
    else if (k < 65) n = r.range(500, 560);
    else n = r.range(1, 120);
    out.count(n <= 16 ? "vs_levels_1" : n <= 256 ? "vs_levels_2" : "vs_levels_3"); if (n % 16 == 1 && n > 16) out.count("vs_n_16k_plus_1");
    Xf t = pickXf(r, out); std::vector<V> pts; long x = 0, y = 0; bool walk = r.chance(70); long R = r.chance(50) ? 20 : 200;
    std::string c = "V " + std::to_string(n);
    for (int i = 0; i < n; i++) { if (walk) { x += r.range(-3, 3); y += r.range(-3, 3); } else { x = r.range((int) -R, (int) R); y = r.range((int) -R, (int) R); }
        V v = apply(t, x, y); if (v.x == 0) v.x = 0.0; if (v.y == 0) v.y = 0.0; pts.push_back(v); c += " " + hex(v.x) + " " + hex(v.y); }
    std::vector<bool> gone(n, false);
    int phases = r.range(1, 4), nops = 0; std::string ops;
    auto doRemove = [&](int i) { if (i < 0 || i >= n || gone[i]) return; gone[i] = true; ops += " r " + std::to_string(i); nops++; };
    auto doQuery = [&]() {
        double ax, ay, bx, by; int w = (int) r.below(100);
        if (w < 15) { ax = -1e300; bx = 1e300; ay = -1e300; by = 1e300; }
        else { const V& p = pts[r.below(n)]; const V& q = pts[r.below(n)]; ax = std::min(p.x, q.x); bx = std::max(p.x, q.x); ay = std::min(p.y, q.y); by = std::max(p.y, q.y);
               if (w < 35) { bx = ax; by = ay; } }
        ops += " q " + hex(ax) + " " + hex(bx) + " " + hex(ay) + " " + hex(by); nops++;
    };
    for (int ph = 0; ph < phases; ph++) {
        int w = (int) r.below(100);
        if (w < 20) { doRemove(n - 1); out.count("vs_remove_last"); }                                  // what RingHull does first (duplicate closing vertex)
        else if (w < 45) { int leaf = (int) r.below((n + 15) / 16); for (int i = 16 * leaf; i < 16 * leaf + 16; i++) if (!r.chance(4)) doRemove(i); out.count("vs_remove_leaf_block"); }
        else if (w < 55) { int a = (int) r.below(n), len = r.range(1, 40); for (int i = a; i < a + len; i++) doRemove(i); out.count("vs_remove_run"); }
        else if (w < 62) { int blk = (int) r.below((n + 255) / 256); for (int i = 256 * blk; i < 256 * blk + 256; i++) if (!r.chance(1)) doRemove(i); out.count("vs_remove_256_block"); }
        else if (w < 67) { for (int i = 0; i < n; i++) doRemove(i); out.count("vs_remove_all"); }
        else { int m = r.range(1, std::max(1, n / 2)); for (int i = 0; i < m; i++) doRemove((int) r.below(n)); out.count("vs_remove_random"); }
        int nq = r.range(1, 4); for (int i = 0; i < nq; i++) doQuery();
    }
    c += " " + std::to_string(nops) + ops;
    out.emit(c, runVsIndex(splitToks(c)));
}

// ------------------------------------------------------------------ main
int main(int argc, char** argv) {
    if (argc < 3) { fprintf(stderr, "usage\n"); return 2; }
    std::string stream = argv[1];
    GEOSContextHandle_t h = GEOS_init_r();
    GEOSContext_setNoticeHandler_r(h, notice); GEOSContext_setErrorHandler_r(h, errorh);
    if (stream == "replay") {
        std::ifstream f(argv[2]); std::string line;
        while (std::getline(f, line)) {
            if (line.empty()) continue;
            auto tk = splitToks(line);
            if (tk[0] == "D") {
                double tol = frombits(std::stoull(tk[1], nullptr, 16)); std::string in; size_t p = 3;   // tk[2] = srid
                for (; p < tk.size() && tk[p] != "|"; p++) { if (!in.empty()) in += " "; in += tk[p]; }
                std::string e = runDP(h, in, tol, nullptr);
                std::cout << "D " << tk[1] << " 0 " << in << (p < tk.size() ? " | " + e : "") << "\t" << e << "\n";
            } else if (tk[0] == "J") { std::cout << line << "\t" << runJump(tk) << "\n";
            } else if (tk[0] == "V") { std::cout << line << "\t" << runVsIndex(tk) << "\n";
            } else { std::string c; std::string e = runContract(h, tk, &c); std::cout << c << "\t" << e << "\n"; }
        }
        GEOS_finish_r(h); return 0;
    }
    if (argc < 5) { fprintf(stderr, "usage\n"); return 2; }
    uint64_t seed = std::stoull(argv[2]); long n = std::stol(argv[3]); Out out(argv[4]); Rng r(seed);
    for (long i = 0; i < n; i++) {
        if (stream == "dp") {
            Built b; genDP(r, out, b); double tol = pickTol(r, out, b.shape, true);
            std::string e = runDP(h, b.tok, tol, &out);
            std::string c = "D " + hex(tol) + " 0 " + b.tok;
            if (b.hasPoly) { c += " | " + e; if (e != "ERR") out.count(roughEqualsResult(b.tok, tol, e) ? "poly_result_is_rough_dp" : "poly_result_repaired_by_buffer0"); }
            out.emit(c, e);
        } else if (stream == "tps") {
            Built b; bool arch = r.chance(40);
            if (!(arch ? genArchipelago(r, out, b, false, false) : genValid(r, out, (int) r.below(3), b, false))) { out.count("gen_failed"); continue; }
            double tol = arch ? archTol(r, out, b.shape) : pickTol(r, out, b.shape, false);
            auto tk = splitToks("T " + hex(tol) + " 0 " + b.tok); std::string c; std::string e = runContract(h, tk, &c);
            out.emit(c, e);
        } else if (stream == "hull") {
            Built b; bool arch = r.chance(45);
            if (!(arch ? genArchipelago(r, out, b, true, true) : genValid(r, out, 1, b, true))) { out.count("gen_failed"); continue; }
            int outer = r.chance(50) ? 1 : 0; char mode = r.chance(60) ? 'v' : 'a';
            double param; switch (r.below(6)) { case 0: param = 0.0; break; case 1: param = 1.0; break; case 2: param = 0.5; break; default: param = r.unit(); }
            if (r.chance(5)) param = -param;
            out.count(outer ? "hull_outer" : "hull_inner"); out.count(mode == 'v' ? "hull_vertex_fraction" : "hull_area_ratio");
            out.count(param == 0.0 ? "param_0" : std::fabs(param) == 1.0 ? "param_1" : "param_mid");
            auto tk = splitToks(std::string("H ") + (outer ? "1 " : "0 ") + mode + " " + hex(param) + " 0 " + b.tok); std::string c; std::string e = runContract(h, tk, &c);
            out.emit(c, e);
        } else if (stream == "coverage") {
            std::string tok; Shape sh; if (!genCoverage(h, r, out, tok, sh)) { out.count("gen_failed"); continue; }
            double tol = pickTol(r, out, sh, false); int pb = r.chance(50) ? 1 : 0; out.count(pb ? "cov_preserve_boundary" : "cov_free_boundary");
            auto tk = splitToks(std::string("C ") + (pb ? "1 " : "0 ") + hex(tol) + " 0 " + tok); std::string c; std::string e = runContract(h, tk, &c);
            out.emit(c, e);
        } else if (stream == "jump") { genJumpCase(r, out);
        } else if (stream == "vsindex") { genVsIndexCase(r, out);
        } else { fprintf(stderr, "unknown stream\n"); return 2; }
    }
    GEOS_finish_r(h);
    return 0;
}
