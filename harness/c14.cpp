// C14 correspondence harness: interrupt protocol.
//   c14 proto  <seed> <n> <outbase>          random call scripts against the REAL geos::util::Interrupt functions
//   c14 ops    <seed> <n> <outbase> [tier]   n (operation, input) pairs; for each: clean run -> N, then interrupt at poll k
//   c14 unwind <seed> <n> <outbase>          exception transparency of the REAL noding::ValidatingNoder::computeNodes (W lines)
//   c14 replay <file>                        case lines (S ... / O ... / W ...) -> implementation observations on stdout
// Meant to be built with the asan flavour: per case the live-heap size is compared before/after and, when it
// grew, LeakSanitizer is asked (recoverable check) whether new unreachable blocks exist -> token leak=0/1.
//
// O-case line :  O <op> <inputseed> <size> <N> <mode> <k>
//   mode: clean | at (callback requests at poll k) | pre (request pending before the call) | cancel (request,
//         cancel, call) | cbcancel (request pending, callback cancels at poll k) | init (request pending, GEOS_init_r, call)
// expect line :  <first call> ; <following benign call> ; inputs=<0/1> leak=<0/1>
//   call := int polls=<p> req=<0/1> msg=<0/1>  |  done polls=<p> req=<0/1> same=<0/1>  |  err polls=<p> req=<0/1> msg=0
#include "common.h"
#include <geos_c.h>
#include <geos/util/Interrupt.h>
#include <geos/util/GEOSException.h>
#include <geos/operation/relate/RelateOp.h>
#include <geos/geom/IntersectionMatrix.h>
#include <geos/geom/Geometry.h>
#include <geos/geom/CoordinateSequence.h>
#include <geos/noding/Noder.h>
#include <geos/noding/ValidatingNoder.h>
#include <geos/noding/NodedSegmentString.h>
#include <geos/util/TopologyException.h>
#include <geos/util/IllegalArgumentException.h>
#include <cstdarg>
#include <chrono>
#include <fstream>
#include <iostream>
#include <execinfo.h>
#include <dlfcn.h>
#include <cxxabi.h>
#include <unistd.h>

#if defined(__SANITIZE_ADDRESS__)
#include <sanitizer/lsan_interface.h>
#include <sanitizer/common_interface_defs.h>
extern "C" size_t __sanitizer_get_current_allocated_bytes(void);
#define HAVE_ASAN 1
#else
#define HAVE_ASAN 0
#endif

using namespace vh;
using geos::util::Interrupt;

// ------------------------------------------------------------------------------------------------ callback
static long g_polls = 0;      // polls seen by the callback during the current call
static long g_k = 0;          // poll index at which the callback acts
static int g_act = 0;         // 0 nothing, 1 request, 2 cancel
static bool g_trace = false;  // record poll sites (clean runs only)
static std::map<std::string, long> g_sites;
static std::vector<const std::string*> g_siteSeq;   // poll index-1 -> site name (function only) of the traced run
static std::map<std::string, std::string> g_fnNames; // interned function names
// call-stack CONTEXT of each poll of the traced run: the chain of library functions between the poll and the API entry.  Two polls
// at the same source line reached through different callers (the noder of an overlay vs. the noder inside the noding validation
// that follows it) unwind through different handlers, so they are different places to interrupt.
static std::vector<int> g_ctxSeq;                    // poll index-1 -> context id
static std::map<std::string, int> g_ctxIds;          // context key -> id (per traced run)
static std::map<void*, std::string> g_addrSym;       // return address -> symbol name ("" = outside the library)

static void* g_processLo = nullptr; static void* g_processHi = nullptr;   // address range of Interrupt::process
static std::map<void*, int> g_frameRobust;          // return address -> is inside OverlayNGRobust::Overlay (which catches std::runtime_error)
static std::string shortFn(const char* mangled) {
    int st = 0; char* d = abi::__cxa_demangle(mangled, nullptr, nullptr, &st);
    std::string name = (st == 0 && d) ? d : mangled; if (d) free(d);
    size_t p = name.find('('); if (p != std::string::npos) name = name.substr(0, p);
    if (name.compare(0, 6, "geos::") == 0) name = name.substr(6);
    for (auto& c : name) if (c == ' ' || c == '=') c = '_';
    return name;
}
__attribute__((noinline)) static void recordSite() {
    void* bt[64]; int n = backtrace(bt, 64);
    // ... cb, Interrupt::process, <the poll site>: find the frame inside Interrupt::process, take its caller
    int at = -1;
    for (int i = 0; i + 1 < n; i++) if (bt[i] >= g_processLo && bt[i] < g_processHi) { at = i + 1; break; }
    static const std::string unk = "unknown";
    if (at < 0) { g_sites["unknown"]++; g_siteSeq.push_back(&unk); g_ctxSeq.push_back(-1); return; }
    { std::string key;
      for (int i = at; i < n; i++) {
          auto it = g_addrSym.find(bt[i]);
          if (it == g_addrSym.end()) { Dl_info fi; std::string nm;
              if (dladdr(bt[i], &fi) && fi.dli_sname && fi.dli_fname && std::strstr(fi.dli_fname, "libgeos")) nm = fi.dli_sname;
              it = g_addrSym.emplace(bt[i], nm).first; }
          if (it->second.empty()) continue;
          if (key.size() >= it->second.size() + 1 && key.compare(key.size() - it->second.size() - 1, it->second.size(), it->second) == 0) continue;   // recursion: collapse repeats
          key += it->second; key += ';'; }
      auto ci = g_ctxIds.find(key); if (ci == g_ctxIds.end()) ci = g_ctxIds.emplace(key, (int) g_ctxIds.size()).first;
      g_ctxSeq.push_back(ci->second); }
    bool robust = false;
    for (int i = at + 1; i < n && !robust; i++) {
        auto it = g_frameRobust.find(bt[i]);
        if (it == g_frameRobust.end()) {
            Dl_info fi; int v = 0;
            if (dladdr(bt[i], &fi) && fi.dli_sname && std::strstr(fi.dli_sname, "OverlayNGRobust7Overlay")) v = 1;
            it = g_frameRobust.emplace(bt[i], v).first;
        }
        robust = it->second != 0;
    }
    Dl_info info; std::string name = "unknown";
    if (dladdr(bt[at], &info) && info.dli_sname) {
        name = shortFn(info.dli_sname);
        std::string key = name + (robust ? "@OverlayNGRobust" : "");
        auto it = g_fnNames.find(key); if (it == g_fnNames.end()) it = g_fnNames.emplace(key, key).first;
        g_siteSeq.push_back(&it->second);
        char off[32]; snprintf(off, sizeof off, "+0x%lx", (unsigned long) ((char*) bt[at] - (char*) info.dli_saddr));
        name += off;
    } else g_siteSeq.push_back(&unk);
    g_sites[name]++;
}

static void cb() {
    g_polls++;
    if (g_trace) recordSite();
    if (g_polls == g_k) { if (g_act == 1) GEOS_interruptRequest(); else if (g_act == 2) GEOS_interruptCancel(); }
}

// ------------------------------------------------------------------------------------------------ context
static GEOSContextHandle_t H;
static std::string g_err;
static void errh(const char* msg, void*) { g_err.assign(msg ? msg : ""); }
static void noth(const char*, void*) {}

static GEOSContextHandle_t newCtx() {
    GEOSContextHandle_t h = GEOS_init_r();
    GEOSContext_setErrorMessageHandler_r(h, errh, nullptr);
    GEOSContext_setNoticeMessageHandler_r(h, noth, nullptr);
    return h;
}

static std::string wkb(const GEOSGeometry* g) {
    if (!g) return "";
    GEOSWKBWriter* w = GEOSWKBWriter_create_r(H);
    GEOSWKBWriter_setOutputDimension_r(H, w, 3);
    size_t sz = 0; unsigned char* b = GEOSWKBWriter_write_r(H, w, g, &sz);
    std::string s = b ? std::string((char*) b, sz) : std::string("<wkb-error>");
    if (b) GEOSFree_r(H, b);
    GEOSWKBWriter_destroy_r(H, w);
    return s;
}

// ------------------------------------------------------------------------------------------------ generators
struct Geo {
    Rng r; explicit Geo(uint64_t seed) : r(seed) {}
    GEOSCoordSequence* seq(const std::vector<double>& xy) { return GEOSCoordSeq_copyFromBuffer_r(H, xy.data(), (unsigned) (xy.size() / 2), 0, 0); }
    // star-shaped simple polygon, nv vertices, around (cx,cy), radius in [0.45,1]*rad
    GEOSGeometry* star(double cx, double cy, double rad, int nv, bool scramble = false) {
        std::vector<double> xy; double a0 = r.unit() * 6.28318;
        for (int i = 0; i < nv; i++) {
            double a = a0 + 6.283185307179586 * i / nv, rr = rad * (0.45 + 0.55 * r.unit());
            xy.push_back(cx + rr * std::cos(a)); xy.push_back(cy + rr * std::sin(a));
        }
        if (scramble) for (int t = 0; t < std::max(1, nv / 6); t++) {      // swap vertices -> self-intersections
            int i = (int) r.below(nv), j = (i + 1 + (int) r.below(3)) % nv;
            std::swap(xy[2 * i], xy[2 * j]); std::swap(xy[2 * i + 1], xy[2 * j + 1]);
        }
        xy.push_back(xy[0]); xy.push_back(xy[1]);
        return GEOSGeom_createPolygon_r(H, GEOSGeom_createLinearRing_r(H, seq(xy)), nullptr, 0);
    }
    // m x m grid of stars (disjoint when rad < 0.5): a valid MultiPolygon
    GEOSGeometry* starGrid(int m, int nv, double ox, double oy, double rad, int type = GEOS_MULTIPOLYGON, bool scramble = false) {
        std::vector<GEOSGeometry*> gs;
        for (int i = 0; i < m; i++) for (int j = 0; j < m; j++) gs.push_back(star(ox + i, oy + j, rad, nv, scramble));
        if (gs.size() == 1 && type == GEOS_MULTIPOLYGON) return gs[0];
        return GEOSGeom_createCollection_r(H, type, gs.data(), (unsigned) gs.size());
    }
    GEOSGeometry* lineOf(const std::vector<double>& xy) { return GEOSGeom_createLineString_r(H, seq(xy)); }
    GEOSGeometry* randSegs(int n, double ext) {
        std::vector<GEOSGeometry*> gs;
        for (int i = 0; i < n; i++) gs.push_back(lineOf({r.unit() * ext, r.unit() * ext, r.unit() * ext, r.unit() * ext}));
        return GEOSGeom_createCollection_r(H, GEOS_MULTILINESTRING, gs.data(), (unsigned) gs.size());
    }
    // wiggly polyline
    GEOSGeometry* path(int n, double ext) {
        std::vector<double> xy; double x = r.unit() * ext, y = r.unit() * ext;
        for (int i = 0; i < n; i++) { xy.push_back(x); xy.push_back(y); x += (r.unit() - 0.4) * ext / 8; y += (r.unit() - 0.5) * ext / 8; }
        return lineOf(xy);
    }
    // fully noded lattice linework (each edge its own LineString) + dangles, edges dropped with prob drop%
    GEOSGeometry* lattice(int m, int drop, int dangles) {
        std::vector<GEOSGeometry*> gs;
        std::vector<double> px((m + 1) * (m + 1)), py((m + 1) * (m + 1));
        for (int i = 0; i <= m; i++) for (int j = 0; j <= m; j++) { px[i * (m + 1) + j] = i + 0.3 * (r.unit() - 0.5); py[i * (m + 1) + j] = j + 0.3 * (r.unit() - 0.5); }
        auto P = [&](int i, int j) { return i * (m + 1) + j; };
        for (int i = 0; i <= m; i++) for (int j = 0; j <= m; j++) {
            if (i < m && !r.chance(drop)) gs.push_back(lineOf({px[P(i, j)], py[P(i, j)], px[P(i + 1, j)], py[P(i + 1, j)]}));
            if (j < m && !r.chance(drop)) gs.push_back(lineOf({px[P(i, j)], py[P(i, j)], px[P(i, j + 1)], py[P(i, j + 1)]}));
        }
        for (int d = 0; d < dangles; d++) { int i = (int) r.below(m + 1), j = (int) r.below(m + 1);
            gs.push_back(lineOf({px[P(i, j)], py[P(i, j)], px[P(i, j)] + 0.2, py[P(i, j)] + 0.31})); }
        if (gs.empty()) gs.push_back(lineOf({0, 0, 1, 0}));
        return GEOSGeom_createCollection_r(H, GEOS_MULTILINESTRING, gs.data(), (unsigned) gs.size());
    }
    GEOSGeometry* points(int n, double ext) {
        std::vector<GEOSGeometry*> gs;
        for (int i = 0; i < n; i++) gs.push_back(GEOSGeom_createPointFromXY_r(H, r.unit() * ext, r.unit() * ext));
        return GEOSGeom_createCollection_r(H, GEOS_MULTIPOINT, gs.data(), (unsigned) gs.size());
    }
    // many parallel diagonal segments: chain envelopes overlap pairwise, no intersections (reaches MCIndexNoder's poll cheaply)
    GEOSGeometry* parallelDiagonals(int n) {
        std::vector<GEOSGeometry*> gs;
        for (int i = 0; i < n; i++) gs.push_back(lineOf({i * 0.001, 0.0, i * 0.001 + 1.0, 1.0}));
        return GEOSGeom_createCollection_r(H, GEOS_MULTILINESTRING, gs.data(), (unsigned) gs.size());
    }
};

// ------------------------------------------------------------------------------------------------ operations
struct OpDef { const char* name; char in; };  // in: which input family
// families: 'O' two overlapping polygonal, 'U' collection of overlapping polygons, 'B' buffer input, 'R' relate pair (mixed),
//           'V' invalid polygon, 'L' noded lattice lines, 'H' hull input, 'S' polygon(s), 'M' one polygon, 'E' points,
//           'N' crossing lines, 'X' snap pair, 'C' a path
static const OpDef OPS[] = {
    {"intersection", 'O'}, {"union", 'O'}, {"difference", 'O'}, {"symdifference", 'O'},
    {"intersectionprec", 'O'}, {"unionprec", 'O'},
    {"unaryunion", 'U'}, {"unaryunionprec", 'U'}, {"disjointsubsetunion", 'U'},
    {"buffer", 'B'}, {"buffernegative", 'S'}, {"offsetcurve", 'C'}, {"singlesidedbuffer", 'C'},
    {"relate", 'R'}, {"relatepattern", 'R'}, {"intersects", 'R'}, {"contains", 'R'}, {"touches", 'R'}, {"overlaps", 'R'},
    {"covers", 'R'}, {"equals", 'R'}, {"crosses", 'R'}, {"disjoint", 'R'}, {"within", 'R'},
    {"prepintersects", 'R'}, {"prepcontains", 'R'}, {"prepcontainsproperly", 'R'}, {"prepcovers", 'R'}, {"preptouches", 'R'},
    {"preprelate", 'R'}, {"preprelatepattern", 'R'},
    {"relateold", 'R'},
    {"makevalid", 'V'}, {"makevalidstructure", 'V'},
    {"polygonize", 'L'}, {"polygonizevalid", 'L'}, {"polygonizefull", 'L'}, {"buildarea", 'L'},
    {"convexhull", 'H'}, {"pointonsurface", 'S'}, {"mic", 'M'}, {"lec", 'E'},
    {"node", 'N'}, {"snap", 'X'},
};
static const int NOPS = (int) (sizeof OPS / sizeof OPS[0]);
static const OpDef* findOp(const std::string& n) { for (int i = 0; i < NOPS; i++) if (n == OPS[i].name) return &OPS[i]; return nullptr; }

struct Input { GEOSGeometry* a = nullptr; GEOSGeometry* b = nullptr; double p = 0; };

// pairs from the repository's own robustness corpus (tests/xmltester/tests/robust/overlay/TestOverlay-jts-798.xml, TestOverlay-misc-3.xml) on which the
// floating-precision noding attempt of OverlayNGRobust fails, so that the overlay continues in its snapping / snap-rounding fallback stages
static const char* const ROBUST_PAIRS[][2] = {
    {"POLYGON ((66697.40120137333 185279.95469107336, 66698.375 185273.625, 66697.375 185280.125, 66697.40120137333 185279.95469107336))",
     "POLYGON ((66710 185280, 66710 185260, 66690 185260, 66690 185280, 66710 185280))"},
    {"POLYGON ((61607.62679190189 190194.1555478014, 61620.5389918983 190197.4990478009, 61619.64380966499 190197.26724827816, 61607.62679190189 190194.1555478014))",
     "POLYGON ((61620.04309999943 190199.41420000046, 61620.41290000081 190197.98570000008, 61620.53899999708 190197.4989, 61607.62680000067 190194.15549999848, 61607.07620000094 190196.27259999886, 61620.04309999943 190199.41420000046))"},
    {"POLYGON ((181093.43788657014 172099.78376270586, 181093.375 172099.375, 181093.57688359552 172100.6872433709, 181093.43788657014 172099.78376270586))",
     "POLYGON ((181118.78476615425 172110.76716212876, 181097.49019999802 172097.5095999986, 181081.35400000215 172105.30889999866, 181118.78476615425 172110.76716212876))"},
    {"POLYGON ((301949.68 2767249.16, 301936.52 2767241.28, 301938.87 2767237.43, 301952.47 2767245.59, 301950.74 2767247.81, 301949.68 2767249.16))",
     "POLYGON ((302041.321 2767264.675, 301938.823 2767237.507, 301941.21 2767233.59, 301943.821 2767229.304, 302048.886 2767243.046, 302041.321 2767264.675))"},
    {"POLYGON ((301936.52 2767241.28, 301933.22 2767239.3, 301934.9 2767236.51, 301935.54 2767235.44, 301938.87 2767237.43, 301936.52 2767241.28))",
     "POLYGON ((302041.321 2767264.675, 301938.823 2767237.507, 301941.21 2767233.59, 301943.821 2767229.304, 302048.886 2767243.046, 302041.321 2767264.675))"},
    {"POLYGON ((464664.782646596 5362148.87380619, 464664.713299 5362148.758128, 464686.806220838 5362136.92416521, 464713.650216607 5362122.5453135, 464711.113332785 5362117.30158834, 464707.408813375 5362110.21553566, 464703.323866879 5362103.23305736, 464698.945488413 5362096.31213576, 464694.461274991 5362089.42505804, 464625.876674576 5361951.92914952, 464622.430583893 5361944.69388208, 464535.3572 5361970.739, 464648.194399372 5362157.89548451, 464664.782646596 5362148.87380619))",
     "POLYGON ((464769.977147523 5362187.88829332, 464765.146147008 5362180.84587461, 464754.387021019 5362169.93629911, 464747.786455245 5362160.11104076, 464734.810564627 5362148.45253107, 464725.386626381 5362135.71065214, 464712.646269 5362123.083073, 464727.794520848 5362149.37983229, 464738.165719397 5362165.72994593, 464746.257208116 5362179.45514151, 464752.378040379 5362191.80978275, 464769.977147523 5362187.88829332))"},
    {"POLYGON ((698400.5682737827 2388494.3828697307, 698402.3209180075 2388497.0819257903, 698415.3598714538 2388498.764371397, 698413.5003455497 2388495.90071853, 698400.5682737827 2388494.3828697307))",
     "POLYGON ((698231.847335025 2388474.57994264, 698440.416211779 2388499.05985776, 698432.582638943 2388300.28294705, 698386.666515791 2388303.40346027, 698328.29462841 2388312.88889197, 698231.847335025 2388474.57994264))"},
};
static const int N_ROBUST_PAIRS = (int) (sizeof ROBUST_PAIRS / sizeof ROBUST_PAIRS[0]);

// inputs are a pure function of (family, seed, size)
static Input makeInput(char fam, uint64_t seed, int size) {
    Geo g(seed * 7919 + (uint64_t) fam * 104729 + (uint64_t) size); Input in; Rng& r = g.r;
    if (size == 4 && !(fam == 'O' || fam == 'R' || fam == 'U' || fam == 'N')) size = 2;
    int m = size == 0 ? 1 : size == 1 ? r.range(1, 2) : size == 2 ? r.range(2, 4) : r.range(5, 8);
    int nv = size == 0 ? r.range(3, 6) : size == 1 ? r.range(5, 30) : size == 2 ? r.range(10, 80) : r.range(50, 300);
    if (size == 4) {      // "dense linework": two interleaved sets of nl parallel segments each; > 100000 pairs of monotone chains have overlapping
        // envelopes although nothing intersects, so that the checkpoints which fire only every 100000th candidate pair (MCIndexNoder of the
        // overlay, the MCIndexNoder inside the noding validation after it, EdgeSetIntersector of relate) are all reached, cheaply
        int nl = 330 + (int) r.below(170); double dx = r.chance(50) ? 1.0 : 0.25 + r.unit(), step = r.chance(50) ? 0.001 : 0.0005 + 0.002 * r.unit();
        auto set = [&](double off) { std::vector<GEOSGeometry*> gs; for (int i = 0; i < nl; i++) gs.push_back(g.lineOf({i * step + off, 0.0, i * step + off + dx, 1.0}));
            return GEOSGeom_createCollection_r(H, GEOS_MULTILINESTRING, gs.data(), (unsigned) gs.size()); };
        switch (fam) {
        case 'O': case 'R': in.a = set(0.0); in.b = set(step / 2); in.p = 0.001; return in;
        case 'U': case 'N': { GEOSGeometry* two[2] = { set(0.0), set(step / 2) };
            std::vector<GEOSGeometry*> parts; for (int t = 0; t < 2; t++) { int n = GEOSGetNumGeometries_r(H, two[t]); for (int i = 0; i < n; i++) parts.push_back(GEOSGeom_clone_r(H, GEOSGetGeometryN_r(H, two[t], i))); GEOSGeom_destroy_r(H, two[t]); }
            in.a = GEOSGeom_createCollection_r(H, GEOS_MULTILINESTRING, parts.data(), (unsigned) parts.size()); in.p = 0.001; return in; }
        default: break;
        }
    }
    switch (fam) {
    case 'O': if (r.chance(15)) {        // the fallback stages of OverlayNGRobust have polls of their own: reach them
                  int k = (int) r.below((uint64_t) N_ROBUST_PAIRS); bool sw = r.chance(50);
                  in.a = GEOSGeomFromWKT_r(H, ROBUST_PAIRS[k][sw ? 1 : 0]); in.b = GEOSGeomFromWKT_r(H, ROBUST_PAIRS[k][sw ? 0 : 1]);
                  in.p = 0.001; break; }
              if (size >= 2 && r.chance(20)) {   // linework with > 100000 chain pairs whose envelopes overlap: reaches the polls of the noder AND of the
                  // noding validation that OverlayNGRobust runs after floating noding (FastNodingValidator), none of which small inputs reach
                  int nl = 380 + (int) r.below(120);
                  in.a = g.parallelDiagonals(nl);
                  std::vector<GEOSGeometry*> gs; for (int i = 0; i < nl; i++) gs.push_back(g.lineOf({i * 0.001 + 0.0005, 0.0, i * 0.001 + 1.0005, 1.0}));
                  in.b = GEOSGeom_createCollection_r(H, GEOS_MULTILINESTRING, gs.data(), (unsigned) gs.size()); in.p = 0.001; break; }
              in.a = g.starGrid(m, nv, 0, 0, 0.49); in.b = g.starGrid(m, nv, 0.3 * r.unit(), 0.3 * r.unit(), 0.49);
              in.p = r.chance(50) ? 0.001 : 0.0625; break;
    case 'U': in.a = g.starGrid(m + 1, nv, 0, 0, 0.7 + 0.4 * r.unit(), r.chance(50) ? GEOS_GEOMETRYCOLLECTION : GEOS_MULTIPOLYGON); in.p = 0.001; break;
    case 'B': switch (r.below(3)) { case 0: in.a = g.starGrid(m, nv, 0, 0, 0.49); break; case 1: in.a = g.randSegs(2 + nv / 2, m); break; default: in.a = g.path(nv + 2, m); }
              in.p = 0.02 + 0.3 * r.unit(); break;
    case 'S': in.a = g.starGrid(m, nv, 0, 0, 0.49); in.p = -(0.01 + 0.1 * r.unit()); break;
    case 'C': in.a = g.path(nv + 2, m + 1); in.p = (r.chance(50) ? 1 : -1) * (0.02 + 0.2 * r.unit()); break;
    case 'R': if (size >= 2 && r.chance(20)) {   // > 100000 chain pairs with overlapping envelopes, no intersection: second poll of EdgeSetIntersector
                  in.a = g.parallelDiagonals(420);
                  std::vector<GEOSGeometry*> gs; for (int i = 0; i < 420; i++) gs.push_back(g.lineOf({i * 0.001 + 0.0005, 0.0, i * 0.001 + 1.0005, 1.0}));
                  in.b = GEOSGeom_createCollection_r(H, GEOS_MULTILINESTRING, gs.data(), (unsigned) gs.size()); break; }
              switch (r.below(7)) {
              case 0: in.a = g.starGrid(m, nv, 0, 0, 0.49); in.b = g.starGrid(m, nv, 0.3 * r.unit(), 0.3 * r.unit(), 0.49); break;
              case 1: in.a = g.starGrid(m, nv, 0, 0, 0.49); in.b = g.randSegs(2 + nv / 2, m); break;
              case 2: case 3: in.a = g.randSegs(2 + nv / 2, m); in.b = g.randSegs(2 + nv / 2, m); break;
              case 4: in.a = g.randSegs(2 + nv / 2, m); in.b = g.starGrid(m, nv, 0, 0, 0.49); break;
              case 5: in.a = g.path(nv + 2, m); in.b = g.path(nv + 2, m); break;
              default: in.a = g.starGrid(m, nv, 0, 0, 0.49); in.b = GEOSGeom_clone_r(H, in.a); }
              break;
    case 'V': in.a = g.starGrid(m, nv + 3, 0, 0, 0.49 + 0.3 * r.unit(), GEOS_MULTIPOLYGON, true); break;
    case 'L': in.a = g.lattice(size == 0 ? 1 : m + 1, r.range(0, 25), r.range(0, 3)); break;
    case 'H': if (r.chance(50)) in.a = g.points(3 + nv, 10); else in.a = g.starGrid(m, nv, 0, 0, 0.49); break;
    case 'M': in.a = g.star(0, 0, 10, nv + 1); in.p = size == 0 ? 1.0 : size == 1 ? 0.3 : 0.05; break;
    case 'E': in.a = g.points(3 + nv / 2, 10); in.p = size == 0 ? 1.0 : size == 1 ? 0.3 : 0.05; break;
    case 'N': if (size >= 2 && r.chance(40)) in.a = g.parallelDiagonals(460 + (int) r.below(200)); else in.a = g.randSegs(2 + nv / 2, 1); break;
    case 'X': in.a = g.starGrid(m, nv, 0, 0, 0.49); in.b = g.starGrid(m, nv, 0.01 * r.unit(), 0.01 * r.unit(), 0.49); in.p = 0.02 + 0.05 * r.unit(); break;
    default: break;
    }
    return in;
}
static void freeInput(Input& in) { if (in.a) GEOSGeom_destroy_r(H, in.a); if (in.b) GEOSGeom_destroy_r(H, in.b); in.a = in.b = nullptr; }

struct Res { bool err = false; std::string bytes; };

static int plusZero(double* x, double* y, void*) { *x += 0.0; *y += 0.0; return 1; }    // -0.0 -> +0.0
static Res fromGeom(GEOSGeometry* g, bool normalize = false) {
    Res r; if (!g) { r.err = true; return r; }
    // snap-rounding (HotPixelIndex) shuffles its input with std::random_device: fixed-precision overlay results were seen to
    // differ from call to call in the SIGN OF A ZERO ordinate (0.0 / -0.0).  For those operations only, results are compared
    // after GEOSNormalize and -0.0 -> +0.0; everything else is compared byte for byte.
    if (normalize) {
        GEOSGeometry* t = GEOSGeom_transformXY_r(H, g, plusZero, nullptr);
        if (t) { GEOSGeom_destroy_r(H, g); g = t; }
        GEOSNormalize_r(H, g);
    }
    r.bytes = wkb(g); GEOSGeom_destroy_r(H, g); return r; }
static Res fromChar(char c) { Res r; if (c == 2) { r.err = true; return r; } r.bytes = std::string(1, (char) ('0' + c)); return r; }
static Res fromStr(char* s) { Res r; if (!s) { r.err = true; return r; } r.bytes = s; GEOSFree_r(H, s); return r; }

static Res prep(const Input& in, int which) {
    const GEOSPreparedGeometry* pg = GEOSPrepare_r(H, in.a);
    if (!pg) { Res r; r.err = true; return r; }
    Res r;
    switch (which) {
    case 0: r = fromChar(GEOSPreparedIntersects_r(H, pg, in.b)); break;
    case 1: r = fromChar(GEOSPreparedContains_r(H, pg, in.b)); break;
    case 2: r = fromChar(GEOSPreparedContainsProperly_r(H, pg, in.b)); break;
    case 3: r = fromChar(GEOSPreparedCovers_r(H, pg, in.b)); break;
    case 4: r = fromChar(GEOSPreparedTouches_r(H, pg, in.b)); break;
    case 5: r = fromStr(GEOSPreparedRelate_r(H, pg, in.b)); break;
    default: r = fromChar(GEOSPreparedRelatePattern_r(H, pg, in.b, "T********")); break;
    }
    GEOSPreparedGeom_destroy_r(H, pg);
    return r;
}

static Res runOp(const std::string& op, const Input& in) {
    const GEOSGeometry *a = in.a, *b = in.b;
    if (op == "intersection") return fromGeom(GEOSIntersection_r(H, a, b));
    if (op == "union") return fromGeom(GEOSUnion_r(H, a, b));
    if (op == "difference") return fromGeom(GEOSDifference_r(H, a, b));
    if (op == "symdifference") return fromGeom(GEOSSymDifference_r(H, a, b));
    if (op == "intersectionprec") return fromGeom(GEOSIntersectionPrec_r(H, a, b, in.p), true);
    if (op == "unionprec") return fromGeom(GEOSUnionPrec_r(H, a, b, in.p), true);
    if (op == "unaryunion") return fromGeom(GEOSUnaryUnion_r(H, a));
    if (op == "unaryunionprec") return fromGeom(GEOSUnaryUnionPrec_r(H, a, in.p), true);
    if (op == "disjointsubsetunion") return fromGeom(GEOSDisjointSubsetUnion_r(H, a));
    if (op == "buffer") return fromGeom(GEOSBuffer_r(H, a, in.p, 4));
    if (op == "buffernegative") return fromGeom(GEOSBuffer_r(H, a, in.p, 4));
    if (op == "offsetcurve") return fromGeom(GEOSOffsetCurve_r(H, a, in.p, 4, GEOSBUF_JOIN_ROUND, 5.0));
    if (op == "singlesidedbuffer") return fromGeom(GEOSSingleSidedBuffer_r(H, a, std::fabs(in.p), 4, GEOSBUF_JOIN_ROUND, 5.0, in.p > 0));
    if (op == "relate") return fromStr(GEOSRelate_r(H, a, b));
    if (op == "relatepattern") return fromChar(GEOSRelatePattern_r(H, a, b, "T*T***T**"));
    if (op == "intersects") return fromChar(GEOSIntersects_r(H, a, b));
    if (op == "contains") return fromChar(GEOSContains_r(H, a, b));
    if (op == "touches") return fromChar(GEOSTouches_r(H, a, b));
    if (op == "overlaps") return fromChar(GEOSOverlaps_r(H, a, b));
    if (op == "covers") return fromChar(GEOSCovers_r(H, a, b));
    if (op == "equals") return fromChar(GEOSEquals_r(H, a, b));
    if (op == "crosses") return fromChar(GEOSCrosses_r(H, a, b));
    if (op == "disjoint") return fromChar(GEOSDisjoint_r(H, a, b));
    if (op == "within") return fromChar(GEOSWithin_r(H, a, b));
    if (op == "prepintersects") return prep(in, 0);
    if (op == "prepcontains") return prep(in, 1);
    if (op == "prepcontainsproperly") return prep(in, 2);
    if (op == "prepcovers") return prep(in, 3);
    if (op == "preptouches") return prep(in, 4);
    if (op == "preprelate") return prep(in, 5);
    if (op == "preprelatepattern") return prep(in, 6);
    if (op == "relateold") {   // the pre-RelateNG implementation (relate::RelateComputer, geomgraph): C++ API, same wrapper shape as capi `execute`
        Res r;
        try {
            auto im = geos::operation::relate::RelateOp::relate(reinterpret_cast<const geos::geom::Geometry*>(a), reinterpret_cast<const geos::geom::Geometry*>(b));
            r.bytes = im->toString();
        } catch (const std::exception& e) { g_err = e.what(); r.err = true; }
        return r;
    }
    if (op == "makevalid") return fromGeom(GEOSMakeValid_r(H, a));
    if (op == "makevalidstructure") {
        GEOSMakeValidParams* p = GEOSMakeValidParams_create_r(H);
        GEOSMakeValidParams_setMethod_r(H, p, GEOS_MAKE_VALID_STRUCTURE);
        GEOSGeometry* g = GEOSMakeValidWithParams_r(H, a, p);
        GEOSMakeValidParams_destroy_r(H, p);
        return fromGeom(g);
    }
    if (op == "polygonize") { const GEOSGeometry* v[1] = {a}; return fromGeom(GEOSPolygonize_r(H, v, 1)); }
    if (op == "polygonizevalid") { const GEOSGeometry* v[1] = {a}; return fromGeom(GEOSPolygonize_valid_r(H, v, 1)); }
    if (op == "polygonizefull") {
        GEOSGeometry *c = nullptr, *d = nullptr, *i = nullptr;
        GEOSGeometry* g = GEOSPolygonize_full_r(H, a, &c, &d, &i);
        Res r = fromGeom(g);
        if (!r.err) { r.bytes += "|" + wkb(c) + "|" + wkb(d) + "|" + wkb(i); }
        if (c) GEOSGeom_destroy_r(H, c); if (d) GEOSGeom_destroy_r(H, d); if (i) GEOSGeom_destroy_r(H, i);
        return r;
    }
    if (op == "buildarea") return fromGeom(GEOSBuildArea_r(H, a));
    if (op == "convexhull") return fromGeom(GEOSConvexHull_r(H, a));
    if (op == "pointonsurface") return fromGeom(GEOSPointOnSurface_r(H, a));
    if (op == "mic") return fromGeom(GEOSMaximumInscribedCircle_r(H, a, in.p));
    if (op == "lec") return fromGeom(GEOSLargestEmptyCircle_r(H, a, nullptr, in.p));
    if (op == "node") return fromGeom(GEOSNode_r(H, a));
    if (op == "snap") return fromGeom(GEOSSnap_r(H, a, b, in.p));
    fprintf(stderr, "unknown op %s\n", op.c_str()); exit(2);
}

// ------------------------------------------------------------------------------------------------ leak attribution
static std::string g_logbase;
static long g_leakAllocs = 0;         // allocations reported leaked so far
static long g_leakChecks = 0;
static long g_heapGrew = 0;

static size_t liveHeap() {
#if HAVE_ASAN
    return __sanitizer_get_current_allocated_bytes();
#else
    return 0;
#endif
}

// Asks LeakSanitizer for a (recoverable) check.  Reports are cumulative, so the new report is compared with the previous
// one: returns the comma-joined GEOS functions that allocated directly-leaked blocks whose object count grew ("" = no new leak).
static std::map<std::string, long> g_leakObjs;
static std::streamoff g_logOff = 0;
static std::string newLeak() {
#if HAVE_ASAN
    g_leakChecks++;
    if (!__lsan_do_recoverable_leak_check()) return "";
    std::string path = g_logbase + "." + std::to_string((long) getpid());
    std::ifstream f(path, std::ios::binary); if (!f) return "unreadable-lsan-report";
    f.seekg(0, std::ios::end); std::streamoff end = f.tellg(); if (end < g_logOff) g_logOff = 0;
    f.seekg(g_logOff); std::string text((size_t) (end - g_logOff), '\0'); f.read(&text[0], (std::streamsize) text.size()); g_logOff = end;
    size_t last = text.rfind("detected memory leaks"); if (last == std::string::npos) return "unreadable-lsan-report";
    std::istringstream is(text.substr(last)); std::string line; std::map<std::string, long> cur; long allocs = -1;
    bool inDirect = false, named = false; long objs = 0;
    auto flush = [&]() { if (inDirect && !named) cur["unknown"] += objs; };
    while (std::getline(is, line)) {
        if (line.find("leak of ") != std::string::npos && line.find("allocated from") != std::string::npos) {
            flush(); inDirect = line.compare(0, 6, "Direct") == 0; named = false;
            size_t q = line.find(" in "); objs = q == std::string::npos ? 1 : std::atol(line.c_str() + q + 4);
        } else if (inDirect && !named) {
            size_t q = line.find(" in geos::");
            if (q != std::string::npos) { std::string fn = line.substr(q + 10); size_t e = fn.find('('); if (e != std::string::npos) fn = fn.substr(0, e);
                for (auto& c : fn) if (c == ' ' || c == ',') c = '_';
                cur[fn] += objs; named = true; }
        }
        size_t q = line.find("leaked in "); if (line.find("SUMMARY:") != std::string::npos && q != std::string::npos) allocs = std::atol(line.c_str() + q + 10);
    }
    flush();
    std::string where;
    for (auto& kv : cur) if (kv.second > g_leakObjs[kv.first]) { if (!where.empty()) where += ","; where += kv.first; }
    for (auto& kv : cur) g_leakObjs[kv.first] = std::max(g_leakObjs[kv.first], kv.second);
    if (where.empty() && allocs > g_leakAllocs) where = "unknown";
    g_leakAllocs = std::max(g_leakAllocs, allocs);
    return where;
#else
    return "";
#endif
}

// ------------------------------------------------------------------------------------------------ one observation
static void callToken(char* b, size_t nb, const Res& res, long polls, const std::string& clean) {
    bool req = Interrupt::check();
    if (res.err) {
        bool intr = g_err.find("nterrupt") != std::string::npos;
        snprintf(b, nb, "%s polls=%ld req=%d msg=%d", intr ? "int" : "err", polls, req ? 1 : 0, intr ? 1 : 0);
    } else {
        snprintf(b, nb, "done polls=%ld req=%d same=%d", polls, req ? 1 : 0, res.bytes == clean ? 1 : 0);
    }
}

static void armCallback(int act, long k) { g_polls = 0; g_act = act; g_k = k; g_err.clear(); }

// clean run: benign counting callback; returns polls
static Res cleanRun(const std::string& op, const Input& in, long& N, bool trace) {
    GEOS_interruptCancel(); GEOS_interruptRegisterCallback(cb);
    armCallback(0, 0); g_trace = trace; if (trace) { g_siteSeq.clear(); g_ctxSeq.clear(); g_ctxIds.clear(); }
    Res r = runOp(op, in);
    g_trace = false; N = g_polls;
    return r;
}

static std::string observe(const std::string& op, const Input& in, const std::string& clean, const std::string& mode, long k) {
    std::string wa = wkb(in.a), wb = wkb(in.b);
    GEOS_interruptCancel(); GEOS_interruptRegisterCallback(cb);
    GEOSContextHandle_t h2 = nullptr;
    char first[160], second[160];
    {
        if (mode == "clean") armCallback(0, 0);
        else if (mode == "at") armCallback(1, k);
        else if (mode == "pre") { armCallback(0, 0); GEOS_interruptRequest(); }
        else if (mode == "cancel") { armCallback(0, 0); GEOS_interruptRequest(); GEOS_interruptCancel(); }
        else if (mode == "cbcancel") { armCallback(2, k); GEOS_interruptRequest(); }
        else if (mode == "init") { armCallback(0, 0); GEOS_interruptRequest(); h2 = GEOS_init_r(); GEOS_finish_r(h2); }
        else { fprintf(stderr, "unknown mode %s\n", mode.c_str()); exit(2); }
    }
    // live heap right before / right after the first call (its result already released; no harness allocation in between:
    // tokens go to stack buffers, g_err has reserved capacity)
    size_t heap0 = liveHeap();
    {
        Res r1 = runOp(op, in);
        callToken(first, sizeof first, r1, g_polls, clean);
    }
    size_t heap1 = liveHeap();
    // following benign call: NO GEOS_interruptCancel() in between (the property says none is needed)
    {
        armCallback(0, 0);
        Res r2 = runOp(op, in);
        callToken(second, sizeof second, r2, g_polls, clean);
    }
    bool inputsSame = wkb(in.a) == wa && wkb(in.b) == wb;
    std::string leak;
    if (heap1 > heap0) { leak = newLeak(); g_heapGrew++; }
    GEOS_interruptCancel();
    return std::string(first) + " ; " + second + " ; inputs=" + (inputsSame ? "1" : "0") + " leak=" + (leak.empty() ? "0" : "1:" + leak);
}

// ------------------------------------------------------------------------------------------------ proto stream
static std::vector<std::vector<char>> g_tab;     // callback tables
static long g_proc = 0;                          // index of the current process() call of the script
static void tabAct(int id) {
    if (id >= (int) g_tab.size() || g_tab[id].empty()) return;
    char a = g_tab[id][(size_t) ((g_proc - 1) % (long) g_tab[id].size())];
    if (a == 'q') Interrupt::request(); else if (a == 'c') Interrupt::cancel();
}
static void cbf0() { tabAct(0); } static void cbf1() { tabAct(1); } static void cbf2() { tabAct(2); } static void cbf3() { tabAct(3); }
static Interrupt::Callback* const CBF[4] = {cbf0, cbf1, cbf2, cbf3};
static std::string cbName(Interrupt::Callback* c) { if (!c) return "n"; for (int i = 0; i < 4; i++) if (c == CBF[i]) return std::to_string(i); return "?"; }

static std::vector<std::string> split(const std::string& s) { std::istringstream is(s); std::vector<std::string> v; std::string t; while (is >> t) v.push_back(t); return v; }

// S <ncb> {<len> <acts>}... | ops     acts: string over n,q,c ; ops: q c k g<id> gn p i
static std::string runScript(const std::vector<std::string>& tk) {
    size_t p = 1; int ncb = std::stoi(tk[p++]); g_tab.assign(4, {});
    for (int i = 0; i < ncb; i++) { int len = std::stoi(tk[p++]); std::string a = len ? tk[p++] : std::string(); g_tab[i].assign(a.begin(), a.end()); }
    if (tk[p++] != "|") return "bad-line";
    Interrupt::cancel(); Interrupt::registerCallback(nullptr); g_proc = 0;
    std::string out;
    for (; p < tk.size(); p++) {
        const std::string& o = tk[p]; std::string r;
        if (o == "q") { Interrupt::request(); r = "-"; }
        else if (o == "c") { Interrupt::cancel(); r = "-"; }
        else if (o == "k") { r = Interrupt::check() ? "1" : "0"; }
        else if (o == "i") { GEOSContextHandle_t h = GEOS_init_r(); GEOS_finish_r(h); r = "-"; }
        else if (o[0] == 'g') { Interrupt::Callback* nc = o == "gn" ? nullptr : CBF[o[1] - '0']; r = cbName(Interrupt::registerCallback(nc)); }
        else if (o == "p") { g_proc++; try { Interrupt::process(); r = "f"; } catch (const geos::util::GEOSException& e) { r = std::string(e.what()).find("Interrupted") != std::string::npos ? "t" : "x"; } }
        else r = "bad-op";
        if (!out.empty()) out += ' '; out += r;
    }
    Interrupt::cancel(); Interrupt::registerCallback(nullptr);
    return out;
}

static std::string genScript(Rng& r, Out& out) {
    int ncb = r.range(0, 4); std::string s = "S " + std::to_string(ncb);
    for (int i = 0; i < ncb; i++) { int len = r.range(0, 5); s += " " + std::to_string(len); if (len) { std::string a; for (int j = 0; j < len; j++) a += "nnqc"[r.below(4)]; s += " " + a; } }
    s += " |"; int n = r.range(1, 40);
    for (int i = 0; i < n; i++) {
        switch (r.below(10)) {
        case 0: s += " q"; out.count("proto_request"); break;
        case 1: s += " c"; out.count("proto_cancel"); break;
        case 2: case 3: s += " k"; out.count("proto_check"); break;
        case 4: if (ncb && r.chance(80)) s += " g" + std::to_string(r.below(ncb)); else s += " gn"; out.count("proto_register"); break;
        case 5: if (r.chance(30)) { s += " i"; out.count("proto_init"); } else { s += " k"; out.count("proto_check"); } break;
        default: s += " p"; out.count("proto_process"); }
    }
    return s;
}


// ------------------------------------------------------------------------------------------------ unwind stream
// Exception transparency of the real noding::ValidatingNoder (the handler every floating-precision overlay runs under): which
// exception LEAVES computeNodes for each exception raised below it — by the wrapped noder, by the validation of its output
// (TopologyException for a missed crossing) or by a checkpoint poll inside that validation (InterruptedException).
//   W <inner> <output> <nl> <P> <j>     inner : none | interrupted | topology | illegalarg | runtime | logic   (thrown by the wrapped noder)
//                                       output: valid | crossing   (what the wrapped noder hands over when it does not throw)
//                                       nl    : 2*nl parallel segments (dense linework); P : polls of an uninterrupted validation (measured)
//                                       j     : the callback requests an interrupt at poll j of the validation (0 = never)
//   expect:  none | <class> msg=<message unchanged 0/1>      class = dynamic class of the exception leaving computeNodes
struct StubNoder : public geos::noding::Noder {
    std::string inner; std::vector<geos::noding::SegmentString*>* out = nullptr;
    void computeNodes(std::vector<geos::noding::SegmentString*>*) override {
        if (inner == "interrupted") throw geos::util::InterruptedException();
        if (inner == "topology") throw geos::util::TopologyException("stub noder failed");
        if (inner == "illegalarg") throw geos::util::IllegalArgumentException("stub noder argument");
        if (inner == "runtime") throw std::runtime_error("stub noder runtime_error");
        if (inner == "logic") throw std::logic_error("stub noder logic_error");
    }
    std::vector<geos::noding::SegmentString*>* getNodedSubstrings() const override { return out; }
};
static const char* innerMessage(const std::string& inner) {
    return inner == "interrupted" ? "InterruptedException: Interrupted!" : inner == "topology" ? "TopologyException: stub noder failed" :
           inner == "illegalarg" ? "IllegalArgumentException: stub noder argument" : inner == "runtime" ? "stub noder runtime_error" : "stub noder logic_error";
}
static std::vector<geos::noding::SegmentString*>* denseStrings(int nl, bool crossing) {
    auto* v = new std::vector<geos::noding::SegmentString*>();
    auto seg = [&](double x0, double y0, double x1, double y1) { auto cs = new geos::geom::CoordinateSequence(0u, false, false);
        cs->add(geos::geom::Coordinate(x0, y0)); cs->add(geos::geom::Coordinate(x1, y1)); v->push_back(new geos::noding::NodedSegmentString(cs, false, false, nullptr)); };
    for (int i = 0; i < 2 * nl; i++) seg(i * 0.0005, 0.0, i * 0.0005 + 1.0, 1.0);
    if (crossing) { seg(5.0, 0.0, 6.0, 1.0); seg(5.0, 1.0, 6.0, 0.0); }
    return v;
}
// returns the observation; polls = number of polls seen
static std::string runUnwind(const std::string& inner, const std::string& output, int nl, long j, long& polls) {
    StubNoder stub; stub.inner = inner; if (inner == "none") stub.out = denseStrings(nl, output == "crossing");
    geos::noding::ValidatingNoder vn(stub);
    GEOS_interruptCancel(); GEOS_interruptRegisterCallback(cb); armCallback(j > 0 ? 1 : 0, j);
    std::string cls = "none", msg;
    try { vn.computeNodes(nullptr);
          std::vector<geos::noding::SegmentString*>* res = vn.getNodedSubstrings(); if (res) { for (auto* ss : *res) delete ss; delete res; } }
    catch (const geos::util::InterruptedException& e) { cls = "interrupted"; msg = e.what(); }
    catch (const geos::util::TopologyException& e) { cls = "topology"; msg = e.what(); }
    catch (const geos::util::IllegalArgumentException& e) { cls = "illegalarg"; msg = e.what(); }
    catch (const geos::util::GEOSException& e) { cls = "geos"; msg = e.what(); }
    catch (const std::runtime_error& e) { cls = "runtime"; msg = e.what(); }
    catch (const std::logic_error& e) { cls = "logic"; msg = e.what(); }
    catch (const std::exception& e) { cls = "std"; msg = e.what(); }
    catch (...) { cls = "unknown"; }
    polls = g_polls; GEOS_interruptCancel();
    if (cls == "none") return cls;
    bool same;
    if (inner != "none") same = msg == innerMessage(inner);
    else if (cls == "interrupted") same = msg == "InterruptedException: Interrupted!";
    else same = msg.find("found non-noded intersection") != std::string::npos;      // the validator's own message
    return cls + " msg=" + (same ? "1" : "0");
}
static void genUnwind(Rng& r, Out& out) {
    static const char* const INNER[] = {"interrupted", "topology", "illegalarg", "runtime", "logic"};
    int kind = (int) r.below(10);
    if (kind < 3) { std::string in = INNER[r.below(5)]; long polls = 0; out.count("unwind_inner_throws." + in);
        out.emit("W " + in + " valid 0 0 0", runUnwind(in, "valid", 0, 0, polls)); return; }
    if (kind < 5) { int nl = r.range(2, 40); bool cr = r.chance(60); long polls = 0; out.count(cr ? "unwind_small_crossing" : "unwind_small_valid");
        out.emit("W none " + std::string(cr ? "crossing" : "valid") + " " + std::to_string(nl) + " 0 0", runUnwind("none", cr ? "crossing" : "valid", nl, 0, polls)); return; }
    // dense: measure P, then interrupt at a poll of the validation
    int nl = r.range(230, 420); long P = 0; bool cr = kind == 5;
    std::string clean = runUnwind("none", cr ? "crossing" : "valid", nl, 0, P);
    out.count("unwind_dense"); out.count("unwind_validation_polls", P);
    if (cr || P == 0) { out.emit("W none " + std::string(cr ? "crossing" : "valid") + " " + std::to_string(nl) + " " + std::to_string(P) + " 0", clean); return; }
    long j = 1 + (long) r.below((uint64_t) P + 1);      // 1..P+1 (P+1: never reached)
    long p2 = 0; out.count(j <= P ? "unwind_interrupt_in_validation" : "unwind_interrupt_beyond");
    out.emit("W none valid " + std::to_string(nl) + " " + std::to_string(P) + " " + std::to_string(j), runUnwind("none", "valid", nl, j, p2));
}

// ------------------------------------------------------------------------------------------------ main
static std::vector<long> pickK(Rng& r, long N, bool thorough) {
    std::vector<long> ks;
    if (N <= 0) return ks;
    long all = thorough ? 24 : 7;
    if (N <= all) { for (long k = 1; k <= N; k++) ks.push_back(k); return ks; }
    ks = {1, 2, N - 1, N, (N + 1) / 2};
    long strata = all - 5;
    for (long i = 0; i < strata; i++) { long lo = 1 + i * N / strata, hi = std::max(lo, (i + 1) * N / strata); ks.push_back(lo + (long) r.below((uint64_t) (hi - lo + 1))); }
    // every distinct call-stack context of a poll is interrupted at its first and at its last occurrence (and once in between)
    { std::map<int, std::vector<long>> occ; for (size_t i = 0; i < g_ctxSeq.size() && (long) i < N; i++) occ[g_ctxSeq[i]].push_back((long) i + 1);
      long budget = thorough ? 24 : 16;
      for (auto& kv : occ) { if (budget <= 0) break; const std::vector<long>& v = kv.second;
          ks.push_back(v.front()); budget--; if (v.size() > 1) { ks.push_back(v.back()); budget--; } if (v.size() > 2) { ks.push_back(v[1 + r.below(v.size() - 2)]); budget--; } } }
    std::sort(ks.begin(), ks.end()); ks.erase(std::unique(ks.begin(), ks.end()), ks.end());
    return ks;
}

static std::string nBucket(long N) { return N == 0 ? "0" : N == 1 ? "1" : N <= 4 ? "2-4" : N <= 16 ? "5-16" : N <= 64 ? "17-64" : N <= 256 ? "65-256" : ">256"; }

int main(int argc, char** argv) {
    if (argc < 3) { fprintf(stderr, "usage\n"); return 2; }
    std::string stream = argv[1];
#if HAVE_ASAN
    g_logbase = std::string(argc >= 5 ? argv[4] : "/tmp/c14-replay") + ".lsan";
    __sanitizer_set_report_path(g_logbase.c_str());
#endif
    H = newCtx();
    g_err.reserve(8192);
    { Dl_info pi; void* pa = (void*) &geos::util::Interrupt::process;
      // resolve through the PLT: dladdr on the real symbol
      void* real = dlsym(RTLD_DEFAULT, "_ZN4geos4util9Interrupt7processEv"); if (real) pa = real;
      g_processLo = pa; g_processHi = (char*) pa + 4096;
      if (dladdr(pa, &pi) && pi.dli_saddr) { g_processLo = pi.dli_saddr; }
      // upper bound: Interrupt::interrupt follows process in the object; 4 KiB is a safe over-approximation only if no poll
      // site lives there, so narrow it with the next symbol when available
      void* nxt = dlsym(RTLD_DEFAULT, "_ZN4geos4util9Interrupt9interruptEv");
      if (nxt && nxt > g_processLo && (char*) nxt < (char*) g_processLo + 4096) g_processHi = nxt; else g_processHi = (char*) g_processLo + 256; }
    int rc = 0;
    if (stream == "replay") {
        std::ifstream f(argv[2]); std::string line;
        while (std::getline(f, line)) {
            if (line.empty()) continue;
            auto tk = split(line);
            if (tk[0] == "S") { std::cout << runScript(tk) << "\n"; continue; }
            if (tk[0] == "W" && tk.size() >= 6) { long polls = 0; std::cout << runUnwind(tk[1], tk[2], std::stoi(tk[3]), std::stol(tk[5]), polls) << "\n"; continue; }
            if (tk[0] != "O" || tk.size() < 7) { std::cout << "bad-line\n"; continue; }
            const OpDef* od = findOp(tk[1]); if (!od) { std::cout << "bad-op\n"; continue; }
            Input in = makeInput(od->in, std::stoull(tk[2]), std::stoi(tk[3]));
            long N = 0; Res clean = cleanRun(tk[1], in, N, false);
            if (clean.err) std::cout << "clean-run-error " << g_err << "\n";
            else {
                if (N != std::stol(tk[4])) std::cout << "note: N is now " << N << "\n";
                std::cout << observe(tk[1], in, clean.bytes, tk[5], std::stol(tk[6])) << "\n";
            }
            freeInput(in);
        }
    } else if (stream == "proto") {
        if (argc < 5) return 2;
        uint64_t seed = std::stoull(argv[2]); long n = std::stol(argv[3]); Out out(argv[4]); Rng r(seed);
        for (long i = 0; i < n; i++) { std::string c = genScript(r, out); out.emit(c, runScript(split(c))); }
    } else if (stream == "unwind") {
        if (argc < 5) return 2;
        uint64_t seed = std::stoull(argv[2]); long n = std::stol(argv[3]); Out out(argv[4]); Rng r(seed);
        for (long i = 0; i < n; i++) genUnwind(r, out);
    } else if (stream == "ops") {
        if (argc < 5) return 2;
        uint64_t seed = std::stoull(argv[2]); long n = std::stol(argv[3]); Rng r(seed);
        bool thorough = argc >= 6 && std::string(argv[5]) == "thorough";
        {
            Out out(argv[4]);
            for (long i = 0; i < n; i++) {
                // operations round-robin (offset by seed) so that every op is visited by every shard set
                // every 10th (operation, input) pair is a dense-linework input for one of the operations whose checkpoints are
                // only reached by > 100000 candidate pairs (round-robin over DEEP_OPS): a regular share of every run, not a matter of luck
                static const char* const DEEP_OPS[] = {"union", "intersection", "difference", "symdifference", "unaryunion", "node", "relate", "intersects", "prepintersects", "relateold"};
                static const int NDEEP = (int) (sizeof DEEP_OPS / sizeof DEEP_OPS[0]);
                bool deep = (i % 10) == 9;
                const OpDef& od = deep ? *findOp(DEEP_OPS[(size_t) ((seed + (uint64_t) (i / 10)) % (uint64_t) NDEEP)]) : OPS[(size_t) ((seed + (uint64_t) i) % (uint64_t) NOPS)];
                std::string op = od.name;
                uint64_t iseed = r.next() % 1000000007ULL;
                int size = deep ? 4 : thorough ? (r.chance(12) ? 3 : (int) r.below(3)) : (r.chance(15) ? 0 : r.chance(60) ? 1 : 2);
                if (deep) out.count("dense_linework_inputs." + op);
                Input in = makeInput(od.in, iseed, size);
                if (!in.a) { out.count("skip_input_build_failed"); continue; }
                long N = 0, N2 = 0;
                Res warm = cleanRun(op, in, N, false);            // warm-up (lazy statics), also determinism probe
                auto t0c = std::chrono::steady_clock::now();
                Res clean = cleanRun(op, in, N2, true);
                double cleanSecs = std::chrono::duration<double>(std::chrono::steady_clock::now() - t0c).count();
                if (clean.err || warm.err) { out.count("skip_clean_error." + op); freeInput(in); continue; }
                if (warm.bytes != clean.bytes || N != N2) { out.count("skip_nondeterministic." + op); freeInput(in); continue; }
                out.count("N." + op + "." + nBucket(N)); out.count("Nall." + nBucket(N)); out.count("inputs." + op);
                out.count("polls_total", N); out.count("poll_contexts_total", (long) g_ctxIds.size());
                std::string head = "O " + op + " " + std::to_string(iseed) + " " + std::to_string(size) + " " + std::to_string(N) + " ";
                std::vector<const std::string*> sites = g_siteSeq;
                auto emit = [&](const std::string& mode, long k) {
                    // trailing token: function containing the poll at which this case interrupts (evidence / signature only)
                    long at = (mode == "at") ? k : (mode == "pre" || mode == "cbcancel") ? 1 : 0;
                    std::string site = (at >= 1 && at <= (long) sites.size()) ? *sites[(size_t) at - 1] : std::string("-");
                    out.emit(head + mode + " " + std::to_string(k) + " " + site, observe(op, in, clean.bytes, mode, k));
                    out.count("mode." + mode);
                };
                emit("clean", 0);
                // (a dense-linework input costs seconds per interrupted run under ASan: it keeps the quick tier's number of interruption points in
                // the thorough tier too — first / last / one middle occurrence of every poll context, 7 strata)
                // an input whose uninterrupted run already takes seconds under ASan gets the quick tier's number of interruption points in the
                // thorough tier too, and only five points (first, second, middle, last two) when it takes more than ten seconds
                std::vector<long> ks = pickK(r, N, thorough && !deep && cleanSecs < 2.0);
                if (cleanSecs > 10.0 && N > 5) { ks = {1, 2, (N + 1) / 2, N - 1, N}; out.count("slow_input_five_points"); }
                for (long k : ks) emit("at", k);
                emit("at", N + 1);
                emit("pre", 0); emit("cancel", 0); emit("cbcancel", 1); emit("init", 0);
                if (N >= 2) emit("cbcancel", 2);
                freeInput(in);
            }
            for (auto& kv : g_sites) out.count("site." + kv.first, kv.second);
            out.count("lsan_checks", g_leakChecks); out.count("heap_grew_cases", g_heapGrew);
        }
    } else { fprintf(stderr, "unknown stream\n"); return 2; }
    GEOS_interruptRegisterCallback(nullptr);
    GEOS_finish_r(H);
#if HAVE_ASAN
    // leaks already attributed to a case appear as leak=1 in the expect file; anything else makes the exit code non-zero
    std::string late = newLeak();
    if (!late.empty()) { fprintf(stderr, "unattributed leak allocated in: %s\n", late.c_str()); fprintf(stderr, "UNATTRIBUTED-LEAK see %s.%ld\n", g_logbase.c_str(), (long) getpid()); rc = 23; }
    fflush(stdout); fflush(stderr);
    _exit(rc);
#endif
    return rc;
}
