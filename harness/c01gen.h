// Generators and exact lattice facts of C01 beyond gridgen.h:
//  * noContactAreaPair: a polygonal target with SEVERAL rings (holes, MultiPolygon elements, nested frames) and an areal test
//    geometry whose boundary never touches the target's boundary — the inputs on which the prepared-polygon fast paths are
//    decided by point-in-area tests alone (last step: every ring of the target against the test area);
//  * prepFacts: the facts read by the decision core of the prepared-polygon predicates (Model/Relate/PrepPoly.lean), computed
//    on the integer lattice with exact arithmetic, independently of the GEOS locators / noders.
#pragma once
#include "c02gen.h"

namespace vh {

inline void scaleBy(GGeom& g, long k) { for (auto& e : g.elems) for (auto& rg : e.rings) for (auto& p : rg) { p.x *= k; p.y *= k; } }
inline void shiftBy(GElem& e, long dx, long dy) { for (auto& rg : e.rings) for (auto& p : rg) { p.x += dx; p.y += dy; } }
inline void ringBox(const std::vector<IPt>& rg, long& x0, long& y0, long& x1, long& y1) {
    x0 = y0 = 1L << 40; x1 = y1 = -(1L << 40);
    for (auto& p : rg) { x0 = std::min(x0, p.x); x1 = std::max(x1, p.x); y0 = std::min(y0, p.y); y1 = std::max(y1, p.y); } }
inline std::vector<IPt> rectRing(long x0, long y0, long x1, long y1) { return {{x0, y0}, {x1, y0}, {x1, y1}, {x0, y1}, {x0, y0}}; }

// no ring / line of a shares a point with a ring / line of b (exact)
inline bool noContact(const GGeom& a, const GGeom& b) {
    for (auto& ea : a.elems) if (!ea.empty && ea.kind >= 1) for (auto& ra : ea.rings)
        for (auto& eb : b.elems) if (!eb.empty && eb.kind >= 1) for (auto& rb : eb.rings) if (ringsMeet(ra, rb)) return false;
    return true; }

// exact location of p in the areal part of g: 'I' interior, 'B' boundary, 'E' exterior; elements in order, the first one that
// does not answer exterior decides (SimplePointInAreaLocator semantics; unique for a valid polygonal geometry)
inline char locateArea(const GGeom& g, const IPt& p) {
    for (auto& e : g.elems) { if (e.kind != 2 || e.empty || e.rings.empty()) continue;
        int l = GridGen::locate(e.rings[0], p); if (l == 0) return 'B'; if (l < 0) continue;
        bool inHole = false, onHole = false;
        for (size_t k = 1; k < e.rings.size(); k++) { int lh = GridGen::locate(e.rings[k], p); if (lh == 0) onHole = true; else if (lh > 0) inHole = true; }
        if (onHole) return 'B'; if (!inHole) return 'I'; }
    return 'E'; }

// representative points of a polygonal target in the order of ComponentCoordinateExtracter: per element the shell's first vertex, then each hole's
inline std::vector<IPt> repPoints(const GGeom& t) { std::vector<IPt> v;
    for (auto& e : t.elems) if (!e.empty) for (auto& rg : e.rings) if (!rg.empty()) v.push_back(rg[0]); return v; }

struct NoContact { GGeom T, B; bool ok = false; };

// a polygonal target with several rings, all coordinates EVEN (so that frames at odd coordinates avoid its vertices)
inline GGeom multiRingTarget(Rng& r, GridGen& gen) {
    GGeom T; int m = (int) r.below(100); int keepSpan = gen.span; gen.setPartner(GGeom{}, 0);
    if (m < 30) { Cheese c = makeCheese(r, gen); T.container = 0; T.elems.push_back(c.poly); gen.cnt("nc_target_cheese"); }
    else if (m < 45) { gen.span = 10; GElem best = gen.polygon(); for (int t = 0; t < 6 && best.rings.size() < 2; t++) best = gen.polygon();
        T.container = 0; T.elems.push_back(best); gen.cnt("nc_target_polygon"); }
    else if (m < 80) { gen.span = 5; T.container = 1; int ne = r.range(2, 4); std::vector<int> cells = {0, 1, 2, 3}; for (size_t i = 4; i > 1; i--) std::swap(cells[i - 1], cells[r.below(i)]);
        for (int q = 0; q < ne; q++) { GElem e = gen.polygon(); shiftBy(e, (cells[(size_t) q] % 2) * 8, (cells[(size_t) q] / 2) * 8); T.elems.push_back(e); if (!gen.valid(T)) T.elems.pop_back(); }
        if (T.elems.empty()) T.elems.push_back(gen.polygon());
        if (T.elems.size() == 1 && r.chance(50)) T.container = 0;
        gen.cnt("nc_target_multi"); }
    else { T = gen.nestedFrames(); gen.cnt("nc_target_nested_frames"); }
    gen.span = keepSpan; scaleBy(T, 2); return T; }

// one piece of the test geometry: a rectangle (sometimes with a cut corner, sometimes a frame with a hole) placed relative to a ring of T
inline bool ncPiece(Rng& r, const GGeom& T, GElem& out) {
    std::vector<const std::vector<IPt>*> rings; for (auto& e : T.elems) if (!e.empty) for (auto& rg : e.rings) rings.push_back(&rg);
    if (rings.empty()) return false;
    long X0 = 1L << 40, Y0 = X0, X1 = -X0, Y1 = -X0; for (auto* rg : rings) { long a, b, c, d; ringBox(*rg, a, b, c, d); X0 = std::min(X0, a); Y0 = std::min(Y0, b); X1 = std::max(X1, c); Y1 = std::max(Y1, d); }
    auto odd = [&](long lo, long hi) { if (hi < lo) hi = lo; long v = lo + (long) r.below((uint64_t) (hi - lo + 1)); if ((v & 1) == 0) v += 1; return v; };
    for (int tries = 0; tries < 12; tries++) {
        int how = (int) r.below(100); long x0, y0, x1, y1; std::vector<IPt> hole;
        const std::vector<IPt>& rg = *rings[r.below(rings.size())]; long a, b, c, d; ringBox(rg, a, b, c, d);
        if (how < 40) { long m0 = 1 + 2 * r.range(0, 1), m1 = 1 + 2 * r.range(0, 1); x0 = a - m0; y0 = b - m0; x1 = c + m1; y1 = d + m1; }          // swallow this ring
        else if (how < 60) { if (c - a < 4 || d - b < 4) continue; x0 = odd(a + 1, c - 3); x1 = odd(x0 + 2, c - 1); y0 = odd(b + 1, d - 3); y1 = odd(y0 + 2, d - 1); if (x1 <= x0 || y1 <= y0) continue; }   // inside this ring's box
        else if (how < 72) { long m = 1 + 2 * r.range(0, 2); x0 = X0 - m; y0 = Y0 - m; x1 = X1 + m; y1 = Y1 + m;                                   // swallow everything ...
            if (r.chance(50)) { hole = rectRing(a - 1, b - 1, c + 1, d + 1); } }                                                                      // ... except what lies in a hole around one ring
        else { x0 = odd(X0 - 3, X1 + 1); x1 = odd(x0 + 2, X1 + 3); y0 = odd(Y0 - 3, Y1 + 1); y1 = odd(y0 + 2, Y1 + 3); if (x1 <= x0 || y1 <= y0) continue; }   // anywhere
        GElem e; e.kind = 2; std::vector<IPt> sh = rectRing(x0, y0, x1, y1);
        if (hole.empty() && r.chance(30) && x1 - x0 >= 4 && y1 - y0 >= 4) { sh = {{x0, y0}, {x1 - 2, y0}, {x1, y0 + 2}, {x1, y1}, {x0, y1}, {x0, y0}}; }       // cut corner (odd coordinates kept)
        if (r.chance(50)) std::reverse(sh.begin(), sh.end());
        std::rotate(sh.begin(), sh.begin() + (long) r.below(sh.size() - 1), sh.end() - 1); sh.back() = sh.front();
        e.rings.push_back(sh); if (!hole.empty()) { if (!(hole[0].x > x0 && hole[2].x < x1 && hole[0].y > y0 && hole[2].y < y1)) continue; e.rings.push_back(hole); }
        GGeom g; g.container = 0; g.elems.push_back(e);
        if (!noContact(T, g)) continue;
        out = e; return true; }
    return false; }

inline NoContact noContactAreaPair(Rng& r, GridGen& gen) {
    NoContact nc; nc.T = multiRingTarget(r, gen);
    if (!gen.valid(nc.T)) return nc;
    GElem p1; if (!ncPiece(r, nc.T, p1)) return nc;
    nc.B.container = 0; nc.B.elems.push_back(p1);
    if (r.chance(30)) { GElem p2; if (ncPiece(r, nc.T, p2)) { GGeom two; two.container = 1; two.elems = {p1, p2}; if (r.chance(50)) std::swap(two.elems[0], two.elems[1]);
        GGeom a, b; a.elems.push_back(p1); b.elems.push_back(p2);
        if (noContact(a, b) && gen.valid(two)) nc.B = two; } }
    if (!gen.valid(nc.B)) return nc;
    nc.ok = true;
    // which ring of the target decides the last step of the fast paths (exact): position of the first representative point not in the exterior of B
    auto reps = repPoints(nc.T); int first = -1; for (size_t i = 0; i < reps.size(); i++) if (locateArea(nc.B, reps[i]) != 'E') { first = (int) i; break; }
    gen.cnt(first < 0 ? "nc_no_ring_in_test_area" : first == 0 ? "nc_first_ring_in_test_area" : "nc_only_LATER_ring_in_test_area");
    bool anyIn = false; for (auto& e : nc.B.elems) for (auto& rg : e.rings) if (!rg.empty() && locateArea(nc.T, rg[0]) != 'E') anyIn = true;
    if (first > 0) gen.cnt(anyIn ? "nc_later_ring_and_test_point_in_target" : "nc_later_ring_and_test_points_outside_target");
    gen.cnt("nc_pairs"); return nc; }

// ---- the facts of the prepared-polygon decision core, exact on the lattice
struct PrepFacts { std::string testLocs, repLocs; bool segInt = false, proper = false, nonProper = false; };

inline void addLoc(std::string& s, const GGeom& T, const std::vector<IPt>& rg) { if (!rg.empty()) s += locateArea(T, rg[0]); }
// visiting order of Geometry::apply_ro(GeometryComponentFilter*): the collection node first (its coordinate is that of its first non-empty
// element), then every element; a polygon node (shell's first vertex), its shell, its holes; empty components are skipped
inline void elemLocs(std::string& s, const GGeom& T, const GElem& e) { if (e.empty || e.rings.empty() || e.rings[0].empty()) return;
    addLoc(s, T, e.rings[0]); if (e.kind == 2) for (auto& rg : e.rings) addLoc(s, T, rg); }
inline PrepFacts prepFacts(const GGeom& T, const GGeom& G) {
    PrepFacts f;
    if (G.container != 0) { for (auto& e : G.elems) if (!e.empty && !e.rings.empty() && !e.rings[0].empty()) { addLoc(f.testLocs, T, e.rings[0]); break; } }
    for (auto& e : G.elems) elemLocs(f.testLocs, T, e);
    for (auto& p : repPoints(T)) f.repLocs += locateArea(G, p);
    auto sg = [](long v) { return (v > 0) - (v < 0); };
    for (auto& et : T.elems) if (!et.empty) for (auto& rt : et.rings) for (size_t i = 0; i + 1 < rt.size(); i++)
        for (auto& eg : G.elems) if (!eg.empty && eg.kind >= 1) for (auto& rg : eg.rings) for (size_t j = 0; j + 1 < rg.size(); j++) {
            const IPt &a = rt[i], &b = rt[i + 1], &c = rg[j], &d = rg[j + 1];
            if (!segMeet(a, b, c, d)) continue; f.segInt = true;
            bool pr = sg(cross(a, b, c)) * sg(cross(a, b, d)) < 0 && sg(cross(c, d, a)) * sg(cross(c, d, b)) < 0;
            if (pr) f.proper = true; else f.nonProper = true; }
    return f; }

} // namespace vh
