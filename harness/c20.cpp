// C20 correspondence harness.
//   c20 normalize  <seed> <n> <outbase>   groups "base | variants" (ring start / ring direction / element order);
//                                         expect = GEOSNormalize_r outputs + the implementation's own oracle flags
//   c20 construct  <seed> <n> <outbase>   input + GEOS constructions (hull, envelope, centroid, pointOnSurface,
//                                         minimum bounding circle, minimum rotated rectangle, minimum width);
//                                         the driver runs the exact checkers; expect = "ok"
//   c20 invariants <seed> <n> <outbase>   clone / reverse / normalize: dumps, area, length, counts, dimension,
//                                         equalsExact / equalsIdentical; the driver checks them; expect = "ok"
//   c20 replay <stream> <file>            run the case lines in <file> (only the input part is used), print "case\nexpect"
#include "gtree.h"
#include <geos_c.h>
#include <geos/algorithm/MinimumBoundingCircle.h>
#include <geos/algorithm/MinimumDiameter.h>
#include <geos/algorithm/MinimumAreaRectangle.h>
#include <cstdarg>
#include <fstream>
#include <iostream>
#include <functional>

using namespace vh;

static void notice(const char*, ...) {}
static void errorh(const char*, ...) {}

// ---------------------------------------------------------------- token tree
struct TSeq { bool z = false, m = false; std::vector<std::vector<std::string>> pts; };   // each point = its hex tokens
struct TNode { std::string tag; std::vector<TSeq> seqs; std::vector<TNode> kids; };

static TSeq parseSeq(Toks& tk) {
    TSeq s; std::string f = tk.next(); s.z = f.find('z') != std::string::npos; s.m = f.find('m') != std::string::npos;
    size_t n = tk.nat(); size_t d = 2 + s.z + s.m;
    for (size_t i = 0; i < n; i++) { std::vector<std::string> p; for (size_t j = 0; j < d; j++) p.push_back(tk.next()); s.pts.push_back(p); }
    return s;
}
static TNode parseNode(Toks& tk) {
    TNode nd; nd.tag = tk.next();
    if (nd.tag == "P" || nd.tag == "L" || nd.tag == "R" || nd.tag == "C") { nd.seqs.push_back(parseSeq(tk)); return nd; }
    size_t k = tk.nat();
    if (nd.tag == "Y") { for (size_t i = 0; i < k; i++) nd.seqs.push_back(parseSeq(tk)); return nd; }
    for (size_t i = 0; i < k; i++) nd.kids.push_back(parseNode(tk));
    return nd;
}
static void showSeq(const TSeq& s, std::string& o) {
    o += std::string(" xy") + (s.z ? "z" : "") + (s.m ? "m" : "") + " " + std::to_string(s.pts.size());
    for (auto& p : s.pts) for (auto& t : p) { o += ' '; o += t; }
}
static void showNode(const TNode& nd, std::string& o) {
    if (!o.empty()) o += ' ';
    o += nd.tag;
    if (nd.tag == "P" || nd.tag == "L" || nd.tag == "R" || nd.tag == "C") { showSeq(nd.seqs[0], o); return; }
    if (nd.tag == "Y") { o += ' ' + std::to_string(nd.seqs.size()); for (auto& s : nd.seqs) showSeq(s, o); return; }
    o += ' ' + std::to_string(nd.kids.size());
    for (auto& k : nd.kids) showNode(k, o);
}
static double tokVal(const std::string& t) { return frombits(std::stoull(t, nullptr, 16)); }
static bool xyEq(const std::vector<std::string>& a, const std::vector<std::string>& b) { return tokVal(a[0]) == tokVal(b[0]) && tokVal(a[1]) == tokVal(b[1]); }
static bool seqClosed(const TSeq& s) { return s.pts.size() >= 2 && xyEq(s.pts.front(), s.pts.back()); }

// ---------------------------------------------------------------- variants
static void rotateRing(TSeq& s, Rng& r, Out& out) {
    if (s.pts.size() < 3) return;
    std::vector<std::vector<std::string>> open(s.pts.begin(), s.pts.end() - 1);
    size_t k = r.below(open.size());
    if (k) out.count("var_ring_rotated");
    std::rotate(open.begin(), open.begin() + (long) k, open.end());
    open.push_back(open.front());
    s.pts = open;
}
static void reverseSeq(TSeq& s, Out& out) { std::reverse(s.pts.begin(), s.pts.end()); out.count("var_seq_reversed"); }
template <class T> static void shuffle(std::vector<T>& v, size_t from, Rng& r, Out& out) {
    if (v.size() < from + 2) return;
    for (size_t i = v.size() - 1; i > from; i--) { size_t j = from + r.below(i - from + 1); if (i != j) { std::swap(v[i], v[j]); out.count("var_elements_swapped"); } }
}
static void variant(TNode& nd, Rng& r, Out& out) {
    if (nd.tag == "Y") {
        for (auto& s : nd.seqs) { if (r.chance(70)) rotateRing(s, r, out); if (r.chance(50)) reverseSeq(s, out); }
        if (r.chance(70)) shuffle(nd.seqs, 1, r, out);
    } else if (nd.tag == "R" || nd.tag == "L") {
        TSeq& s = nd.seqs[0];
        // only rings that are closed by an identical copy are rotated (the closing copy is regenerated)
        if (seqClosed(s) && s.pts.front() == s.pts.back()) { if (r.chance(70)) rotateRing(s, r, out); }
        if (r.chance(50)) reverseSeq(s, out);
    } else if (nd.tag == "P" || nd.tag == "C") {
    } else if (nd.tag == "K" || nd.tag == "U") {
    } else {
        for (auto& k : nd.kids) variant(k, r, out);
        if (r.chance(80)) shuffle(nd.kids, 0, r, out);
    }
}

// degeneracies the quantifier names: duplicate vertices, flat rings, all-equal rings, closed lines, negative zero
static void degenerate(TNode& nd, Rng& r, Out& out) {
    auto fix = [&](TSeq& s, bool ring) {
        if (s.pts.empty()) return;
        if (!ring && s.pts.size() >= 3 && r.chance(30)) { s.pts.back() = s.pts.front(); out.count("deg_closed_line"); ring = true; }
        if (r.chance(4)) for (auto& p : s.pts) for (size_t j = 0; j < 2; j++) if (tokVal(p[j]) == 0.0 && r.chance(50)) { p[j] = hex(-0.0); out.count("deg_negative_zero"); }
        if (ring && s.pts.size() >= 3) {
            if (r.chance(10)) { size_t i = r.below(s.pts.size() - 1); s.pts.insert(s.pts.begin() + (long) i, s.pts[i]); out.count("deg_duplicate_vertex"); }
            if (r.chance(4)) { size_t i = r.below(s.pts.size() - 1), j = r.below(s.pts.size() - 1); if (i != j && j != 0 && i != 0) { s.pts[j] = s.pts[i]; out.count("deg_revisited_vertex"); } }
            if (r.chance(5)) { for (auto& p : s.pts) p[1] = s.pts[0][1]; out.count("deg_flat_ring"); }
            if (r.chance(2)) { for (auto& p : s.pts) p = s.pts[0]; out.count("deg_all_equal_ring"); }
            s.pts.back() = s.pts.front();
        } else if (s.pts.size() >= 2) {
            if (r.chance(6)) { size_t i = r.below(s.pts.size()); s.pts.insert(s.pts.begin() + (long) i, s.pts[i]); out.count("deg_duplicate_vertex"); }
            if (r.chance(5) && s.pts.size() >= 3) { for (size_t i = 0; i < s.pts.size() / 2; i++) { s.pts[s.pts.size() - 1 - i][0] = s.pts[i][0]; s.pts[s.pts.size() - 1 - i][1] = s.pts[i][1]; } out.count("deg_xy_palindrome_line"); }
        }
    };
    if (nd.tag == "Y") { for (auto& s : nd.seqs) fix(s, true); }
    else if (nd.tag == "R") fix(nd.seqs[0], true);
    else if (nd.tag == "L") fix(nd.seqs[0], false);
    else if (nd.tag == "P" || nd.tag == "C" || nd.tag == "K" || nd.tag == "U") {}
    else {
        for (auto& k : nd.kids) degenerate(k, r, out);
        if (!nd.kids.empty() && nd.kids.size() < 6 && r.chance(8)) { nd.kids.push_back(nd.kids[r.below(nd.kids.size())]); out.count("deg_duplicate_element"); }
    }
}

static std::string lineOf(int srid, const TNode& nd) { std::string o; showNode(nd, o); return std::to_string(srid) + " " + o; }

// ---------------------------------------------------------------- normalize stream
struct Ctx { GEOSContextHandle_t h; GeometryFactory::Ptr gf; };

static std::string normalizeGroup(Ctx& cx, const std::vector<std::string>& geoms, bool& ok) {
    // returns the expect line;  ok=false when a geometry is rejected by the constructors
    std::vector<std::string> nfs; std::vector<std::unique_ptr<Geometry>> keep;
    bool idem = true;
    for (auto& gl : geoms) {
        std::unique_ptr<Geometry> g;
        try { g = buildGeom(gl, cx.gf.get()); } catch (std::exception&) { ok = false; return ""; }
        int rc = GEOSNormalize_r(cx.h, (GEOSGeometry*) g.get());
        if (rc != 0) { nfs.push_back("unsupported"); keep.push_back(nullptr); continue; }
        std::string d1 = dumpGeom(g.get());
        auto g2 = g->clone();
        int rc2 = GEOSNormalize_r(cx.h, (GEOSGeometry*) g2.get());
        if (rc2 != 0 || dumpGeom(g2.get()) != d1) idem = false;
        nfs.push_back(d1); keep.push_back(std::move(g));
    }
    bool canon = true, eqx = true, eqi = true;
    for (size_t i = 1; i < nfs.size(); i++) {
        if (nfs[i] != nfs[0]) canon = false;
        if (keep[0]) {
            if (!keep[i]) { eqx = false; eqi = false; }
            else {
                if (GEOSEqualsExact_r(cx.h, (GEOSGeometry*) keep[0].get(), (GEOSGeometry*) keep[i].get(), 0.0) != 1) eqx = false;
                if (GEOSEqualsIdentical_r(cx.h, (GEOSGeometry*) keep[0].get(), (GEOSGeometry*) keep[i].get()) != 1) eqi = false;
            }
        }
    }
    std::string e;
    for (size_t i = 0; i < nfs.size(); i++) { if (i) e += " | "; e += nfs[i]; }
    e += std::string(" # idem=") + (idem ? "1" : "0") + " canon=" + (canon ? "1" : "0") + " eqx=" + (eqx ? "1" : "0") + " eqi=" + (eqi ? "1" : "0");
    ok = true; return e;
}

static std::vector<std::string> splitBar(const std::string& line, size_t skipToks) {
    auto v = splitToks(line); std::vector<std::string> gs; std::string cur;
    for (size_t i = skipToks; i < v.size(); i++) {
        if (v[i] == "|") { gs.push_back(cur); cur.clear(); } else { if (!cur.empty()) cur += ' '; cur += v[i]; }
    }
    gs.push_back(cur); return gs;
}

static void streamNormalize(Ctx& cx, Rng& r, long n, Out& out) {
    for (long i = 0; i < n; i++) {
        GenCfg cfg; cfg.weird = false; cfg.mixedDims = false; cfg.maxDepth = 2; cfg.maxPts = 7;
        cfg.gridInts = r.chance(60); cfg.curves = r.chance(6);
        out.count(cfg.gridInts ? "coords_grid" : "coords_full_precision");
        GTreeGen gen(r, cfg, &out);
        std::string base = gen.geom();
        auto v = splitToks(base); Toks tk(v); int srid = std::stoi(tk.next());
        TNode root;
        try { root = parseNode(tk); } catch (std::exception&) { out.count("gen_unparsable"); continue; }
        degenerate(root, r, out);
        std::vector<std::string> geoms; geoms.push_back(lineOf(srid, root));
        int nv = r.range(2, 4);
        for (int k = 0; k < nv; k++) { TNode t = root; variant(t, r, out); geoms.push_back(lineOf(srid, t)); }
        bool ok = false; std::string e = normalizeGroup(cx, geoms, ok);
        if (!ok) { out.count("rejected_by_constructor"); continue; }
        std::string c = "N";
        for (size_t k = 0; k < geoms.size(); k++) { c += (k ? " | " : " "); c += geoms[k]; }
        if (e.find("idem=0") != std::string::npos) out.count("impl_not_idempotent");
        if (e.find("canon=0") != std::string::npos) out.count("impl_not_canonical");
        if (e.find("unsupported") != std::string::npos) out.count("impl_unsupported");
        out.emit(c, e);
    }
}

// ---------------------------------------------------------------- main
int main(int argc, char** argv) {
    if (argc < 4) { std::fprintf(stderr, "usage: c20 <stream> <seed> <n> <outbase> | c20 replay <stream> <file>\n"); return 2; }
    Ctx cx; cx.h = GEOS_init_r(); GEOSContext_setNoticeHandler_r(cx.h, notice); GEOSContext_setErrorHandler_r(cx.h, errorh);
    cx.gf = GeometryFactory::create();
    std::string stream = argv[1];
    if (stream == "replay") {
        std::string st = argv[2]; std::ifstream f(argv[3]); std::string line; int bad = 0;
        while (std::getline(f, line)) {
            if (line.empty()) continue;
            if (st == "normalize") {
                bool ok = false; std::string e = normalizeGroup(cx, splitBar(line, 1), ok);
                std::cout << (ok ? e : std::string("rejected")) << "\n";
            } else { std::cout << "unknown-stream\n"; bad = 1; }
        }
        GEOS_finish_r(cx.h); return bad;
    }
    if (argc < 5) return 2;
    uint64_t seed = std::stoull(argv[2]); long n = std::stol(argv[3]);
    {
        Out out(argv[4]); Rng r(seed);
        if (stream == "normalize") streamNormalize(cx, r, n, out);
        else { std::fprintf(stderr, "unknown stream %s\n", stream.c_str()); return 2; }
    }
    GEOS_finish_r(cx.h);
    return 0;
}
