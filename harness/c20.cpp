// C20 correspondence harness.
//   c20 normalize  <seed> <n> <outbase>   groups "base | variants" (ring start / ring direction / element order);
//                                         expect = GEOSNormalize_r outputs + the implementation's own oracle flags
//   c20 construct  <seed> <n> <outbase>   input + GEOS constructions (hull, envelope, centroid, pointOnSurface,
//                                         minimum bounding circle, minimum rotated rectangle, minimum width);
//                                         the driver runs the exact checkers; expect = "ok"
//   c20 invariants <seed> <n> <outbase>   clone / reverse / normalize: dumps, area, length, counts, dimension,
//                                         equalsExact / equalsIdentical; the driver checks them; expect = "ok"
//   c20 compare    <seed> <n> <outbase>   pairs of geometries; expect = signs of a.compareTo(b), b.compareTo(a), a.compareTo(a)
//   c20 pos        <seed> <n> <outbase>   point on surface / interior point: rectilinear (staircase, L, U, comb, cross) shells and
//                                         holes on the integer grid whose horizontal edges sit on candidate scan lines, several
//                                         holes with collinear edges, lattice symmetries; multipolygons, collections, lines, points;
//                                         same line format as construct (sections K, G, S); expect = "ok"
//   c20 sequence   <seed> <n> <outbase>   programs over registers (an object, its clones / reverses / normalised copies /
//                                         elements) with observing calls in between and equalsExact / equalsIdentical /
//                                         compareTo queries; the driver answers from the stateless model; expect = "ok"
//   c20 replay <stream> <file>            run the case lines in <file> (only the input part is used), print "case\nexpect"
#include "gtree.h"
#include <geos_c.h>
#include <set>
#include <geos/algorithm/MinimumBoundingCircle.h>
#include <geos/algorithm/MinimumDiameter.h>
#include <geos/algorithm/MinimumAreaRectangle.h>
#include <cstdarg>
#include <fstream>
#include <iostream>
#include <functional>

using namespace vh;

static void notice(const char*, ...) {}
static void errorh(const char*, ...) {}

// ---------------------------------------------------------------- token tree
struct TSeq { bool z = false, m = false; std::vector<std::vector<std::string>> pts; };   // each point = its hex tokens
struct TNode { std::string tag; std::vector<TSeq> seqs; std::vector<TNode> kids; };

static TSeq parseSeq(Toks& tk) {
    TSeq s; std::string f = tk.next(); s.z = f.find('z') != std::string::npos; s.m = f.find('m') != std::string::npos;
    size_t n = tk.nat(); size_t d = 2 + s.z + s.m;
    for (size_t i = 0; i < n; i++) { std::vector<std::string> p; for (size_t j = 0; j < d; j++) p.push_back(tk.next()); s.pts.push_back(p); }
    return s;
}
static TNode parseNode(Toks& tk) {
    TNode nd; nd.tag = tk.next();
    if (nd.tag == "P" || nd.tag == "L" || nd.tag == "R" || nd.tag == "C") { nd.seqs.push_back(parseSeq(tk)); return nd; }
    size_t k = tk.nat();
    if (nd.tag == "Y") { for (size_t i = 0; i < k; i++) nd.seqs.push_back(parseSeq(tk)); return nd; }
    for (size_t i = 0; i < k; i++) nd.kids.push_back(parseNode(tk));
    return nd;
}
static void showSeq(const TSeq& s, std::string& o) {
    o += std::string(" xy") + (s.z ? "z" : "") + (s.m ? "m" : "") + " " + std::to_string(s.pts.size());
    for (auto& p : s.pts) for (auto& t : p) { o += ' '; o += t; }
}
static void showNode(const TNode& nd, std::string& o) {
    if (!o.empty()) o += ' ';
    o += nd.tag;
    if (nd.tag == "P" || nd.tag == "L" || nd.tag == "R" || nd.tag == "C") { showSeq(nd.seqs[0], o); return; }
    if (nd.tag == "Y") { o += ' ' + std::to_string(nd.seqs.size()); for (auto& s : nd.seqs) showSeq(s, o); return; }
    o += ' ' + std::to_string(nd.kids.size());
    for (auto& k : nd.kids) showNode(k, o);
}
static double tokVal(const std::string& t) { return frombits(std::stoull(t, nullptr, 16)); }
static bool xyEq(const std::vector<std::string>& a, const std::vector<std::string>& b) { return tokVal(a[0]) == tokVal(b[0]) && tokVal(a[1]) == tokVal(b[1]); }
static bool seqClosed(const TSeq& s) { return s.pts.size() >= 2 && xyEq(s.pts.front(), s.pts.back()); }

// ---------------------------------------------------------------- variants
static void rotateRing(TSeq& s, Rng& r, Out& out) {
    if (s.pts.size() < 3) return;
    std::vector<std::vector<std::string>> open(s.pts.begin(), s.pts.end() - 1);
    size_t k = r.below(open.size());
    if (k) out.count("var_ring_rotated");
    std::rotate(open.begin(), open.begin() + (long) k, open.end());
    open.push_back(open.front());
    s.pts = open;
}
static void reverseSeq(TSeq& s, Out& out) { std::reverse(s.pts.begin(), s.pts.end()); out.count("var_seq_reversed"); }
template <class T> static void shuffle(std::vector<T>& v, size_t from, Rng& r, Out& out) {
    if (v.size() < from + 2) return;
    for (size_t i = v.size() - 1; i > from; i--) { size_t j = from + r.below(i - from + 1); if (i != j) { std::swap(v[i], v[j]); out.count("var_elements_swapped"); } }
}
static void variant(TNode& nd, Rng& r, Out& out) {
    if (nd.tag == "Y") {
        for (auto& s : nd.seqs) { if (r.chance(70)) rotateRing(s, r, out); if (r.chance(50)) reverseSeq(s, out); }
        if (r.chance(70)) shuffle(nd.seqs, 1, r, out);
    } else if (nd.tag == "R" || nd.tag == "L") {
        TSeq& s = nd.seqs[0];
        // only rings that are closed by an identical copy are rotated (the closing copy is regenerated)
        // a line closed in XY whose closing point is not an identical copy (different Z/M or -0/+0) is left alone:
        // normalisation replaces that point by a copy of the new first point, so it is not a "ring direction" variant
        bool closedXY = seqClosed(s), identical = closedXY && s.pts.front() == s.pts.back();
        if (identical && r.chance(70)) rotateRing(s, r, out);
        if ((!closedXY || identical) && r.chance(50)) reverseSeq(s, out);
    } else if (nd.tag == "P" || nd.tag == "C") {
    } else if (nd.tag == "K" || nd.tag == "U") {
    } else {
        for (auto& k : nd.kids) variant(k, r, out);
        if (r.chance(80)) shuffle(nd.kids, 0, r, out);
    }
}

// degeneracies the quantifier names: duplicate vertices, flat rings, all-equal rings, closed lines, negative zero
static void degenerate(TNode& nd, Rng& r, Out& out) {
    auto fix = [&](TSeq& s, bool ring) {
        if (s.pts.empty()) return;
        if (!ring && s.pts.size() >= 3 && r.chance(30)) { s.pts.back() = s.pts.front(); out.count("deg_closed_line"); ring = true; }
        if (r.chance(4)) for (auto& p : s.pts) for (size_t j = 0; j < 2; j++) if (tokVal(p[j]) == 0.0 && r.chance(50)) { p[j] = hex(-0.0); out.count("deg_negative_zero"); }
        if (ring && s.pts.size() >= 3) {
            if (r.chance(10)) { size_t i = r.below(s.pts.size() - 1); s.pts.insert(s.pts.begin() + (long) i, s.pts[i]); out.count("deg_duplicate_vertex"); }
            if (r.chance(4)) { size_t i = r.below(s.pts.size() - 1), j = r.below(s.pts.size() - 1); if (i != j && j != 0 && i != 0) { s.pts[j] = s.pts[i]; out.count("deg_revisited_vertex"); } }
            if (r.chance(5)) { for (auto& p : s.pts) p[1] = s.pts[0][1]; out.count("deg_flat_ring"); }
            if (r.chance(2)) { for (auto& p : s.pts) p = s.pts[0]; out.count("deg_all_equal_ring"); }
            s.pts.back() = s.pts.front();
        } else if (s.pts.size() >= 2) {
            if (r.chance(6)) { size_t i = r.below(s.pts.size()); s.pts.insert(s.pts.begin() + (long) i, s.pts[i]); out.count("deg_duplicate_vertex"); }
            if (r.chance(5) && s.pts.size() >= 3) { for (size_t i = 0; i < s.pts.size() / 2; i++) { s.pts[s.pts.size() - 1 - i][0] = s.pts[i][0]; s.pts[s.pts.size() - 1 - i][1] = s.pts[i][1]; } out.count("deg_xy_palindrome_line"); }
        }
    };
    if (nd.tag == "Y") { for (auto& s : nd.seqs) fix(s, true); }
    else if (nd.tag == "R") fix(nd.seqs[0], true);
    else if (nd.tag == "L") fix(nd.seqs[0], false);
    else if (nd.tag == "P" || nd.tag == "C" || nd.tag == "K" || nd.tag == "U") {}
    else {
        for (auto& k : nd.kids) degenerate(k, r, out);
        if (!nd.kids.empty() && nd.kids.size() < 6 && r.chance(8)) { nd.kids.push_back(nd.kids[r.below(nd.kids.size())]); out.count("deg_duplicate_element"); }
    }
}

static std::string lineOf(int srid, const TNode& nd) { std::string o; showNode(nd, o); return std::to_string(srid) + " " + o; }

// ---------------------------------------------------------------- normalize stream
struct Ctx { GEOSContextHandle_t h; GeometryFactory::Ptr gf; };

static std::string normalizeGroup(Ctx& cx, const std::vector<std::string>& geoms, bool& ok) {
    // returns the expect line;  ok=false when a geometry is rejected by the constructors
    std::vector<std::string> nfs; std::vector<std::unique_ptr<Geometry>> keep;
    bool idem = true;
    for (auto& gl : geoms) {
        std::unique_ptr<Geometry> g;
        try { g = buildGeom(gl, cx.gf.get()); } catch (std::exception&) { ok = false; return ""; }
        int rc = GEOSNormalize_r(cx.h, (GEOSGeometry*) g.get());
        if (rc != 0) { nfs.push_back("unsupported"); keep.push_back(nullptr); continue; }
        std::string d1 = dumpGeom(g.get());
        auto g2 = g->clone();
        int rc2 = GEOSNormalize_r(cx.h, (GEOSGeometry*) g2.get());
        if (rc2 != 0 || dumpGeom(g2.get()) != d1) idem = false;
        nfs.push_back(d1); keep.push_back(std::move(g));
    }
    bool canon = true, eqx = true, eqi = true;
    for (size_t i = 1; i < nfs.size(); i++) {
        if (nfs[i] != nfs[0]) canon = false;
        if (keep[0]) {
            if (!keep[i]) { eqx = false; eqi = false; }
            else {
                if (GEOSEqualsExact_r(cx.h, (GEOSGeometry*) keep[0].get(), (GEOSGeometry*) keep[i].get(), 0.0) != 1) eqx = false;
                if (GEOSEqualsIdentical_r(cx.h, (GEOSGeometry*) keep[0].get(), (GEOSGeometry*) keep[i].get()) != 1) eqi = false;
            }
        }
    }
    std::string e;
    for (size_t i = 0; i < nfs.size(); i++) { if (i) e += " | "; e += nfs[i]; }
    e += std::string(" # idem=") + (idem ? "1" : "0") + " canon=" + (canon ? "1" : "0") + " eqx=" + (eqx ? "1" : "0") + " eqi=" + (eqi ? "1" : "0");
    ok = true; return e;
}

static std::vector<std::string> splitBar(const std::string& line, size_t skipToks) {
    auto v = splitToks(line); std::vector<std::string> gs; std::string cur;
    for (size_t i = skipToks; i < v.size(); i++) {
        if (v[i] == "|") { gs.push_back(cur); cur.clear(); } else { if (!cur.empty()) cur += ' '; cur += v[i]; }
    }
    gs.push_back(cur); return gs;
}

static void streamNormalize(Ctx& cx, Rng& r, long n, Out& out) {
    for (long i = 0; i < n; i++) {
        GenCfg cfg; cfg.weird = false; cfg.mixedDims = false; cfg.maxDepth = 2; cfg.maxPts = 7;
        cfg.gridInts = r.chance(60); cfg.curves = r.chance(6);
        out.count(cfg.gridInts ? "coords_grid" : "coords_full_precision");
        GTreeGen gen(r, cfg, &out);
        std::string base = gen.geom();
        auto v = splitToks(base); Toks tk(v); int srid = std::stoi(tk.next());
        TNode root;
        try { root = parseNode(tk); } catch (std::exception&) { out.count("gen_unparsable"); continue; }
        degenerate(root, r, out);
        std::vector<std::string> geoms; geoms.push_back(lineOf(srid, root));
        int nv = r.range(2, 4);
        for (int k = 0; k < nv; k++) { TNode t = root; variant(t, r, out); geoms.push_back(lineOf(srid, t)); }
        bool ok = false; std::string e = normalizeGroup(cx, geoms, ok);
        if (!ok) { out.count("rejected_by_constructor"); continue; }
        std::string c = "N";
        for (size_t k = 0; k < geoms.size(); k++) { c += (k ? " | " : " "); c += geoms[k]; }
        if (e.find("idem=0") != std::string::npos) out.count("impl_not_idempotent");
        if (e.find("canon=0") != std::string::npos) out.count("impl_not_canonical");
        if (e.find("unsupported") != std::string::npos) out.count("impl_unsupported");
        out.emit(c, e);
    }
}


// ---------------------------------------------------------------- construct stream
struct XY { double x, y; };
static std::string ptTok(const XY& p) { return hex(p.x) + " " + hex(p.y); }
static std::string seqTok(const std::vector<XY>& v) { std::string s = "xy " + std::to_string(v.size()); for (auto& p : v) s += " " + ptTok(p); return s; }
static std::string polyTok(const std::vector<std::vector<XY>>& rings) { std::string s = "Y " + std::to_string(rings.size()); for (auto& r : rings) s += " " + seqTok(r); return s; }

// a random similarity with "irrational-looking" doubles: scale 10^k, rotation, translation
struct Sim { double a, b, tx, ty; bool id;
    XY operator()(const XY& p) const { if (id) return p; return XY{a * p.x - b * p.y + tx, b * p.x + a * p.y + ty}; } };
static Sim randomSim(Rng& r, bool grid) {
    Sim s; s.id = grid; s.a = 1; s.b = 0; s.tx = 0; s.ty = 0;
    if (grid) return s;
    double mag = std::pow(10.0, r.range(-3, 6)); double th = r.unit() * 6.283185307179586;
    s.a = mag * std::cos(th); s.b = mag * std::sin(th); s.tx = (r.unit() - 0.5) * mag * std::pow(10.0, r.range(0, 3)); s.ty = (r.unit() - 0.5) * mag * std::pow(10.0, r.range(0, 3));
    return s;
}
// primitive lattice directions sorted counter-clockwise (exact integer angle sort)
static std::vector<XY> latticeDirs(int m) {
    std::vector<XY> d;
    for (int x = -m; x <= m; x++) for (int y = -m; y <= m; y++) { if (!x && !y) continue; int a = std::abs(x), b = std::abs(y); while (b) { int t = a % b; a = b; b = t; } if (a == 1) d.push_back(XY{(double) x, (double) y}); }
    auto half = [](const XY& p) { return (p.y > 0 || (p.y == 0 && p.x > 0)) ? 0 : 1; };
    std::sort(d.begin(), d.end(), [&](const XY& p, const XY& q) { int hp = half(p), hq = half(q); if (hp != hq) return hp < hq; return p.x * q.y - p.y * q.x > 0; });
    return d;
}
// star-shaped ring around the origin: distinct rays in angular order, integer radii multipliers; closed
static std::vector<XY> starRing(Rng& r, int n, int dirM, int rmin, int rmax, bool cw) {
    static std::map<int, std::vector<XY>> cache; if (!cache.count(dirM)) cache[dirM] = latticeDirs(dirM);
    const auto& dirs = cache[dirM];
    std::vector<size_t> idx; size_t step = dirs.size() / (size_t) n; size_t off = r.below(dirs.size());
    for (int i = 0; i < n; i++) idx.push_back((off + (size_t) i * step + r.below(step ? step : 1)) % dirs.size());
    std::sort(idx.begin(), idx.end()); idx.erase(std::unique(idx.begin(), idx.end()), idx.end());
    std::vector<XY> ring; for (auto i : idx) { int k = r.range(rmin, rmax); ring.push_back(XY{dirs[i].x * k, dirs[i].y * k}); }
    if (cw) std::reverse(ring.begin(), ring.end());
    ring.push_back(ring.front());
    return ring;
}
static std::vector<XY> mapRing(const std::vector<XY>& v, const Sim& s, double dx = 0, double dy = 0) { std::vector<XY> o; for (auto& p : v) o.push_back(s(XY{p.x + dx, p.y + dy})); if (o.size() > 1) o.back() = o.front(); return o; }

struct CGen {
    Rng& r; Out& out; bool grid = true; Sim sim{1, 0, 0, 0, true};
    CGen(Rng& rr, Out& o) : r(rr), out(o) {}
    XY gp(int span) { return XY{(double) r.range(-span, span), (double) r.range(-span, span)}; }
    std::string points(int kind) {  // MultiPoint
        std::vector<XY> v; int n = r.range(1, 12);
        switch (kind) {
        case 0: { int span = r.chance(50) ? 4 : 30; for (int i = 0; i < n; i++) v.push_back(gp(span)); out.count("in_points_random"); break; }
        case 1: { XY a = gp(10), d = gp(3); if (d.x == 0 && d.y == 0) d.x = 1; for (int i = 0; i < n; i++) { int k = r.range(-6, 6); v.push_back(XY{a.x + k * d.x, a.y + k * d.y}); } out.count("in_points_collinear"); break; }
        case 2: { XY a = gp(20); for (int i = 0; i < n; i++) v.push_back(a); out.count("in_points_all_equal"); break; }
        case 3: { static const int C[12][2] = {{5,0},{-5,0},{0,5},{0,-5},{3,4},{-3,4},{3,-4},{-3,-4},{4,3},{-4,3},{4,-3},{-4,-3}};
                  int k = r.range(1, 3); for (int i = 0; i < n; i++) { int j = (int) r.below(12); v.push_back(XY{(double) C[j][0] * k, (double) C[j][1] * k}); }
                  if (r.chance(50)) v.push_back(gp(2)); out.count("in_points_cocircular"); break; }
        case 4: { // a fat point set one of whose hull edges carries 3..5 collinear points (nearly collinear after a similarity)
                  XY a = gp(6), d = gp(3); if (d.x == 0 && d.y == 0) d.x = 1; int k = r.range(3, 5);
                  for (int i = 0; i < k; i++) v.push_back(XY{a.x + i * d.x, a.y + i * d.y});
                  int m = r.range(1, 4); for (int i = 0; i < m; i++) { int u = r.range(0, k - 1), w = r.range(1, 9); v.push_back(XY{a.x + u * d.x - w * d.y, a.y + u * d.y + w * d.x}); }
                  out.count("in_points_collinear_hull_edge"); break; }
        case 5: { // every edge of a triangle subdivided into four: all points on the hull boundary, in collinear runs of five
                  XY A{0, 0}, B{(double) (4 * r.range(1, 5)), (double) (4 * r.range(-2, 2))}, C{(double) (4 * r.range(-2, 4)), (double) (4 * r.range(1, 5))};
                  XY T[3] = {A, B, C};
                  for (int e = 0; e < 3; e++) for (int q = 0; q < 4; q++) { const XY& p = T[e]; const XY& w = T[(e + 1) % 3]; v.push_back(XY{p.x + (w.x - p.x) * q / 4, p.y + (w.y - p.y) * q / 4}); }
                  out.count("in_points_subdivided_triangle"); break; }
        default: { int w = r.range(1, 9), h = r.chance(40) ? w : r.range(1, 9); v = {XY{0,0}, XY{(double) w,0}, XY{(double) w,(double) h}, XY{0,(double) h}};
                  for (int i = 0; i < n / 2; i++) v.push_back(XY{(double) r.range(0, w), (double) r.range(0, h)}); out.count("in_points_rectangle"); }
        }
        std::string s = "MP " + std::to_string(v.size());
        for (auto& p : v) s += " P xy 1 " + ptTok(sim(p));
        return s;
    }
    std::string line(int kind) {
        std::vector<XY> v; int n = r.range(2, 8);
        if (kind == 0) { for (int i = 0; i < n; i++) v.push_back(gp(12)); out.count("in_line_random"); }
        else if (kind == 1) { XY a = gp(10); for (int i = 0; i < n; i++) v.push_back(a); out.count("in_line_zero_length"); }
        else if (kind == 2) { XY a = gp(10), d = gp(3); if (d.x == 0 && d.y == 0) d.y = 1; for (int i = 0; i < n; i++) { int k = r.range(-5, 5); v.push_back(XY{a.x + k * d.x, a.y + k * d.y}); } out.count("in_line_collinear"); }
        else { for (int i = 0; i < n; i++) v.push_back(gp(12)); v.push_back(v.front()); out.count("in_line_closed"); }
        std::vector<XY> w; for (auto& p : v) w.push_back(sim(p));
        return "L " + seqTok(w);
    }
    // valid-by-construction star polygon (checked with isValid by the caller), optional hole near the centre
    std::string polygon(double dx, double dy, bool allowHole) {
        // the shell must be star-shaped around the origin (every angular gap < 180 degrees) and keep a disc of
        // radius > 1.5 around it free, so that the hole (radius <= sqrt 2) lies strictly inside
        std::vector<XY> shell; bool roomy = false;
        for (int attempt = 0; attempt < 20; attempt++) {
            shell = starRing(r, r.range(3, 9), 4, 6, 12, false);
            bool star = shell.size() >= 4; roomy = true;
            for (size_t i = 0; star && i + 1 < shell.size(); i++) {
                const XY& a = shell[i]; const XY& b = shell[i + 1];
                double cr = a.x * b.y - a.y * b.x;            // exact: small integers
                if (cr <= 0) star = false;
                double l2 = (b.x - a.x) * (b.x - a.x) + (b.y - a.y) * (b.y - a.y);
                if (cr * cr <= 2.25 * l2) roomy = false;
            }
            if (star) break;
            shell.clear();
        }
        if (shell.empty()) { shell = {XY{8, 0}, XY{0, 8}, XY{-8, 0}, XY{0, -8}, XY{8, 0}}; roomy = true; }
        if (r.chance(50)) std::reverse(shell.begin(), shell.end());
        allowHole = allowHole && roomy;
        std::vector<std::vector<XY>> rings; rings.push_back(mapRing(shell, sim, dx, dy));
        if (allowHole && r.chance(35)) { std::vector<XY> hole = starRing(r, r.range(3, 5), 1, 1, 1, r.chance(50)); rings.push_back(mapRing(hole, sim, dx, dy)); out.count("in_polygon_with_hole"); }
        out.count("in_polygon_star");
        return polyTok(rings);
    }
    std::string flatPolygon() {   // zero-area polygons (grid only)
        std::vector<XY> v; XY a = gp(10), d = gp(3); if (d.x == 0 && d.y == 0) d.x = 1;
        int n = r.range(2, 5); for (int i = 0; i < n; i++) { int k = r.range(-5, 5); v.push_back(XY{a.x + k * d.x, a.y + k * d.y}); }
        if (r.chance(20)) for (auto& p : v) p = a;
        v.push_back(v.front()); if (v.size() < 3) v.push_back(v.front());
        out.count("in_polygon_zero_area");
        std::vector<XY> w; for (auto& p : v) w.push_back(sim(p));
        return polyTok({w});
    }
    std::string empty() { static const char* E[] = {"P xy 0", "L xy 0", "Y 1 xy 0", "MP 0", "ML 0", "MY 0", "GC 0"}; out.count("in_empty"); return E[r.below(7)]; }
    std::string any(int depth) {
        switch (r.below(depth > 0 ? 9 : 14)) {
        case 0: case 1: return points((int) r.below(7));
        case 2: return line((int) r.below(4));
        case 3: case 4: return polygon(0, 0, true);
        case 5: return grid ? flatPolygon() : polygon(0, 0, false);
        case 6: return empty();
        case 7: { std::string s = "P xy 1 " + ptTok(sim(gp(15))); out.count("in_point"); return s; }
        case 8: { int k = r.range(1, 3); std::string s = "MY " + std::to_string(k); for (int i = 0; i < k; i++) s += " " + polygon(40.0 * i, 0, true); out.count("in_multipolygon"); return s; }
        case 12: case 13: return points(5);
        case 9: { int k = r.range(1, 3); std::string s = "ML " + std::to_string(k); for (int i = 0; i < k; i++) s += " " + line((int) r.below(4)); out.count("in_multiline"); return s; }
        default: { int k = r.range(1, 4); std::string s = "GC " + std::to_string(k); for (int i = 0; i < k; i++) s += " " + any(depth + 1); out.count("in_collection_mixed"); return s; }
        }
    }
};

static std::string geomOrErr(GEOSGeometry* g) { if (!g) return "err"; std::string s = dumpGeom((const Geometry*) g); delete (Geometry*) g; return s; }

static std::string constructCase(Ctx& cx, const std::string& kind, const std::string& gl, bool& ok) {
    std::unique_ptr<Geometry> g;
    try { g = buildGeom(gl, cx.gf.get()); } catch (std::exception&) { ok = false; return ""; }
    const GEOSGeometry* cg = (const GEOSGeometry*) g.get();
    std::string c = "K " + kind + " | G " + gl;
    c += " | H " + geomOrErr(GEOSConvexHull_r(cx.h, cg));
    c += " | E " + geomOrErr(GEOSEnvelope_r(cx.h, cg));
    c += " | C " + geomOrErr(GEOSGetCentroid_r(cx.h, cg));
    { GEOSGeometry* p = GEOSPointOnSurface_r(cx.h, cg); char v = GEOSisValid_r(cx.h, cg);
      c += " | S " + (p ? geomOrErr(p) + " " + (v == 1 ? "1" : "0") : std::string("err")); }
    { // minimum bounding circle: support points from the C++ class, radius/centre from the C API
        std::string b;
        try {
            geos::algorithm::MinimumBoundingCircle mbc(g.get());
            std::vector<CoordinateXY> sup = mbc.getExtremalPoints();
            double radius = 0; GEOSGeometry* centre = nullptr;
            GEOSGeometry* circ = GEOSMinimumBoundingCircle_r(cx.h, cg, &radius, &centre);
            if (!circ) b = "err";
            else {
                b = std::to_string(sup.size()); for (auto& p : sup) b += " " + hex(p.x) + " " + hex(p.y);
                b += " R " + hex(radius);
                const Geometry* cp = (const Geometry*) centre;
                const CoordinateXY* q = (cp && !cp->isEmpty()) ? cp->getCoordinate() : nullptr;
                if (q && !std::isnan(q->x) && !std::isnan(q->y)) b += " " + hex(q->x) + " " + hex(q->y); else b += " none";
                delete (Geometry*) circ; if (centre) delete (Geometry*) centre;
            }
        } catch (std::exception&) { b = "err"; }
        c += " | B " + b;
    }
    c += " | M " + geomOrErr(GEOSMinimumRotatedRectangle_r(cx.h, cg));
    c += " | W " + geomOrErr(GEOSMinimumWidth_r(cx.h, cg));
    ok = true; return c;
}

static void streamConstruct(Ctx& cx, Rng& r, long n, Out& out) {
    for (long i = 0; i < n; i++) {
        CGen gen(r, out); gen.grid = r.chance(55); gen.sim = randomSim(r, gen.grid);
        // grid inputs far from the origin: an exact integer translation by +-2^k, k = 20..30 (coordinates stay exact integers below 2^32, the
        // extent stays small): formulas that do not translate to a local origin first lose all their precision here
        if (gen.grid && r.chance(15)) { double d = std::ldexp(1.0, (int) r.range(20, 30)); gen.sim.id = false; gen.sim.a = 1; gen.sim.b = 0;
            gen.sim.tx = r.chance(50) ? d : -d; gen.sim.ty = r.chance(30) ? 0 : (r.chance(50) ? d : -d); out.count("coords_grid_far_from_origin"); }
        out.count(gen.grid ? "coords_grid" : "coords_full_precision");
        std::string gl = "0 " + gen.any(0);
        bool ok = false; std::string c = constructCase(cx, gen.grid ? "grid" : "full", gl, ok);
        if (!ok) { out.count("rejected_by_constructor"); continue; }
        if (c.find(" err") != std::string::npos) out.count("impl_operation_error");
        out.emit(c, "ok");
    }
}



// ---------------------------------------------------------------- pos stream (point on surface / interior point)
// x-monotone rectilinear polygon: column k spans [xs[k], xs[k+1]] x [lo[k], hi[k]], consecutive columns overlap in a
// segment of positive length
struct Hist { std::vector<int> xs, lo, hi;
    size_t n() const { return lo.size(); }
    std::vector<XY> ring() const {
        std::vector<XY> v;
        auto add = [&](int x, int y) { if (v.empty() || v.back().x != x || v.back().y != y) v.push_back(XY{(double) x, (double) y}); };
        for (size_t k = 0; k < n(); k++) { add(xs[k], lo[k]); add(xs[k + 1], lo[k]); }
        for (size_t k = n(); k-- > 0;) { add(xs[k + 1], hi[k]); add(xs[k], hi[k]); }
        if (v.size() > 1 && v.front().x == v.back().x && v.front().y == v.back().y) v.pop_back();
        v.push_back(v.front());
        return v;
    }
    void shift(int dx, int dy) { for (auto& x : xs) x += dx; for (auto& y : lo) y += dy; for (auto& y : hi) y += dy; }
    void scale(int f) { for (auto& x : xs) x *= f; for (auto& y : lo) y *= f; for (auto& y : hi) y *= f; }
    int minY() const { return *std::min_element(lo.begin(), lo.end()); }
    int maxY() const { return *std::max_element(hi.begin(), hi.end()); }
};

// integer 2x2 matrix of determinant +-1 (lattice symmetry) + translation + scale
struct Lat { int a = 1, b = 0, c = 0, d = 1, tx = 0, ty = 0, f = 1;
    XY operator()(const XY& p) const { return XY{f * (a * p.x + b * p.y) + tx, f * (c * p.x + d * p.y) + ty}; } };

struct PGen {
    Rng& r; Out& out;
    PGen(Rng& rr, Out& o) : r(rr), out(o) {}

    Hist shape(int kind, int W, int H, bool stat = true, bool midStep = false) {
        // W: largest column width, H: height
        Hist h; int n;
        auto cols = [&](int k) { h.xs.clear(); int x = 0; h.xs.push_back(0); for (int i = 0; i < k; i++) { x += r.range(1, W); h.xs.push_back(x); } };
        switch (kind) {
        case 0: cols(1); h.lo = {0}; h.hi = {H}; if (stat) out.count("shape_rectangle"); break;
        case 1: { cols(2); int a = midStep ? H / 2 : r.range(1, H - 1); bool up = r.chance(50); h.lo = {0, up ? 0 : H - a}; h.hi = {H, up ? a : H};
                  if (r.chance(50)) { std::swap(h.lo[0], h.lo[1]); std::swap(h.hi[0], h.hi[1]); } if (stat) out.count("shape_L"); break; }
        case 2: { cols(3); int a = midStep ? H / 2 : r.range(1, H - 1); bool up = r.chance(50); h.lo = {0, up ? 0 : a, 0}; h.hi = {H, up ? a : H, H};
                  if (r.chance(30)) h.hi[2] = r.range(h.lo[1] + 1, H); if (stat) out.count("shape_U"); break; }
        case 3: { n = r.range(3, 7); cols(n); int a = r.range(1, H - 1);
                  for (int i = 0; i < n; i++) { h.lo.push_back(0); h.hi.push_back(i % 2 == 0 ? H : (r.chance(70) ? a : r.range(1, H - 1))); } if (stat) out.count("shape_comb"); break; }
        case 4: { n = r.range(2, 5); cols(n); int s = r.range(1, 2), t = s + r.range(1, 3);
                  for (int i = 0; i < n; i++) { h.lo.push_back(i * s); h.hi.push_back(i * s + t); }
                  if (r.chance(50)) { std::reverse(h.lo.begin(), h.lo.end()); std::reverse(h.hi.begin(), h.hi.end()); } if (stat) out.count("shape_staircase"); break; }
        case 5: { cols(3); int a = r.range(1, std::max(1, H / 2 - 1)), b = r.range(a + 1, H - 1); h.lo = {a, 0, r.chance(70) ? a : r.range(0, b - 1)}; h.hi = {b, H, r.chance(70) ? b : r.range(h.lo[2] + 1, H)};
                  if (stat) out.count("shape_cross"); break; }
        default: { n = r.range(2, 6); cols(n); int mid0 = r.range(1, H - 1);
                  for (int i = 0; i < n; i++) { h.lo.push_back(r.range(0, mid0 - 1)); h.hi.push_back(r.range(mid0 + 1, H + 1)); }
                  // consecutive columns overlap around mid0 by construction
                  if (stat) out.count("shape_random_histogram"); }
        }
        return h;
    }
    Lat lattice() {
        Lat L;
        int steps = r.chance(35) ? 0 : r.range(1, 3);
        for (int i = 0; i < steps; i++) {
            int a = L.a, b = L.b, c = L.c, d = L.d, k = r.range(-2, 2);
            switch (r.below(5)) {
            case 0: L.a = c; L.b = d; L.c = a; L.d = b; out.count("lat_transpose"); break;              // swap rows
            case 1: L.a = -a; L.b = -b; out.count("lat_mirror_x"); break;
            case 2: L.c = -c; L.d = -d; out.count("lat_mirror_y"); break;
            case 3: L.a = a + k * c; L.b = b + k * d; out.count("lat_shear_x"); break;                  // x += k y : horizontal edges stay horizontal
            default: L.c = c + k * a; L.d = d + k * b; out.count("lat_shear_y"); break;
            }
        }
        L.f = r.chance(70) ? 1 : r.range(2, 3);
        L.tx = r.range(-20, 20); L.ty = r.range(-20, 20);
        return L;
    }

    // a polygon on the grid: shell + holes placed by a cell raster so that they lie strictly inside and apart;
    // returns the rings in grid coordinates (untransformed); `touch` allows point/edge contacts (validity is then up to GEOSisValid)
    std::vector<std::vector<XY>> gridPolygon(int& width, int& height) {
        int H = r.range(3, 12), kind = (int) r.below(9);
        Hist sh = shape(kind, r.range(2, 6), H);
        int f = r.chance(50) ? 2 : 1; sh.scale(f);              // doubled shells: the midpoints of their ordinates are grid lines
        int x0 = sh.xs.front(), x1 = sh.xs.back(), y0 = sh.minY(), y1 = sh.maxY();
        width = x1 - x0; height = y1 - y0;
        int GW = x1 - x0 + 2, GH = y1 - y0 + 2;
        // cell (i, j) = [x0-1+i, x0+i] x [y0-1+j, y0+j]; 1 = shell interior, 2.. = hole
        std::vector<std::vector<int>> cell((size_t) GW, std::vector<int>((size_t) GH, 0));
        for (size_t k = 0; k < sh.n(); k++) for (int x = sh.xs[k]; x < sh.xs[k + 1]; x++) for (int y = sh.lo[k]; y < sh.hi[k]; y++) cell[(size_t) (x - x0 + 1)][(size_t) (y - y0 + 1)] = 1;
        std::vector<std::vector<XY>> rings; rings.push_back(sh.ring());
        // candidate scan lines: centre of the extent, midpoints between consecutive distinct vertex ordinates (when on the grid)
        std::set<int> lev(sh.lo.begin(), sh.lo.end()); lev.insert(sh.hi.begin(), sh.hi.end());
        std::vector<int> levels(lev.begin(), lev.end()), cand;
        if ((y0 + y1) % 2 == 0) cand.push_back((y0 + y1) / 2);
        for (size_t i = 0; i + 1 < levels.size(); i++) if ((levels[i] + levels[i + 1]) % 2 == 0) cand.push_back((levels[i] + levels[i + 1]) / 2);
        for (int y : levels) if (y > y0 && y < y1) cand.push_back(y);
        // a palette of levels shared by the holes of this polygon (so that their horizontal edges are collinear)
        std::vector<int> palette;
        for (int i = 0; i < 4; i++) palette.push_back((!cand.empty() && r.chance(60)) ? cand[r.below(cand.size())] : r.range(y0 + 1, std::max(y0 + 1, y1 - 1)));
        int wantHoles = r.chance(25) ? 0 : r.range(1, 4);
        bool touch = r.chance(8);
        int holes = 0;
        for (int attempt = 0; attempt < 30 * wantHoles && holes < wantHoles; attempt++) {
            int hk = (int) r.below(8); int hH = r.range(1, std::max(1, std::min(8, height - 2)));
            if (hH < 2 && hk != 0) hk = 0;
            // symmetric step holes: an L / U shaped hole whose step edge is at its own mid-height, put on a candidate line
            bool sym = !cand.empty() && height >= 4 && r.chance(35);
            if (sym) { hk = r.chance(60) ? 1 : 2; hH = 2 * r.range(1, std::max(1, std::min(4, (height - 2) / 2))); }
            Hist ho = shape(hk == 3 ? 6 : hk, r.range(1, r.chance(50) ? 2 : 4), std::max(2, hH), false, sym);
            if (hk == 0) { ho.hi[0] = hH; }
            if (ho.xs.back() >= width || ho.maxY() - ho.minY() >= height) continue;
            int dx = x0 + r.range(1, std::max(1, width - ho.xs.back() - 1));
            int dy; bool onCand = false;
            // put one of the hole's levels (preferably an intermediate one) on a palette level
            std::set<int> hl(ho.lo.begin(), ho.lo.end()); hl.insert(ho.hi.begin(), ho.hi.end());
            std::vector<int> hlev(hl.begin(), hl.end());
            if (sym) { dy = (r.chance(60) ? cand[0] : cand[r.below(cand.size())]) - (ho.minY() + hH / 2); onCand = true; }
            else if (r.chance(75)) {
                size_t pick = hlev.size() > 2 && r.chance(70) ? 1 + r.below(hlev.size() - 2) : r.below(hlev.size());
                dy = palette[r.below(palette.size())] - hlev[pick]; onCand = true;
            } else dy = y0 + r.range(1, std::max(1, height - (ho.maxY() - ho.minY()) - 1)) - ho.minY();
            ho.shift(dx, dy);
            // raster test
            bool okp = true; std::vector<std::pair<int, int>> cells;
            for (size_t k = 0; k < ho.n() && okp; k++) for (int x = ho.xs[k]; x < ho.xs[k + 1] && okp; x++) for (int y = ho.lo[k]; y < ho.hi[k] && okp; y++) {
                int i = x - x0 + 1, j = y - y0 + 1;
                if (i < 1 || j < 1 || i >= GW - 1 || j >= GH - 1) { okp = false; break; }
                for (int di = -1; di <= 1 && okp; di++) for (int dj = -1; dj <= 1 && okp; dj++) {
                    if (touch && (di != 0 || dj != 0)) continue;
                    int c = cell[(size_t) (i + di)][(size_t) (j + dj)];
                    if (c != 1) okp = false;
                }
                cells.push_back({i, j});
            }
            if (!okp) continue;
            holes++;
            if (onCand) out.count("hole_level_on_candidate_line");
            if (sym) out.count("hole_step_at_own_mid_height");
            for (auto& c : cells) cell[(size_t) c.first][(size_t) c.second] = 1 + holes;
            auto ring = ho.ring(); if (r.chance(50)) std::reverse(ring.begin(), ring.end());
            rings.push_back(ring);
            if (hlev.size() > 2) out.count("hole_with_step_edge");
        }
        out.count("holes_" + std::to_string(holes));
        if (touch) out.count("in_polygon_touching_allowed");
        if (r.chance(50)) std::reverse(rings[0].begin(), rings[0].end());
        // ring start anywhere
        for (auto& rg : rings) if (r.chance(60) && rg.size() > 3) { rg.pop_back(); std::rotate(rg.begin(), rg.begin() + (long) r.below(rg.size()), rg.end()); rg.push_back(rg.front()); }
        return rings;
    }
    template <class F> static std::string polyTokMapped(const std::vector<std::vector<XY>>& rings, F&& f, double dx, double dy) {
        std::vector<std::vector<XY>> o;
        for (auto& rg : rings) { std::vector<XY> w; for (auto& p : rg) w.push_back(f(XY{p.x + dx, p.y + dy})); if (w.size() > 1) w.back() = w.front(); o.push_back(w); }
        return polyTok(o);
    }
    template <class F> std::string lineTok(F&& f, int ox, int oy) {
        int n = r.range(1, 6); std::vector<XY> v;
        int kind = (int) r.below(6);
        for (int i = 0; i < n; i++) v.push_back(XY{(double) (ox + r.range(0, 8)), (double) (oy + r.range(0, 8))});
        if (kind == 0) { for (auto& p : v) p = v[0]; out.count("in_line_zero_length"); }
        else if (kind == 1 && n >= 3) { v.push_back(v.front()); out.count("in_line_closed"); }
        else if (kind == 2) { for (size_t i = 0; i < v.size(); i++) v[i] = XY{(double) (ox + (int) i * 2), (double) oy}; out.count("in_line_straight"); }
        else if (kind == 3) { v.resize(std::min<size_t>(v.size(), 2)); out.count("in_line_short"); }
        else out.count("in_line_random");
        if (v.size() == 1) v.push_back(v[0]);
        std::vector<XY> w; for (auto& p : v) w.push_back(f(p));
        return "L " + seqTok(w);
    }
    template <class F> std::string pointTok(F&& f, int ox, int oy) { return "P xy 1 " + ptTok(f(XY{(double) (ox + r.range(0, 8)), (double) (oy + r.range(0, 8))})); }

    // one geometry; `f` maps grid coordinates to output coordinates
    template <class F> std::string geom(F&& f) {
        int top = (int) r.below(20);
        auto poly = [&](int ox, int oy, int& w, int& h) { auto rings = gridPolygon(w, h); return polyTokMapped(rings, f, ox, oy); };
        int w = 0, h = 0;
        if (top < 9) { out.count("in_polygon"); return poly(0, 0, w, h); }
        if (top < 13) {   // multipolygon: side by side, stacked, or diagonal
            int k = r.range(1, 4), ox = 0, oy = 0, mode = (int) r.below(3); std::string s;
            for (int i = 0; i < k; i++) { s += " " + poly(ox, oy, w, h); int gap = r.chance(50) ? 1 : r.range(2, 5); if (mode != 1) ox += w + gap; if (mode != 0) oy += h + gap; }
            out.count("in_multipolygon"); return "MY " + std::to_string(k) + s;
        }
        if (top < 16) {   // mixed collection (highest dimension rule), possibly nested, with empties
            int k = r.range(1, 4), ox = 0; std::string s; int cnt = 0;
            for (int i = 0; i < k; i++) {
                switch (r.below(7)) {
                case 0: case 1: s += " " + poly(ox, 0, w, h); ox += w + r.range(1, 4); break;
                case 2: s += " " + lineTok(f, ox, r.range(-3, 3)); break;
                case 3: s += " " + pointTok(f, ox, r.range(-3, 3)); break;
                case 4: { static const char* E[] = {"P xy 0", "L xy 0", "Y 1 xy 0", "MP 0", "ML 0", "MY 0", "GC 0"}; s += std::string(" ") + E[r.below(7)]; break; }
                case 5: { int m = r.range(1, 2); std::string t; for (int j = 0; j < m; j++) { t += " " + poly(ox, 0, w, h); ox += w + r.range(1, 4); } s += " MY " + std::to_string(m) + t; break; }
                default: { std::string t = " " + lineTok(f, ox, 0) + " " + pointTok(f, ox, 0); bool wp = r.chance(50); if (wp) { t += " " + poly(ox, 0, w, h); ox += w + 2; } s += " GC " + std::to_string(wp ? 3 : 2) + t; }
                }
                cnt++;
            }
            out.count("in_collection_mixed"); return "GC " + std::to_string(cnt) + s;
        }
        if (top < 18) {   // lines
            int k = r.range(1, 4); std::string s;
            if (k == 1 && r.chance(50)) { out.count("in_linestring"); return lineTok(f, 0, 0); }
            for (int i = 0; i < k; i++) s += " " + (r.chance(10) ? std::string("L xy 0") : lineTok(f, r.range(-5, 5), r.range(-5, 5)));
            out.count("in_multiline"); return "ML " + std::to_string(k) + s;
        }
        int k = r.range(1, 6); std::string s;
        for (int i = 0; i < k; i++) s += " " + (r.chance(10) ? std::string("P xy 0") : pointTok(f, r.range(-5, 5), r.range(-5, 5)));
        out.count("in_multipoint"); return "MP " + std::to_string(k) + s;
    }
};

static std::string posCase(Ctx& cx, const std::string& kind, const std::string& gl, bool& ok) {
    std::unique_ptr<Geometry> g;
    try { g = buildGeom(gl, cx.gf.get()); } catch (std::exception&) { ok = false; return ""; }
    const GEOSGeometry* cg = (const GEOSGeometry*) g.get();
    std::string c = "K " + kind + " | G " + gl;
    GEOSGeometry* p = GEOSPointOnSurface_r(cx.h, cg); char v = GEOSisValid_r(cx.h, cg);
    c += " | S " + (p ? geomOrErr(p) + " " + (v == 1 ? "1" : "0") : std::string("err"));
    ok = true; return c;
}

static void streamPos(Ctx& cx, Rng& r, long n, Out& out) {
    for (long i = 0; i < n; i++) {
        PGen gen(r, out);
        bool grid = r.chance(85);
        out.count(grid ? "coords_grid" : "coords_full_precision");
        std::string gl;
        if (grid) { Lat L = gen.lattice(); gl = "0 " + gen.geom(L); }
        else { Sim s = randomSim(r, false); gl = "0 " + gen.geom(s); }
        bool ok = false; std::string c = posCase(cx, grid ? "grid" : "full", gl, ok);
        if (!ok) { out.count("rejected_by_constructor"); continue; }
        if (c.size() >= 2 && c.substr(c.size() - 2) == " 0") out.count("impl_says_invalid");
        if (c.find(" err") != std::string::npos) out.count("impl_operation_error");
        out.emit(c, "ok");
    }
}


// ---------------------------------------------------------------- sequence stream
static uint64_t fnv(const std::string& s) { uint64_t h = 0xcbf29ce484222325ULL; for (unsigned char ch : s) { h ^= ch; h *= 0x100000001b3ULL; } return h; }
static std::string hex64(uint64_t u) { char b[20]; std::snprintf(b, sizeof b, "%016llx", (unsigned long long) u); return b; }
static std::string dumpNoSrid(const Geometry* g) { std::vector<std::string> t; dumpG(g, t); std::string s; for (size_t i = 0; i < t.size(); i++) { if (i) s += ' '; s += t[i]; } return s; }
static std::string hashGeom(GEOSGeometry* g) { if (!g) return "x"; std::string s = hex64(fnv(dumpNoSrid((const Geometry*) g))); delete (Geometry*) g; return s; }

// "ints" (GEOSIntersects(g, g)) is understood by sequenceCase but not generated: RelateNG crashes on a collection of
// overlapping polygons that have an empty hole ring (AdjacentEdgeLocator::addSections), which is not C20's business
static const char* OBSERVERS[] = {"env", "envg", "xmin", "area", "len", "np", "ng", "dim", "emp", "dmp", "wkb", "hull", "ctr", "pos", "val", "simp", "nmc", "bnd", "crd"};
static const int N_OBS = 19;

// executes the program (ops without their results) and returns the case line with the results filled in
static std::string sequenceCase(Ctx& cx, const std::string& kind, const std::string& gl, const std::vector<std::vector<std::string>>& prog, bool& ok) {
    std::vector<std::unique_ptr<Geometry>> regs;
    try { regs.push_back(buildGeom(gl, cx.gf.get())); } catch (std::exception&) { ok = false; return ""; }
    GEOSContextHandle_t h = cx.h;
    std::string c = "Q " + kind + " | G " + gl;
    auto reg = [&](const std::string& t) -> Geometry* { size_t i = (size_t) std::stoul(t); return i < regs.size() ? regs[i].get() : nullptr; };
    auto push = [&](GEOSGeometry* g) { regs.emplace_back((Geometry*) g); return std::string(g ? "ok" : "x"); };
    for (auto& op : prog) {
        if (op.empty()) continue;
        const std::string& o = op[0]; std::string res;
        if (o == "bd") { std::unique_ptr<Geometry> g; try { g = buildGeom(gl, cx.gf.get()); } catch (std::exception&) {} res = push((GEOSGeometry*) g.release()); }
        else if (op.size() < 2) continue;
        else {
            Geometry* a = reg(op[1]); const GEOSGeometry* ga = (const GEOSGeometry*) a;
            if (o == "cl") res = push(a ? GEOSGeom_clone_r(h, ga) : nullptr);
            else if (o == "rv") res = push(a ? GEOSReverse_r(h, ga) : nullptr);
            else if (o == "nm") { GEOSGeometry* n = a ? GEOSGeom_clone_r(h, ga) : nullptr; if (n && GEOSNormalize_r(h, n) != 0) { delete (Geometry*) n; n = nullptr; } res = push(n); }
            else if (o == "sub") { const GEOSGeometry* e = (a && op.size() > 2) ? GEOSGetGeometryN_r(h, ga, std::stoi(op[2])) : nullptr; res = push(e ? GEOSGeom_clone_r(h, e) : nullptr); }
            else if (o == "NM") { res = (a && GEOSNormalize_r(h, (GEOSGeometry*) a) == 0) ? "ok" : "x"; }
            else if (o == "eqx" || o == "eqi" || o == "cmp") {
                Geometry* b = op.size() > 2 ? reg(op[2]) : nullptr;
                if (!a || !b) res = "x";
                else if (o == "eqx") res = std::to_string((int) GEOSEqualsExact_r(h, ga, (const GEOSGeometry*) b, 0.0));
                else if (o == "eqi") res = std::to_string((int) GEOSEqualsIdentical_r(h, ga, (const GEOSGeometry*) b));
                else { int v = 0; try { v = a->compareTo(b); res = v < 0 ? "-1" : v > 0 ? "1" : "0"; } catch (std::exception&) { res = "x"; } }
            }
            else if (!a) res = "x";
            else if (o == "env") { double x0, y0, x1, y1; res = GEOSGeom_getExtent_r(h, ga, &x0, &y0, &x1, &y1) == 1 ? hex(x0) + " " + hex(y0) + " " + hex(x1) + " " + hex(y1) : std::string("x"); }
            else if (o == "envg") res = hashGeom(GEOSEnvelope_r(h, ga));
            else if (o == "xmin") { double v; res = GEOSGeom_getXMin_r(h, ga, &v) == 1 ? hex(v) : std::string("x"); }
            else if (o == "area") { double v; res = GEOSArea_r(h, ga, &v) == 1 ? hex(v) : std::string("x"); }
            else if (o == "len") { double v; res = GEOSLength_r(h, ga, &v) == 1 ? hex(v) : std::string("x"); }
            else if (o == "np") res = std::to_string(GEOSGetNumCoordinates_r(h, ga));
            else if (o == "ng") res = std::to_string(GEOSGetNumGeometries_r(h, ga));
            else if (o == "dim") res = std::to_string(GEOSGeom_getDimensions_r(h, ga));
            else if (o == "emp") res = std::to_string((int) GEOSisEmpty_r(h, ga));
            else if (o == "dmp") res = hex64(fnv(dumpNoSrid(a)));
            else if (o == "wkb") { GEOSWKBWriter* w = GEOSWKBWriter_create_r(h); GEOSWKBWriter_setOutputDimension_r(h, w, 4); size_t sz = 0; unsigned char* b = GEOSWKBWriter_write_r(h, w, ga, &sz);
                                   res = b ? hex64(fnv(std::string((const char*) b, sz))) : std::string("x"); if (b) GEOSFree_r(h, b); GEOSWKBWriter_destroy_r(h, w); }
            else if (o == "hull") res = hashGeom(GEOSConvexHull_r(h, ga));
            else if (o == "ctr") res = hashGeom(GEOSGetCentroid_r(h, ga));
            else if (o == "pos") res = hashGeom(GEOSPointOnSurface_r(h, ga));
            else if (o == "val") res = std::to_string((int) GEOSisValid_r(h, ga));
            else if (o == "simp") res = std::to_string((int) GEOSisSimple_r(h, ga));
            else if (o == "nmc") { GEOSGeometry* n = GEOSGeom_clone_r(h, ga); if (n && GEOSNormalize_r(h, n) != 0) { delete (Geometry*) n; n = nullptr; } res = hashGeom(n); }
            else if (o == "ints") res = std::to_string((int) GEOSIntersects_r(h, ga, ga));
            else if (o == "bnd") res = hashGeom(GEOSBoundary_r(h, ga));
            else if (o == "crd") { const CoordinateXY* q = nullptr; try { q = a->getCoordinate(); } catch (std::exception&) {} res = q ? hex(q->x) + " " + hex(q->y) : std::string("x"); }
            else continue;
        }
        c += " | O";
        for (auto& t : op) c += " " + t;
        c += " " + res;
    }
    ok = true; return c;
}

static bool hasCurveTag(const std::string& gl) { for (auto& t : splitToks(gl)) if (t == "C" || t == "K" || t == "U") return true; return false; }

static std::vector<std::vector<std::string>> randomProgram(Rng& r, Out& out, const std::string& gl) {
    std::vector<std::vector<std::string>> prog;
    bool curvy = hasCurveTag(gl);
    int nreg = 1, len = r.range(4, 14);
    auto R = [&]() { return std::to_string(r.below((uint64_t) nreg)); };
    auto query = [&]() {
        std::string i = R(), j = R();
        if (nreg > 1 && r.chance(70)) while (j == i) j = R();
        static const char* Q[] = {"eqi", "eqx", "cmp"};
        const char* q = Q[r.below(3)];
        prog.push_back({q, i, j}); out.count(std::string("op_") + q);
        if (r.chance(60)) prog.push_back({q, j, i});
    };
    for (int k = 0; k < len; k++) {
        int w = (int) r.below(100);
        if (w < 22 && nreg < 6) {   // a new register
            int t = (int) r.below(10);
            if (t < 4) { prog.push_back({"cl", R()}); out.count("op_clone"); }
            else if (t < 6) { prog.push_back({"rv", R()}); out.count("op_reverse"); }
            else if (t < 8) { prog.push_back({"nm", R()}); out.count("op_normalized_copy"); }
            else if (t < 9) { prog.push_back({"bd"}); out.count("op_build_again"); }
            else { prog.push_back({"sub", R(), std::to_string(r.below(3))}); out.count("op_element"); }
            nreg++;
        } else if (w < 27 && !curvy) { prog.push_back({"NM", R()}); out.count("op_normalize_in_place"); }
        else if (w < 70) { const char* o = OBSERVERS[r.below((uint64_t) N_OBS)]; prog.push_back({o, R()}); out.count("op_observe"); }
        else query();
    }
    // closing round: every pair both ways
    for (int i = 0; i < nreg; i++) for (int j = i + 1; j < nreg; j++) {
        static const char* Q[] = {"eqi", "eqx", "cmp"};
        for (auto q : Q) { prog.push_back({q, std::to_string(i), std::to_string(j)}); prog.push_back({q, std::to_string(j), std::to_string(i)}); }
    }
    return prog;
}

static void streamSequence(Ctx& cx, Rng& r, long n, Out& out) {
    for (long i = 0; i < n; i++) {
        GenCfg cfg; cfg.weird = false; cfg.mixedDims = false; cfg.maxDepth = 2; cfg.maxPts = 6;
        cfg.gridInts = r.chance(60); cfg.curves = r.chance(8);
        GTreeGen gen(r, cfg, &out);
        std::string base;
        // collections of every kind are what carries cached state: ask for them directly half of the time
        if (r.chance(50)) {
            bool z = r.chance(40), m = r.chance(30); int srid = r.chance(50) ? 0 : r.range(1, 40000);
            static const char* T[] = {"MP", "ML", "MY", "GC"}; int t = (int) r.below(4);
            base = std::to_string(srid) + " " + gen.multi(T[t], 0, z, m, t == 3 ? 5 : t); out.count(std::string("top_") + T[t]);
        } else base = gen.geom();
        auto v = splitToks(base); Toks tk(v); int srid = std::stoi(tk.next());
        TNode root;
        try { root = parseNode(tk); } catch (std::exception&) { out.count("gen_unparsable"); continue; }
        if (r.chance(50)) degenerate(root, r, out);
        std::string gl = lineOf(srid, root);
        auto prog = randomProgram(r, out, gl);
        bool ok = false; std::string c = sequenceCase(cx, cfg.gridInts ? "grid" : "full", gl, prog, ok);
        if (!ok) { out.count("rejected_by_constructor"); continue; }
        out.count("program_ops", (long) prog.size());
        out.emit(c, "ok");
    }
}

// ---------------------------------------------------------------- invariants stream
static std::string invariantsCase(Ctx& cx, const std::string& kind, const std::string& gl, bool& ok) {
    std::unique_ptr<Geometry> g;
    try { g = buildGeom(gl, cx.gf.get()); } catch (std::exception&) { ok = false; return ""; }
    const GEOSGeometry* cg = (const GEOSGeometry*) g.get();
    GEOSGeometry* rev = GEOSReverse_r(cx.h, cg);
    GEOSGeometry* rr = rev ? GEOSReverse_r(cx.h, rev) : nullptr;
    GEOSGeometry* cl = GEOSGeom_clone_r(cx.h, cg);
    GEOSGeometry* nm = GEOSGeom_clone_r(cx.h, cg);
    if (nm && GEOSNormalize_r(cx.h, nm) != 0) { delete (Geometry*) nm; nm = nullptr; }
    auto dump = [](GEOSGeometry* x) { return x ? dumpGeom((const Geometry*) x) : std::string("err"); };
    std::string c = "I " + kind + " | G " + gl + " | R " + dump(rev) + " | RR " + dump(rr) + " | N " + dump(nm) + " | CL " + dump(cl);
    const GEOSGeometry* four[4] = {cg, rev, nm, cl};
    std::string A = " | A", L = " | L", NP = " | NP", NG = " | NG", D = " | D";
    for (int i = 0; i < 4; i++) {
        if (!four[i]) { A += " x"; L += " x"; NP += " x"; NG += " x"; D += " x"; continue; }
        double a = 0, l = 0;
        A += (GEOSArea_r(cx.h, four[i], &a) == 1) ? " " + hex(a) : std::string(" x");
        L += (GEOSLength_r(cx.h, four[i], &l) == 1) ? " " + hex(l) : std::string(" x");
        NP += " " + std::to_string(GEOSGetNumCoordinates_r(cx.h, four[i]));
        NG += " " + std::to_string(GEOSGetNumGeometries_r(cx.h, four[i]));
        D += " " + std::to_string(GEOSGeom_getDimensions_r(cx.h, four[i]));
    }
    c += A + L + NP + NG + D + " | X";
    const GEOSGeometry* others[3] = {cl, rev, nm};
    for (int i = 0; i < 3; i++) c += others[i] ? " " + std::to_string((int) GEOSEqualsExact_r(cx.h, cg, others[i], 0.0)) : std::string(" x");
    for (int i = 0; i < 3; i++) c += others[i] ? " " + std::to_string((int) GEOSEqualsIdentical_r(cx.h, cg, others[i])) : std::string(" x");
    for (GEOSGeometry* x : {rev, rr, cl, nm}) if (x) delete (Geometry*) x;
    ok = true; return c;
}

static void streamInvariants(Ctx& cx, Rng& r, long n, Out& out) {
    for (long i = 0; i < n; i++) {
        GenCfg cfg; cfg.weird = false; cfg.mixedDims = false; cfg.maxDepth = 2; cfg.maxPts = 7;
        cfg.gridInts = r.chance(55); cfg.curves = r.chance(8);
        out.count(cfg.gridInts ? "coords_grid" : "coords_full_precision");
        GTreeGen gen(r, cfg, &out);
        std::string base = gen.geom();
        auto v = splitToks(base); Toks tk(v); int srid = std::stoi(tk.next());
        TNode root;
        try { root = parseNode(tk); } catch (std::exception&) { out.count("gen_unparsable"); continue; }
        degenerate(root, r, out);
        bool ok = false; std::string c = invariantsCase(cx, cfg.gridInts ? "grid" : "full", lineOf(srid, root), ok);
        if (!ok) { out.count("rejected_by_constructor"); continue; }
        if (c.find("| N err") != std::string::npos) out.count("impl_normalize_unsupported");
        out.emit(c, "ok");
    }
}


// ---------------------------------------------------------------- compare stream (Geometry::compareTo)
static void tweak(TNode& nd, Rng& r, Out& out) {
    // change one thing somewhere: an ordinate, a point count, an element count
    if (!nd.kids.empty() && r.chance(60)) { tweak(nd.kids[r.below(nd.kids.size())], r, out); return; }
    if (!nd.kids.empty() && r.chance(50)) { nd.kids.pop_back(); out.count("tweak_drop_element"); return; }
    if (nd.seqs.empty()) return;
    TSeq& s = nd.seqs[r.below(nd.seqs.size())];
    if (s.pts.empty()) return;
    if (nd.tag == "L" && s.pts.size() > 2 && r.chance(30)) { s.pts.pop_back(); out.count("tweak_drop_point"); return; }
    size_t i = r.below(s.pts.size());
    if ((nd.tag == "Y" || nd.tag == "R") && (i == 0 || i + 1 == s.pts.size())) { i = s.pts.size() > 2 ? 1 : 0; }
    double v = tokVal(s.pts[i][r.below(2)]);
    s.pts[i][r.below(2)] = hex(v + (r.chance(50) ? 1.0 : -1.0));
    if (nd.tag == "Y" || nd.tag == "R") s.pts.back() = s.pts.front();
    out.count("tweak_ordinate");
}
static std::string compareCase(Ctx& cx, const std::string& a, const std::string& b, bool& ok) {
    std::unique_ptr<Geometry> ga, gb;
    try { ga = buildGeom(a, cx.gf.get()); gb = buildGeom(b, cx.gf.get()); } catch (std::exception&) { ok = false; return ""; }
    auto sg = [](int v) { return v < 0 ? "-1" : v > 0 ? "1" : "0"; };
    ok = true;
    return std::string(sg(ga->compareTo(gb.get()))) + " " + sg(gb->compareTo(ga.get())) + " " + sg(ga->compareTo(ga.get()));
}
static void streamCompare(Ctx& cx, Rng& r, long n, Out& out) {
    for (long i = 0; i < n; i++) {
        GenCfg cfg; cfg.weird = false; cfg.mixedDims = false; cfg.maxDepth = 2; cfg.maxPts = 5; cfg.gridInts = r.chance(85); cfg.curves = false;
        GTreeGen gen(r, cfg, &out);
        std::string a = gen.geom(), b;
        int mode = (int) r.below(4);
        if (mode == 0) { b = gen.geom(); out.count("pair_independent"); }
        else {
            auto v = splitToks(a); Toks tk(v); int srid = std::stoi(tk.next()); TNode root;
            try { root = parseNode(tk); } catch (std::exception&) { continue; }
            if (mode == 1) { out.count("pair_identical"); }
            else if (mode == 2) { tweak(root, r, out); out.count("pair_tweaked"); }
            else { variant(root, r, out); out.count("pair_variant"); }
            b = lineOf(srid, root);
        }
        bool ok = false; std::string e = compareCase(cx, a, b, ok);
        if (!ok) { out.count("rejected_by_constructor"); continue; }
        out.count(std::string("result_") + e.substr(0, e.find(' ')));
        out.emit("P " + a + " | " + b, e);
    }
}

// ---------------------------------------------------------------- main
int main(int argc, char** argv) {
    if (argc < 4) { std::fprintf(stderr, "usage: c20 <stream> <seed> <n> <outbase> | c20 replay <stream> <file>\n"); return 2; }
    Ctx cx; cx.h = GEOS_init_r(); GEOSContext_setNoticeHandler_r(cx.h, notice); GEOSContext_setErrorHandler_r(cx.h, errorh);
    cx.gf = GeometryFactory::create();
    std::string stream = argv[1];
    if (stream == "replay") {
        std::string st = argv[2]; std::ifstream f(argv[3]); std::string line; int bad = 0;
        while (std::getline(f, line)) {
            if (line.empty()) continue;
            if (st == "normalize") {
                bool ok = false; std::string e = normalizeGroup(cx, splitBar(line, 1), ok);
                std::cout << (ok ? e : std::string("rejected")) << "\n";
            } else if (st == "compare") {
                auto gs = splitBar(line, 1); bool ok = false; std::string e = gs.size() == 2 ? compareCase(cx, gs[0], gs[1], ok) : "";
                std::cout << (ok ? e : std::string("rejected")) << "\n";
            } else if (st == "construct") {
                // only the "K kind | G geom" part of the line is used; everything else is recomputed
                auto secs = splitBar(line, 0); std::string kind = "grid", gl;
                for (auto& sct : secs) { if (sct.rfind("K ", 0) == 0) kind = sct.substr(2); if (sct.rfind("G ", 0) == 0) gl = sct.substr(2); }
                bool ok = false; std::string c = constructCase(cx, kind, gl, ok);
                std::cout << (ok ? c : std::string("rejected")) << "\n";
            } else if (st == "pos") {
                auto secs = splitBar(line, 0); std::string kind = "grid", gl;
                for (auto& sct : secs) { if (sct.rfind("K ", 0) == 0) kind = sct.substr(2); if (sct.rfind("G ", 0) == 0) gl = sct.substr(2); }
                bool ok = false; std::string c = posCase(cx, kind, gl, ok);
                std::cout << (ok ? c : std::string("rejected")) << "\n";
            } else if (st == "sequence") {
                // sections: Q kind | G geom | O op args result…  (the recorded results are dropped and recomputed)
                auto secs = splitBar(line, 0); std::string kind = "grid", gl; std::vector<std::vector<std::string>> prog;
                for (auto& sct : secs) {
                    if (sct.rfind("Q ", 0) == 0) kind = sct.substr(2);
                    else if (sct.rfind("G ", 0) == 0) gl = sct.substr(2);
                    else if (sct.rfind("O ", 0) == 0) {
                        auto t = splitToks(sct.substr(2)); if (t.empty()) continue;
                        size_t nargs = t[0] == "bd" ? 0 : (t[0] == "sub" || t[0] == "eqx" || t[0] == "eqi" || t[0] == "cmp") ? 2 : 1;
                        if (t.size() < 1 + nargs) continue;
                        prog.push_back(std::vector<std::string>(t.begin(), t.begin() + 1 + (long) nargs));
                    }
                }
                bool ok = false; std::string c = sequenceCase(cx, kind, gl, prog, ok);
                std::cout << (ok ? c : std::string("rejected")) << "\n";
            } else if (st == "invariants") {
                auto secs = splitBar(line, 0); std::string kind = "grid", gl;
                for (auto& sct : secs) { if (sct.rfind("I ", 0) == 0) kind = sct.substr(2); if (sct.rfind("G ", 0) == 0) gl = sct.substr(2); }
                bool ok = false; std::string c = invariantsCase(cx, kind, gl, ok);
                std::cout << (ok ? c : std::string("rejected")) << "\n";
            } else { std::cout << "unknown-stream\n"; bad = 1; }
        }
        GEOS_finish_r(cx.h); return bad;
    }
    if (argc < 5) return 2;
    uint64_t seed = std::stoull(argv[2]); long n = std::stol(argv[3]);
    {
        Out out(argv[4]); Rng r(seed);
        if (stream == "normalize") streamNormalize(cx, r, n, out);
        else if (stream == "construct") streamConstruct(cx, r, n, out);
        else if (stream == "compare") streamCompare(cx, r, n, out);
        else if (stream == "invariants") streamInvariants(cx, r, n, out);
        else if (stream == "pos") streamPos(cx, r, n, out);
        else if (stream == "sequence") streamSequence(cx, r, n, out);
        else { std::fprintf(stderr, "unknown stream %s\n", stream.c_str()); return 2; }
    }
    GEOS_finish_r(cx.h);
    return 0;
}
