// C20 correspondence harness.
//   c20 normalize  <seed> <n> <outbase>   groups "base | variants" (ring start / ring direction / element order);
//                                         expect = GEOSNormalize_r outputs + the implementation's own oracle flags
//   c20 construct  <seed> <n> <outbase>   input + GEOS constructions (hull, envelope, centroid, pointOnSurface,
//                                         minimum bounding circle, minimum rotated rectangle, minimum width);
//                                         the driver runs the exact checkers; expect = "ok"
//   c20 invariants <seed> <n> <outbase>   clone / reverse / normalize: dumps, area, length, counts, dimension,
//                                         equalsExact / equalsIdentical; the driver checks them; expect = "ok"
//   c20 compare    <seed> <n> <outbase>   pairs of geometries; expect = signs of a.compareTo(b), b.compareTo(a), a.compareTo(a)
//   c20 replay <stream> <file>            run the case lines in <file> (only the input part is used), print "case\nexpect"
#include "gtree.h"
#include <geos_c.h>
#include <geos/algorithm/MinimumBoundingCircle.h>
#include <geos/algorithm/MinimumDiameter.h>
#include <geos/algorithm/MinimumAreaRectangle.h>
#include <cstdarg>
#include <fstream>
#include <iostream>
#include <functional>

using namespace vh;

static void notice(const char*, ...) {}
static void errorh(const char*, ...) {}

// ---------------------------------------------------------------- token tree
struct TSeq { bool z = false, m = false; std::vector<std::vector<std::string>> pts; };   // each point = its hex tokens
struct TNode { std::string tag; std::vector<TSeq> seqs; std::vector<TNode> kids; };

static TSeq parseSeq(Toks& tk) {
    TSeq s; std::string f = tk.next(); s.z = f.find('z') != std::string::npos; s.m = f.find('m') != std::string::npos;
    size_t n = tk.nat(); size_t d = 2 + s.z + s.m;
    for (size_t i = 0; i < n; i++) { std::vector<std::string> p; for (size_t j = 0; j < d; j++) p.push_back(tk.next()); s.pts.push_back(p); }
    return s;
}
static TNode parseNode(Toks& tk) {
    TNode nd; nd.tag = tk.next();
    if (nd.tag == "P" || nd.tag == "L" || nd.tag == "R" || nd.tag == "C") { nd.seqs.push_back(parseSeq(tk)); return nd; }
    size_t k = tk.nat();
    if (nd.tag == "Y") { for (size_t i = 0; i < k; i++) nd.seqs.push_back(parseSeq(tk)); return nd; }
    for (size_t i = 0; i < k; i++) nd.kids.push_back(parseNode(tk));
    return nd;
}
static void showSeq(const TSeq& s, std::string& o) {
    o += std::string(" xy") + (s.z ? "z" : "") + (s.m ? "m" : "") + " " + std::to_string(s.pts.size());
    for (auto& p : s.pts) for (auto& t : p) { o += ' '; o += t; }
}
static void showNode(const TNode& nd, std::string& o) {
    if (!o.empty()) o += ' ';
    o += nd.tag;
    if (nd.tag == "P" || nd.tag == "L" || nd.tag == "R" || nd.tag == "C") { showSeq(nd.seqs[0], o); return; }
    if (nd.tag == "Y") { o += ' ' + std::to_string(nd.seqs.size()); for (auto& s : nd.seqs) showSeq(s, o); return; }
    o += ' ' + std::to_string(nd.kids.size());
    for (auto& k : nd.kids) showNode(k, o);
}
static double tokVal(const std::string& t) { return frombits(std::stoull(t, nullptr, 16)); }
static bool xyEq(const std::vector<std::string>& a, const std::vector<std::string>& b) { return tokVal(a[0]) == tokVal(b[0]) && tokVal(a[1]) == tokVal(b[1]); }
static bool seqClosed(const TSeq& s) { return s.pts.size() >= 2 && xyEq(s.pts.front(), s.pts.back()); }

// ---------------------------------------------------------------- variants
static void rotateRing(TSeq& s, Rng& r, Out& out) {
    if (s.pts.size() < 3) return;
    std::vector<std::vector<std::string>> open(s.pts.begin(), s.pts.end() - 1);
    size_t k = r.below(open.size());
    if (k) out.count("var_ring_rotated");
    std::rotate(open.begin(), open.begin() + (long) k, open.end());
    open.push_back(open.front());
    s.pts = open;
}
static void reverseSeq(TSeq& s, Out& out) { std::reverse(s.pts.begin(), s.pts.end()); out.count("var_seq_reversed"); }
template <class T> static void shuffle(std::vector<T>& v, size_t from, Rng& r, Out& out) {
    if (v.size() < from + 2) return;
    for (size_t i = v.size() - 1; i > from; i--) { size_t j = from + r.below(i - from + 1); if (i != j) { std::swap(v[i], v[j]); out.count("var_elements_swapped"); } }
}
static void variant(TNode& nd, Rng& r, Out& out) {
    if (nd.tag == "Y") {
        for (auto& s : nd.seqs) { if (r.chance(70)) rotateRing(s, r, out); if (r.chance(50)) reverseSeq(s, out); }
        if (r.chance(70)) shuffle(nd.seqs, 1, r, out);
    } else if (nd.tag == "R" || nd.tag == "L") {
        TSeq& s = nd.seqs[0];
        // only rings that are closed by an identical copy are rotated (the closing copy is regenerated)
        // a line closed in XY whose closing point is not an identical copy (different Z/M or -0/+0) is left alone:
        // normalisation replaces that point by a copy of the new first point, so it is not a "ring direction" variant
        bool closedXY = seqClosed(s), identical = closedXY && s.pts.front() == s.pts.back();
        if (identical && r.chance(70)) rotateRing(s, r, out);
        if ((!closedXY || identical) && r.chance(50)) reverseSeq(s, out);
    } else if (nd.tag == "P" || nd.tag == "C") {
    } else if (nd.tag == "K" || nd.tag == "U") {
    } else {
        for (auto& k : nd.kids) variant(k, r, out);
        if (r.chance(80)) shuffle(nd.kids, 0, r, out);
    }
}

// degeneracies the quantifier names: duplicate vertices, flat rings, all-equal rings, closed lines, negative zero
static void degenerate(TNode& nd, Rng& r, Out& out) {
    auto fix = [&](TSeq& s, bool ring) {
        if (s.pts.empty()) return;
        if (!ring && s.pts.size() >= 3 && r.chance(30)) { s.pts.back() = s.pts.front(); out.count("deg_closed_line"); ring = true; }
        if (r.chance(4)) for (auto& p : s.pts) for (size_t j = 0; j < 2; j++) if (tokVal(p[j]) == 0.0 && r.chance(50)) { p[j] = hex(-0.0); out.count("deg_negative_zero"); }
        if (ring && s.pts.size() >= 3) {
            if (r.chance(10)) { size_t i = r.below(s.pts.size() - 1); s.pts.insert(s.pts.begin() + (long) i, s.pts[i]); out.count("deg_duplicate_vertex"); }
            if (r.chance(4)) { size_t i = r.below(s.pts.size() - 1), j = r.below(s.pts.size() - 1); if (i != j && j != 0 && i != 0) { s.pts[j] = s.pts[i]; out.count("deg_revisited_vertex"); } }
            if (r.chance(5)) { for (auto& p : s.pts) p[1] = s.pts[0][1]; out.count("deg_flat_ring"); }
            if (r.chance(2)) { for (auto& p : s.pts) p = s.pts[0]; out.count("deg_all_equal_ring"); }
            s.pts.back() = s.pts.front();
        } else if (s.pts.size() >= 2) {
            if (r.chance(6)) { size_t i = r.below(s.pts.size()); s.pts.insert(s.pts.begin() + (long) i, s.pts[i]); out.count("deg_duplicate_vertex"); }
            if (r.chance(5) && s.pts.size() >= 3) { for (size_t i = 0; i < s.pts.size() / 2; i++) { s.pts[s.pts.size() - 1 - i][0] = s.pts[i][0]; s.pts[s.pts.size() - 1 - i][1] = s.pts[i][1]; } out.count("deg_xy_palindrome_line"); }
        }
    };
    if (nd.tag == "Y") { for (auto& s : nd.seqs) fix(s, true); }
    else if (nd.tag == "R") fix(nd.seqs[0], true);
    else if (nd.tag == "L") fix(nd.seqs[0], false);
    else if (nd.tag == "P" || nd.tag == "C" || nd.tag == "K" || nd.tag == "U") {}
    else {
        for (auto& k : nd.kids) degenerate(k, r, out);
        if (!nd.kids.empty() && nd.kids.size() < 6 && r.chance(8)) { nd.kids.push_back(nd.kids[r.below(nd.kids.size())]); out.count("deg_duplicate_element"); }
    }
}

static std::string lineOf(int srid, const TNode& nd) { std::string o; showNode(nd, o); return std::to_string(srid) + " " + o; }

// ---------------------------------------------------------------- normalize stream
struct Ctx { GEOSContextHandle_t h; GeometryFactory::Ptr gf; };

static std::string normalizeGroup(Ctx& cx, const std::vector<std::string>& geoms, bool& ok) {
    // returns the expect line;  ok=false when a geometry is rejected by the constructors
    std::vector<std::string> nfs; std::vector<std::unique_ptr<Geometry>> keep;
    bool idem = true;
    for (auto& gl : geoms) {
        std::unique_ptr<Geometry> g;
        try { g = buildGeom(gl, cx.gf.get()); } catch (std::exception&) { ok = false; return ""; }
        int rc = GEOSNormalize_r(cx.h, (GEOSGeometry*) g.get());
        if (rc != 0) { nfs.push_back("unsupported"); keep.push_back(nullptr); continue; }
        std::string d1 = dumpGeom(g.get());
        auto g2 = g->clone();
        int rc2 = GEOSNormalize_r(cx.h, (GEOSGeometry*) g2.get());
        if (rc2 != 0 || dumpGeom(g2.get()) != d1) idem = false;
        nfs.push_back(d1); keep.push_back(std::move(g));
    }
    bool canon = true, eqx = true, eqi = true;
    for (size_t i = 1; i < nfs.size(); i++) {
        if (nfs[i] != nfs[0]) canon = false;
        if (keep[0]) {
            if (!keep[i]) { eqx = false; eqi = false; }
            else {
                if (GEOSEqualsExact_r(cx.h, (GEOSGeometry*) keep[0].get(), (GEOSGeometry*) keep[i].get(), 0.0) != 1) eqx = false;
                if (GEOSEqualsIdentical_r(cx.h, (GEOSGeometry*) keep[0].get(), (GEOSGeometry*) keep[i].get()) != 1) eqi = false;
            }
        }
    }
    std::string e;
    for (size_t i = 0; i < nfs.size(); i++) { if (i) e += " | "; e += nfs[i]; }
    e += std::string(" # idem=") + (idem ? "1" : "0") + " canon=" + (canon ? "1" : "0") + " eqx=" + (eqx ? "1" : "0") + " eqi=" + (eqi ? "1" : "0");
    ok = true; return e;
}

static std::vector<std::string> splitBar(const std::string& line, size_t skipToks) {
    auto v = splitToks(line); std::vector<std::string> gs; std::string cur;
    for (size_t i = skipToks; i < v.size(); i++) {
        if (v[i] == "|") { gs.push_back(cur); cur.clear(); } else { if (!cur.empty()) cur += ' '; cur += v[i]; }
    }
    gs.push_back(cur); return gs;
}

static void streamNormalize(Ctx& cx, Rng& r, long n, Out& out) {
    for (long i = 0; i < n; i++) {
        GenCfg cfg; cfg.weird = false; cfg.mixedDims = false; cfg.maxDepth = 2; cfg.maxPts = 7;
        cfg.gridInts = r.chance(60); cfg.curves = r.chance(6);
        out.count(cfg.gridInts ? "coords_grid" : "coords_full_precision");
        GTreeGen gen(r, cfg, &out);
        std::string base = gen.geom();
        auto v = splitToks(base); Toks tk(v); int srid = std::stoi(tk.next());
        TNode root;
        try { root = parseNode(tk); } catch (std::exception&) { out.count("gen_unparsable"); continue; }
        degenerate(root, r, out);
        std::vector<std::string> geoms; geoms.push_back(lineOf(srid, root));
        int nv = r.range(2, 4);
        for (int k = 0; k < nv; k++) { TNode t = root; variant(t, r, out); geoms.push_back(lineOf(srid, t)); }
        bool ok = false; std::string e = normalizeGroup(cx, geoms, ok);
        if (!ok) { out.count("rejected_by_constructor"); continue; }
        std::string c = "N";
        for (size_t k = 0; k < geoms.size(); k++) { c += (k ? " | " : " "); c += geoms[k]; }
        if (e.find("idem=0") != std::string::npos) out.count("impl_not_idempotent");
        if (e.find("canon=0") != std::string::npos) out.count("impl_not_canonical");
        if (e.find("unsupported") != std::string::npos) out.count("impl_unsupported");
        out.emit(c, e);
    }
}


// ---------------------------------------------------------------- construct stream
struct XY { double x, y; };
static std::string ptTok(const XY& p) { return hex(p.x) + " " + hex(p.y); }
static std::string seqTok(const std::vector<XY>& v) { std::string s = "xy " + std::to_string(v.size()); for (auto& p : v) s += " " + ptTok(p); return s; }
static std::string polyTok(const std::vector<std::vector<XY>>& rings) { std::string s = "Y " + std::to_string(rings.size()); for (auto& r : rings) s += " " + seqTok(r); return s; }

// a random similarity with "irrational-looking" doubles: scale 10^k, rotation, translation
struct Sim { double a, b, tx, ty; bool id;
    XY operator()(const XY& p) const { if (id) return p; return XY{a * p.x - b * p.y + tx, b * p.x + a * p.y + ty}; } };
static Sim randomSim(Rng& r, bool grid) {
    Sim s; s.id = grid; s.a = 1; s.b = 0; s.tx = 0; s.ty = 0;
    if (grid) return s;
    double mag = std::pow(10.0, r.range(-3, 6)); double th = r.unit() * 6.283185307179586;
    s.a = mag * std::cos(th); s.b = mag * std::sin(th); s.tx = (r.unit() - 0.5) * mag * std::pow(10.0, r.range(0, 3)); s.ty = (r.unit() - 0.5) * mag * std::pow(10.0, r.range(0, 3));
    return s;
}
// primitive lattice directions sorted counter-clockwise (exact integer angle sort)
static std::vector<XY> latticeDirs(int m) {
    std::vector<XY> d;
    for (int x = -m; x <= m; x++) for (int y = -m; y <= m; y++) { if (!x && !y) continue; int a = std::abs(x), b = std::abs(y); while (b) { int t = a % b; a = b; b = t; } if (a == 1) d.push_back(XY{(double) x, (double) y}); }
    auto half = [](const XY& p) { return (p.y > 0 || (p.y == 0 && p.x > 0)) ? 0 : 1; };
    std::sort(d.begin(), d.end(), [&](const XY& p, const XY& q) { int hp = half(p), hq = half(q); if (hp != hq) return hp < hq; return p.x * q.y - p.y * q.x > 0; });
    return d;
}
// star-shaped ring around the origin: distinct rays in angular order, integer radii multipliers; closed
static std::vector<XY> starRing(Rng& r, int n, int dirM, int rmin, int rmax, bool cw) {
    static std::map<int, std::vector<XY>> cache; if (!cache.count(dirM)) cache[dirM] = latticeDirs(dirM);
    const auto& dirs = cache[dirM];
    std::vector<size_t> idx; size_t step = dirs.size() / (size_t) n; size_t off = r.below(dirs.size());
    for (int i = 0; i < n; i++) idx.push_back((off + (size_t) i * step + r.below(step ? step : 1)) % dirs.size());
    std::sort(idx.begin(), idx.end()); idx.erase(std::unique(idx.begin(), idx.end()), idx.end());
    std::vector<XY> ring; for (auto i : idx) { int k = r.range(rmin, rmax); ring.push_back(XY{dirs[i].x * k, dirs[i].y * k}); }
    if (cw) std::reverse(ring.begin(), ring.end());
    ring.push_back(ring.front());
    return ring;
}
static std::vector<XY> mapRing(const std::vector<XY>& v, const Sim& s, double dx = 0, double dy = 0) { std::vector<XY> o; for (auto& p : v) o.push_back(s(XY{p.x + dx, p.y + dy})); if (o.size() > 1) o.back() = o.front(); return o; }

struct CGen {
    Rng& r; Out& out; bool grid = true; Sim sim{1, 0, 0, 0, true};
    CGen(Rng& rr, Out& o) : r(rr), out(o) {}
    XY gp(int span) { return XY{(double) r.range(-span, span), (double) r.range(-span, span)}; }
    std::string points(int kind) {  // MultiPoint
        std::vector<XY> v; int n = r.range(1, 12);
        switch (kind) {
        case 0: { int span = r.chance(50) ? 4 : 30; for (int i = 0; i < n; i++) v.push_back(gp(span)); out.count("in_points_random"); break; }
        case 1: { XY a = gp(10), d = gp(3); if (d.x == 0 && d.y == 0) d.x = 1; for (int i = 0; i < n; i++) { int k = r.range(-6, 6); v.push_back(XY{a.x + k * d.x, a.y + k * d.y}); } out.count("in_points_collinear"); break; }
        case 2: { XY a = gp(20); for (int i = 0; i < n; i++) v.push_back(a); out.count("in_points_all_equal"); break; }
        case 3: { static const int C[12][2] = {{5,0},{-5,0},{0,5},{0,-5},{3,4},{-3,4},{3,-4},{-3,-4},{4,3},{-4,3},{4,-3},{-4,-3}};
                  int k = r.range(1, 3); for (int i = 0; i < n; i++) { int j = (int) r.below(12); v.push_back(XY{(double) C[j][0] * k, (double) C[j][1] * k}); }
                  if (r.chance(50)) v.push_back(gp(2)); out.count("in_points_cocircular"); break; }
        case 4: { // a fat point set one of whose hull edges carries 3..5 collinear points (nearly collinear after a similarity)
                  XY a = gp(6), d = gp(3); if (d.x == 0 && d.y == 0) d.x = 1; int k = r.range(3, 5);
                  for (int i = 0; i < k; i++) v.push_back(XY{a.x + i * d.x, a.y + i * d.y});
                  int m = r.range(1, 4); for (int i = 0; i < m; i++) { int u = r.range(0, k - 1), w = r.range(1, 9); v.push_back(XY{a.x + u * d.x - w * d.y, a.y + u * d.y + w * d.x}); }
                  out.count("in_points_collinear_hull_edge"); break; }
        case 5: { // every edge of a triangle subdivided into four: all points on the hull boundary, in collinear runs of five
                  XY A{0, 0}, B{(double) (4 * r.range(1, 5)), (double) (4 * r.range(-2, 2))}, C{(double) (4 * r.range(-2, 4)), (double) (4 * r.range(1, 5))};
                  XY T[3] = {A, B, C};
                  for (int e = 0; e < 3; e++) for (int q = 0; q < 4; q++) { const XY& p = T[e]; const XY& w = T[(e + 1) % 3]; v.push_back(XY{p.x + (w.x - p.x) * q / 4, p.y + (w.y - p.y) * q / 4}); }
                  out.count("in_points_subdivided_triangle"); break; }
        default: { int w = r.range(1, 9), h = r.chance(40) ? w : r.range(1, 9); v = {XY{0,0}, XY{(double) w,0}, XY{(double) w,(double) h}, XY{0,(double) h}};
                  for (int i = 0; i < n / 2; i++) v.push_back(XY{(double) r.range(0, w), (double) r.range(0, h)}); out.count("in_points_rectangle"); }
        }
        std::string s = "MP " + std::to_string(v.size());
        for (auto& p : v) s += " P xy 1 " + ptTok(sim(p));
        return s;
    }
    std::string line(int kind) {
        std::vector<XY> v; int n = r.range(2, 8);
        if (kind == 0) { for (int i = 0; i < n; i++) v.push_back(gp(12)); out.count("in_line_random"); }
        else if (kind == 1) { XY a = gp(10); for (int i = 0; i < n; i++) v.push_back(a); out.count("in_line_zero_length"); }
        else if (kind == 2) { XY a = gp(10), d = gp(3); if (d.x == 0 && d.y == 0) d.y = 1; for (int i = 0; i < n; i++) { int k = r.range(-5, 5); v.push_back(XY{a.x + k * d.x, a.y + k * d.y}); } out.count("in_line_collinear"); }
        else { for (int i = 0; i < n; i++) v.push_back(gp(12)); v.push_back(v.front()); out.count("in_line_closed"); }
        std::vector<XY> w; for (auto& p : v) w.push_back(sim(p));
        return "L " + seqTok(w);
    }
    // valid-by-construction star polygon (checked with isValid by the caller), optional hole near the centre
    std::string polygon(double dx, double dy, bool allowHole) {
        // the shell must be star-shaped around the origin (every angular gap < 180 degrees) and keep a disc of
        // radius > 1.5 around it free, so that the hole (radius <= sqrt 2) lies strictly inside
        std::vector<XY> shell; bool roomy = false;
        for (int attempt = 0; attempt < 20; attempt++) {
            shell = starRing(r, r.range(3, 9), 4, 6, 12, false);
            bool star = shell.size() >= 4; roomy = true;
            for (size_t i = 0; star && i + 1 < shell.size(); i++) {
                const XY& a = shell[i]; const XY& b = shell[i + 1];
                double cr = a.x * b.y - a.y * b.x;            // exact: small integers
                if (cr <= 0) star = false;
                double l2 = (b.x - a.x) * (b.x - a.x) + (b.y - a.y) * (b.y - a.y);
                if (cr * cr <= 2.25 * l2) roomy = false;
            }
            if (star) break;
            shell.clear();
        }
        if (shell.empty()) { shell = {XY{8, 0}, XY{0, 8}, XY{-8, 0}, XY{0, -8}, XY{8, 0}}; roomy = true; }
        if (r.chance(50)) std::reverse(shell.begin(), shell.end());
        allowHole = allowHole && roomy;
        std::vector<std::vector<XY>> rings; rings.push_back(mapRing(shell, sim, dx, dy));
        if (allowHole && r.chance(35)) { std::vector<XY> hole = starRing(r, r.range(3, 5), 1, 1, 1, r.chance(50)); rings.push_back(mapRing(hole, sim, dx, dy)); out.count("in_polygon_with_hole"); }
        out.count("in_polygon_star");
        return polyTok(rings);
    }
    std::string flatPolygon() {   // zero-area polygons (grid only)
        std::vector<XY> v; XY a = gp(10), d = gp(3); if (d.x == 0 && d.y == 0) d.x = 1;
        int n = r.range(2, 5); for (int i = 0; i < n; i++) { int k = r.range(-5, 5); v.push_back(XY{a.x + k * d.x, a.y + k * d.y}); }
        if (r.chance(20)) for (auto& p : v) p = a;
        v.push_back(v.front()); if (v.size() < 3) v.push_back(v.front());
        out.count("in_polygon_zero_area");
        std::vector<XY> w; for (auto& p : v) w.push_back(sim(p));
        return polyTok({w});
    }
    std::string empty() { static const char* E[] = {"P xy 0", "L xy 0", "Y 1 xy 0", "MP 0", "ML 0", "MY 0", "GC 0"}; out.count("in_empty"); return E[r.below(7)]; }
    std::string any(int depth) {
        switch (r.below(depth > 0 ? 9 : 14)) {
        case 0: case 1: return points((int) r.below(7));
        case 2: return line((int) r.below(4));
        case 3: case 4: return polygon(0, 0, true);
        case 5: return grid ? flatPolygon() : polygon(0, 0, false);
        case 6: return empty();
        case 7: { std::string s = "P xy 1 " + ptTok(sim(gp(15))); out.count("in_point"); return s; }
        case 8: { int k = r.range(1, 3); std::string s = "MY " + std::to_string(k); for (int i = 0; i < k; i++) s += " " + polygon(40.0 * i, 0, true); out.count("in_multipolygon"); return s; }
        case 12: case 13: return points(5);
        case 9: { int k = r.range(1, 3); std::string s = "ML " + std::to_string(k); for (int i = 0; i < k; i++) s += " " + line((int) r.below(4)); out.count("in_multiline"); return s; }
        default: { int k = r.range(1, 4); std::string s = "GC " + std::to_string(k); for (int i = 0; i < k; i++) s += " " + any(depth + 1); out.count("in_collection_mixed"); return s; }
        }
    }
};

static std::string geomOrErr(GEOSGeometry* g) { if (!g) return "err"; std::string s = dumpGeom((const Geometry*) g); delete (Geometry*) g; return s; }

static std::string constructCase(Ctx& cx, const std::string& kind, const std::string& gl, bool& ok) {
    std::unique_ptr<Geometry> g;
    try { g = buildGeom(gl, cx.gf.get()); } catch (std::exception&) { ok = false; return ""; }
    const GEOSGeometry* cg = (const GEOSGeometry*) g.get();
    std::string c = "K " + kind + " | G " + gl;
    c += " | H " + geomOrErr(GEOSConvexHull_r(cx.h, cg));
    c += " | E " + geomOrErr(GEOSEnvelope_r(cx.h, cg));
    c += " | C " + geomOrErr(GEOSGetCentroid_r(cx.h, cg));
    { GEOSGeometry* p = GEOSPointOnSurface_r(cx.h, cg); char v = GEOSisValid_r(cx.h, cg);
      c += " | S " + (p ? geomOrErr(p) + " " + (v == 1 ? "1" : "0") : std::string("err")); }
    { // minimum bounding circle: support points from the C++ class, radius/centre from the C API
        std::string b;
        try {
            geos::algorithm::MinimumBoundingCircle mbc(g.get());
            std::vector<CoordinateXY> sup = mbc.getExtremalPoints();
            double radius = 0; GEOSGeometry* centre = nullptr;
            GEOSGeometry* circ = GEOSMinimumBoundingCircle_r(cx.h, cg, &radius, &centre);
            if (!circ) b = "err";
            else {
                b = std::to_string(sup.size()); for (auto& p : sup) b += " " + hex(p.x) + " " + hex(p.y);
                b += " R " + hex(radius);
                const Geometry* cp = (const Geometry*) centre;
                const CoordinateXY* q = (cp && !cp->isEmpty()) ? cp->getCoordinate() : nullptr;
                if (q && !std::isnan(q->x) && !std::isnan(q->y)) b += " " + hex(q->x) + " " + hex(q->y); else b += " none";
                delete (Geometry*) circ; if (centre) delete (Geometry*) centre;
            }
        } catch (std::exception&) { b = "err"; }
        c += " | B " + b;
    }
    c += " | M " + geomOrErr(GEOSMinimumRotatedRectangle_r(cx.h, cg));
    c += " | W " + geomOrErr(GEOSMinimumWidth_r(cx.h, cg));
    ok = true; return c;
}

static void streamConstruct(Ctx& cx, Rng& r, long n, Out& out) {
    for (long i = 0; i < n; i++) {
        CGen gen(r, out); gen.grid = r.chance(55); gen.sim = randomSim(r, gen.grid);
        out.count(gen.grid ? "coords_grid" : "coords_full_precision");
        std::string gl = "0 " + gen.any(0);
        bool ok = false; std::string c = constructCase(cx, gen.grid ? "grid" : "full", gl, ok);
        if (!ok) { out.count("rejected_by_constructor"); continue; }
        if (c.find(" err") != std::string::npos) out.count("impl_operation_error");
        out.emit(c, "ok");
    }
}


// ---------------------------------------------------------------- invariants stream
static std::string invariantsCase(Ctx& cx, const std::string& kind, const std::string& gl, bool& ok) {
    std::unique_ptr<Geometry> g;
    try { g = buildGeom(gl, cx.gf.get()); } catch (std::exception&) { ok = false; return ""; }
    const GEOSGeometry* cg = (const GEOSGeometry*) g.get();
    GEOSGeometry* rev = GEOSReverse_r(cx.h, cg);
    GEOSGeometry* rr = rev ? GEOSReverse_r(cx.h, rev) : nullptr;
    GEOSGeometry* cl = GEOSGeom_clone_r(cx.h, cg);
    GEOSGeometry* nm = GEOSGeom_clone_r(cx.h, cg);
    if (nm && GEOSNormalize_r(cx.h, nm) != 0) { delete (Geometry*) nm; nm = nullptr; }
    auto dump = [](GEOSGeometry* x) { return x ? dumpGeom((const Geometry*) x) : std::string("err"); };
    std::string c = "I " + kind + " | G " + gl + " | R " + dump(rev) + " | RR " + dump(rr) + " | N " + dump(nm) + " | CL " + dump(cl);
    const GEOSGeometry* four[4] = {cg, rev, nm, cl};
    std::string A = " | A", L = " | L", NP = " | NP", NG = " | NG", D = " | D";
    for (int i = 0; i < 4; i++) {
        if (!four[i]) { A += " x"; L += " x"; NP += " x"; NG += " x"; D += " x"; continue; }
        double a = 0, l = 0;
        A += (GEOSArea_r(cx.h, four[i], &a) == 1) ? " " + hex(a) : std::string(" x");
        L += (GEOSLength_r(cx.h, four[i], &l) == 1) ? " " + hex(l) : std::string(" x");
        NP += " " + std::to_string(GEOSGetNumCoordinates_r(cx.h, four[i]));
        NG += " " + std::to_string(GEOSGetNumGeometries_r(cx.h, four[i]));
        D += " " + std::to_string(GEOSGeom_getDimensions_r(cx.h, four[i]));
    }
    c += A + L + NP + NG + D + " | X";
    const GEOSGeometry* others[3] = {cl, rev, nm};
    for (int i = 0; i < 3; i++) c += others[i] ? " " + std::to_string((int) GEOSEqualsExact_r(cx.h, cg, others[i], 0.0)) : std::string(" x");
    for (int i = 0; i < 3; i++) c += others[i] ? " " + std::to_string((int) GEOSEqualsIdentical_r(cx.h, cg, others[i])) : std::string(" x");
    for (GEOSGeometry* x : {rev, rr, cl, nm}) if (x) delete (Geometry*) x;
    ok = true; return c;
}

static void streamInvariants(Ctx& cx, Rng& r, long n, Out& out) {
    for (long i = 0; i < n; i++) {
        GenCfg cfg; cfg.weird = false; cfg.mixedDims = false; cfg.maxDepth = 2; cfg.maxPts = 7;
        cfg.gridInts = r.chance(55); cfg.curves = r.chance(8);
        out.count(cfg.gridInts ? "coords_grid" : "coords_full_precision");
        GTreeGen gen(r, cfg, &out);
        std::string base = gen.geom();
        auto v = splitToks(base); Toks tk(v); int srid = std::stoi(tk.next());
        TNode root;
        try { root = parseNode(tk); } catch (std::exception&) { out.count("gen_unparsable"); continue; }
        degenerate(root, r, out);
        bool ok = false; std::string c = invariantsCase(cx, cfg.gridInts ? "grid" : "full", lineOf(srid, root), ok);
        if (!ok) { out.count("rejected_by_constructor"); continue; }
        if (c.find("| N err") != std::string::npos) out.count("impl_normalize_unsupported");
        out.emit(c, "ok");
    }
}


// ---------------------------------------------------------------- compare stream (Geometry::compareTo)
static void tweak(TNode& nd, Rng& r, Out& out) {
    // change one thing somewhere: an ordinate, a point count, an element count
    if (!nd.kids.empty() && r.chance(60)) { tweak(nd.kids[r.below(nd.kids.size())], r, out); return; }
    if (!nd.kids.empty() && r.chance(50)) { nd.kids.pop_back(); out.count("tweak_drop_element"); return; }
    if (nd.seqs.empty()) return;
    TSeq& s = nd.seqs[r.below(nd.seqs.size())];
    if (s.pts.empty()) return;
    if (nd.tag == "L" && s.pts.size() > 2 && r.chance(30)) { s.pts.pop_back(); out.count("tweak_drop_point"); return; }
    size_t i = r.below(s.pts.size());
    if ((nd.tag == "Y" || nd.tag == "R") && (i == 0 || i + 1 == s.pts.size())) { i = s.pts.size() > 2 ? 1 : 0; }
    double v = tokVal(s.pts[i][r.below(2)]);
    s.pts[i][r.below(2)] = hex(v + (r.chance(50) ? 1.0 : -1.0));
    if (nd.tag == "Y" || nd.tag == "R") s.pts.back() = s.pts.front();
    out.count("tweak_ordinate");
}
static std::string compareCase(Ctx& cx, const std::string& a, const std::string& b, bool& ok) {
    std::unique_ptr<Geometry> ga, gb;
    try { ga = buildGeom(a, cx.gf.get()); gb = buildGeom(b, cx.gf.get()); } catch (std::exception&) { ok = false; return ""; }
    auto sg = [](int v) { return v < 0 ? "-1" : v > 0 ? "1" : "0"; };
    ok = true;
    return std::string(sg(ga->compareTo(gb.get()))) + " " + sg(gb->compareTo(ga.get())) + " " + sg(ga->compareTo(ga.get()));
}
static void streamCompare(Ctx& cx, Rng& r, long n, Out& out) {
    for (long i = 0; i < n; i++) {
        GenCfg cfg; cfg.weird = false; cfg.mixedDims = false; cfg.maxDepth = 2; cfg.maxPts = 5; cfg.gridInts = r.chance(85); cfg.curves = false;
        GTreeGen gen(r, cfg, &out);
        std::string a = gen.geom(), b;
        int mode = (int) r.below(4);
        if (mode == 0) { b = gen.geom(); out.count("pair_independent"); }
        else {
            auto v = splitToks(a); Toks tk(v); int srid = std::stoi(tk.next()); TNode root;
            try { root = parseNode(tk); } catch (std::exception&) { continue; }
            if (mode == 1) { out.count("pair_identical"); }
            else if (mode == 2) { tweak(root, r, out); out.count("pair_tweaked"); }
            else { variant(root, r, out); out.count("pair_variant"); }
            b = lineOf(srid, root);
        }
        bool ok = false; std::string e = compareCase(cx, a, b, ok);
        if (!ok) { out.count("rejected_by_constructor"); continue; }
        out.count(std::string("result_") + e.substr(0, e.find(' ')));
        out.emit("P " + a + " | " + b, e);
    }
}

// ---------------------------------------------------------------- main
int main(int argc, char** argv) {
    if (argc < 4) { std::fprintf(stderr, "usage: c20 <stream> <seed> <n> <outbase> | c20 replay <stream> <file>\n"); return 2; }
    Ctx cx; cx.h = GEOS_init_r(); GEOSContext_setNoticeHandler_r(cx.h, notice); GEOSContext_setErrorHandler_r(cx.h, errorh);
    cx.gf = GeometryFactory::create();
    std::string stream = argv[1];
    if (stream == "replay") {
        std::string st = argv[2]; std::ifstream f(argv[3]); std::string line; int bad = 0;
        while (std::getline(f, line)) {
            if (line.empty()) continue;
            if (st == "normalize") {
                bool ok = false; std::string e = normalizeGroup(cx, splitBar(line, 1), ok);
                std::cout << (ok ? e : std::string("rejected")) << "\n";
            } else if (st == "compare") {
                auto gs = splitBar(line, 1); bool ok = false; std::string e = gs.size() == 2 ? compareCase(cx, gs[0], gs[1], ok) : "";
                std::cout << (ok ? e : std::string("rejected")) << "\n";
            } else if (st == "construct") {
                // only the "K kind | G geom" part of the line is used; everything else is recomputed
                auto secs = splitBar(line, 0); std::string kind = "grid", gl;
                for (auto& sct : secs) { if (sct.rfind("K ", 0) == 0) kind = sct.substr(2); if (sct.rfind("G ", 0) == 0) gl = sct.substr(2); }
                bool ok = false; std::string c = constructCase(cx, kind, gl, ok);
                std::cout << (ok ? c : std::string("rejected")) << "\n";
            } else if (st == "invariants") {
                auto secs = splitBar(line, 0); std::string kind = "grid", gl;
                for (auto& sct : secs) { if (sct.rfind("I ", 0) == 0) kind = sct.substr(2); if (sct.rfind("G ", 0) == 0) gl = sct.substr(2); }
                bool ok = false; std::string c = invariantsCase(cx, kind, gl, ok);
                std::cout << (ok ? c : std::string("rejected")) << "\n";
            } else { std::cout << "unknown-stream\n"; bad = 1; }
        }
        GEOS_finish_r(cx.h); return bad;
    }
    if (argc < 5) return 2;
    uint64_t seed = std::stoull(argv[2]); long n = std::stol(argv[3]);
    {
        Out out(argv[4]); Rng r(seed);
        if (stream == "normalize") streamNormalize(cx, r, n, out);
        else if (stream == "construct") streamConstruct(cx, r, n, out);
        else if (stream == "compare") streamCompare(cx, r, n, out);
        else if (stream == "invariants") streamInvariants(cx, r, n, out);
        else { std::fprintf(stderr, "unknown stream %s\n", stream.c_str()); return 2; }
    }
    GEOS_finish_r(cx.h);
    return 0;
}
