// GTree tokens <-> geos::geom::Geometry, and a structure-aware random generator of GTree token strings.
// Token grammar: see lean/Driver/GTreeIO.lean.
#pragma once
#include "common.h"
#include <geos/geom/Geometry.h>
#include <geos/geom/GeometryFactory.h>
#include <geos/geom/CoordinateSequence.h>
#include <geos/geom/Point.h>
#include <geos/geom/LineString.h>
#include <geos/geom/LinearRing.h>
#include <geos/geom/Polygon.h>
#include <geos/geom/MultiPoint.h>
#include <geos/geom/MultiLineString.h>
#include <geos/geom/MultiPolygon.h>
#include <geos/geom/GeometryCollection.h>
#include <geos/geom/CircularString.h>
#include <geos/geom/CompoundCurve.h>
#include <geos/geom/CurvePolygon.h>
#include <geos/geom/MultiCurve.h>
#include <geos/geom/MultiSurface.h>
#include <geos/geom/SimpleCurve.h>
#include <geos/geom/Curve.h>
#include <memory>
#include <stdexcept>

namespace vh {
using namespace geos::geom;

// ------------------------------------------------------------------ dump
inline void dumpSeq(const CoordinateSequence* cs, std::vector<std::string>& out) {
    bool z = cs->hasZ(), m = cs->hasM();
    out.push_back(std::string("xy") + (z ? "z" : "") + (m ? "m" : ""));
    out.push_back(std::to_string(cs->size()));
    for (std::size_t i = 0; i < cs->size(); i++) {
        CoordinateXYZM c; cs->getAt(i, c);
        out.push_back(hex(c.x)); out.push_back(hex(c.y));
        if (z) out.push_back(hex(c.z));
        if (m) out.push_back(hex(c.m));
    }
}

inline void dumpG(const Geometry* g, std::vector<std::string>& out) {
    switch (g->getGeometryTypeId()) {
    case GEOS_POINT: out.push_back("P"); dumpSeq(static_cast<const Point*>(g)->getCoordinatesRO(), out); break;
    case GEOS_LINESTRING: out.push_back("L"); dumpSeq(static_cast<const LineString*>(g)->getCoordinatesRO(), out); break;
    case GEOS_LINEARRING: out.push_back("R"); dumpSeq(static_cast<const LinearRing*>(g)->getCoordinatesRO(), out); break;
    case GEOS_CIRCULARSTRING: out.push_back("C"); dumpSeq(static_cast<const CircularString*>(g)->getCoordinatesRO(), out); break;
    case GEOS_POLYGON: {
        auto p = static_cast<const Polygon*>(g);
        out.push_back("Y"); out.push_back(std::to_string(p->getNumInteriorRing() + 1));
        dumpSeq(p->getExteriorRing()->getCoordinatesRO(), out);
        for (std::size_t i = 0; i < p->getNumInteriorRing(); i++) dumpSeq(p->getInteriorRingN(i)->getCoordinatesRO(), out);
        break; }
    case GEOS_COMPOUNDCURVE: {
        auto c = static_cast<const CompoundCurve*>(g);
        out.push_back("K"); out.push_back(std::to_string(c->getNumCurves()));
        for (std::size_t i = 0; i < c->getNumCurves(); i++) dumpG(c->getCurveN(i), out);
        break; }
    case GEOS_CURVEPOLYGON: {
        auto p = static_cast<const CurvePolygon*>(g);
        if (p->isEmpty()) { out.push_back("U"); out.push_back("0"); break; }
        out.push_back("U"); out.push_back(std::to_string(p->getNumInteriorRing() + 1));
        dumpG(p->getExteriorRing(), out);
        for (std::size_t i = 0; i < p->getNumInteriorRing(); i++) dumpG(p->getInteriorRingN(i), out);
        break; }
    default: {
        const char* tag = "GC";
        switch (g->getGeometryTypeId()) {
            case GEOS_MULTIPOINT: tag = "MP"; break; case GEOS_MULTILINESTRING: tag = "ML"; break;
            case GEOS_MULTIPOLYGON: tag = "MY"; break; case GEOS_MULTICURVE: tag = "MC"; break;
            case GEOS_MULTISURFACE: tag = "MS"; break; default: break; }
        out.push_back(tag); out.push_back(std::to_string(g->getNumGeometries()));
        for (std::size_t i = 0; i < g->getNumGeometries(); i++) dumpG(g->getGeometryN(i), out);
    } }
}

inline std::string dumpGeom(const Geometry* g) {
    std::vector<std::string> t; t.push_back(std::to_string(g->getSRID())); dumpG(g, t);
    std::string s; for (size_t i = 0; i < t.size(); i++) { if (i) s += ' '; s += t[i]; } return s;
}

// ------------------------------------------------------------------ build (throws on malformed tokens or constructor rejection)
struct Toks { const std::vector<std::string>& t; size_t p = 0;
    explicit Toks(const std::vector<std::string>& v) : t(v) {}
    const std::string& next() { if (p >= t.size()) throw std::runtime_error("tokens exhausted"); return t[p++]; }
    size_t nat() { return (size_t) std::stoull(next()); } };

inline std::unique_ptr<CoordinateSequence> buildSeq(Toks& tk) {
    std::string f = tk.next(); bool z = f.find('z') != std::string::npos, m = f.find('m') != std::string::npos;
    size_t n = tk.nat();
    auto cs = std::make_unique<CoordinateSequence>(0u, z, m);
    for (size_t i = 0; i < n; i++) {
        CoordinateXYZM c;
        c.x = frombits(std::stoull(tk.next(), nullptr, 16)); c.y = frombits(std::stoull(tk.next(), nullptr, 16));
        c.z = z ? frombits(std::stoull(tk.next(), nullptr, 16)) : std::numeric_limits<double>::quiet_NaN();
        c.m = m ? frombits(std::stoull(tk.next(), nullptr, 16)) : std::numeric_limits<double>::quiet_NaN();
        cs->add(c);
    }
    return cs;
}

inline std::unique_ptr<Geometry> buildG(Toks& tk, const GeometryFactory* gf) {
    std::string tag = tk.next();
    if (tag == "P") { auto cs = buildSeq(tk); return gf->createPoint(std::move(cs)); }
    if (tag == "L") { auto cs = buildSeq(tk); return gf->createLineString(std::move(cs)); }
    if (tag == "R") { auto cs = buildSeq(tk); return gf->createLinearRing(std::move(cs)); }
    if (tag == "C") { auto cs = buildSeq(tk); return gf->createCircularString(std::move(cs)); }
    if (tag == "Y") {
        size_t k = tk.nat(); if (k < 1) throw std::runtime_error("polygon without shell");
        auto shell = gf->createLinearRing(buildSeq(tk));
        std::vector<std::unique_ptr<LinearRing>> holes;
        for (size_t i = 1; i < k; i++) holes.push_back(gf->createLinearRing(buildSeq(tk)));
        return gf->createPolygon(std::move(shell), std::move(holes));
    }
    size_t k = tk.nat();
    if (tag == "K") {
        std::vector<std::unique_ptr<SimpleCurve>> secs;
        for (size_t i = 0; i < k; i++) { auto g = buildG(tk, gf);
            auto* sc = dynamic_cast<SimpleCurve*>(g.get()); if (!sc) throw std::runtime_error("compound section not a simple curve");
            g.release(); secs.emplace_back(sc); }
        return gf->createCompoundCurve(std::move(secs));
    }
    if (tag == "U") {
        if (k == 0) return gf->createCurvePolygon(false, false);
        std::vector<std::unique_ptr<Curve>> rings;
        for (size_t i = 0; i < k; i++) { auto g = buildG(tk, gf);
            auto* c = dynamic_cast<Curve*>(g.get()); if (!c) throw std::runtime_error("curve polygon ring not a curve");
            g.release(); rings.emplace_back(c); }
        std::unique_ptr<Curve> shell = std::move(rings[0]); rings.erase(rings.begin());
        return gf->createCurvePolygon(std::move(shell), std::move(rings));
    }
    std::vector<std::unique_ptr<Geometry>> gs;
    for (size_t i = 0; i < k; i++) gs.push_back(buildG(tk, gf));
    if (tag == "MP") return gf->createMultiPoint(std::move(gs));
    if (tag == "ML") return gf->createMultiLineString(std::move(gs));
    if (tag == "MY") return gf->createMultiPolygon(std::move(gs));
    if (tag == "MC") return gf->createMultiCurve(std::move(gs));
    if (tag == "MS") return gf->createMultiSurface(std::move(gs));
    if (tag == "GC") return gf->createGeometryCollection(std::move(gs));
    throw std::runtime_error("unknown tag " + tag);
}

inline std::vector<std::string> splitToks(const std::string& s) { std::istringstream is(s); std::vector<std::string> v; std::string t; while (is >> t) v.push_back(t); return v; }

// "srid geom" -> Geometry
inline std::unique_ptr<Geometry> buildGeom(const std::string& line, const GeometryFactory* gf) {
    auto v = splitToks(line); Toks tk(v);
    int srid = std::stoi(tk.next());
    auto g = buildG(tk, gf);
    g->setSRID(srid);
    return g;
}

// ------------------------------------------------------------------ generator (token strings; mostly well-formed)
struct GenCfg {
    int maxDepth = 3;        // nesting of collections
    int maxPts = 6;          // points per sequence
    bool curves = true;      // include circular/compound/curvepolygon/multicurve/multisurface
    bool weird = true;       // NaN/Inf/-0/denormal ordinates
    bool mixedDims = false;  // allow components whose Z/M flags differ from their parent's / siblings'
    bool gridInts = false;   // ordinates are small integers
};

struct GTreeGen {
    Rng& r; GenCfg cfg; Out* out;
    GTreeGen(Rng& rr, GenCfg c, Out* o = nullptr) : r(rr), cfg(c), out(o) {}
    void cnt(const std::string& k) { if (out) out->count(k); }

    double ord() {
        if (cfg.gridInts) return (double) r.range(-8, 8);
        if (cfg.weird) switch (r.below(24)) {
            case 0: return std::numeric_limits<double>::quiet_NaN();
            case 1: return r.chance(50) ? INFINITY : -INFINITY;
            case 2: return r.chance(50) ? 0.0 : -0.0;
            case 3: return frombits(r.next() & 0x000fffffffffffffULL);                 // denormal
            case 4: return frombits(r.next());                                          // any pattern (may be a NaN payload)
            case 5: return std::ldexp(1.0, r.range(-1074, 1023)) * (r.chance(50) ? 1 : -1);
            case 6: return (double) r.range(-1000000, 1000000);
            default: break; }
        return (r.unit() - 0.5) * std::pow(10.0, r.range(-3, 9));
    }
    std::string pt(bool z, bool m, double x, double y) {
        std::string s = hex(x) + " " + hex(y);
        if (z) s += " " + hex(ord());
        if (m) s += " " + hex(ord());
        return s;
    }
    static std::string flags(bool z, bool m) { return std::string("xy") + (z ? "z" : "") + (m ? "m" : ""); }
    void dims(bool pz, bool pm, bool& z, bool& m) {
        if (cfg.mixedDims && r.chance(30)) { z = r.chance(50); m = r.chance(50); cnt("gen_mixed_dims"); } else { z = pz; m = pm; }
    }
    // a finite-ish xy for structure (closing points need equal X,Y by value, so avoid NaN there)
    double sord() { double v; do { v = ord(); } while (std::isnan(v)); return v; }

    std::string seq(bool z, bool m, int n, bool closed) {
        std::string s = flags(z, m) + " " + std::to_string(n);
        double x0 = 0, y0 = 0; std::string first;
        for (int i = 0; i < n; i++) {
            std::string p;
            if (closed && i == n - 1 && n > 1) { p = first; }
            else { double x = closed ? sord() : ord(), y = closed ? sord() : ord(); p = pt(z, m, x, y); if (i == 0) { first = p; x0 = x; y0 = y; } }
            s += " " + p;
        }
        (void) x0; (void) y0;
        return s;
    }
    std::string point(bool z, bool m) { if (r.chance(12)) { cnt("gen_empty_point"); return "P " + flags(z, m) + " 0"; } return "P " + seq(z, m, 1, false); }
    std::string line(bool z, bool m) { if (r.chance(10)) { cnt("gen_empty_line"); return "L " + flags(z, m) + " 0"; } return "L " + seq(z, m, r.range(2, cfg.maxPts), false); }
    std::string ringSeq(bool z, bool m) { if (r.chance(8)) { cnt("gen_empty_ring"); return flags(z, m) + " 0"; } return seq(z, m, r.range(4, std::max(4, cfg.maxPts)), true); }
    std::string circ(bool z, bool m) { if (r.chance(10)) return "C " + flags(z, m) + " 0"; int n = 2 * r.range(1, 3) + 1; return "C " + seq(z, m, n, false); }
    std::string polygon(bool z, bool m) {
        int holes = r.chance(60) ? 0 : r.range(1, 3);
        std::string s = "Y " + std::to_string(holes + 1);
        std::string shell = ringSeq(z, m);
        bool shellEmpty = shell.size() >= 2 && shell.substr(shell.size() - 2) == " 0";
        if (shellEmpty) { return "Y 1 " + shell; }        // GEOS rejects holes in an empty shell
        s += " " + shell;
        for (int i = 0; i < holes; i++) { bool hz, hm; dims(z, m, hz, hm); s += " " + ringSeq(hz, hm); }
        return s;
    }
    // contiguous sections: the end of a section equals the start of the next (by value)
    std::string compound(bool z, bool m, bool closed) {
        int k = r.range(1, 3); std::string s = "K " + std::to_string(k);
        double sx = sord(), sy = sord(), cx = sx, cy = sy;
        for (int i = 0; i < k; i++) {
            bool arc = r.chance(50); int n = arc ? 3 : r.range(2, 4);
            bool sz, sm; dims(z, m, sz, sm);
            std::string q = std::string(arc ? "C " : "L ") + flags(sz, sm) + " " + std::to_string(n);
            for (int j = 0; j < n; j++) {
                double x, y;
                if (j == 0) { x = cx; y = cy; }
                else if (closed && i == k - 1 && j == n - 1) { x = sx; y = sy; }
                else { x = sord(); y = sord(); }
                q += " " + pt(sz, sm, x, y); cx = x; cy = y;
            }
            s += " " + q;
        }
        return s;
    }
    std::string curvePolygon(bool z, bool m) {
        if (r.chance(10)) return "U 0";
        int holes = r.chance(60) ? 0 : r.range(1, 2); std::string s = "U " + std::to_string(holes + 1);
        for (int i = 0; i <= holes; i++) {
            switch (r.below(3)) {
                case 0: s += " R " + seq(z, m, r.range(4, 6), true); break;
                case 1: s += " " + compound(z, m, true); break;
                default: { // closed circular string: 5 points, first == last
                    std::string q = "C " + flags(z, m) + " 5"; double x0 = sord(), y0 = sord(); std::string f = pt(z, m, x0, y0);
                    q += " " + f; for (int j = 0; j < 3; j++) q += " " + pt(z, m, sord(), sord()); q += " " + f; s += " " + q; } }
        }
        return s;
    }
    std::string multi(const char* tag, int depth, bool z, bool m, int kind) {
        int k = r.chance(12) ? 0 : r.range(1, 4); std::string s = std::string(tag) + " " + std::to_string(k);
        for (int i = 0; i < k; i++) {
            bool ez, em; dims(z, m, ez, em);
            switch (kind) {
                case 0: s += " " + point(ez, em); break;
                case 1: s += " " + line(ez, em); break;
                case 2: s += " " + polygon(ez, em); break;
                case 3: switch (r.below(3)) { case 0: s += " " + line(ez, em); break; case 1: s += " " + circ(ez, em); break; default: s += " " + compound(ez, em, false); } break;
                case 4: if (r.chance(50)) s += " " + polygon(ez, em); else s += " " + curvePolygon(ez, em); break;
                default: s += " " + any(depth + 1, ez, em); }
        }
        return s;
    }
    std::string any(int depth, bool z, bool m) {
        int hi = cfg.curves ? 12 : 7;
        int k = r.range(0, hi);
        if (depth >= cfg.maxDepth && (k == 7)) k = r.range(0, 6);
        switch (k) {
            case 0: cnt("gen_point"); return point(z, m);
            case 1: cnt("gen_line"); return line(z, m);
            case 2: cnt("gen_polygon"); return polygon(z, m);
            case 3: cnt("gen_polygon"); return polygon(z, m);
            case 4: cnt("gen_multipoint"); return multi("MP", depth, z, m, 0);
            case 5: cnt("gen_multiline"); return multi("ML", depth, z, m, 1);
            case 6: cnt("gen_multipolygon"); return multi("MY", depth, z, m, 2);
            case 7: cnt("gen_collection"); return multi("GC", depth, z, m, 5);
            case 8: cnt("gen_circular"); return circ(z, m);
            case 9: cnt("gen_compound"); return compound(z, m, false);
            case 10: cnt("gen_curvepolygon"); return curvePolygon(z, m);
            case 11: cnt("gen_multicurve"); return multi("MC", depth, z, m, 3);
            default: cnt("gen_multisurface"); return multi("MS", depth, z, m, 4);
        }
    }
    // "srid geom"
    std::string geom() {
        bool z = r.chance(50), m = r.chance(40);
        cnt(std::string("gen_dims_") + flags(z, m));
        int srid = r.chance(50) ? 0 : (r.chance(80) ? r.range(1, 40000) : r.range(-5, 0));
        std::string g = r.chance(6) ? ("R " + ringSeq(z, m)) : any(0, z, m);
        return std::to_string(srid) + " " + g;
    }
};

} // namespace vh
