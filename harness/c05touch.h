// C05 generators of MULTI-POINT TOUCHING between rings / elements (owned by C05; validgen.h / gridgen.h are not changed).
//
// What the template and random families of validgen.h do not reach: two rings of a geometry that do not cross but meet in
// 1, 2, 3 ... n isolated points ALONG ONE EDGE (its two ends, its midpoint, other lattice points of it), where one ring is
// concave (comb, arch with legs, bay) and wraps the other inside its envelope, so that neither the envelope filters nor the
// point-in-ring shortcuts of IsValidOp decide and the nesting tests (hole in shell, nested holes, nested shells, shell in
// hole of another element — all through PolygonTopologyAnalyzer::isRingNested) have to look at the node topology at the
// START vertex of a ring that lies ON the other ring.  Every ring gets a random start vertex and direction (often the
// touched edge is made the first segment), holes / elements come in random order, and the whole is sheared by an integer
// shear so that the touched edge is not always axis parallel.  Validity is NOT known to the generator: the exact Lean
// reference decides (the same structures are produced in valid and in invalid roles).
//
//   shape : comb  — teeth hanging from a slab above the flat edge (partner outside the slab's envelope)
//           arch  — the slab has two legs reaching down beside the partner: the partner is outside A but inside A's envelope
//           bay   — the teeth are cut into a box that contains the partner: the partner is inside the toothed ring
//   teeth : on the outer ring pointing at a flat edge of the inner one, or on the inner ring pointing at the flat ceiling
//   role  : 0 MultiPolygon(A, B)   1 Polygon(shell A, hole B)   2 Polygon(box, holes A and B)   3 MultiPolygon((box, hole A), B)
#pragma once
#include "validgen.h"

namespace vh {

struct TouchGen {
    Rng& r; Out* out;
    TouchGen(Rng& rr, Out* o) : r(rr), out(o) {}
    void cnt(const std::string& k) { if (out) out->count(k); }
    typedef std::vector<HP> Ring;

    static Ring closed(Ring g) { g.push_back(g[0]); return g; }

    // random start vertex and direction; keepFirst: the segment g[0]->g[1] stays the first segment (in either direction)
    void spin(Ring& g, bool keepFirst) {
        size_t n = g.size() - 1;
        if (keepFirst) { if (r.chance(50)) { std::reverse(g.begin(), g.end()); rotateRing(g, n - 1); cnt("touch_first_edge_reversed"); } cnt("touch_first_edge_kept"); return; }
        if (r.chance(50)) std::reverse(g.begin(), g.end());
        rotateRing(g, r.below(n));
    }

    struct Parts { Ring A, B, box; int k = 0; bool mid = false, ends = false, flatIsB = true; };

    // the toothed chain from (xa,h) to (xb,h): at every position t of T a tooth with its tip at (4t, 0)
    Ring toothChain(const std::vector<int>& T, double xa, double xb, double h) {
        Ring c; c.push_back({xa, h});
        for (int t : T) { int a = r.range(0, 1), b = a == 0 ? 1 : r.range(0, 1);
            c.push_back({4.0 * t - a, h}); c.push_back({4.0 * t, 0}); c.push_back({4.0 * t + b, h}); }
        c.push_back({xb, h}); return c; }

    Parts parts(int shape, bool teethOuter) {
        Parts p; int L = r.chance(70) ? 2 * r.range(1, 3) : r.range(1, 5);
        int s0 = 0, s1 = L; if (r.chance(30)) { s0 = r.range(0, L - 1); s1 = r.range(s0 + 1, L); }
        std::vector<int> T; int mode = (int) r.below(7), m = (s0 + s1) / 2;
        switch (mode) { case 0: T = {s0, s1}; break; case 1: T = {s0, m, s1}; break; case 2: T = {s0, m}; break; case 3: T = {m}; break;
            case 4: for (int t = 0; t <= L; t++) T.push_back(t); break; case 5: T = {s0}; break;
            default: for (int t = 0; t <= L; t++) if (r.chance(50)) T.push_back(t); if (T.empty()) T.push_back(s0); }
        std::sort(T.begin(), T.end()); T.erase(std::unique(T.begin(), T.end()), T.end());
        double h = r.range(1, 3), c = r.range(1, 2), d = r.range(1, 3), D = std::max(1.0, d + (shape == 2 ? r.range(1, 2) : r.range(-1, 2)));
        double xa = -2, xb = 4.0 * L + 2;
        if (teethOuter) {
            // flat edge of B from (4 s0, 0) to (4 s1, 0); B hangs below it
            double X0 = 4.0 * s0, X1 = 4.0 * s1; Ring b; b.push_back({X0, 0});
            for (int x = (int) X0 + 1; x < (int) X1; x++) if ((x % 4 == 0 && r.chance(25)) || (x % 4 == 2 && r.chance(8))) { b.push_back({(double) x, 0}); cnt("touch_flat_edge_split"); }
            b.push_back({X1, 0});
            switch (r.below(3)) { case 0: b.push_back({X1, -d}); b.push_back({X0, -d}); break;
                case 1: b.push_back({(double) r.range((int) X0, (int) X1), -d}); break;
                default: b.push_back({X1, -d}); b.push_back({(double) r.range((int) X0, (int) X1), -d - 1}); b.push_back({X0, -d}); d += 1; }
            p.B = closed(b); p.flatIsB = true;
            for (int t : T) if (t >= s0 && t <= s1) { p.k++; if (2 * t == s0 + s1) p.mid = true; }
            p.ends = std::find(T.begin(), T.end(), s0) != T.end() && std::find(T.begin(), T.end(), s1) != T.end();
            Ring ch = toothChain(T, xa, xb, h), a;
            if (shape == 0) { a = ch; a.push_back({xb, h + c}); a.push_back({xa, h + c}); }
            else if (shape == 1) { a.push_back({xa - 1, -D}); a.push_back({xa, -D}); a.insert(a.end(), ch.begin(), ch.end());
                a.push_back({xb, -D}); a.push_back({xb + 1, -D}); a.push_back({xb + 1, h + c}); a.push_back({xa - 1, h + c}); }
            else { a.push_back({xa - 1, -D}); a.push_back({xb + 1, -D}); a.push_back({xb + 1, h}); std::reverse(ch.begin(), ch.end()); a.insert(a.end(), ch.begin(), ch.end()); a.push_back({xa - 1, h}); }
            p.A = closed(a);
        } else {
            // teeth on the inner ring B pointing up at the flat ceiling y = 0 of A (tips at y = 0, bases at y = -h)
            xa = -3; xb = 4.0 * L + 3;
            Ring b = toothChain(T, -2, 4.0 * L + 2, -h); b.push_back({4.0 * L + 2, -h - d}); b.push_back({-2, -h - d}); p.B = closed(b); p.flatIsB = false; p.k = (int) T.size();
            Ring a; double bot = -h - d - (shape == 2 ? r.range(1, 2) : r.range(-1, 2));
            if (shape == 0) { a = {{xa, 0}, {xb, 0}, {xb, c}, {xa, c}}; }
            else if (shape == 1) { a = {{xa, 0}, {xb, 0}, {xb, bot}, {xb + 1, bot}, {xb + 1, c}, {xa - 1, c}, {xa - 1, bot}, {xa, bot}}; }
            else { a = {{xb, 0}, {xa, 0}, {xa, bot}, {xb, bot}}; }
            p.A = closed(a); D = -bot; d = h + d;
        }
        double lo = -std::max(D, d) - 2, hi = h + c + 2;
        p.box = closed({{xa - 3, lo}, {xb + 3, lo}, {xb + 3, hi}, {xa - 3, hi}});
        return p; }

    static HGeo poly(const std::vector<Ring>& rings) { HGeo y; y.type = 3; y.seqs = rings; return y; }

    HGeo comb(std::string& family) {
        int shape = (int) r.below(100); shape = shape < 25 ? 0 : shape < 70 ? 1 : 2;
        bool teethOuter = r.chance(75); int role = (int) r.below(4);
        Parts p = parts(shape, teethOuter);
        bool keep = r.chance(55);
        if (p.flatIsB) { spin(p.B, keep); spin(p.A, false); }
        else {  // start B at a tooth tip (a vertex lying on A's ceiling) half of the time
            if (keep) { size_t n = p.B.size() - 1; std::vector<size_t> tips; for (size_t i = 0; i < n; i++) if (p.B[i].y == 0) tips.push_back(i);
                if (!tips.empty()) { rotateRing(p.B, tips[r.below(tips.size())]); if (r.chance(50)) std::reverse(p.B.begin(), p.B.end()); cnt("touch_start_at_tip"); } }
            else spin(p.B, false);
            spin(p.A, r.chance(30)); }
        // roles 2, 3: often the box gets further (unrelated) holes in a strip added on one side, at random positions of the hole list,
        // so that the hole that matters is not the only / first / last one
        std::vector<Ring> decoys;
        if (role >= 2 && r.chance(50)) {
            double x0 = p.box[0].x, x1 = x0, y0 = p.box[0].y, y1 = y0; for (auto& q : p.box) { x0 = std::min(x0, q.x); x1 = std::max(x1, q.x); y0 = std::min(y0, q.y); y1 = std::max(y1, q.y); }
            int side = (int) r.below(4), nd = r.range(1, 2); double sx0, sx1, sy0, sy1;      // the open strip that is added
            if (side == 0) { sx0 = x0 - 5; sx1 = x0; sy0 = y0; sy1 = y1; x0 -= 5; } else if (side == 1) { sx0 = x1; sx1 = x1 + 5; sy0 = y0; sy1 = y1; x1 += 5; }
            else if (side == 2) { sx0 = x0; sx1 = x1; sy0 = y0 - 5; sy1 = y0; y0 -= 5; } else { sx0 = x0; sx1 = x1; sy0 = y1; sy1 = y1 + 5; y1 += 5; }
            p.box = closed({{x0, y0}, {x1, y0}, {x1, y1}, {x0, y1}});
            for (int i = 0; i < nd; i++) { bool horiz = side >= 2; double lo = horiz ? sx0 + 1 : sy0 + 1, hi = horiz ? sx1 - 1 : sy1 - 1, w = (hi - lo) / nd; if (w < 2) break;
                double a = lo + std::floor(w * i), b = a + std::max(1.0, std::floor(w) - 1.0), c = (horiz ? sy0 : sx0) + 1, d = c + r.range(1, 3);
                Ring q = horiz ? (r.chance(50) ? closed({{a, c}, {b, c}, {b, d}, {a, d}}) : closed({{a, c}, {b, c}, {a, d}})) : (r.chance(50) ? closed({{c, a}, {d, a}, {d, b}, {c, b}}) : closed({{c, a}, {d, a}, {c, b}}));
                spin(q, false); decoys.push_back(q); }
            cnt("touch_decoy_holes_" + std::to_string(decoys.size())); }
        spin(p.box, false);
        HGeo g;
        switch (role) {
        case 0: g.type = 6; g.kids = {poly({p.A}), poly({p.B})}; if (r.chance(15)) { Ring far = closed({{-20, -20}, {-18, -20}, {-18, -18}}); g.kids.push_back(poly({far})); } break;
        case 1: g = poly({p.A, p.B}); break;
        case 2: { std::vector<Ring> hs = {p.A, p.B}; if (r.chance(50)) std::swap(hs[0], hs[1]); for (auto& q : decoys) hs.insert(hs.begin() + (long) r.below(hs.size() + 1), q); hs.insert(hs.begin(), p.box); g = poly(hs); break; }
        default: { std::vector<Ring> hs = {p.A}; for (auto& q : decoys) hs.insert(hs.begin() + (long) r.below(hs.size() + 1), q); hs.insert(hs.begin(), p.box); g.type = 6; g.kids = {poly(hs), poly({p.B})}; } }
        if (g.type == 6 && r.chance(50)) std::reverse(g.kids.begin(), g.kids.end());
        // integer shear (keeps the lattice, incidences, orientation): the touched edge leaves the axis directions
        if (r.chance(45)) { int s = r.range(1, 2) * (r.chance(50) ? 1 : -1); bool xs = r.chance(50);
            eachSeq(g, [&](std::vector<HP>& q, bool, int) { for (auto& v : q) { if (xs) v.x += s * v.y; else v.y += s * v.x; } }); cnt("touch_sheared"); }
        static const char* SH[] = {"comb", "arch", "bay"};
        family = std::string("touch_") + SH[shape] + (teethOuter ? "_o" : "_i") + "_role" + std::to_string(role);
        cnt("touch_points_" + std::to_string(std::min(p.k, 5))); if (p.mid) cnt("touch_at_midpoint"); if (p.ends) cnt("touch_at_both_ends"); if (p.mid && p.ends) cnt("touch_ends_and_midpoint");
        return g; }

    // random multipolygon whose later elements reuse vertices / edge lattice points of the earlier ones (mostly invalid by
    // crossing; the rest touch in one or several points with arbitrary concave partners)
    HGeo contactMultiPolygon(ValidGen& vg) {
        auto& gg = vg.gg; gg.span = r.chance(50) ? 8 : 6; HGeo m; m.type = 6; GGeom acc; int n = r.range(2, 3);
        for (int i = 0; i < n; i++) { gg.setPartner(acc, i == 0 ? 0 : (r.chance(50) ? 60 : 100)); auto rg = gg.ring();
            GElem e; e.kind = 2; e.rings.push_back(rg); acc.elems.push_back(e); Ring q = ValidGen::toHP(rg); if (q.size() >= 4 && r.chance(60)) spin(q, false); m.kids.push_back(poly({q})); }
        gg.pool.clear(); gg.poolEdges.clear(); gg.poolRings.clear(); gg.contactPct = 0;
        return m; }
};

} // namespace vh
