// C10 correspondence harness: number formatting, WKT writer / reader, GeoJSON, through the C API.
//   c10 fmt       <seed> <n> <outbase>   case `<bits16> <precision> <trim>`       expect `<GEOS_printDouble | -> <ordinate as GEOSWKTWriter_write_r prints it> <bits of glibc strtod of that>`
//   c10 wkt-write <seed> <n> <outbase>   case `<trim> <prec> <dim> <old3d> <srid> <gtree>`   expect GEOS's WKT
//   c10 wkt-read  <seed> <n> <outbase>   case = a WKT text (GEOS's own output, variants of it, a corpus, mutations)   expect `0 <gtree>` of GEOSWKTReader_read_r, or ERR
//   c10 wkt-rt    <seed> <n> <outbase>   case as wkt-write                       expect gtree of read(write(g)) through GEOS, or ERR
//   c10 geojson   <seed> <n> <outbase>   case `<indent> <srid> <gtree>`          expect gtree of GeoJSON read(write(g)), or ERR
//   c10 replay <stream> <file>           prints the expect line for every case line of <file>
#include "gtree.h"
#include <geos_c.h>
#include <geos/io/WKTWriter.h>
#include <cstdarg>
#include <clocale>
#include <fstream>
#include <iostream>

using namespace vh;

static void notice(const char*, ...) {}
static std::string lastError;
static void errorh(const char* fmt, ...) { char b[512]; va_list ap; va_start(ap, fmt); vsnprintf(b, sizeof b, fmt, ap); va_end(ap); lastError = b; }
// The envelope computation of circular arcs (run by the CircularString / CurvePolygon constructors) throws for some
// non-finite ordinates ("CGAlgorithmsDD::orientationIndex encountered NaN/Inf numbers").  That rule is not part of
// the reader model; such cases are skipped (and counted) instead of being compared.
static bool nonFiniteArcFailure() { return lastError.find("encountered NaN/Inf") != std::string::npos; }

static GEOSContextHandle_t H;
static GeometryFactory::Ptr GF;

static inline const GEOSGeometry* cg(const Geometry* g) { return reinterpret_cast<const GEOSGeometry*>(g); }
static inline Geometry* cppg(GEOSGeometry* g) { return reinterpret_cast<Geometry*>(g); }

struct WCfg { int trim, prec, dim, old3d; };

static std::string cfgStr(const WCfg& c) {
    return std::to_string(c.trim) + " " + std::to_string(c.prec) + " " + std::to_string(c.dim) + " " + std::to_string(c.old3d);
}

static std::string geosWrite(const WCfg& c, const Geometry* g) {
    GEOSWKTWriter* w = GEOSWKTWriter_create_r(H);
    GEOSWKTWriter_setTrim_r(H, w, (char) c.trim);
    GEOSWKTWriter_setRoundingPrecision_r(H, w, c.prec);
    GEOSWKTWriter_setOutputDimension_r(H, w, c.dim);
    GEOSWKTWriter_setOutputDimension_r(H, w, c.dim + 3);   // 5, 6, 7: setOutputDimension must reject them and keep c.dim
    GEOSWKTWriter_setOld3D_r(H, w, c.old3d);
    char* s = GEOSWKTWriter_write_r(H, w, cg(g));
    std::string r = s ? s : "WRITE-FAILED";
    if (s) GEOSFree_r(H, s);
    GEOSWKTWriter_destroy_r(H, w);
    return r;
}

static std::string geosRead(const std::string& wkt) {
    GEOSWKTReader* rd = GEOSWKTReader_create_r(H);
    lastError.clear();
    GEOSGeometry* g = GEOSWKTReader_read_r(H, rd, wkt.c_str());
    GEOSWKTReader_destroy_r(H, rd);
    if (!g) return "ERR";
    std::string d = dumpGeom(cppg(g));
    GEOSGeom_destroy_r(H, g);
    return d;
}

// ------------------------------------------------------------------ fmt

static double fromStr(const std::string& s) { return std::strtod(s.c_str(), nullptr); }
static std::string digits(Rng& r, int n, bool firstNonZero = true) {
    std::string s; for (int i = 0; i < n; i++) s.push_back((char) ('0' + ((i == 0 && firstNonZero) ? r.range(1, 9) : r.range(0, 9)))); return s;
}
static double ulps(double d, int k) { return frombits(bits(d) + (uint64_t) (int64_t) k); }

static double genValue(Rng& r, Out& out) {
    int cls = (int) r.below(17);
    double v = 0; const char* name = "";
    switch (cls) {
    case 0: name = "random_bits"; v = frombits(r.next()); break;
    case 1: name = "coordinate_like"; v = (r.unit() - 0.5) * std::pow(10.0, r.range(-6, 12)); break;
    case 2: { name = "short_decimal"; std::string s = digits(r, r.range(1, 9)); int j = r.range(0, 9);
              v = fromStr(s + "e-" + std::to_string(j)); break; }
    case 3: name = "straddle_1e-4"; v = ulps(1e-4, r.range(-8, 8)); break;
    case 4: name = "straddle_1e17"; v = ulps(1e17, r.range(-8, 8)); break;
    case 5: { name = "power_of_ten"; int j = r.range(-323, 308); v = ulps(fromStr("1e" + std::to_string(j)), r.range(-8, 8)); break; }
    case 6: { name = "decimal_half"; // digits ending in 5 at a random position
              std::string ip = r.chance(50) ? "0" : digits(r, r.range(1, 8)); std::string fp = digits(r, r.range(0, 14), false) + "5";
              v = fromStr(ip + "." + fp); break; }
    case 7: { name = "binary_half"; int j = r.range(1, 30); uint64_t m = r.below(1ULL << (unsigned) r.range(1, 52 - j > 1 ? 52 - j : 1)) * 2 + 1;
              v = std::ldexp((double) m, -j); break; }
    case 8: { name = "integer"; switch (r.below(4)) {
                case 0: v = (double) r.below(1ULL << (unsigned) r.range(1, 53)); break;
                case 1: v = 9007199254740992.0 + (double) r.range(-64, 64); break;
                case 2: v = (double) r.below(1000000) * std::pow(10.0, r.range(0, 11)); break;
                default: v = std::ldexp((double) r.below(1ULL << 53), r.range(0, 10)); }
              break; }
    case 9: { name = "subnormal"; switch (r.below(4)) {
                case 0: v = frombits(r.below(1ULL << (unsigned) r.range(1, 52))); break;
                case 1: v = frombits(1 + r.below(4)); break;
                case 2: v = frombits(0x000fffffffffffffULL - r.below(4)); break;
                default: v = frombits(0x0010000000000000ULL + r.below(4)); }
              break; }
    case 10: name = "power_of_two"; v = ulps(std::ldexp(1.0, r.range(-1074, 1023)), r.range(-2, 2)); break;
    case 11: { name = "special"; switch (r.below(5)) {
                case 0: v = frombits(0x7ff0000000000000ULL | (1 + r.below(0x000fffffffffffffULL))); break;
                case 1: v = std::numeric_limits<double>::quiet_NaN(); break;
                case 2: v = INFINITY; break;
                case 3: v = 0.0; break;
                default: v = frombits(0x7fefffffffffffffULL - r.below(3)); }
              break; }
    case 12: { name = "large_sci"; v = fromStr(digits(r, 1) + "." + digits(r, r.range(0, 16), false) + "e+" + std::to_string(r.range(17, 308))); break; }
    case 13: { name = "small_sci"; v = fromStr(digits(r, 1) + "." + digits(r, r.range(0, 16), false) + "e-" + std::to_string(r.range(5, 323))); break; }
    case 14: { name = "nines"; std::string s = "9." + std::string((size_t) r.range(0, 16), '9') + (r.chance(50) ? "5" : digits(r, 1));
               int e = r.chance(50) ? -r.range(5, 30) : r.range(17, 40); if (r.chance(30)) e = -r.range(1, 4);
               v = fromStr(s + "e" + std::to_string(e)); break; }
    case 15: { name = "below_one"; int j = r.range(1, 4); v = ulps(fromStr("1e-" + std::to_string(j)), r.range(-8, 8)) * (r.chance(50) ? 1.0 : (double) r.range(1, 9)); break; }
    default: { name = "seventeen_digits"; v = fromStr(digits(r, 1) + "." + digits(r, 16, false) + "e" + std::to_string(r.range(-4, 16))); }
    }
    out.count(std::string("class_") + name);
    if (r.chance(30)) v = frombits(bits(v) ^ 0x8000000000000000ULL);
    return v;
}

static int genPrec(Rng& r, bool wide) {
    int k = (int) r.below(100);
    if (k < 8) return -1;
    if (k < 11) { static const int neg[] = {-2, -3, -17, -1000}; return neg[r.below(4)]; }   // setRoundingPrecision clamps these to -1
    if (k < 90 || !wide) return r.range(0, 20);
    static const int big[] = {21, 22, 25, 30, 100, 340, 1000};
    return big[r.below(7)];
}

static std::string fmtExpect(double d, int prec, int trim) {
    std::string s1 = "-";
    if (trim && prec >= 0) {
        char buf[64]; std::memset(buf, '~', sizeof buf);
        int len = GEOS_printDouble(d, (unsigned) prec, buf);
        if (len < 0 || len > 60) return "PRINTDOUBLE-LENGTH-" + std::to_string(len);
        if (buf[len] != '~') return "PRINTDOUBLE-WROTE-PAST-LENGTH";
        s1.assign(buf, (size_t) len);
    }
    // the writer path: POINT (x 0)
    GEOSGeometry* p = GEOSGeom_createPointFromXY_r(H, d, 0.0);
    WCfg c{trim, prec, 2, 0};
    std::string w = geosWrite(c, cppg(p));
    GEOSGeom_destroy_r(H, p);
    std::string s2 = "UNEXPECTED:" + w;
    size_t a = w.find('('), b = w.find(' ', a == std::string::npos ? 0 : a);
    if (a != std::string::npos && b != std::string::npos) s2 = w.substr(a + 1, b - a - 1);
    for (auto& ch : s2) if (ch == ' ') ch = '_';
    char* end = nullptr; double back = std::strtod(s2.c_str(), &end);
    std::string rb = (end && *end == '\0' && !s2.empty()) ? hex(back) : "notnumber";
    return s1 + " " + s2 + " " + rb;
}

static void streamFmt(Rng& r, long n, Out& out) {
    for (long i = 0; i < n; i++) {
        double d = genValue(r, out);
        int trim = r.chance(80) ? 1 : 0;
        int prec = genPrec(r, trim == 1);
        // every precision for some values: makes the half-way cases meet the right precision
        int reps = r.chance(10) ? 22 : 1;
        for (int k = 0; k < reps; k++) {
            int p = reps == 1 ? prec : k - 1;
            out.emit(hex(d) + " " + std::to_string(p) + " " + std::to_string(trim), fmtExpect(d, p, trim));
            out.count(trim ? "trim" : "untrimmed");
        }
    }
}

// ------------------------------------------------------------------ WKT

static WCfg genCfg(Rng& r) {
    WCfg c; c.trim = r.chance(75) ? 1 : 0; c.prec = genPrec(r, false); c.dim = r.range(2, 4); c.old3d = r.chance(25) ? 1 : 0; return c;
}

static GenCfg genTreeCfg(Rng& r, Out& out) {
    GenCfg g; g.maxDepth = 2; g.maxPts = 5; g.curves = r.chance(60); g.weird = r.chance(50); g.mixedDims = r.chance(25); g.gridInts = r.chance(20);
    if (g.mixedDims) out.count("cfg_mixed_dims");
    if (g.curves) out.count("cfg_curves");
    return g;
}

// returns false when the factory rejected the generated tree
static bool genGeom(Rng& r, Out& out, std::string& line, std::unique_ptr<Geometry>& g) {
    GTreeGen gen(r, genTreeCfg(r, out), &out);
    line = gen.geom();
    try { g = buildGeom(line, GF.get()); } catch (std::exception&) { out.count("gen_rejected_by_factory"); return false; }
    // what the factory built is what the writer sees (normally identical to the generated tokens)
    line = dumpGeom(g.get());
    return true;
}

static void streamWrite(Rng& r, long n, Out& out) {
    for (long i = 0; i < n; i++) {
        std::string line; std::unique_ptr<Geometry> g;
        if (!genGeom(r, out, line, g)) continue;
        WCfg c = genCfg(r);
        out.count(c.old3d ? "old3d" : "iso"); out.count("dim_" + std::to_string(c.dim)); out.count(c.trim ? "trim" : "untrimmed");
        out.emit(cfgStr(c) + " " + line, geosWrite(c, g.get()));
    }
}

// ONE writer object writes a sequence of geometries (with different precision models), its settings changed only partly
// between the writes: every output must be what a fresh writer with the same settings gives (and what the stateless model gives)
static void applyCfg(GEOSWKTWriter* w, const WCfg& c, int mask) {
    if (mask & 1) GEOSWKTWriter_setTrim_r(H, w, (char) c.trim);
    if (mask & 2) GEOSWKTWriter_setRoundingPrecision_r(H, w, c.prec);
    if (mask & 4) GEOSWKTWriter_setOutputDimension_r(H, w, c.dim);
    if (mask & 8) GEOSWKTWriter_setOld3D_r(H, w, c.old3d);
}

// ---- the documented dimension dropping of the C++ writer (io::WKTWriter::setRemoveEmptyDimensions(true), output dimension 4): a dimension is
// written iff SOME coordinate of the geometry has a non-NaN value in it.  Case = the tree; expect = the Z / M tag of the written text.
static std::string nanOutOrdinate(const std::string& line, bool killZ, bool killM) {
    std::istringstream is(line); std::vector<std::string> t; std::string w; while (is >> w) t.push_back(w);
    for (size_t i = 0; i + 1 < t.size(); i++) {
        const std::string& f = t[i]; if (f != "xyz" && f != "xym" && f != "xyzm") continue;
        long n = 0; try { n = std::stol(t[i + 1]); } catch (...) { continue; }
        int dim = (int) f.size(); bool hz = f.find('z') != std::string::npos;
        for (long k = 0; k < n; k++) { size_t base = i + 2 + (size_t) k * (size_t) dim; if (base + (size_t) dim > t.size()) break;
            if (hz && killZ) t[base + 2] = "7ff8000000000000";
            if (f.find('m') != std::string::npos && killM) t[base + (hz ? 3 : 2)] = "7ff8000000000000"; }
    }
    std::string o; for (size_t i = 0; i < t.size(); i++) o += (i ? " " : "") + t[i]; return o;
}
static std::string redTag(const Geometry* g) {
    geos::io::WKTWriter w; w.setOutputDimension(4); w.setRemoveEmptyDimensions(true); w.setTrim(true);
    std::string s; try { s = w.write(g); } catch (std::exception& e) { return std::string("WRITE-ERR"); }
    std::istringstream is(s); std::string type, tag; is >> type >> tag;
    bool z = tag == "Z" || tag == "ZM", m = tag == "M" || tag == "ZM";
    return std::string("z=") + (z ? "1" : "0") + " m=" + (m ? "1" : "0");
}
static void streamRed(Rng& r, long n, Out& out) {
    for (long i = 0; i < n; i++) {
        GenCfg cfg = genTreeCfg(r, out); cfg.mixedDims = r.chance(40);
        GTreeGen gen(r, cfg, &out); std::string line = gen.geom();
        bool kz = r.chance(35), km = r.chance(35); line = nanOutOrdinate(line, kz, km);
        std::unique_ptr<Geometry> g; try { g = buildGeom(line, GF.get()); } catch (std::exception&) { out.count("gen_rejected_by_factory"); continue; }
        line = dumpGeom(g.get());
        std::string e = redTag(g.get());
        out.count("red_" + e); if (kz) out.count("red_all_z_nan"); if (km) out.count("red_all_m_nan");
        out.emit(line, e);
    }
}

static void streamWriteSeq(Rng& r, long n, Out& out) {
    static const double SCALES[] = {0.001, 0.01, 0.1, 0.5, 1.0, 3.0, 10.0, 100.0, 1000.0, 1e6, 1e9, 123.456};
    for (long i = 0; i < n; i++) {
        int len = r.range(2, 4);
        GEOSWKTWriter* w = GEOSWKTWriter_create_r(H);
        WCfg cur{1, -1, 4, 0};                       // state of a new writer (checked by the first element when mask == 0)
        std::string cas = std::to_string(len), exp;
        bool ok = true;
        for (int k = 0; k < len && ok; k++) {
            GTreeGen gen(r, genTreeCfg(r, out), &out);
            std::string line = gen.geom();
            std::unique_ptr<PrecisionModel> pm; double scale = 0;
            if (r.chance(55)) { scale = SCALES[r.below(sizeof SCALES / sizeof *SCALES)]; pm.reset(new PrecisionModel(scale)); out.count("seq_fixed_pm"); }
            else { pm.reset(new PrecisionModel()); out.count("seq_floating_pm"); }
            GeometryFactory::Ptr gf = GeometryFactory::create(pm.get(), 0);
            std::unique_ptr<Geometry> g;
            try { g = buildGeom(line, gf.get()); } catch (std::exception&) { out.count("gen_rejected_by_factory"); ok = false; break; }
            line = dumpGeom(g.get());
            WCfg nw = genCfg(r);
            if (r.chance(60)) nw.prec = -1;           // the precision model decides
            int mask = k == 0 && r.chance(30) ? 0 : (int) r.below(16);
            if (mask & 1) cur.trim = nw.trim;
            if (mask & 2) cur.prec = nw.prec;
            if (mask & 4) cur.dim = nw.dim;
            if (mask & 8) cur.old3d = nw.old3d;
            applyCfg(w, cur, mask);
            char* s = GEOSWKTWriter_write_r(H, w, cg(g.get()));
            std::string reused = s ? s : "WRITE-FAILED"; if (s) GEOSFree_r(H, s);
            std::string fresh = geosWrite(cur, g.get());
            int msd = g->getPrecisionModel()->getMaximumSignificantDigits();
            out.count(cur.prec == -1 ? "seq_prec_from_pm" : "seq_prec_explicit");
            cas += " | " + cfgStr(cur) + " " + std::to_string(msd) + " " + hex(scale) + " " + std::to_string(mask) + " " + line;
            exp += std::string(k ? " ;; " : "") + "R:" + reused + " F:" + fresh;
        }
        GEOSWKTWriter_destroy_r(H, w);
        if (ok) out.emit(cas, exp);
    }
}

static void streamRt(Rng& r, long n, Out& out) {
    for (long i = 0; i < n; i++) {
        std::string line; std::unique_ptr<Geometry> g;
        if (!genGeom(r, out, line, g)) continue;
        WCfg c = genCfg(r);
        std::string back = geosRead(geosWrite(c, g.get()));
        if (back == "ERR" && nonFiniteArcFailure()) { out.count("skipped_nonfinite_arc_envelope"); continue; }
        out.count(back == "ERR" ? "reread_ERR" : "reread_ok");
        out.count(c.old3d ? "old3d" : "iso");
        out.emit(cfgStr(c) + " " + line, back);
    }
}

static const char* CORPUS[] = {
    "POINT (1 2)", "POINT(1 2)", "  POINT  ( 1   2 ) ", "point (1 2)", "POINT (1 2 3)", "POINT (1 2 3 4)", "POINT (1 2 3 4 5)", "POINT Z (1 2)", "POINT Z (1 2 3)",
    "POINT M (1 2 3)", "POINT ZM (1 2 3 4)", "POINT Z M (1 2 3 4)", "POINTZ (1 2 3)", "POINTM (1 2 3)", "POINTZM (1 2 3 4)", "POINTZ Z (1 2 3)", "POINT MZ (1 2 3 4)",
    "POINT EMPTY", "POINT Z EMPTY", "POINT ZM EMPTY", "POINT (EMPTY)", "POINT (1 2, 3 4)", "POINT (1)", "POINT", "POINT (", "POINT (1 2", "", "EMPTY", "POINT (1 2) x", "POINT (1 2))",
    "POINT (1e400 -1e400)", "POINT (1e-400 -1e-400)", "POINT (.5 5.)", "POINT (1e 2)", "POINT (+1 -2)", "POINT (inf -INF)", "POINT (nan NAN)", "POINT (Infinity -Infinity)", "POINT (1.5e+3 2E-2)",
    "POINT (1..2 3)", "POINT (1,2)", "POINT (- 1)", "POINT (1e+ 1)", "POINT (infinit 1)",
    "LINESTRING (1 2, 3 4)", "LINESTRING (1 2)", "LINESTRING (1 2, 3 4 5)", "LINESTRING (1 2 3, 4 5)", "LINESTRING Z (1 2 3, 4 5 6)", "LINESTRING EMPTY", "LINESTRING (1 2 3, 4 5 6)", "LINESTRING M (1 2 3, 4 5 6 7)",
    "LINEARRING (0 0, 1 0, 1 1, 0 0)", "LINEARRING (0 0, 1 0, 1 1)", "LINEARRING (0 0, 1 0, 0 0)", "LINEARRING (0 0, 0 0)", "LINEARRING EMPTY", "LINEARRING (0 0, 1 0, 1 1, -0 0)",
    "CIRCULARSTRING (0 0, 1 1, 2 0)", "CIRCULARSTRING (0 0, 1 1)", "CIRCULARSTRING (0 0)", "CIRCULARSTRING EMPTY",
    "POLYGON ((0 0, 1 0, 1 1, 0 0))", "POLYGON ((0 0, 1 0, 1 1, 0 0), (0 0, 1 0, 1 1, 0 0))", "POLYGON ((0 0, 1 0, 1 1, 0 0), EMPTY)", "POLYGON (EMPTY)", "POLYGON (EMPTY, (0 0, 1 0, 1 1, 0 0))", "POLYGON EMPTY", "POLYGON ((0 0, 1 1))", "POLYGON Z ((0 0 1, 1 0 1, 1 1 1, 0 0 1))", "POLYGON ((0 0 1, 1 0 1, 1 1 1, 0 0 1), (0 0, 1 0, 1 1, 0 0))", "POLYGON ()",
    "MULTIPOINT (1 2, 3 4)", "MULTIPOINT Z (1 2 3, 4 5 6)", "MULTIPOINT ((1 2), (3 4))", "MULTIPOINT (EMPTY, (1 2))", "MULTIPOINT ((1 2), EMPTY)", "MULTIPOINT (EMPTY)", "MULTIPOINT EMPTY", "MULTIPOINT ((1 2 3), (4 5))", "MULTIPOINT (EMPTY, (1 2 3))", "MULTIPOINT ((1 2 3), EMPTY)", "MULTIPOINT (1 2 3, 4 5 6)", "MULTIPOINT (1 2 3 4, 5 6 7 8)", "MULTIPOINT ((1 2), 3 4)", "MULTIPOINT (,)",
    "MULTILINESTRING ((0 0, 1 1), (2 2, 3 3))", "MULTILINESTRING ((0 0, 1 1), EMPTY)", "MULTILINESTRING (EMPTY)", "MULTILINESTRING (Z (0 0 1, 1 1 1))", "MULTILINESTRING ((0 0 1, 1 1 1), (2 2, 3 3))", "MULTILINESTRING EMPTY", "MULTILINESTRING (LINESTRING (0 0, 1 1))",
    "MULTIPOLYGON (((0 0, 1 0, 1 1, 0 0)), EMPTY)", "MULTIPOLYGON (EMPTY)", "MULTIPOLYGON EMPTY", "MULTIPOLYGON (((0 0, 1 0, 1 1, 0 0), (0 0, 1 0, 1 1, 0 0)), ((0 0, 1 0, 1 1, 0 0)))", "MULTIPOLYGON (POLYGON ((0 0, 1 0, 1 1, 0 0)))",
    "COMPOUNDCURVE ((0 0, 1 1), CIRCULARSTRING (1 1, 2 2, 3 1))", "COMPOUNDCURVE ((0 0, 1 1), (1 1, 2 2))", "COMPOUNDCURVE ((0 0, 1 1), (2 2, 3 3))", "COMPOUNDCURVE EMPTY", "COMPOUNDCURVE (EMPTY)", "COMPOUNDCURVE (CIRCULARSTRING EMPTY)", "COMPOUNDCURVE (COMPOUNDCURVE ((0 0, 1 1)))", "COMPOUNDCURVE (LINESTRING (0 0, 1 1))", "COMPOUNDCURVE (LINEARRING (0 0, 1 0, 1 1, 0 0))", "COMPOUNDCURVE (POINT (0 0))", "COMPOUNDCURVE Z ((0 0 1, 1 1 1), CIRCULARSTRING Z (1 1 1, 2 2 1, 3 1 1))", "COMPOUNDCURVE Z ((0 0 1, 1 1 1), CIRCULARSTRING (1 1, 2 2, 3 1))", "COMPOUNDCURVE ((0 0 1, 1 1 1), CIRCULARSTRING (1 1, 2 2, 3 1))", "COMPOUNDCURVE ((0 0 1, 1 1 1), CIRCULARSTRING (1 1 1, 2 2 1, 3 1 1))",
    "CURVEPOLYGON (CIRCULARSTRING (0 0, 1 1, 2 0, 1 -1, 0 0), (0 0, 1 0, 0 0))", "CURVEPOLYGON ((0 0, 1 0, 1 1, 0 0))", "CURVEPOLYGON (COMPOUNDCURVE ((0 0, 1 1), CIRCULARSTRING (1 1, 2 2, 0 0)))", "CURVEPOLYGON EMPTY", "CURVEPOLYGON (EMPTY)", "CURVEPOLYGON (EMPTY, (0 0, 1 0, 0 0))", "CURVEPOLYGON ((0 0, 1 0, 0 0), EMPTY)", "CURVEPOLYGON (LINEARRING (0 0, 1 0, 1 1, 0 0))", "CURVEPOLYGON (POLYGON ((0 0, 1 0, 1 1, 0 0)))", "CURVEPOLYGON Z EMPTY",
    "MULTICURVE ((0 0, 1 1), CIRCULARSTRING (0 0, 1 1, 2 0), COMPOUNDCURVE ((0 0, 1 1)))", "MULTICURVE (EMPTY, (0 0, 1 1))", "MULTICURVE ((0 0 1, 1 1 1), COMPOUNDCURVE EMPTY)", "MULTICURVE ((0 0 1, 1 1 1), CIRCULARSTRING EMPTY)", "MULTICURVE ((0 0 1, 1 1 1), EMPTY)", "MULTICURVE (COMPOUNDCURVE EMPTY, (0 0 1, 1 1 1))", "MULTICURVE Z ((0 0 1, 1 1 1), COMPOUNDCURVE EMPTY)", "MULTICURVE Z ((0 0 1, 1 1 1), COMPOUNDCURVE Z EMPTY)", "MULTICURVE EMPTY", "MULTICURVE (POINT (0 0))", "MULTICURVE (EMPTY)",
    "MULTISURFACE (EMPTY, CURVEPOLYGON EMPTY, ((0 0, 1 0, 1 1, 0 0)))", "MULTISURFACE (((0 0, 1 0, 1 1, 0 0)), CURVEPOLYGON (CIRCULARSTRING (0 0, 1 1, 2 0, 1 -1, 0 0)))", "MULTISURFACE (POLYGON ((0 0, 1 0, 1 1, 0 0)))", "MULTISURFACE (LINESTRING (0 0, 1 1))", "MULTISURFACE EMPTY", "MULTISURFACE (((0 0 1, 1 0 1, 1 1 1, 0 0 1)), CURVEPOLYGON EMPTY)",
    "GEOMETRYCOLLECTION (POINT (1 2), LINESTRING (0 0, 1 1))", "GEOMETRYCOLLECTION EMPTY", "GEOMETRYCOLLECTION (EMPTY)", "GEOMETRYCOLLECTION (POINT Z (1 2 3), POINT (1 2))", "GEOMETRYCOLLECTION Z (POINT Z (1 2 3), POINT (1 2))", "GEOMETRYCOLLECTION Z (POINT Z (1 2 3), POINT Z EMPTY)", "GEOMETRYCOLLECTION Z (POINT (1 2 3))", "GEOMETRYCOLLECTION Z (POINT (1 2))", "GEOMETRYCOLLECTION Z (POINT Z (1 2 3), GEOMETRYCOLLECTION EMPTY)", "GEOMETRYCOLLECTION Z (POINT Z (1 2 3), GEOMETRYCOLLECTION Z EMPTY)", "GEOMETRYCOLLECTION (GEOMETRYCOLLECTION (POINT (1 2)))", "GEOMETRYCOLLECTION M (POINT M (1 2 3), POINT (1 2))", "GEOMETRYCOLLECTION (POINT (1 2 3), POINT (1 2))", "GEOMETRYCOLLECTION ZM (POINT ZM (1 2 3 4), POINT Z (1 2 3))", "GEOMETRYCOLLECTION (POINT (1 2)) POINT (1 2)", "GEOMETRYCOLLECTION (POINT (1 2),)", "GEOMETRYCOLLECTIONZ (POINTZ (1 2 3))",
    // deep nesting with few tokens per level (the reader model's fuel must cover 5 calls per 2 tokens)
    "MULTISURFACE(CURVEPOLYGON(COMPOUNDCURVE(CIRCULARSTRING EMPTY)))", "GEOMETRYCOLLECTION(MULTISURFACE(CURVEPOLYGON(COMPOUNDCURVE(CIRCULARSTRING EMPTY))))",
    "GEOMETRYCOLLECTION(GEOMETRYCOLLECTION(GEOMETRYCOLLECTION(MULTISURFACE(CURVEPOLYGON(COMPOUNDCURVE(CIRCULARSTRING EMPTY)),CURVEPOLYGON(COMPOUNDCURVE(CIRCULARSTRING EMPTY))))))",
    "MULTICURVE(COMPOUNDCURVE(CIRCULARSTRING EMPTY),COMPOUNDCURVE(CIRCULARSTRING EMPTY))", "CURVEPOLYGON(COMPOUNDCURVE(EMPTY))", "MULTISURFACE(CURVEPOLYGON(EMPTY))",
    "FOO (1 2)", "POINTX (1 2)", "POINTZZ (1 2 3)", "Z (1 2)", "(1 2)", "1 2", "POINT EMPTY EMPTY", "POINT Z Z (1 2 3)", "POINT ZM ZM (1 2 3 4)", "POINT M M (1 2 3)", "POINT M Z (1 2 3 4)",
};

static std::string mutate(Rng& r, std::string s) {
    if (s.empty()) return s;
    switch (r.below(6)) {
    case 0: s.erase(r.below(s.size()), 1); break;
    case 1: { static const char ins[] = "(), ZM"; s.insert(r.below(s.size() + 1), 1, ins[r.below(6)]); break; }
    case 2: { size_t p = s.find_last_of(')'); if (p != std::string::npos) s.erase(p, 1); break; }
    case 3: s = s.substr(0, r.below(s.size())); break;
    case 4: { size_t p = s.find(", "); if (p != std::string::npos) s.replace(p, 2, " "); break; }
    default: { size_t p = s.find("EMPTY"); if (p != std::string::npos) s.replace(p, 5, "()"); else s += " EMPTY"; } }
    return s;
}

static std::string replaceAll(std::string s, const std::string& a, const std::string& b) {
    size_t p = 0; while ((p = s.find(a, p)) != std::string::npos) { s.replace(p, a.size(), b); p += b.size(); } return s;
}

static void emitRead(Out& out, const std::string& wkt, const char* kind) {
    if (wkt.find('\n') != std::string::npos) return;
    // hexadecimal floats are accepted by strtod but not modelled
    if (wkt.find("0x") != std::string::npos || wkt.find("0X") != std::string::npos) return;
    std::string e = geosRead(wkt);
    if (e == "ERR" && nonFiniteArcFailure()) { out.count("skipped_nonfinite_arc_envelope"); return; }
    out.count(std::string("read_") + kind); out.count(e == "ERR" ? "read_ERR" : "read_ok");
    out.emit(wkt, e);
}

static void streamRead(Rng& r, long n, Out& out) {
    for (const char* c : CORPUS) emitRead(out, c, "corpus");
    for (long i = 0; i < n; i++) {
        std::string line; std::unique_ptr<Geometry> g;
        if (!genGeom(r, out, line, g)) continue;
        WCfg c = genCfg(r);
        std::string w = geosWrite(c, g.get());
        int k = (int) r.below(100);
        if (k < 60) emitRead(out, w, "own_output");
        else if (k < 68) { std::string l = w; for (auto& ch : l) ch = (char) std::tolower((unsigned char) ch); emitRead(out, l, "lowercase"); }
        else if (k < 76) emitRead(out, replaceAll(replaceAll(replaceAll(w, " ZM ", "ZM "), " Z ", "Z "), " M ", "M "), "glued_tag");
        else if (k < 82) emitRead(out, replaceAll(replaceAll(w, "(", " ( "), ",", " ,\t"), "extra_blanks");
        else if (k < 88) emitRead(out, replaceAll(w, ", ", ","), "no_blank_after_comma");
        else emitRead(out, mutate(r, w), "mutated");
    }
}

// ------------------------------------------------------------------ GeoJSON

static std::string geojsonRt(const Geometry* g, int indent, std::string* text = nullptr) {
    GEOSGeoJSONWriter* w = GEOSGeoJSONWriter_create_r(H);
    char* s = GEOSGeoJSONWriter_writeGeometry_r(H, w, cg(g), indent);
    GEOSGeoJSONWriter_destroy_r(H, w);
    if (!s) return "WRITE-ERR";
    std::string js = s; GEOSFree_r(H, s);
    if (text) *text = js;
    GEOSGeoJSONReader* rd = GEOSGeoJSONReader_create_r(H);
    GEOSGeometry* b = GEOSGeoJSONReader_readGeometry_r(H, rd, js.c_str());
    GEOSGeoJSONReader_destroy_r(H, rd);
    if (!b) return "ERR";
    std::string d = dumpGeom(cppg(b)); GEOSGeom_destroy_r(H, b);
    return d;
}

// finite, structure-preserving re-valuation of the ordinates of a gtree line (equal values stay equal)
static std::string revalue(Rng& r, const std::string& line, Out& out) {
    auto tk = splitToks(line); std::map<std::string, std::string> m; std::string s;
    int mode = (int) r.below(4);
    for (size_t i = 0; i < tk.size(); i++) {
        std::string t = tk[i];
        if (t.size() == 16 && i > 0) {
            auto it = m.find(t);
            if (it == m.end()) {
                double v = frombits(std::stoull(t, nullptr, 16));
                if (mode == 1) { do { v = frombits(r.next()); } while (!std::isfinite(v)); }
                else if (mode == 2) v = genValue(r, out);
                if (!std::isfinite(v)) v = (double) r.range(-100, 100);
                it = m.emplace(t, hex(v)).first;
            }
            t = it->second;
        }
        if (i) s += ' '; s += t;
    }
    return s;
}

static void streamGeojson(Rng& r, long n, Out& out) {
    for (long i = 0; i < n; i++) {
        GenCfg gc; gc.maxDepth = 2; gc.maxPts = 5; gc.curves = false; gc.weird = false; gc.mixedDims = r.chance(25); gc.gridInts = r.chance(20);
        GTreeGen gen(r, gc, &out);
        std::string line = revalue(r, gen.geom(), out);
        std::unique_ptr<Geometry> g;
        try { g = buildGeom(line, GF.get()); } catch (std::exception&) { out.count("gen_rejected_by_factory"); continue; }
        line = dumpGeom(g.get());
        int indent = r.chance(50) ? -1 : r.range(0, 4);
        std::string back = geojsonRt(g.get(), indent);
        out.count(back == "ERR" ? "reread_ERR" : "reread_ok"); out.count(indent < 0 ? "compact" : "indented");
        out.emit(std::to_string(indent) + " " + line, back);
    }
}

// ------------------------------------------------------------------ replay

static bool parseCfgLine(const std::string& line, WCfg& c, std::string& rest) {
    std::istringstream is(line); if (!(is >> c.trim >> c.prec >> c.dim >> c.old3d)) return false;
    std::getline(is, rest); return true;
}

static std::string replayLine(const std::string& stream, const std::string& line) {
    try {
        if (stream == "fmt") { std::istringstream is(line); std::string b; int p, t; is >> b >> p >> t; return fmtExpect(frombits(std::stoull(b, nullptr, 16)), p, t); }
        if (stream == "wkt-read") return geosRead(line);
        if (stream == "wkt-red") { std::unique_ptr<Geometry> g; try { g = buildGeom(line, GF.get()); } catch (std::exception&) { return std::string("bad-line"); } return redTag(g.get()); }
        if (stream == "wkt-write-seq") {
            // `<n> | <trim> <prec> <dim> <old3d> <msd> <scale bits, 0 = floating> <mask of settings re-set> <gtree> | …`
            std::vector<std::string> steps; size_t p0 = 0;
            while (true) { size_t p1 = line.find(" | ", p0); steps.push_back(line.substr(p0, p1 == std::string::npos ? p1 : p1 - p0)); if (p1 == std::string::npos) break; p0 = p1 + 3; }
            GEOSWKTWriter* w = GEOSWKTWriter_create_r(H);
            std::string exp;
            for (size_t k = 1; k < steps.size(); k++) {
                std::istringstream is(steps[k]); WCfg c; int msd, mask; std::string sc;
                if (!(is >> c.trim >> c.prec >> c.dim >> c.old3d >> msd >> sc >> mask)) { GEOSWKTWriter_destroy_r(H, w); return "bad-line"; }
                std::string gt; std::getline(is, gt);
                double scale = frombits(std::stoull(sc, nullptr, 16));
                std::unique_ptr<PrecisionModel> pm(scale == 0 ? new PrecisionModel() : new PrecisionModel(scale));
                GeometryFactory::Ptr gf = GeometryFactory::create(pm.get(), 0);
                std::unique_ptr<Geometry> g = buildGeom(gt, gf.get());
                applyCfg(w, c, mask);
                char* s = GEOSWKTWriter_write_r(H, w, cg(g.get()));
                std::string reused = s ? s : "WRITE-FAILED"; if (s) GEOSFree_r(H, s);
                exp += std::string(k > 1 ? " ;; " : "") + "R:" + reused + " F:" + geosWrite(c, g.get());
            }
            GEOSWKTWriter_destroy_r(H, w);
            return exp;
        }
        if (stream == "wkt-write" || stream == "wkt-rt") {
            WCfg c; std::string rest; if (!parseCfgLine(line, c, rest)) return "bad-line";
            auto g = buildGeom(rest, GF.get());
            std::string w = geosWrite(c, g.get());
            return stream == "wkt-write" ? w : geosRead(w);
        }
        if (stream == "geojson") { std::istringstream is(line); int indent; is >> indent; std::string rest; std::getline(is, rest);
            auto g = buildGeom(rest, GF.get()); return geojsonRt(g.get(), indent); }
        if (stream == "geojson-text") { std::istringstream is(line); int indent; is >> indent; std::string rest; std::getline(is, rest);
            auto g = buildGeom(rest, GF.get()); std::string t; geojsonRt(g.get(), indent, &t); return t; }
    } catch (std::exception& e) { return std::string("harness-exception: ") + e.what(); }
    return "unknown-stream";
}

int main(int argc, char** argv) {
    H = GEOS_init_r();
    GEOSContext_setNoticeHandler_r(H, notice); GEOSContext_setErrorHandler_r(H, errorh);
    GF = GeometryFactory::create();
    if (argc == 4 && std::string(argv[1]) == "replay") {
        std::ifstream f(argv[3]); std::string line;
        while (std::getline(f, line)) std::cout << replayLine(argv[2], line) << "\n";
        return 0;
    }
    if (argc < 5) { std::fprintf(stderr, "usage: c10 <stream> <seed> <n> <outbase> | c10 replay <stream> <file>\n"); return 2; }
    std::string stream = argv[1]; uint64_t seed = std::stoull(argv[2]); long n = std::stol(argv[3]);
    {
        Out out(argv[4]); Rng r(seed);
        if (stream == "fmt") streamFmt(r, n, out);
        else if (stream == "wkt-write") streamWrite(r, n, out);
        else if (stream == "wkt-write-seq") streamWriteSeq(r, n, out);
        else if (stream == "wkt-red") streamRed(r, n, out);
        else if (stream == "wkt-read") streamRead(r, n, out);
        else if (stream == "wkt-rt") streamRt(r, n, out);
        else if (stream == "geojson") streamGeojson(r, n, out);
        else { std::fprintf(stderr, "unknown stream\n"); return 2; }
    }
    GEOS_finish_r(H);
    return 0;
}
