// C15 correspondence harness: runs generated STRtree histories through the C API (TemplateSTRtree<void*>)
// and prints, per history, the case line (for the Lean driver) and the implementation's outputs.
//   c15 strtree   <seed> <n> <outbase>     histories insert/build/query/remove/iterate/nearest
//   c15 strslices <seed> <n> <outbase>     sliceCount / sliceCapacity / treeSize arithmetic
//   c15 replay    <file>                   run the case lines in <file>, print implementation outputs
#include "common.h"
#include <geos_c.h>
#include <geos/index/strtree/TemplateSTRtree.h>
#include <geos/index/strtree/SimpleSTRtree.h>
#include <geos/index/strtree/STRtree.h>
#include <geos/index/strtree/SIRtree.h>
#include <geos/index/intervalrtree/SortedPackedIntervalRTree.h>
#include <geos/index/quadtree/Quadtree.h>
#include <geos/index/kdtree/KdTree.h>
#include <geos/index/kdtree/KdNodeVisitor.h>
#include <geos/index/ItemVisitor.h>
#include <geos/noding/snapround/HotPixelIndex.h>
#include <geos/noding/snapround/HotPixel.h>
#include <geos/geom/PrecisionModel.h>
#include <geos/geom/Envelope.h>
#include <cstdarg>
#include <set>
#include <array>
#include <memory>
#include <fstream>
#include <iostream>

using namespace vh;

static void notice(const char*, ...) {}
static std::string lastError;
static void errorh(const char* fmt, ...) { char b[512]; va_list ap; va_start(ap, fmt); vsnprintf(b, sizeof b, fmt, ap); va_end(ap); lastError = b; }

struct Item { long id; double px, py; };

static void collect(void* item, void* ud) { ((std::vector<long>*) ud)->push_back(((Item*) item)->id); }
static int distcb(const void* a, const void* b, double* d, void*) {
    const Item* x = (const Item*) a; const Item* y = (const Item*) b;
    double dx = x->px - y->px, dy = x->py - y->py; *d = std::sqrt(dx * dx + dy * dy); return 1;
}

struct EnvTok { bool null; double minx, maxx, miny, maxy; };

static GEOSGeometry* envGeom(GEOSContextHandle_t h, const EnvTok& e) {
    if (e.null) return GEOSGeom_createEmptyPoint_r(h);
    if (e.minx == e.maxx && e.miny == e.maxy) return GEOSGeom_createPointFromXY_r(h, e.minx, e.miny);
    GEOSCoordSequence* cs = GEOSCoordSeq_create_r(h, 2, 2);
    GEOSCoordSeq_setXY_r(h, cs, 0, e.minx, e.miny);
    GEOSCoordSeq_setXY_r(h, cs, 1, e.maxx, e.maxy);
    return GEOSGeom_createLineString_r(h, cs);
}

static std::string coordTok(char mode, double v) {
    if (mode == 'i') { char b[32]; snprintf(b, sizeof b, "%lld", (long long) v); return b; }
    return hex(v);
}
static std::string envTok(char mode, const EnvTok& e) {
    if (e.null) return "n";
    return coordTok(mode, e.minx) + " " + coordTok(mode, e.maxx) + " " + coordTok(mode, e.miny) + " " + coordTok(mode, e.maxy);
}
static std::string joinIds(std::vector<long> v) {
    std::sort(v.begin(), v.end()); std::string s;
    for (size_t i = 0; i < v.size(); i++) { if (i) s += ","; s += std::to_string(v[i]); } return s;
}

// ---- executing one history given as tokens (shared by generator and replay)
static std::string runHistory(GEOSContextHandle_t h, const std::vector<std::string>& tk) {
    // tk: H cap mode ops...
    size_t p = 1; size_t cap = (size_t) std::stoul(tk[p++]); char mode = tk[p++][0];
    auto coord = [&](const std::string& s) -> double {
        if (mode == 'i') return (double) std::stoll(s);
        return frombits(std::stoull(s, nullptr, 16));
    };
    auto readEnv = [&]() -> EnvTok {
        EnvTok e{}; if (tk[p] == "n") { p++; e.null = true; return e; }
        e.null = false; e.minx = coord(tk[p]); e.maxx = coord(tk[p + 1]); e.miny = coord(tk[p + 2]); e.maxy = coord(tk[p + 3]); p += 4; return e;
    };
    GEOSSTRtree* t = GEOSSTRtree_create_r(h, cap);
    std::vector<Item*> items; std::map<long, Item*> byId; std::vector<GEOSGeometry*> geoms;
    std::map<long, int> liveCount; // by id (identical duplicates allowed)
    std::string out;
    auto add = [&](const std::string& s) { if (!out.empty()) out += " "; out += s; };
    while (p < tk.size()) {
        std::string op = tk[p++];
        if (op == "I") {
            long id = std::stol(tk[p++]); EnvTok e = readEnv();
            Item* it = byId.count(id) ? byId[id] : nullptr;
            if (!it) { it = new Item{id, e.null ? 0 : e.minx, e.null ? 0 : e.miny}; items.push_back(it); byId[id] = it; }
            GEOSGeometry* g = envGeom(h, e); geoms.push_back(g);
            GEOSSTRtree_insert_r(h, t, g, it);
            if (!e.null) liveCount[id]++;
            add("i");
        } else if (op == "B") {
            GEOSSTRtree_build_r(h, t); add("b");
        } else if (op == "Q") {
            EnvTok e = readEnv(); GEOSGeometry* g = envGeom(h, e); std::vector<long> r;
            GEOSSTRtree_query_r(h, t, g, collect, &r); GEOSGeom_destroy_r(h, g);
            add("q:" + joinIds(r));
        } else if (op == "R") {
            long id = std::stol(tk[p++]); EnvTok e = readEnv(); GEOSGeometry* g = envGeom(h, e);
            Item probe{id, 0, 0}; Item* it = byId.count(id) ? byId[id] : &probe;
            char r = GEOSSTRtree_remove_r(h, t, g, it); GEOSGeom_destroy_r(h, g);
            if (r == 1 && liveCount[id] > 0) liveCount[id]--;
            add(std::string("r:") + (r == 1 ? "1" : r == 0 ? "0" : "E"));
        } else if (op == "T") {
            std::vector<long> r; GEOSSTRtree_iterate_r(h, t, collect, &r); add("t:" + joinIds(r));
        } else if (op == "N") {
            double x = coord(tk[p]), y = coord(tk[p + 1]); p += 2;
            Item q{-1, x, y}; GEOSGeometry* g = GEOSGeom_createPointFromXY_r(h, x, y);
            lastError.clear();
            const void* r = GEOSSTRtree_nearest_generic_r(h, t, &q, g, distcb, nullptr);
            GEOSGeom_destroy_r(h, g);
            if (!r) add("n:none");
            else {
                const Item* it = (const Item*) r; double dx = it->px - x, dy = it->py - y;
                long long d2 = (long long) (dx * dx + dy * dy);
                add("n:" + std::to_string(d2) + ":" + (liveCount[it->id] > 0 ? "1" : "0"));
            }
        } else { add("?" + op); }
    }
    GEOSSTRtree_destroy_r(h, t);
    for (auto g : geoms) GEOSGeom_destroy_r(h, g);
    for (auto it : items) delete it;
    return out;
}

static std::vector<std::string> split(const std::string& s) { std::istringstream is(s); std::vector<std::string> v; std::string t; while (is >> t) v.push_back(t); return v; }

// ---- generator
static double genCoord(Rng& r, char mode, int span) {
    if (mode == 'i') return (double) r.range(-span, span);
    // full-range doubles: mix of magnitudes, negative zero, infinities, denormals
    switch (r.below(10)) {
        case 0: return r.chance(50) ? 0.0 : -0.0;
        case 1: return (r.chance(50) ? 1 : -1) * std::ldexp(r.unit(), r.range(-1074, 1023));
        case 2: return r.chance(50) ? INFINITY : -INFINITY;
        default: return (r.unit() - 0.5) * std::pow(10.0, r.range(-3, 9));
    }
}

static EnvTok genEnv(Rng& r, char mode, int span, const std::vector<EnvTok>& prev, Out& out, const char* who) {
    EnvTok e{}; e.null = false;
    int k = (int) r.below(100);
    if (k < 4) { e.null = true; out.count(std::string(who) + "_null"); return e; }
    if (k < 22 && !prev.empty()) {           // derived from an existing envelope: identical, touching edge/corner, nested
        const EnvTok& b = prev[r.below(prev.size())];
        if (!b.null) {
            int m = (int) r.below(5);
            if (m == 0) { out.count(std::string(who) + "_identical"); return b; }
            if (m == 1) { e.minx = b.maxx; e.maxx = b.maxx + (mode == 'i' ? r.range(0, 3) : std::fabs(genCoord(r, mode, span)));
                          e.miny = b.miny; e.maxy = b.maxy; out.count(std::string(who) + "_touch_edge"); }
            else if (m == 2) { e.minx = b.maxx; e.maxx = b.maxx; e.miny = b.maxy; e.maxy = b.maxy; out.count(std::string(who) + "_touch_corner"); }
            else if (m == 3) { e.minx = b.minx; e.maxx = b.minx; e.miny = b.miny; e.maxy = b.maxy; out.count(std::string(who) + "_edge_line"); }
            else { double mx = (mode == 'i') ? std::floor((b.minx + b.maxx) / 2) : (b.minx / 2 + b.maxx / 2);
                   double my = (mode == 'i') ? std::floor((b.miny + b.maxy) / 2) : (b.miny / 2 + b.maxy / 2);
                   e.minx = std::min(mx, b.maxx); e.maxx = b.maxx; e.miny = std::min(my, b.maxy); e.maxy = b.maxy; out.count(std::string(who) + "_nested"); }
            if (std::isnan(e.minx) || std::isnan(e.maxx) || std::isnan(e.miny) || std::isnan(e.maxy) || e.minx > e.maxx || e.miny > e.maxy) return b;
            return e;
        }
    }
    double x1 = genCoord(r, mode, span), x2 = genCoord(r, mode, span), y1 = genCoord(r, mode, span), y2 = genCoord(r, mode, span);
    if (k < 40) { x2 = x1; y2 = y1; out.count(std::string(who) + "_point"); }
    else if (k < 50) { x2 = x1; out.count(std::string(who) + "_vline"); }
    else if (k < 60) { y2 = y1; out.count(std::string(who) + "_hline"); }
    else out.count(std::string(who) + "_box");
    e.minx = std::min(x1, x2); e.maxx = std::max(x1, x2); e.miny = std::min(y1, y2); e.maxy = std::max(y1, y2);
    return e;
}

static std::string genHistory(Rng& r, Out& out) {
    static const int caps[] = {2, 2, 3, 4, 4, 5, 8, 10, 10, 16, 32};
    int cap = caps[r.below(sizeof caps / sizeof caps[0])];
    char mode = r.chance(70) ? 'i' : 'x';
    int span = r.chance(50) ? 6 : 40;
    int nItems;
    switch (r.below(8)) {
        case 0: nItems = 0; break;
        case 1: nItems = 1; break;
        case 2: nItems = 2; break;
        case 3: { int k = r.range(1, cap <= 4 ? 4 : 2); long v = 1; for (int i = 0; i < k; i++) v *= cap; nItems = (int) std::min<long>(v + r.range(-1, 1), 1200); break; }
        default: nItems = r.range(3, 60); break;
    }
    out.count("items_" + std::string(nItems == 0 ? "0" : nItems == 1 ? "1" : nItems <= 10 ? "2-10" : nItems <= 100 ? "11-100" : ">100"));
    out.count(std::string("mode_") + mode);
    out.count("cap_" + std::to_string(cap));
    std::string s = "H " + std::to_string(cap) + " " + mode;
    std::vector<EnvTok> envs; std::vector<long> ids; std::map<long, EnvTok> envOf;
    long nextId = 1;
    if (r.chance(10)) { s += " Q " + envTok(mode, genEnv(r, mode, span, envs, out, "q")); out.count("query_before_insert"); }
    if (r.chance(5)) { s += " T"; }
    for (int i = 0; i < nItems; i++) {
        long id; EnvTok e;
        if (!ids.empty() && r.chance(4)) { id = ids[r.below(ids.size())]; e = envOf[id]; out.count("dup_pair"); }
        else { id = nextId++; e = genEnv(r, mode, span, envs, out, "ins"); envOf[id] = e; }
        s += " I " + std::to_string(id) + " " + envTok(mode, e);
        ids.push_back(id); if (!e.null) envs.push_back(e);
    }
    if (r.chance(30)) s += " B";
    int nOps = r.range(1, 25);
    for (int i = 0; i < nOps; i++) {
        int k = (int) r.below(100);
        if (k < 45) { s += " Q " + envTok(mode, genEnv(r, mode, span, envs, out, "q")); out.count("op_query"); }
        else if (k < 75) {
            out.count("op_remove");
            int m = (int) r.below(10);
            if (!ids.empty() && m < 7) { long id = ids[r.below(ids.size())]; s += " R " + std::to_string(id) + " " + envTok(mode, envOf[id]); out.count("remove_exact_pair"); }
            else if (!ids.empty() && m < 9) { long id = ids[r.below(ids.size())]; s += " R " + std::to_string(id) + " " + envTok(mode, genEnv(r, mode, span, envs, out, "rm")); out.count("remove_other_env"); }
            else { s += " R " + std::to_string(nextId + 1000) + " " + envTok(mode, genEnv(r, mode, span, envs, out, "rm")); out.count("remove_unknown_item"); }
        }
        else if (k < 85) { s += " T"; out.count("op_iterate"); }
        else if (mode == 'i') { s += " N " + coordTok(mode, r.range(-span - 3, span + 3)) + " " + coordTok(mode, r.range(-span - 3, span + 3)); out.count("op_nearest"); }
        else { s += " T"; out.count("op_iterate"); }
    }
    return s;
}

// ---- the other indexes used inside the library: results reported to the driver, which checks them against the
// brute-force filter ("never miss a matching item; the exact ones return no non-matching item")
struct IdCollector : public geos::index::ItemVisitor { std::vector<long> ids; void visitItem(void* it) override { ids.push_back((long)(intptr_t) it); } };
struct KdCollector : public geos::index::kdtree::KdNodeVisitor { std::vector<std::pair<long,long>> pts;
    void visit(geos::index::kdtree::KdNode* n) override { pts.push_back({(long) n->getCoordinate().x, (long) n->getCoordinate().y}); } };

static std::string joinL(std::vector<long> v) { std::sort(v.begin(), v.end()); std::string s; for (size_t i = 0; i < v.size(); i++) { if (i) s += ","; s += std::to_string(v[i]); } return s.empty() ? "-" : s; }

static std::string genOther(Rng& r, Out& out) {
    using geos::geom::Envelope;
    static const char* kinds[] = {"simple", "legacy", "quad", "sir", "spi", "kd", "hot"};
    int ki = (int) r.below(7); std::string kind = kinds[ki]; out.count("other_" + kind);
    int cap = r.range(2, 12); int span = r.chance(50) ? 6 : 30;
    int n; switch (r.below(5)) { case 0: n = 0; break; case 1: n = 1; break; case 2: n = cap * cap + r.range(-1, 1); break; default: n = r.range(2, 80); }
    std::string c = "X " + kind + " " + std::to_string(cap);
    std::vector<std::array<long, 4>> env(n);
    auto mk = [&](std::array<long, 4>& e) { long x1 = r.range(-span, span), x2 = r.range(-span, span), y1 = r.range(-span, span), y2 = r.range(-span, span);
        int k = (int) r.below(10); if (k < 3) { x2 = x1; y2 = y1; } else if (k < 4) x2 = x1; else if (k < 5) y2 = y1;
        e = {std::min(x1, x2), std::max(x1, x2), std::min(y1, y2), std::max(y1, y2)}; };
    for (int i = 0; i < n; i++) { if (i > 0 && r.chance(10)) env[i] = env[r.below(i)]; else mk(env[i]);
        if (kind == "kd" || kind == "hot") { env[i][1] = env[i][0]; env[i][3] = env[i][2]; }
        c += " I " + std::to_string(i + 1) + " " + std::to_string(env[i][0]) + " " + std::to_string(env[i][1]) + " " + std::to_string(env[i][2]) + " " + std::to_string(env[i][3]); }
    // build the index
    std::vector<std::unique_ptr<Envelope>> keep;
    std::unique_ptr<geos::index::strtree::SimpleSTRtree> simple; std::unique_ptr<geos::index::strtree::STRtree> legacy;
    std::unique_ptr<geos::index::quadtree::Quadtree> quad; std::unique_ptr<geos::index::strtree::SIRtree> sir;
    std::unique_ptr<geos::index::intervalrtree::SortedPackedIntervalRTree> spi; std::unique_ptr<geos::index::kdtree::KdTree> kd;
    geos::geom::PrecisionModel pm(1.0); std::unique_ptr<geos::noding::snapround::HotPixelIndex> hot;
    if (kind == "simple") simple.reset(new geos::index::strtree::SimpleSTRtree((size_t) cap));
    if (kind == "legacy") legacy.reset(new geos::index::strtree::STRtree((size_t) std::max(cap, 2)));
    if (kind == "quad") quad.reset(new geos::index::quadtree::Quadtree());
    if (kind == "sir") sir.reset(new geos::index::strtree::SIRtree((size_t) std::max(cap, 2)));
    if (kind == "spi") spi.reset(new geos::index::intervalrtree::SortedPackedIntervalRTree());
    if (kind == "kd") kd.reset(new geos::index::kdtree::KdTree());
    if (kind == "hot") hot.reset(new geos::noding::snapround::HotPixelIndex(&pm));
    for (int i = 0; i < n; i++) { auto& e = env[i]; void* item = (void*)(intptr_t)(i + 1);
        keep.emplace_back(new Envelope((double) e[0], (double) e[1], (double) e[2], (double) e[3]));
        if (simple) simple->insert(keep.back().get(), item); if (legacy) legacy->insert(keep.back().get(), item);
        if (quad) quad->insert(keep.back().get(), item); if (sir) sir->insert((double) e[0], (double) e[1], item);
        if (spi) spi->insert((double) e[0], (double) e[1], item);
        if (kd) kd->insert(geos::geom::Coordinate((double) e[0], (double) e[2]), item);
        if (hot) hot->add(geos::geom::Coordinate((double) e[0], (double) e[2])); }
    int nq = r.range(1, 8); std::set<long> removed;
    for (int q = 0; q < nq; q++) {
        if ((simple || legacy) && n > 0 && r.chance(25)) {          // removal of a live or already removed pair
            long id = r.range(1, n); auto& e = env[id - 1]; Envelope qe((double) e[0], (double) e[1], (double) e[2], (double) e[3]);
            bool ok = simple ? simple->remove(&qe, (void*)(intptr_t) id) : legacy->remove(&qe, (void*)(intptr_t) id);
            c += " R " + std::to_string(id) + " " + (ok ? "1" : "0"); continue; }
        std::array<long, 4> e; if (n > 0 && r.chance(30)) { e = env[r.below(n)]; if (r.chance(50)) { e[0] = e[1]; e[2] = e[3]; } } else mk(e);
        std::vector<long> res;
        if (kind == "sir" || kind == "spi") { e[2] = e[3] = 0; }
        Envelope qe((double) e[0], (double) e[1], (double) e[2], (double) e[3]);
        if (simple) { IdCollector v; simple->query(&qe, v); res = v.ids; }
        if (legacy) { std::vector<void*> v; legacy->query(&qe, v); for (auto p : v) res.push_back((long)(intptr_t) p); }
        if (quad) { std::vector<void*> v; quad->query(&qe, v); for (auto p : v) res.push_back((long)(intptr_t) p); }
        if (sir) { std::unique_ptr<std::vector<void*>> v(sir->query((double) e[0], (double) e[1])); for (auto p : *v) res.push_back((long)(intptr_t) p); }
        if (spi) { if (n == 0) { c += " Q " + std::to_string(e[0]) + " " + std::to_string(e[1]) + " 0 0 -"; continue; } IdCollector v; spi->query((double) e[0], (double) e[1], &v); res = v.ids; }
        std::string rs;
        if (kd || hot) { KdCollector v; if (kd) kd->query(qe, v); else hot->query(geos::geom::CoordinateXY((double) e[0], (double) e[2]), geos::geom::CoordinateXY((double) e[1], (double) e[3]), v);
            std::sort(v.pts.begin(), v.pts.end()); for (auto& p : v.pts) { if (!rs.empty()) rs += ","; rs += std::to_string(p.first) + ":" + std::to_string(p.second); } if (rs.empty()) rs = "-"; }
        else rs = joinL(res);
        c += " Q " + std::to_string(e[0]) + " " + std::to_string(e[1]) + " " + std::to_string(e[2]) + " " + std::to_string(e[3]) + " " + rs;
    }
    return c;
}

// ---- slice arithmetic
struct Probe : public geos::index::strtree::TemplateSTRtreeImpl<void*, geos::index::strtree::EnvelopeTraits> {
    explicit Probe(size_t cap) : TemplateSTRtreeImpl(cap) {}
    size_t sc(size_t n) const { return sliceCount(n); }
    size_t ts(size_t n) { return treeSize(n); }
    static size_t scap(size_t n, size_t s) { return sliceCapacity(n, s); }
};

int main(int argc, char** argv) {
    if (argc < 3) { fprintf(stderr, "usage\n"); return 2; }
    std::string stream = argv[1];
    GEOSContextHandle_t h = GEOS_init_r();
    GEOSContext_setNoticeHandler_r(h, notice); GEOSContext_setErrorHandler_r(h, errorh);
    if (stream == "replay") {
        std::ifstream f(argv[2]); std::string line;
        while (std::getline(f, line)) if (!line.empty()) std::cout << runHistory(h, split(line)) << "\n";
        GEOS_finish_r(h); return 0;
    }
    if (argc < 5) { fprintf(stderr, "usage\n"); return 2; }
    uint64_t seed = std::stoull(argv[2]); long n = std::stol(argv[3]); Out out(argv[4]); Rng r(seed);
    if (stream == "strtree") {
        for (long i = 0; i < n; i++) { std::string c = genHistory(r, out); out.emit(c, runHistory(h, split(c))); }
    } else if (stream == "otheridx") {
        for (long i = 0; i < n; i++) out.emit(genOther(r, out), "ok");
    } else if (stream == "strslices") {
        for (long i = 0; i < n; i++) {
            size_t cap = (size_t) r.range(2, 32);
            size_t m;
            switch (r.below(4)) { case 0: m = (size_t) r.range(0, 50); break; case 1: { size_t v = 1; int k = r.range(1, 5); for (int j = 0; j < k; j++) v *= cap; m = v + (size_t) r.range(0, 2) - 1; break; }
                                  case 2: { size_t q = (size_t) r.range(1, 3000); m = q * q * cap + (size_t) r.range(0, 2) - 1; break; } default: m = (size_t) r.below(2000000); }
            Probe p(cap); size_t s = p.sc(m);
            char c[64], e[96]; snprintf(c, sizeof c, "S %zu %zu", cap, m);
            snprintf(e, sizeof e, "%zu %zu %zu", s, m && s ? Probe::scap(m, s) : 0, p.ts(m));
            out.emit(c, e);
        }
    } else { fprintf(stderr, "unknown stream\n"); return 2; }
    GEOS_finish_r(h);
    return 0;
}
