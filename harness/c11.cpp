// C11 harness: the four readers (WKB, HEX, WKT, GeoJSON) of the library built from the current tree, fed with
// structure-aware mutations of valid encodings and with unstructured strings, every input in a forked child
// under resource limits, so that a sanitizer report / signal / timeout / memory blow-up is a *result*.
//
//   c11 <stream> <seed> <n> <outbase> [maxlen] [maxdepth]     stream = wkb-fuzz | hex-fuzz | wkt-fuzz | geojson-fuzz
//        writes <outbase>.cases / .expect (line protocol), <outbase>.res (JSON: worst resource ratios), STAT lines
//   c11 replay <file>                 lines `<reader> <flag> <kind> <hex|->`  ->  one expect line per case
//   c11 probe <family> <param>        one member of a witness family -> one JSON line (class, rss, cpu, length)
//   c11 gen <family> <param>          prints the case line of that member
//
// case   : <reader> <flag> <kind> <payload as hex, '-' when empty>      reader = wkb | hex | wkt | geojson
//          flag M = the Lean reader model answers too (verdict class + decoded tree), X = crash-only
// expect : ok <srid gtree…> | err           (flag M)
//          nomodel                          (flag X, no crash)
//          crash <class> <top geos frame> | hang | oom | leak      — never predicted by the model
// On success the child also exercises the geometry: WKB + WKT write, clone, area, length, isValid, destroy.
#include "gtree.h"
#include <geos_c.h>
#include <cstdarg>
#include <csignal>
#include <fstream>
#include <iostream>
#include <fcntl.h>
#include <poll.h>
#include <sys/mman.h>
#include <sys/resource.h>
#include <sys/time.h>
#include <sys/wait.h>
#include <unistd.h>

using namespace vh;

#if defined(__SANITIZE_ADDRESS__)
#define C11_ASAN 1
extern "C" {
const char* __asan_default_options() {
    return "exitcode=77:detect_leaks=1:leak_check_at_exit=0:abort_on_error=0:allocator_may_return_null=0:"
           "detect_stack_use_after_return=0:print_summary=1:symbolize=1:malloc_context_size=12:handle_abort=0";
}
const char* __ubsan_default_options() { return "print_stacktrace=1:halt_on_error=1"; }
size_t __sanitizer_get_current_allocated_bytes(void);
int __sanitizer_install_malloc_and_free_hooks(void (*)(const volatile void*, size_t), void (*)(const volatile void*));
int __lsan_do_recoverable_leak_check(void);
}
#else
#define C11_ASAN 0
#endif

// ------------------------------------------------------------------ small helpers
static std::string toHex(const std::string& s) { return s.empty() ? std::string("-") : hexbytes((const unsigned char*) s.data(), s.size()); }
static bool fromHex(const std::string& h, std::string& out) {
    out.clear(); if (h == "-") return true; if (h.size() % 2) return false;
    auto v = [](char c) -> int { if (c >= '0' && c <= '9') return c - '0'; if (c >= 'a' && c <= 'f') return c - 'a' + 10; if (c >= 'A' && c <= 'F') return c - 'A' + 10; return -1; };
    out.reserve(h.size() / 2);
    for (size_t i = 0; i < h.size(); i += 2) { int a = v(h[i]), b = v(h[i + 1]); if (a < 0 || b < 0) return false; out.push_back((char) (a * 16 + b)); }
    return true;
}
static uint64_t fnv(const std::string& s) { uint64_t h = 1469598103934665603ULL; for (unsigned char c : s) { h ^= c; h *= 1099511628211ULL; } return h; }
static std::string readFile(const std::string& p) { std::ifstream f(p, std::ios::binary); std::stringstream ss; ss << f.rdbuf(); return ss.str(); }

static GEOSContextHandle_t H;
static char g_err[512];
static void noticeh(const char*, ...) {}
static void errorh(const char* fmt, ...) { va_list ap; va_start(ap, fmt); vsnprintf(g_err, sizeof g_err, fmt, ap); va_end(ap); }

// the reader's error message -> a small enum (distribution evidence: which parser state rejected the input)
static const char* errClass(const char* m) {
    struct P { const char* pat; const char* cls; };
    static const P T[] = {
        {"Unexpected EOF", "eof"}, {"Unknown WKB type", "unknown_type"}, {"smaller than requested", "min_mem_size"},
        {"but got", "child_type"}, {"Premature end of HEX", "hex_odd"}, {"Invalid HEX", "hex_char"},
        {"bad_alloc", "bad_alloc"}, {"Expected number", "expected_number"}, {"Expected word", "expected_word"},
        {"Expected ')'", "expected_closer"}, {"Expected 'Z'", "expected_opener"}, {"Unknown type", "unknown_keyword"},
        {"Unexpected text after", "trailing_text"}, {"Cannot mix dimensionality", "mixed_dims"}, {"has been specified", "dim_tag_twice"},
        {"Unexpected EMPTY", "unexpected_empty"}, {"Unknown geometry type", "json_unknown_type"}, {"Error parsing JSON", "json_parse_or_type"},
        {"two or three coordinates", "json_coord_arity"}, {"encountered NaN/Inf", "arc_nonfinite"}, {"quadrant", "arc_quadrant"},
        {"IllegalArgumentException", "constructor"}, {"ParseException", "parse_other"},
    };
    for (auto& p : T) if (std::strstr(m, p.pat)) return p.cls;
    return m[0] ? "other" : "none";
}

// ------------------------------------------------------------------ isolated execution
struct Limits { double cpuBase = 3.0, cpuPerMiB = 20.0; size_t memBytes = (size_t) 3 << 30; size_t stackBytes = (size_t) 8 << 20; };
static Limits LIM;

struct RunRes {
    std::string cls;      // ok | err | crash | hang | oom | leak
    std::string detail;   // crash: "<class> <frame>" ; err: error class
    std::string dump;     // ok: "srid gtree"
    std::string post;     // ok: results of the exercise
    long rssGrowKB = 0; double cpu = 0, cpuRead = -1;
    bool afterRead = false;   // the failure happened after the reader had returned a geometry
};

static char* g_stackTop = nullptr;
static bool g_noExercise = false;   // probes that time the reader alone
static size_t g_memLimit = 0, g_memBase = 0;
#if C11_ASAN
static void mallocHook(const volatile void*, size_t) {
    if (g_memLimit && __sanitizer_get_current_allocated_bytes() > g_memBase + g_memLimit) _exit(99);
}
static void freeHook(const volatile void*) {}
#else
static void segvHandler(int sig, siginfo_t* si, void*) {
    char* a = (char*) si->si_addr;
    bool stack = g_stackTop && a < g_stackTop && a > g_stackTop - ((size_t) 1 << 30);
    _exit(stack ? 78 : (sig == SIGBUS ? 80 : 79));
}
#endif
static void cpuHandler(int) { _exit(97); }

// an input buffer whose end is the end of accessible memory (rel flavour: guard page; asan flavour: exact heap block)
struct Guarded {
    char* base = nullptr; size_t maplen = 0; char* p = nullptr; size_t n = 0;
    Guarded(const std::string& s, bool nulTerminated) {
        n = s.size(); size_t need = n + (nulTerminated ? 1 : 0);
#if C11_ASAN
        p = (char*) std::malloc(need ? need : 1); if (n) std::memcpy(p, s.data(), n); if (nulTerminated) p[n] = 0;
#else
        size_t pg = (size_t) sysconf(_SC_PAGESIZE); size_t pages = (need + pg - 1) / pg + 1;
        maplen = (pages + 1) * pg; base = (char*) mmap(nullptr, maplen, PROT_READ | PROT_WRITE, MAP_PRIVATE | MAP_ANONYMOUS, -1, 0);
        if (base == MAP_FAILED) _exit(96);
        mprotect(base + pages * pg, pg, PROT_NONE);
        p = base + pages * pg - need; if (n) std::memcpy(p, s.data(), n); if (nulTerminated) p[n] = 0;
#endif
    }
    ~Guarded() {
#if C11_ASAN
        std::free(p);
#else
        if (base) munmap(base, maplen);
#endif
    }
};

static GEOSGeometry* callReader(const std::string& reader, const std::string& data) {
    int path = (int) (fnv(data) & 1);
    if (reader == "wkb" || reader == "hex") {
        Guarded g(data, false);
        GEOSGeometry* r;
        if (path == 0) {
            GEOSWKBReader* rd = GEOSWKBReader_create_r(H);
            r = reader == "wkb" ? GEOSWKBReader_read_r(H, rd, (const unsigned char*) g.p, g.n) : GEOSWKBReader_readHEX_r(H, rd, (const unsigned char*) g.p, g.n);
            GEOSWKBReader_destroy_r(H, rd);
        } else r = reader == "wkb" ? GEOSGeomFromWKB_buf_r(H, (const unsigned char*) g.p, g.n) : GEOSGeomFromHEX_buf_r(H, (const unsigned char*) g.p, g.n);
        return r;
    }
    Guarded g(data, true);
    if (reader == "wkt") {
        if (path == 0) { GEOSWKTReader* rd = GEOSWKTReader_create_r(H); GEOSGeometry* r = GEOSWKTReader_read_r(H, rd, g.p); GEOSWKTReader_destroy_r(H, rd); return r; }
        return GEOSGeomFromWKT_r(H, g.p);
    }
    GEOSGeoJSONReader* rd = GEOSGeoJSONReader_create_r(H);
    GEOSGeometry* r = GEOSGeoJSONReader_readGeometry_r(H, rd, g.p);
    GEOSGeoJSONReader_destroy_r(H, rd);
    return r;
}

// "any geometry that is returned can be written, cloned, measured, validated and destroyed safely"
static double cpuNow() { struct timespec ts; clock_gettime(CLOCK_PROCESS_CPUTIME_ID, &ts); return (double) ts.tv_sec + ts.tv_nsec * 1e-9; }
static std::string exercise(GEOSGeometry* g, double* slowest = nullptr, const char** slowestOp = nullptr) {
    std::string s; double t0 = cpuNow();
    auto lap = [&](const char* op) { double t = cpuNow(); if (slowest && t - t0 > *slowest) { *slowest = t - t0; if (slowestOp) *slowestOp = op; } t0 = t; };
    { GEOSWKBWriter* w = GEOSWKBWriter_create_r(H); GEOSWKBWriter_setOutputDimension_r(H, w, 4); size_t sz = 0;
      unsigned char* b = GEOSWKBWriter_write_r(H, w, g, &sz); s += b ? "wkb+" : "wkb-"; if (b) GEOSFree_r(H, b); lap("wkb-write");
      unsigned char* hx = GEOSWKBWriter_writeHEX_r(H, w, g, &sz); s += hx ? "hex+" : "hex-"; if (hx) GEOSFree_r(H, hx);
      GEOSWKBWriter_destroy_r(H, w); lap("hex-write"); }
    { GEOSWKTWriter* w = GEOSWKTWriter_create_r(H); GEOSWKTWriter_setOutputDimension_r(H, w, 4); char* t = GEOSWKTWriter_write_r(H, w, g);
      s += t ? "wkt+" : "wkt-"; if (t) GEOSFree_r(H, t); GEOSWKTWriter_destroy_r(H, w); lap("wkt-write"); }
    { GEOSGeometry* c = GEOSGeom_clone_r(H, g); s += c ? "clone+" : "clone-"; lap("clone"); if (c) { (void) GEOSEqualsExact_r(H, g, c, 0.0); lap("equals-exact"); GEOSGeom_destroy_r(H, c); lap("destroy-clone"); } }
    { double a = 0, l = 0; s += GEOSArea_r(H, g, &a) ? "area+" : "area-"; lap("area"); s += GEOSLength_r(H, g, &l) ? "len+" : "len-"; lap("length"); }
    { char v = GEOSisValid_r(H, g); s += v == 2 ? "valid?" : (v ? "valid1" : "valid0"); lap("is-valid"); }
    (void) GEOSGetNumCoordinates_r(H, g); lap("num-coordinates"); (void) GEOSisEmpty_r(H, g); lap("is-empty");
    return s;
}

static std::string asanClass(const std::string& rep, std::string& frame) {
    std::string cls = "unknown";
    size_t p = rep.find("ERROR: AddressSanitizer: ");
    if (p != std::string::npos) { size_t q = rep.find_first_of(" \n", p + 25); cls = rep.substr(p + 25, q - (p + 25)); if (!cls.empty() && cls.back() == ':') cls.pop_back(); }
    else if (rep.find("ERROR: LeakSanitizer") != std::string::npos) cls = "leak";
    else if ((p = rep.find("runtime error: ")) != std::string::npos) { size_t q = rep.find('\n', p); std::string m = rep.substr(p + 15, q - (p + 15));
        cls = "ubsan"; static const char* K[] = {"overflow", "null pointer", "misaligned", "out of bounds", "not a valid value", "outside the range", "shift", "division by zero", "downcast", "member call", "invalid"};
        for (auto k : K) if (m.find(k) != std::string::npos) { cls = std::string("ubsan:") + k; break; } for (auto& c : cls) if (c == ' ') c = '-'; }
    frame = "-";
    // first frame inside geos::
    size_t f = 0;
    while ((f = rep.find(" in ", f)) != std::string::npos) {
        size_t e = rep.find('\n', f); std::string line = rep.substr(f + 4, e - (f + 4));
        if (line.rfind("geos::", 0) == 0 || line.rfind("GEOS", 0) == 0) { size_t q = line.find_first_of("( "); frame = line.substr(0, q); break; }
        f = e == std::string::npos ? rep.size() : e;
    }
    return cls;
}

static long rssKB() { long sz = 0, rss = 0; FILE* f = std::fopen("/proc/self/statm", "r"); if (f) { if (std::fscanf(f, "%ld %ld", &sz, &rss) != 2) rss = 0; std::fclose(f); } return rss * (sysconf(_SC_PAGESIZE) / 1024); }

static std::string g_errFile;

static RunRes runIsolated(const std::string& reader, const std::string& data, bool wantDump = true) {
    RunRes R; int pfd[2]; if (pipe(pfd)) { R.cls = "crash"; R.detail = "harness-pipe -"; return R; }
    double cpuLim = LIM.cpuBase + LIM.cpuPerMiB * (double) data.size() / 1048576.0;
    long rss0 = rssKB();
    pid_t pid = fork();
    if (pid == 0) {
        close(pfd[0]);
        int ef = open(g_errFile.c_str(), O_WRONLY | O_CREAT | O_TRUNC, 0600); if (ef >= 0) { dup2(ef, 2); close(ef); }
        struct rlimit rl; rl.rlim_cur = rl.rlim_max = 0; setrlimit(RLIMIT_CORE, &rl);
        rl.rlim_cur = LIM.stackBytes; rl.rlim_max = RLIM_INFINITY; setrlimit(RLIMIT_STACK, &rl);
        rl.rlim_cur = (rlim_t) std::ceil(cpuLim); rl.rlim_max = rl.rlim_cur + 2; setrlimit(RLIMIT_CPU, &rl);
        std::signal(SIGXCPU, cpuHandler); std::signal(SIGALRM, cpuHandler); alarm((unsigned) (10 * cpuLim + 30));
        char top; g_stackTop = &top;
#if C11_ASAN
        g_memBase = __sanitizer_get_current_allocated_bytes(); g_memLimit = LIM.memBytes;
        __sanitizer_install_malloc_and_free_hooks(mallocHook, freeHook);
#else
        { static char alt[1 << 16]; stack_t ss; ss.ss_sp = alt; ss.ss_size = sizeof alt; ss.ss_flags = 0; sigaltstack(&ss, nullptr);
          struct sigaction sa; std::memset(&sa, 0, sizeof sa); sa.sa_sigaction = segvHandler; sa.sa_flags = SA_SIGINFO | SA_ONSTACK; sigaction(SIGSEGV, &sa, nullptr); sigaction(SIGBUS, &sa, nullptr); }
        { struct rlimit as; FILE* f = std::fopen("/proc/self/statm", "r"); long vm = 0; if (f) { if (std::fscanf(f, "%ld", &vm) != 1) vm = 0; std::fclose(f); }
          as.rlim_cur = as.rlim_max = (rlim_t) vm * (rlim_t) sysconf(_SC_PAGESIZE) + LIM.memBytes; setrlimit(RLIMIT_AS, &as); }
#endif
        g_err[0] = 0;
#if C11_ASAN
        size_t before = __sanitizer_get_current_allocated_bytes();
#endif
        auto send = [&](const std::string& o) { size_t off = 0; while (off < o.size()) { ssize_t w = write(pfd[1], o.data() + off, o.size() - off); if (w <= 0) break; off += (size_t) w; } };
        { char bb[48]; std::snprintf(bb, sizeof bb, "B %ld\n", rssKB()); send(bb); }
        double t0 = cpuNow();
        GEOSGeometry* g = callReader(reader, data);
        double tRead = cpuNow() - t0;
        char tb[64]; std::snprintf(tb, sizeof tb, "T %.6f\n", tRead);
        if (!g) {
            if (std::strstr(g_err, "bad_alloc")) _exit(99);
            send(std::string("E ") + errClass(g_err) + "\n" + tb);
        } else {
            // the verdict goes out before dump and exercise, so a crash there is attributed correctly
            send(std::string("R ok\n") + tb);
            if (wantDump) send("K " + dumpGeom(reinterpret_cast<const Geometry*>(g)) + "\n");
            else { static const char* TAG[] = {"P", "L", "R", "Y", "MP", "ML", "MY", "GC", "C", "K", "U", "MC", "MS"}; int t = GEOSGeomTypeId_r(H, g);
                   send(std::string("K 0 ") + (t >= 0 && t < 13 ? TAG[t] : "?") + "\n"); }
            double slow = 0; const char* slowOp = "-";
            std::string ex = g_noExercise ? std::string("skipped") : exercise(g, &slow, &slowOp);
            double t1 = cpuNow(); GEOSGeom_destroy_r(H, g); double td = cpuNow() - t1; if (td > slow) { slow = td; slowOp = "destroy"; }
            char sb[96]; std::snprintf(sb, sizeof sb, " slowest=%s:%.6f", slowOp, slow);
            send("P " + ex + sb + "\n");
        }
        std::string out;
#if C11_ASAN
        g_memLimit = 0; out.clear(); out.shrink_to_fit();
        if (__sanitizer_get_current_allocated_bytes() > before) { if (__lsan_do_recoverable_leak_check()) { const char* m = "L leak\n"; if (write(pfd[1], m, 7) < 0) {} } }
#endif
        close(pfd[1]);
        _exit(0);
    }
    close(pfd[1]);
    std::string got; char buf[65536]; ssize_t k;
    while ((k = read(pfd[0], buf, sizeof buf)) > 0) got.append(buf, (size_t) k);
    close(pfd[0]);
    int st = 0; struct rusage ru; std::memset(&ru, 0, sizeof ru);
    wait4(pid, &st, 0, &ru);
    R.cpu = (double) ru.ru_utime.tv_sec + ru.ru_utime.tv_usec * 1e-6 + (double) ru.ru_stime.tv_sec + ru.ru_stime.tv_usec * 1e-6;
    bool haveK = false, haveE = false, haveP = false, haveL = false, haveR = false; std::string eCls;
    { std::istringstream is(got); std::string line; while (std::getline(is, line)) {
        if (line.rfind("K ", 0) == 0) { haveK = true; R.dump = line.substr(2); }
        else if (line.rfind("R ", 0) == 0) haveR = true;
        else if (line.rfind("B ", 0) == 0) rss0 = std::atol(line.c_str() + 2);
        else if (line.rfind("T ", 0) == 0) R.cpuRead = std::atof(line.c_str() + 2);
        else if (line.rfind("E ", 0) == 0) { haveE = true; eCls = line.substr(2); }
        else if (line.rfind("P ", 0) == 0) { haveP = true; R.post = line.substr(2); }
        else if (line.rfind("L ", 0) == 0) haveL = true; } }
    R.rssGrowKB = std::max(0L, (long) ru.ru_maxrss - rss0);
    if (WIFEXITED(st) && WEXITSTATUS(st) == 0) {
        if (haveL) { R.cls = "leak"; R.dump = readFile(g_errFile).substr(0, 4000); std::string fr; (void) asanClass(R.dump, fr); R.detail = fr; return R; }
        if (haveK && haveP) { R.cls = "ok"; return R; }
        if (haveE) { R.cls = "err"; R.detail = eCls; return R; }
        R.cls = "crash"; R.detail = "no-result -"; return R;
    }
    std::string phase = haveK ? "@exercise" : haveR ? "@dump" : "";
    if (WIFEXITED(st)) {
        int c = WEXITSTATUS(st);
        R.afterRead = haveR;
        if (c == 97) { R.cls = "hang"; R.detail = phase; return R; }
        if (c == 99) { R.cls = "oom"; R.detail = phase; return R; }
        if (c == 78) { R.cls = "crash"; R.detail = "stack-overflow" + phase + " -"; return R; }
        if (c == 79 || c == 80) { R.cls = "crash"; R.detail = (c == 79 ? "segv" : "sigbus") + phase + " -"; return R; }
        std::string rep = readFile(g_errFile), frame; std::string cls = asanClass(rep, frame);
        if (cls == "allocation-size-too-big" || cls == "out-of-memory" || cls == "calloc-overflow" || cls == "allocator" || cls == "requested") { R.cls = "oom"; R.detail = phase; return R; }
        if (cls == "leak") { R.cls = "leak"; R.dump = rep.substr(0, 4000); R.detail = frame; return R; }
        R.cls = "crash"; R.detail = (cls == "unknown" ? "exit-" + std::to_string(c) : cls) + phase + " " + frame; R.dump = rep.substr(0, 4000); return R;
    }
    int sig = WTERMSIG(st); R.afterRead = haveR;
    if (sig == SIGXCPU || sig == SIGALRM || sig == SIGKILL) { R.cls = "hang"; R.detail = phase; return R; }
    std::string rep = readFile(g_errFile), frame; std::string cls = asanClass(rep, frame);
    R.cls = "crash"; R.detail = (cls != "unknown" ? cls : std::string(sig == SIGSEGV ? "segv" : sig == SIGABRT ? "abort" : sig == SIGBUS ? "sigbus" : sig == SIGFPE ? "sigfpe" : "signal-" + std::to_string(sig))) + phase + " " + frame;
    R.dump = rep.substr(0, 4000);
    return R;
}

static std::string expectLine(const RunRes& r, char flag) {
    if (r.cls == "ok") return flag == 'M' ? "ok " + r.dump : "nomodel";
    if (r.cls == "err") return flag == 'M' ? "err" : "nomodel";
    if (r.cls == "crash") return "crash " + r.detail;
    if (r.cls == "leak") return "leak " + (r.detail.empty() ? std::string("-") : r.detail);
    return r.cls + r.detail;
}

// ------------------------------------------------------------------ worst-ratio bookkeeping
struct Worst { double v = -1; std::string reader, kind; size_t len = 0; long rss = 0; double cpu = 0; };
static std::map<std::string, Worst> g_worst;
static void track(const std::string& key, double v, const std::string& reader, const std::string& kind, size_t len, const RunRes& r) {
    Worst& w = g_worst[key]; if (v > w.v) { w.v = v; w.reader = reader; w.kind = kind; w.len = len; w.rss = r.rssGrowKB; w.cpu = r.cpu; }
}

// ------------------------------------------------------------------ generation: valid encodings
static const GeometryFactory* GF() { return GeometryFactory::getDefaultInstance(); }
static inline const GEOSGeometry* cg(const Geometry* g) { return reinterpret_cast<const GEOSGeometry*>(g); }

struct Gen {
    Rng& r; Out& out; size_t maxLen; int maxDepth;
    GenCfg plain, mixed, deep, nocurve;
    Gen(Rng& rr, Out& o, size_t ml, int md) : r(rr), out(o), maxLen(ml), maxDepth(md) {
        mixed.mixedDims = true; deep.maxDepth = 5; deep.maxPts = 4; nocurve.curves = false; nocurve.weird = false; nocurve.maxDepth = 2;
    }
    // a tree the factory accepts; big = aim at `target` bytes of encoding
    std::unique_ptr<Geometry> tree(bool jsonable, size_t target = 0) {
        for (;;) {
            std::string line;
            if (target) line = bigTree(target, jsonable);
            else if (jsonable) { GenCfg c = nocurve; c.gridInts = r.chance(30); c.weird = r.chance(10); GTreeGen g(r, c, &out); line = g.geom(); }
            else if (r.chance(8)) line = special();
            else { GTreeGen g(r, r.chance(25) ? mixed : (r.chance(15) ? deep : plain), &out); line = g.geom(); }
            try { return buildGeom(line, GF()); } catch (std::exception&) { out.count("gen_rejected_by_constructor"); }
        }
    }
    // shapes the shared generator never makes but the constructors accept: empty components inside curves / collections
    std::string special() {
        static const char* S[] = {"K 1 L xy 0", "K 1 C xyz 0", "Y 2 xy 0 xy 0", "U 2 L xyz 0 C xy 0", "U 1 C xym 0", "MC 2 K 1 L xy 0 C xy 0",
            "MS 2 U 0 Y 1 xy 0", "GC 3 K 1 C xy 0 U 0 MP 1 P xy 0", "ML 2 L xy 0 L xyz 0", "MY 1 Y 1 xym 0", "GC 0", "MP 0", "U 0",
            "K 2 L xy 2 0000000000000000 0000000000000000 3ff0000000000000 3ff0000000000000 C xy 3 3ff0000000000000 3ff0000000000000 4000000000000000 4000000000000000 4008000000000000 3ff0000000000000"};
        out.count("gen_special_empty_component");
        std::string g = S[r.below(sizeof S / sizeof S[0])];
        switch (r.below(4)) { case 0: break; case 1: g = "GC 2 P xy 1 3ff0000000000000 4000000000000000 " + g; break; case 2: g = "GC 2 " + g + " P xy 0"; break; default: g = "GC 1 GC 1 " + g; }
        return std::to_string(r.chance(50) ? 0 : r.range(1, 9999)) + " " + g;
    }
    std::string bigTree(size_t target, bool jsonable) {
        bool z = !jsonable && r.chance(40), m = !jsonable && r.chance(30);
        GenCfg c; c.weird = !jsonable && r.chance(30); c.gridInts = r.chance(30); GTreeGen g(r, c, nullptr);
        size_t per = 16 + (z ? 8 : 0) + (m ? 8 : 0); int n = (int) std::max<size_t>(4, target / per);
        out.count("gen_big");
        switch (r.below(jsonable ? 4 : 5)) {
        case 0: return "0 L " + g.seq(z, m, n, false);
        case 1: return "0 Y 1 " + g.seq(z, m, n, true);
        case 2: { int k = std::max(1, n / 3); std::string s = "0 MP " + std::to_string(k); for (int i = 0; i < k; i++) s += " P " + g.seq(z, m, 1, false); return s; }
        case 3: { int k = std::max(1, n / 8); std::string s = "0 GC " + std::to_string(k); for (int i = 0; i < k; i++) s += (i % 2) ? " L " + g.seq(z, m, 3, false) : " Y 1 " + g.seq(z, m, 4, true); return s; }
        default: { int k = 2 * (n / 2) + 1; return "0 C " + g.seq(z, m, k, false); } }
    }
    std::string wkb(const Geometry* g, bool& le) {
        GEOSWKBWriter* w = GEOSWKBWriter_create_r(H);
        GEOSWKBWriter_setOutputDimension_r(H, w, r.range(2, 4)); le = r.chance(60); GEOSWKBWriter_setByteOrder_r(H, w, le ? 1 : 0);
        GEOSWKBWriter_setFlavor_r(H, w, r.chance(50) ? 1 : 2); GEOSWKBWriter_setIncludeSRID_r(H, w, (char) r.below(2));
        size_t sz = 0; unsigned char* b = GEOSWKBWriter_write_r(H, w, cg(g), &sz); GEOSWKBWriter_destroy_r(H, w);
        std::string s; if (b) { s.assign((const char*) b, sz); GEOSFree_r(H, b); } return s;
    }
    std::string wkt(const Geometry* g) {
        GEOSWKTWriter* w = GEOSWKTWriter_create_r(H);
        GEOSWKTWriter_setTrim_r(H, w, (char) r.chance(75)); GEOSWKTWriter_setRoundingPrecision_r(H, w, r.chance(10) ? -1 : r.range(0, 18));
        GEOSWKTWriter_setOutputDimension_r(H, w, r.range(2, 4)); GEOSWKTWriter_setOld3D_r(H, w, r.chance(20));
        char* t = GEOSWKTWriter_write_r(H, w, cg(g)); GEOSWKTWriter_destroy_r(H, w);
        std::string s; if (t) { s = t; GEOSFree_r(H, t); } return s;
    }
    std::string geojson(const Geometry* g) {
        GEOSGeoJSONWriter* w = GEOSGeoJSONWriter_create_r(H);
        char* t = GEOSGeoJSONWriter_writeGeometry_r(H, w, cg(g), r.chance(50) ? -1 : r.range(0, 4)); GEOSGeoJSONWriter_destroy_r(H, w);
        std::string s; if (t) { s = t; GEOSFree_r(H, t); } return s;
    }
};

// ------------------------------------------------------------------ WKB structure walker + mutations
struct ArcF { size_t off; uint32_t n; size_t cs; };
struct Fields { std::vector<size_t> order, type, count, srid, geomStart, geomEnd; std::vector<ArcF> arcs; };
struct Walker {
    const std::string& b; Fields& f; bool ok = true; int depth = 0;
    Walker(const std::string& bb, Fields& ff) : b(bb), f(ff) {}
    uint32_t u32(size_t p, bool le) { if (p + 4 > b.size()) { ok = false; return 0; } auto B = [&](size_t i) { return (uint32_t) (unsigned char) b[i]; };
        return le ? B(p) | (B(p + 1) << 8) | (B(p + 2) << 16) | (B(p + 3) << 24) : B(p + 3) | (B(p + 2) << 8) | (B(p + 1) << 16) | (B(p) << 24); }
    size_t geom(size_t p) {
        if (!ok || p >= b.size() || depth > 200) { ok = false; return p; }
        size_t start = p; bool le = b[p] == 1; f.order.push_back(p); p++;
        uint32_t t = u32(p, le); f.type.push_back(p); p += 4;
        uint32_t code = (t & 0xffff) % 1000, rng = (t & 0xffff) / 1000;
        bool z = (t & 0x80000000u) || rng == 1 || rng == 3, m = (t & 0x40000000u) || rng == 2 || rng == 3;
        if (t & 0x20000000u) { f.srid.push_back(p); p += 4; }
        size_t cs = 16 + (z ? 8 : 0) + (m ? 8 : 0);
        switch (code) {
        case 1: p += cs; break;
        case 2: case 8: { uint32_t n = u32(p, le); f.count.push_back(p); if (code == 8 && n >= 3 && p + 4 + (size_t) n * cs <= b.size()) f.arcs.push_back({p + 4, n, cs}); p += 4 + (size_t) n * cs; break; }
        case 3: { uint32_t n = u32(p, le); f.count.push_back(p); p += 4;
                  for (uint32_t i = 0; i < n && ok && p < b.size(); i++) { uint32_t k = u32(p, le); f.count.push_back(p); p += 4 + (size_t) k * cs; } break; }
        case 4: case 5: case 6: case 7: case 9: case 10: case 11: case 12: {
                  uint32_t n = u32(p, le); f.count.push_back(p); p += 4; depth++;
                  for (uint32_t i = 0; i < n && ok && p < b.size(); i++) p = geom(p);
                  depth--; break; }
        default: ok = false; return p; }
        if (ok && p <= b.size()) { f.geomStart.push_back(start); f.geomEnd.push_back(p); }
        return p;
    }
};
static void put32(std::string& b, size_t p, uint32_t v, bool le) { if (p + 4 > b.size()) return; for (int i = 0; i < 4; i++) b[p + (size_t) (le ? i : 3 - i)] = (char) (v >> (8 * i)); }
static void app32(std::string& b, uint32_t v, bool le) { size_t p = b.size(); b.resize(p + 4); put32(b, p, v, le); }
static std::string wkbHeader(uint32_t type, uint32_t count, bool le) { std::string b(1, le ? 1 : 0); app32(b, type, le); app32(b, count, le); return b; }

static std::string mutateWkb(Gen& G, std::string& b, bool le) {
    Rng& r = G.r; Fields f; Walker w(b, f); w.geom(0);
    switch (r.below(20)) {
    case 0: if (!f.type.empty()) { size_t p = f.type[r.below(f.type.size())]; uint32_t t = w.u32(p, le);
                put32(b, p, (t & 0xffff0000u) | (((t & 0xffff) / 1000) * 1000 + (uint32_t) r.range(0, 14)), le); return "mut_type_code"; } break;
    case 1: if (!f.type.empty()) { size_t p = f.type[r.below(f.type.size())]; uint32_t t = w.u32(p, le);
                static const uint32_t bits[] = {0x80000000u, 0x40000000u, 0x20000000u, 0x10000000u, 0x00010000u, 0x08000000u};
                put32(b, p, t ^ bits[r.below(6)], le); return "mut_flag_bit"; } break;
    case 2: if (!f.type.empty()) { size_t p = f.type[r.below(f.type.size())]; uint32_t t = w.u32(p, le);
                put32(b, p, (t & 0xffff0000u) | ((((uint32_t) r.range(0, 65)) * 1000 + (t & 0xffff) % 1000) % 65536), le); return "mut_iso_range"; } break;
    case 3: if (!f.count.empty()) { size_t p = f.count[r.below(f.count.size())]; uint32_t n = w.u32(p, le);
                static const int d[] = {-1, 1, 2, -2}; put32(b, p, r.chance(30) ? 0 : n + (uint32_t) d[r.below(4)], le); return "mut_count_small"; } break;
    case 4: if (!f.count.empty()) { size_t p = f.count[r.below(f.count.size())];
                size_t rem = b.size() - (p + 4); static const size_t units[] = {4, 9, 16, 21, 24, 32};
                put32(b, p, (uint32_t) (rem / units[r.below(6)]) + (uint32_t) r.range(-1, 1), le); return "mut_count_guard"; } break;
    case 5: if (!f.count.empty()) { size_t p = f.count[r.below(f.count.size())];
                static const uint32_t big[] = {0xffffffffu, 0x80000000u, 0x7fffffffu, 0x10000000u, 65536u, 1000000u, 0xfffffffeu, 0x20000000u};
                put32(b, p, big[r.below(8)], le); return "mut_count_big"; } break;
    case 6: if (!b.empty()) { b.resize(r.below(b.size() + 1)); return "mut_truncate"; } break;
    case 7: if (!f.count.empty()) { size_t k = f.count[r.below(f.count.size())] + r.below(6); if (k < b.size()) b.resize(k); return "mut_truncate_field"; } break;
    case 8: if (!f.order.empty()) { size_t p = f.order[r.below(f.order.size())]; b[p] = r.chance(50) ? (char) (1 - (b[p] & 1)) : (char) r.range(2, 255); return "mut_order_byte"; } break;
    case 9: { int k = r.range(1, 4); for (int i = 0; i < k && !b.empty(); i++) b[r.below(b.size())] ^= (char) (1u << r.below(8)); return "mut_bitflips"; }
    case 10: { int k = r.range(1, 24); for (int i = 0; i < k; i++) b.push_back((char) r.below(256)); return "mut_trailing"; }
    case 11: if (!f.count.empty()) { size_t p = f.count[r.below(f.count.size())] + 4; if (p + 8 <= b.size()) { b[p + r.below(8)] ^= 0x10; return "mut_first_ordinate"; } } break;
    case 12: if (!f.arcs.empty()) { const ArcF& a = f.arcs[r.below(f.arcs.size())]; size_t q = a.off + r.below(a.n) * a.cs + 8 * r.below(2); double v;
                switch (r.below(6)) { case 0: v = INFINITY; break; case 1: v = -INFINITY; break; case 2: v = std::numeric_limits<double>::quiet_NaN(); break;
                    case 3: v = std::ldexp(1.0 + r.unit(), r.range(500, 1023)); break; case 4: v = 0.0; break; default: v = std::numeric_limits<double>::max(); }
                uint64_t u = bits(v); for (int k = 0; k < 8; k++) b[q + (size_t) (le ? k : 7 - k)] = (char) (u >> (8 * k)); return "mut_arc_xy"; } break;
    case 13: { // wrap in k nested collections of (possibly) the wrong kind
                int k = r.chance(70) ? r.range(1, 6) : r.range(7, std::max(8, G.maxDepth)); static const uint32_t kinds[] = {7, 7, 7, 4, 5, 6, 9, 10, 11, 12};
                uint32_t kind = kinds[r.below(10)]; std::string pre; for (int i = 0; i < k; i++) pre += wkbHeader(r.chance(80) ? kind : kinds[r.below(10)], 1, le);
                if (pre.size() + b.size() <= G.maxLen) { b = pre + b; return k > 6 ? "mut_nest_deep" : "mut_nest_wrap"; } } break;
    case 14: { // k nested collections, each claiming as many elements as the size guard lets through
                int k = r.range(1, std::max(2, std::min(G.maxDepth, 400))); std::string pre; size_t total = (size_t) k * 9 + b.size();
                for (int i = 0; i < k; i++) { size_t rem = total - (size_t) (i + 1) * 9; pre += wkbHeader(7, (uint32_t) (rem / 9), le); }
                if (total <= G.maxLen) { b = pre + b; return "mut_overclaim_nest"; } } break;
    case 15: if (!f.geomStart.empty()) { // replace one (sub)geometry by an empty / tiny encoding of some type
                size_t i = r.below(f.geomStart.size()); static const uint32_t ty[] = {1, 2, 3, 4, 5, 6, 7, 8, 9, 10, 11, 12};
                uint32_t t = ty[r.below(12)]; std::string e = t == 1 ? std::string(1, (char) (le ? 1 : 0)) : wkbHeader(t, 0, le);
                if (t == 1) { app32(e, 1, le); uint64_t nan = 0x7ff8000000000000ULL; for (int j = 0; j < 2; j++) for (int k = 0; k < 8; k++) e.push_back((char) (nan >> (8 * (le ? k : 7 - k)))); }
                b = b.substr(0, f.geomStart[i]) + e + b.substr(f.geomEnd[i]); return "mut_empty_component"; } break;
    case 16: if (f.geomStart.size() >= 2) { // copy one sub-geometry over another (wrong child types, nested curves)
                size_t i = r.below(f.geomStart.size()), j = r.below(f.geomStart.size()); std::string sub = b.substr(f.geomStart[j], f.geomEnd[j] - f.geomStart[j]);
                std::string nb = b.substr(0, f.geomStart[i]) + sub + b.substr(f.geomEnd[i]); if (nb.size() <= G.maxLen) { b = nb; return "mut_splice"; } } break;
    case 17: if (!b.empty()) { size_t a = r.below(b.size()), l = 1 + r.below(std::min<size_t>(64, b.size() - a)); std::string nb = b.substr(0, a + l) + b.substr(a); if (nb.size() <= G.maxLen) { b = nb; return "mut_dup_slice"; } } break;
    case 18: if (!f.srid.empty()) { put32(b, f.srid[r.below(f.srid.size())], r.chance(50) ? 0xffffffffu : (uint32_t) r.next(), le); return "mut_srid"; } break;
    default: if (!b.empty()) { size_t a = r.below(b.size()), l = 1 + r.below(std::min<size_t>(16, b.size() - a)); b.erase(a, l); return "mut_delete_slice"; } break;
    }
    if (!b.empty()) b[r.below(b.size())] ^= (char) 0xff;
    return "mut_byte";
}

// ------------------------------------------------------------------ text mutations (WKT / GeoJSON / HEX)
static const char* WKT_KEYWORDS[] = {"POINT", "LINESTRING", "LINEARRING", "CIRCULARSTRING", "COMPOUNDCURVE", "POLYGON", "CURVEPOLYGON", "MULTIPOINT",
    "MULTILINESTRING", "MULTICURVE", "MULTIPOLYGON", "MULTISURFACE", "GEOMETRYCOLLECTION", "EMPTY", "Z", "M", "ZM"};
static const char* ODD_NUMBERS[] = {"1e999", "-1e999", "1e-999", "1e", "1e+", "-", "+", ".", "1.2.3", "+-1", "--1", "1e99999999999999999999", "-1e-99999999999999999999", "nan", "NaN", "-nan", "inf", "-inf", "Infinity",
    "-INFINITY", "infinit", "0x10", "0x1p3", "1d5", "1f", "00000001", "1E5", ".5", "5.", "+.5e-3", "1e5e5", "1,5", "1_000", "4.9e-324", "2.4e-324", "1.7976931348623157e308", "1.7976931348623159e308", "0e0", "-0", "\v1", "1\v", "\f2"};
static bool isNumChar(char c) { return (c >= '0' && c <= '9') || c == '.' || c == '-' || c == '+' || c == 'e' || c == 'E'; }
// [start, end) of the number-like tokens of a text
static std::vector<std::pair<size_t, size_t>> numberSpans(const std::string& s) {
    std::vector<std::pair<size_t, size_t>> v; size_t i = 0;
    while (i < s.size()) { if ((s[i] >= '0' && s[i] <= '9') || ((s[i] == '-' || s[i] == '.') && i + 1 < s.size() && s[i + 1] >= '0' && s[i + 1] <= '9')) { size_t j = i; while (j < s.size() && isNumChar(s[j])) j++; v.push_back({i, j}); i = j; } else i++; }
    return v;
}
static std::string longDigits(Rng& r, size_t n) { std::string d; d.reserve(n + 8); if (r.chance(30)) d += "-"; for (size_t i = 0; i < n; i++) { d.push_back((char) ('0' + r.below(10))); if (i == n / 2 && r.chance(50)) d.push_back('.'); } if (r.chance(30)) d += "e-" + std::to_string(r.range(1, 400)); return d; }
static std::string randomFrom(Rng& r, const char* alphabet, size_t n) { size_t k = std::strlen(alphabet); std::string s; for (size_t i = 0; i < n; i++) s.push_back(alphabet[r.below(k)]); return s; }
static void scrubNul(std::string& s) { for (auto& c : s) if (c == 0) c = ' '; }

static std::string mutateWkt(Gen& G, std::string& s) {
    Rng& r = G.r;
    switch (r.below(22)) {
    case 0: if (!s.empty()) { s.erase(r.below(s.size()), 1); return "mut_erase_char"; } break;
    case 1: { static const char ins[] = "(), ZMEe.+-0123456789xX\t\n\r\v\"'{}[]:;"; s.insert(r.below(s.size() + 1), 1, ins[r.below(sizeof ins - 1)]); return "mut_insert_char"; }
    case 2: { size_t p = s.find_last_of(')'); if (p != std::string::npos) { s.erase(p, 1); return "mut_drop_last_paren"; } } break;
    case 3: if (!s.empty()) { s = s.substr(0, r.below(s.size())); return "mut_truncate"; } break;
    case 4: { size_t p = s.find(", "); if (p != std::string::npos) { s.replace(p, 2, " "); return "mut_drop_comma"; } } break;
    case 5: { size_t p = s.find("EMPTY"); if (p != std::string::npos) s.replace(p, 5, "()"); else s += " EMPTY"; return "mut_empty_swap"; }
    case 6: { auto sp = numberSpans(s); if (!sp.empty()) { auto x = sp[r.below(sp.size())]; s.replace(x.first, x.second - x.first, ODD_NUMBERS[r.below(sizeof ODD_NUMBERS / sizeof ODD_NUMBERS[0])]); return "mut_odd_number"; } } break;
    case 7: { auto sp = numberSpans(s); if (!sp.empty()) { auto x = sp[r.below(sp.size())]; size_t n = r.chance(70) ? (size_t) r.range(20, 380) : std::min<size_t>(G.maxLen / 2, (size_t) 1 << r.range(9, 19)); s.replace(x.first, x.second - x.first, longDigits(r, n)); return n > 400 ? "mut_huge_number" : "mut_long_number"; } } break;
    case 8: { std::vector<size_t> ps; for (size_t i = 0; i < s.size(); i++) if (s[i] == '(' || s[i] == ')') ps.push_back(i); if (!ps.empty()) { size_t p = ps[r.below(ps.size())]; if (r.chance(50)) s.erase(p, 1); else s.insert(p, 1, r.chance(50) ? '(' : ')'); return "mut_unbalance"; } } break;
    case 9: { // swap one keyword for another
            std::vector<std::pair<size_t, size_t>> ws; size_t i = 0; while (i < s.size()) { if (std::isalpha((unsigned char) s[i])) { size_t j = i; while (j < s.size() && std::isalpha((unsigned char) s[j])) j++; ws.push_back({i, j}); i = j; } else i++; }
            if (!ws.empty()) { auto x = ws[r.below(ws.size())]; s.replace(x.first, x.second - x.first, WKT_KEYWORDS[r.below(17)]); return "mut_keyword_swap"; } } break;
    case 10: { int k = r.chance(70) ? r.range(1, 6) : r.range(7, std::max(8, G.maxDepth)); static const char* W[] = {"GEOMETRYCOLLECTION", "GEOMETRYCOLLECTION", "GEOMETRYCOLLECTION Z", "MULTISURFACE", "MULTICURVE", "CURVEPOLYGON", "COMPOUNDCURVE", "MULTIPOLYGON", "MULTIPOINT", "geometrycollection"};
            const char* kw = W[r.below(10)]; std::string pre, post; bool close = r.chance(85); for (int i = 0; i < k; i++) { pre += kw; pre += r.chance(90) ? "(" : " ("; if (close) post += ")"; }
            if (pre.size() + s.size() + post.size() <= G.maxLen) { s = pre + s + post; return k > 6 ? "mut_nest_deep" : "mut_nest_wrap"; } } break;
    case 11: for (auto& c : s) c = (char) std::tolower((unsigned char) c); return "mut_lowercase";
    case 12: { std::string t; for (char c : s) { if (c == '(') t += " ( "; else if (c == ',') t += " ,\t"; else if (c == ' ' && r.chance(30)) t += "\n\r \t"; else t.push_back(c); } s = t; return "mut_extra_blanks"; }
    case 13: { std::string t; for (size_t i = 0; i < s.size(); i++) { if (s[i] == ' ' && i > 0 && (s[i - 1] == ',' || s[i - 1] == ')' )) continue; t.push_back(s[i]); } s = t; return "mut_no_blanks"; }
    case 14: { static const char* tags[] = {" Z", " M", " ZM", "Z", "M", "ZM", " Z M", " MZ"}; std::vector<size_t> ps; for (size_t i = 1; i < s.size(); i++) if ((s[i] == ' ' || s[i] == '(') && std::isalpha((unsigned char) s[i - 1])) ps.push_back(i);
            if (!ps.empty()) { s.insert(ps[r.below(ps.size())], tags[r.below(8)]); return "mut_dim_tag"; } } break;
    case 15: if (!s.empty()) { size_t a = r.below(s.size()), l = 1 + r.below(std::min<size_t>(80, s.size() - a)); std::string nb = s.substr(0, a + l) + s.substr(a); if (nb.size() <= G.maxLen) { s = nb; return "mut_dup_slice"; } } break;
    case 16: if (!s.empty()) { size_t a = r.below(s.size()), l = 1 + r.below(std::min<size_t>(24, s.size() - a)); s.erase(a, l); return "mut_delete_slice"; } break;
    case 17: { int k = r.range(1, 3); for (int i = 0; i < k && !s.empty(); i++) s[r.below(s.size())] = (char) r.range(1, 255); return "mut_random_bytes"; }
    case 18: { // an empty component inside a curve / collection
            static const char* E[] = {"EMPTY", "LINESTRING EMPTY", "CIRCULARSTRING EMPTY", "COMPOUNDCURVE EMPTY", "POINT EMPTY", "POLYGON EMPTY", "CURVEPOLYGON EMPTY", "GEOMETRYCOLLECTION EMPTY", "()", "(EMPTY)"};
            std::vector<size_t> ps; for (size_t i = 0; i < s.size(); i++) if (s[i] == '(' || s[i] == ',') ps.push_back(i + 1); if (!ps.empty()) { s.insert(ps[r.below(ps.size())], std::string(E[r.below(10)]) + ","); return "mut_empty_component"; } } break;
    case 19: { // replace a parenthesised group by another one of the same text
            std::vector<std::pair<size_t, size_t>> gs; std::vector<size_t> st; for (size_t i = 0; i < s.size(); i++) { if (s[i] == '(') st.push_back(i); else if (s[i] == ')' && !st.empty()) { gs.push_back({st.back(), i + 1}); st.pop_back(); } }
            if (gs.size() >= 2) { auto a = gs[r.below(gs.size())], b = gs[r.below(gs.size())]; std::string sub = s.substr(b.first, b.second - b.first); std::string nb = s.substr(0, a.first) + sub + s.substr(a.second); if (nb.size() <= G.maxLen) { s = nb; return "mut_splice_group"; } } } break;
    case 20: s += r.chance(50) ? " x" : (r.chance(50) ? ")" : " POINT(1 2)"); return "mut_trailing";
    default: { size_t p = s.find('('); if (p != std::string::npos) { s.insert(p, r.chance(50) ? " EMPTY " : " Z Z "); return "mut_before_opener"; } } break;
    }
    s += ")"; return "mut_extra_closer";
}

static std::string mutateJson(Gen& G, std::string& s) {
    Rng& r = G.r;
    static const char* VALS[] = {"null", "true", "false", "0", "\"x\"", "{}", "[]", "[[]]", "[null]", "1e999", "-1e999", "1E400", "1e-400", "-0", "NaN", "Infinity", "\"Point\"", "[1]", "[1,2,3,4]", "[1,\"2\"]", "{\"type\":\"Point\"}",
        "\"\\u0000\"", "\"\\ud800\"", "\"\\uD83D\\uDE00\"", "123456789012345678901234567890", "0.1e+1", "01", "1.", ".5", "[1,2", "18446744073709551616", "-9223372036854775809"};
    static const char* TYPES[] = {"Point", "LineString", "Polygon", "MultiPoint", "MultiLineString", "MultiPolygon", "GeometryCollection", "Feature", "FeatureCollection", "point", "", "Circle"};
    // spans of scalar tokens and of bracketed values
    auto scalarSpans = [&]() { std::vector<std::pair<size_t, size_t>> v; size_t i = 0; while (i < s.size()) {
            if (s[i] == '"') { size_t j = i + 1; while (j < s.size() && s[j] != '"') { if (s[j] == '\\') j++; j++; } j = std::min(s.size(), j + 1); v.push_back({i, j}); i = j; }
            else if ((s[i] >= '0' && s[i] <= '9') || s[i] == '-') { size_t j = i; while (j < s.size() && isNumChar(s[j])) j++; v.push_back({i, j}); i = j; }
            else if (std::isalpha((unsigned char) s[i])) { size_t j = i; while (j < s.size() && std::isalpha((unsigned char) s[j])) j++; v.push_back({i, j}); i = j; }
            else i++; } return v; };
    auto groupSpans = [&]() { std::vector<std::pair<size_t, size_t>> gs; std::vector<size_t> st; bool inStr = false; for (size_t i = 0; i < s.size(); i++) { char c = s[i];
            if (inStr) { if (c == '\\') i++; else if (c == '"') inStr = false; continue; } if (c == '"') inStr = true; else if (c == '[' || c == '{') st.push_back(i); else if ((c == ']' || c == '}') && !st.empty()) { gs.push_back({st.back(), i + 1}); st.pop_back(); } } return gs; };
    switch (r.below(18)) {
    case 0: { auto v = scalarSpans(); if (!v.empty()) { auto x = v[r.below(v.size())]; s.replace(x.first, x.second - x.first, VALS[r.below(sizeof VALS / sizeof VALS[0])]); return "mut_wrong_json_type"; } } break;
    case 1: { auto v = groupSpans(); if (!v.empty()) { auto x = v[r.below(v.size())]; s.replace(x.first, x.second - x.first, VALS[r.below(sizeof VALS / sizeof VALS[0])]); return "mut_group_to_scalar"; } } break;
    case 2: { size_t p = s.find("\"type\""); if (p != std::string::npos) { size_t a = s.find('"', p + 6 + 0); size_t c = s.find(':', p); a = s.find('"', c); size_t b = a == std::string::npos ? a : s.find('"', a + 1);
            if (a != std::string::npos && b != std::string::npos) { s.replace(a + 1, b - a - 1, TYPES[r.below(12)]); return "mut_type_swap"; } } } break;
    case 3: if (!s.empty()) { s = s.substr(0, r.below(s.size())); return "mut_truncate"; } break;
    case 4: { std::vector<size_t> ps; for (size_t i = 0; i < s.size(); i++) if (std::strchr("[]{}", s[i])) ps.push_back(i); if (!ps.empty()) { size_t p = ps[r.below(ps.size())]; if (r.chance(50)) s.erase(p, 1); else s.insert(p, 1, "[]{}"[r.below(4)]); return "mut_unbalance"; } } break;
    case 5: { auto sp = numberSpans(s); if (!sp.empty()) { auto x = sp[r.below(sp.size())]; size_t n = r.chance(70) ? (size_t) r.range(20, 380) : std::min<size_t>(G.maxLen / 2, (size_t) 1 << r.range(9, 19)); s.replace(x.first, x.second - x.first, longDigits(r, n)); return "mut_long_number"; } } break;
    case 6: { // deep arrays in place of a coordinate
            auto sp = numberSpans(s); if (!sp.empty()) { auto x = sp[r.below(sp.size())]; int k = r.chance(70) ? r.range(1, 8) : r.range(9, std::max(10, G.maxDepth)); if ((size_t) (2 * k) + s.size() <= G.maxLen) { s.replace(x.first, x.second - x.first, std::string((size_t) k, '[') + "1" + (r.chance(85) ? std::string((size_t) k, ']') : "")); return k > 8 ? "mut_array_deep" : "mut_array_nest"; } } } break;
    case 7: { int k = r.chance(70) ? r.range(1, 6) : r.range(7, std::max(8, G.maxDepth)); std::string pre, post; for (int i = 0; i < k; i++) { pre += "{\"type\":\"GeometryCollection\",\"geometries\":["; post += "]}"; }
            if (pre.size() + s.size() + post.size() <= G.maxLen) { s = pre + s + (r.chance(85) ? post : ""); return k > 6 ? "mut_nest_deep" : "mut_nest_wrap"; } } break;
    case 8: { s = std::string("{\"type\":\"Feature\",\"geometry\":") + s + ",\"properties\":" + (r.chance(50) ? "{\"a\":1,\"b\":[1,{\"c\":null}],\"d\":\"\\u00e9\"}" : VALS[r.below(8)]) + (r.chance(30) ? ",\"id\":7" : "") + "}"; return "mut_feature_wrap"; }
    case 9: { int k = r.range(0, 3); std::string t = "{\"type\":\"FeatureCollection\",\"features\":["; for (int i = 0; i < k; i++) { if (i) t += ","; t += "{\"type\":\"Feature\",\"geometry\":" + s + ",\"properties\":{}}"; } t += "]}"; if (t.size() <= G.maxLen) { s = t; return "mut_featurecollection_wrap"; } } break;
    case 10: { size_t p = s.find("\"coordinates\""); if (p == std::string::npos) p = s.find("\"geometries\""); if (p != std::string::npos) { s.replace(p + 1, 4, "xxxx"); return "mut_missing_key"; } } break;
    case 11: if (!s.empty()) { s.erase(r.below(s.size()), 1); return "mut_erase_char"; } break;
    case 12: { static const char ins[] = "[]{},:\"\\ 0-9.eE\n\tu"; s.insert(r.below(s.size() + 1), 1, ins[r.below(sizeof ins - 1)]); return "mut_insert_char"; }
    case 13: { auto v = groupSpans(); if (v.size() >= 2) { auto a = v[r.below(v.size())], b = v[r.below(v.size())]; std::string sub = s.substr(b.first, b.second - b.first); std::string nb = s.substr(0, a.first) + sub + s.substr(a.second); if (nb.size() <= G.maxLen) { s = nb; return "mut_splice_group"; } } } break;
    case 14: { int k = r.range(1, 3); for (int i = 0; i < k && !s.empty(); i++) s[r.below(s.size())] = (char) r.range(1, 255); return "mut_random_bytes"; }
    case 15: { auto v = groupSpans(); if (!v.empty()) { auto x = v[r.below(v.size())]; if (s[x.first] == '[' && x.second - x.first > 2) { s.replace(x.first, x.second - x.first, "[]"); return "mut_empty_array"; } } } break;
    case 16: { size_t p = s.find('{'); if (p != std::string::npos) { s.insert(p + 1, "\"type\":\"Point\",\"coordinates\":[0,0],\"bbox\":[0,0,1,1],"); return "mut_duplicate_keys"; } } break;
    default: s += r.chance(50) ? "}" : " {\"type\":\"Point\",\"coordinates\":[1,2]}"; return "mut_trailing";
    }
    s += "]"; return "mut_extra_closer";
}

static std::string hexText(Rng& r, const std::string& b, std::string& label) {
    static const char* U = "0123456789ABCDEF"; static const char* L = "0123456789abcdef";
    int mode = (int) r.below(3); std::string s; s.reserve(2 * b.size());
    for (unsigned char c : b) { const char* T = mode == 0 ? U : mode == 1 ? L : (r.chance(50) ? U : L); s.push_back(T[c >> 4]); s.push_back(T[c & 15]); }
    if (r.chance(12) && !s.empty()) {
        switch (r.below(5)) {
        case 0: s.pop_back(); label += "+hex_odd_length"; break;
        case 1: { static const char bad[] = "gGxz#:@/` \n"; s[r.below(s.size())] = bad[r.below(sizeof bad - 1)]; label += "+hex_bad_char"; break; }
        case 2: s.insert(r.below(s.size() + 1), 1, ' '); label += "+hex_blank"; break;
        case 3: s = "0x" + s; label += "+hex_0x_prefix"; break;
        default: s = s.substr(0, r.below(s.size())); label += "+hex_truncated"; } }
    return s;
}

// ------------------------------------------------------------------ witness families (the same members as the Lean witnesses)
// wkb-nest d   : d nested GEOMETRYCOLLECTIONs (count 1) around POINT(1 2)      = GeosModel.WKB.nestBytes d   (9 d + 21 bytes)
// wkb-over k   : k nested collections, level j claiming j - 1 elements          = GeosModel.WKB.over k        (9 k bytes)
// hex-nest d   : HEX text of wkb-nest d
// wkt-nest d   : "GEOMETRYCOLLECTION(" x d  POINT(1 2)  ")" x d                  = tokens GeosModel.C11.WKT.nestToks d
// geojson-nest d, geojson-array d : nested GeometryCollection objects / nested arrays as coordinates
// wkb-wide n, wkt-wide n, geojson-wide n : a MULTIPOINT of n points (the linear reference for the resource ratios)
// wkt-longnum n : POINT(<n digits> 1)
static bool family(const std::string& fam, long p, std::string& reader, std::string& s) {
    s.clear();
    std::string pt = wkbHeader(1, 0, true); pt.resize(5); for (int i = 0; i < 6; i++) pt.push_back(0); pt.push_back((char) 0xf0); pt.push_back(0x3f); for (int i = 0; i < 7; i++) pt.push_back(0); pt.push_back(0x40);
    if (fam == "wkb-nest" || fam == "hex-nest") { s.reserve((size_t) p * 9 + 21); for (long i = 0; i < p; i++) s += wkbHeader(7, 1, true); s += pt; reader = "wkb";
        if (fam == "hex-nest") { std::string h = hexbytes((const unsigned char*) s.data(), s.size()); s = h; reader = "hex"; } return true; }
    if (fam == "wkb-over") { for (long j = p; j >= 1; j--) s += wkbHeader(7, (uint32_t) (j - 1), true); reader = "wkb"; return true; }
    if (fam == "wkt-nest") { for (long i = 0; i < p; i++) s += "GEOMETRYCOLLECTION("; s += "POINT(1 2)"; s.append((size_t) p, ')'); reader = "wkt"; return true; }
    if (fam == "geojson-nest") { for (long i = 0; i < p; i++) s += "{\"type\":\"GeometryCollection\",\"geometries\":["; s += "{\"type\":\"Point\",\"coordinates\":[1,2]}"; for (long i = 0; i < p; i++) s += "]}"; reader = "geojson"; return true; }
    if (fam == "geojson-array") { s = "{\"type\":\"Point\",\"coordinates\":"; s.append((size_t) p, '['); s += "1"; s.append((size_t) p, ']'); s += "}"; reader = "geojson"; return true; }
    if (fam == "wkb-wide") { s = wkbHeader(4, (uint32_t) p, true); for (long i = 0; i < p; i++) s += pt; reader = "wkb"; return true; }
    if (fam == "wkt-wide") { s = "MULTIPOINT("; for (long i = 0; i < p; i++) { if (i) s += ","; s += "(1 2)"; } s += ")"; reader = "wkt"; return true; }
    if (fam == "geojson-wide") { s = "{\"type\":\"MultiPoint\",\"coordinates\":["; for (long i = 0; i < p; i++) { if (i) s += ","; s += "[1,2]"; } s += "]}"; reader = "geojson"; return true; }
    if (fam == "wkt-longnum") { s = "POINT("; s.append((size_t) p, '7'); s += " 1)"; reader = "wkt"; return true; }
    return false;
}

// ------------------------------------------------------------------ model-comparability of a WKT text (the Lean strtod model: no hexadecimal floats, bounded digit strings)
static bool wktComparable(const std::string& s, size_t modelMax) {
    if (s.size() > modelMax) return false;
    size_t run = 0;
    for (size_t i = 0; i < s.size(); i++) {
        unsigned char c = (unsigned char) s[i];
        if (c == 0) return false;
        if ((c == 'x' || c == 'X') && i > 0 && s[i - 1] == '0') return false;          // 0x… : strtod reads hexadecimal floats
        if (std::isalnum(c) || c == '.' || c == '+' || c == '-') { if (++run > 420) return false; } else run = 0;
    }
    return true;
}

// ------------------------------------------------------------------ streams
struct Stream {
    Rng r; Out out; Gen G; size_t maxLen, modelMax; std::string stream;
    Stream(const std::string& st, uint64_t seed, const std::string& base, size_t ml, int md) : r(seed), out(base), G(r, out, ml, md), maxLen(ml), modelMax(std::min<size_t>(ml, 16384)), stream(st) {}

    void emit(const std::string& reader, const std::string& kind, std::string data) {
        if (data.size() > maxLen) data.resize(maxLen);
        if (reader == "wkt" || reader == "geojson") scrubNul(data);
        char flag = 'X';
        if (reader == "wkb" || reader == "hex") flag = data.size() <= (reader == "hex" ? 2 * modelMax : modelMax) ? 'M' : 'X';
        else if (reader == "wkt") flag = wktComparable(data, modelMax) ? 'M' : 'X';
        RunRes res = runIsolated(reader, data, flag == 'M');
        out.emit(reader + " " + flag + " " + kind + " " + toHex(data), expectLine(res, flag));
        std::string k0 = kind.substr(0, kind.find('+'));
        out.count("kind_" + k0); out.count(std::string("flag_") + flag); out.count("result_" + res.cls); out.count(res.cls + "_" + k0);
        if (res.cls == "err") out.count("rejected_at_" + res.detail);
        if (res.cls == "ok") { std::istringstream is(res.dump); std::string srid, tag; is >> srid >> tag; out.count("accepted_type_" + tag);
            if (res.post.find('-') != std::string::npos) out.count("exercise_op_returned_error"); if (res.post.find("valid0") != std::string::npos) out.count("accepted_but_invalid"); }
        size_t sz = data.size(); const char* b = sz <= 256 ? "len_le_256" : sz <= 4096 ? "len_le_4k" : sz <= 65536 ? "len_le_64k" : "len_le_1m"; out.count(b);
        if (sz >= 4096) { track("rss_kb_above_8MiB_per_input_kb", (double) std::max(0L, res.rssGrowKB - 8192) / ((double) sz / 1024.0), reader, kind, sz, res); if (res.cpuRead >= 0) track("reader_cpu_us_per_byte", res.cpuRead * 1e6 / (double) sz, reader, kind, sz, res); track("total_cpu_us_per_byte", res.cpu * 1e6 / (double) sz, reader, kind, sz, res); }
        track("rss_kb_abs", (double) res.rssGrowKB, reader, kind, sz, res); track("cpu_s_abs", res.cpu, reader, kind, sz, res);
    }

    size_t pickBig() { if (!r.chance(3)) return 0; size_t lo = 4096; int steps = 0; while ((lo << (steps + 1)) <= maxLen) steps++; return std::min(maxLen - 64, lo << r.range(0, std::max(0, steps))) ; }

    void everyPrefix(const std::string& reader, const std::string& s) { if (s.size() > 160) return; for (size_t k = 0; k < s.size(); k++) emit(reader, "truncate_every_offset", s.substr(0, k)); }

    void runWkb(long n, bool hexEntry) {
        const std::string reader = hexEntry ? "hex" : "wkb";
        auto send = [&](std::string label, const std::string& b) { if (hexEntry) { std::string h = hexText(r, b, label); emit("hex", label, h); } else emit("wkb", label, b); };
        // the witness families at moderate size, and inputs that sit on the size guards
        for (long d : {0L, 1L, 2L, 50L, 500L, (long) std::min<size_t>((size_t) G.maxDepth, (maxLen - 21) / (hexEntry ? 18 : 9))}) { std::string rd, s; family("wkb-nest", d, rd, s); send("witness_nest", s); }
        for (long k : {1L, 2L, 3L, 50L, (long) std::min<size_t>((size_t) std::min(G.maxDepth, 1500), maxLen / (hexEntry ? 18 : 9))}) { std::string rd, s; family("wkb-over", k, rd, s); send("witness_overclaim", s); }
        { static const uint32_t types[] = {2, 3, 4, 5, 6, 7, 8, 9, 10, 11, 12}; static const size_t units[] = {16, 4, 21, 9, 9, 9, 16, 9, 4, 9, 9};
          for (int i = 0; i < 11; i++) for (uint32_t c = 0; c <= 2; c++) for (int d = -1; d <= 1; d++) { long len = (long) c * (long) units[i] + d; if (len < 0) continue; std::string b = wkbHeader(types[i], c, true); b.resize(b.size() + (size_t) len, 0); send("guard_corpus", b); } }
        while ((long) out.n < n) {
            int kind = (int) r.below(100);
            if (kind < 6) { size_t len = r.chance(80) ? r.below(48) : r.below(std::min<size_t>(maxLen, 4096)); std::string b; for (size_t k = 0; k < len; k++) b.push_back((char) r.below(256));
                if (len > 0 && r.chance(70)) b[0] = (char) r.below(2);
                if (len > 4 && r.chance(70)) { uint32_t t = (uint32_t) r.range(0, 13) + (r.chance(30) ? 1000u * (uint32_t) r.range(0, 3) : 0); if (r.chance(30)) t |= 0x80000000u; if (r.chance(10)) t |= 0x20000000u; put32(b, 1, t, b[0] == 1); }
                send("random_bytes", b); continue; }
            bool le = true; auto g = G.tree(false, pickBig()); std::string b = G.wkb(g.get(), le);
            if (b.empty()) { out.count("writer_failed"); continue; }
            if (kind < 30) { send("valid", b); continue; }
            if (kind < 34) { everyPrefix(reader, hexEntry ? hexbytes((const unsigned char*) b.data(), b.size()) : b); continue; }
            std::string label = mutateWkb(G, b, le); if (r.chance(25)) label = mutateWkb(G, b, le) + "+" + label;
            send(label, b);
        }
    }

    void runWkt(long n) {
        static const char* CORPUS[] = {"", " ", "POINT", "POINT(", "POINT()", "POINT(1)", "POINT(1 2", "POINT EMPTY", "EMPTY", "POINT Z M (1 2 3 4)", "POINT(1 2 3 4 5)", "POINT(nan nan)", "POINT(inf -inf)",
            "COMPOUNDCURVE(EMPTY,(0 0,1 1))", "COMPOUNDCURVE((0 0,1 1),EMPTY)", "COMPOUNDCURVE(CIRCULARSTRING EMPTY,(0 0,1 1))", "CURVEPOLYGON(EMPTY,(0 0,1 0,0 0))", "CURVEPOLYGON(COMPOUNDCURVE EMPTY)",
            "MULTISURFACE(CURVEPOLYGON(COMPOUNDCURVE(CIRCULARSTRING EMPTY)))", "GEOMETRYCOLLECTION(MULTISURFACE(CURVEPOLYGON(COMPOUNDCURVE(CIRCULARSTRING EMPTY))))", "MULTICURVE(COMPOUNDCURVE(COMPOUNDCURVE((0 0,1 1))))",
            "POLYGON(EMPTY,(0 0,1 0,1 1,0 0))", "POLYGON((0 0,1 0,1 1))", "LINEARRING(0 0,1 0,0 0)", "CIRCULARSTRING(0 0,1 1)", "CIRCULARSTRING(0 0,1e308 1e308,-1e308 1e308)", "CIRCULARSTRING(0 0,inf 1,2 0)", "MULTIPOINT(1 2,EMPTY)", "MULTIPOINT((1 2),3 4)",
            "GEOMETRYCOLLECTION(", "GEOMETRYCOLLECTION()", "GEOMETRYCOLLECTION(,)", "GEOMETRYCOLLECTION(EMPTY)", "GEOMETRYCOLLECTION Z(POINT(1 2))", "((((((((((", "))))))))))", ",,,,", "POINT(1 2)POINT(1 2)", "POINT\t(\n1\r2\v)", "point z(1 2 3)", "POINTZM(1 2 3 4)", "POINTZMZ(1 2 3)"};
        for (const char* c : CORPUS) emit("wkt", "corpus", c);
        for (long d : {0L, 1L, 2L, 50L, 500L, (long) std::min<size_t>((size_t) G.maxDepth, (maxLen - 10) / 20)}) { std::string rd, s; family("wkt-nest", d, rd, s); emit("wkt", "witness_nest", s); }
        while ((long) out.n < n) {
            int kind = (int) r.below(100);
            if (kind < 4) { emit("wkt", "random_alphabet", randomFrom(r, "(),  \t\n0123456789.-+eEZMPOINTLSRGYCUVAK", r.chance(80) ? r.below(64) : r.below(std::min<size_t>(maxLen, 4096)))); continue; }
            if (kind < 6) { std::string s; size_t len = r.below(64); for (size_t k = 0; k < len; k++) s.push_back((char) r.range(1, 255)); emit("wkt", "random_bytes", s); continue; }
            if (kind < 9) { std::string s; int k = r.range(1, 12); for (int i = 0; i < k; i++) { switch (r.below(5)) { case 0: s += WKT_KEYWORDS[r.below(17)]; break; case 1: s += "("; break; case 2: s += ")"; break; case 3: s += ","; break; default: s += std::to_string(r.range(-9, 9)); } s += r.chance(60) ? " " : ""; } emit("wkt", "random_tokens", s); continue; }
            auto g = G.tree(false, pickBig()); std::string s = G.wkt(g.get());
            if (s.empty()) { out.count("writer_failed"); continue; }
            if (kind < 30) { emit("wkt", "valid", s); continue; }
            if (kind < 33) { everyPrefix("wkt", s); continue; }
            std::string label = mutateWkt(G, s); if (r.chance(25)) label = mutateWkt(G, s) + "+" + label;
            emit("wkt", label, s);
        }
    }

    void runGeojson(long n) {
        static const char* CORPUS[] = {"", "{}", "[]", "null", "1", "\"x\"", "{\"type\":1}", "{\"type\":null}", "{\"type\":\"Point\"}", "{\"type\":\"Point\",\"coordinates\":null}", "{\"type\":\"Point\",\"coordinates\":[]}", "{\"type\":\"Point\",\"coordinates\":[1]}",
            "{\"type\":\"Point\",\"coordinates\":[1,2,3,4]}", "{\"type\":\"Point\",\"coordinates\":[\"1\",2]}", "{\"type\":\"Point\",\"coordinates\":[[1,2]]}", "{\"type\":\"Point\",\"coordinates\":{\"0\":1}}", "{\"type\":\"LineString\",\"coordinates\":[[1,2]]}",
            "{\"type\":\"LineString\",\"coordinates\":[]}", "{\"type\":\"LineString\",\"coordinates\":[1,2]}", "{\"type\":\"Polygon\",\"coordinates\":[]}", "{\"type\":\"Polygon\",\"coordinates\":[[]]}", "{\"type\":\"Polygon\",\"coordinates\":[[[0,0],[1,0],[1,1]]]}",
            "{\"type\":\"Polygon\",\"coordinates\":[[],[[0,0],[1,0],[1,1],[0,0]]]}", "{\"type\":\"MultiPolygon\",\"coordinates\":[[]]}", "{\"type\":\"MultiPolygon\",\"coordinates\":[[[]]]}", "{\"type\":\"GeometryCollection\"}", "{\"type\":\"GeometryCollection\",\"geometries\":null}",
            "{\"type\":\"GeometryCollection\",\"geometries\":{}}", "{\"type\":\"GeometryCollection\",\"geometries\":[1]}", "{\"type\":\"GeometryCollection\",\"geometries\":[null]}", "{\"type\":\"Feature\"}", "{\"type\":\"Feature\",\"geometry\":null}", "{\"type\":\"Feature\",\"geometry\":null,\"properties\":null}",
            "{\"type\":\"FeatureCollection\"}", "{\"type\":\"FeatureCollection\",\"features\":[null]}", "{\"type\":\"FeatureCollection\",\"features\":[{}]}", "{\"type\":\"FeatureCollection\",\"features\":[{\"type\":\"Feature\",\"geometry\":null}]}",
            "{\"type\":\"FeatureCollection\",\"features\":[{\"type\":\"Feature\",\"geometry\":{\"type\":\"Point\",\"coordinates\":[1,2]}},{\"type\":\"Feature\",\"geometry\":null,\"properties\":{}}]}", "{\"type\":\"FeatureCollection\",\"features\":[]}", "{\"type\":\"FeatureCollection\",\"features\":{\"a\":{\"geometry\":{\"type\":\"Point\",\"coordinates\":[1,2]}}}}",
            "{\"type\":\"Point\",\"coordinates\":[1e999,2]}", "{\"type\":\"Point\",\"coordinates\":[1,2]}x", "\xef\xbb\xbf{\"type\":\"Point\",\"coordinates\":[1,2]}", "{\"type\":\"Point\",\"coordinates\":[1,2],\"type\":\"LineString\"}", "{\"type\":\"Poi\\u006et\",\"coordinates\":[1,2]}", "{\"type\":\"Point\",\"coordinates\":[true,false]}"};
        for (const char* c : CORPUS) emit("geojson", "corpus", c);
        for (long d : {0L, 1L, 2L, 50L, 500L, (long) std::min<size_t>((size_t) G.maxDepth, (maxLen - 40) / 46)}) { std::string rd, s; family("geojson-nest", d, rd, s); emit("geojson", "witness_nest", s); }
        for (long d : {1L, 2L, 3L, 50L, (long) std::min<size_t>((size_t) G.maxDepth, (maxLen - 40) / 2)}) { std::string rd, s; family("geojson-array", d, rd, s); emit("geojson", "witness_array_nest", s); }
        while ((long) out.n < n) {
            int kind = (int) r.below(100);
            if (kind < 4) { emit("geojson", "random_alphabet", randomFrom(r, "[]{},:\"\\ 0123456789.-eEtruefalsnTypCodiPLgM", r.chance(80) ? r.below(64) : r.below(std::min<size_t>(maxLen, 4096)))); continue; }
            if (kind < 6) { std::string s; size_t len = r.below(64); for (size_t k = 0; k < len; k++) s.push_back((char) r.range(1, 255)); emit("geojson", "random_bytes", s); continue; }
            auto g = G.tree(true, pickBig()); std::string s = G.geojson(g.get());
            if (s.empty()) { out.count("writer_failed"); continue; }
            // RFC 7946 wrappers: Feature / FeatureCollection around the geometry, with unlocated features ("geometry": null), missing or
            // mistyped members, extra members, empty feature lists, several features per collection
            const char* wrapLabel = nullptr;
            if (r.chance(30)) {
                auto feature = [&](const std::string& geom) {
                    std::string f = "{\"type\":\"Feature\"";
                    switch (r.below(10)) { case 0: f += ",\"geometry\":null"; break; case 1: break; case 2: f += ",\"geometry\":[]"; break; case 3: f += ",\"geometry\":{}"; break;
                                            default: f += ",\"geometry\":" + geom; }
                    switch (r.below(5)) { case 0: f += ",\"properties\":null"; break; case 1: f += ",\"properties\":{\"a\":1,\"b\":[1,{\"c\":null}],\"d\":\"x\"}"; break; case 2: f += ",\"id\":7"; break; default: break; }
                    return f + "}"; };
                if (r.chance(40)) { s = feature(s); wrapLabel = "feature"; }
                else { int nf = (int) r.below(4); std::string fc = "{\"type\":\"FeatureCollection\",\"features\":[";
                    for (int q = 0; q < nf; q++) { if (q) fc += ","; if (r.chance(70)) fc += feature(s); else { auto g2 = G.tree(true, false); std::string s2 = G.geojson(g2.get()); fc += feature(s2.empty() ? s : s2); } }
                    fc += "]"; if (r.chance(20)) fc += ",\"bbox\":[0,0,1,1]"; fc += "}"; s = fc; wrapLabel = "feature_collection"; } }
            if (kind < 28) { emit("geojson", wrapLabel ? wrapLabel : "valid", s); continue; }
            if (kind < 31) { everyPrefix("geojson", s); continue; }
            std::string label = mutateJson(G, s); if (r.chance(30)) label = mutateJson(G, s) + "+" + label;
            if (wrapLabel) label = std::string(wrapLabel) + "+" + label;
            emit("geojson", label, s);
        }
    }

    void writeRes(const std::string& base) {
        FILE* f = std::fopen((base + ".res").c_str(), "w"); if (!f) return;
        std::fprintf(f, "{"); bool first = true;
        for (auto& kv : g_worst) { std::fprintf(f, "%s\"%s\":{\"value\":%.3f,\"reader\":\"%s\",\"kind\":\"%s\",\"len\":%zu,\"rss_grow_kb\":%ld,\"cpu_s\":%.4f}", first ? "" : ",", kv.first.c_str(), kv.second.v, kv.second.reader.c_str(), kv.second.kind.c_str(), kv.second.len, kv.second.rss, kv.second.cpu); first = false; }
        std::fprintf(f, "}\n"); std::fclose(f);
    }
};

static void warmUp() {
    // every code path that allocates once (locale facets, static tables) runs in the parent first, so that a child's
    // "allocated bytes grew" is evidence of a leak rather than of first use
    static const char* W[][2] = {{"wkt", "GEOMETRYCOLLECTION(POINT Z(1 2 3),MULTICURVE(COMPOUNDCURVE((0 0,1 1),CIRCULARSTRING(1 1,2 2,3 1))),POLYGON((0 0,1 0,1 1,0 0)))"}, {"wkt", "POINT(x"},
        {"geojson", "{\"type\":\"GeometryCollection\",\"geometries\":[{\"type\":\"Polygon\",\"coordinates\":[[[0,0],[1,0],[1,1],[0,0]]]}]}"}, {"geojson", "{\"type\":1}"}, {"geojson", "{"}, {"hex", "0101000000000000000000F03F0000000000000040"}, {"hex", "0x"}, {"wkb", ""}};
    for (auto& w : W) { g_err[0] = 0; GEOSGeometry* g = callReader(w[0], w[1]); if (g) { (void) dumpGeom(reinterpret_cast<const Geometry*>(g)); (void) exercise(g); GEOSGeom_destroy_r(H, g); } }
    std::string b; fromHex("0107000000010000000108000000030000000000000000000000000000000000000000000000000000f03f000000000000f03f00000000000000400000000000000000", b);
    GEOSGeometry* g = callReader("wkb", b); if (g) { (void) exercise(g); GEOSGeom_destroy_r(H, g); }
}

int main(int argc, char** argv) {
    H = GEOS_init_r(); GEOSContext_setNoticeHandler_r(H, noticeh); GEOSContext_setErrorHandler_r(H, errorh);
    { const char* t = std::getenv("TMPDIR"); g_errFile = std::string(t ? t : "/tmp") + "/c11-err-" + std::to_string((long) getpid()) + ".txt"; }
    if (const char* e = std::getenv("C11_MEM_MB")) LIM.memBytes = (size_t) std::atol(e) << 20;
    if (const char* e = std::getenv("C11_STACK_KB")) LIM.stackBytes = (size_t) std::atol(e) << 10;
    if (std::getenv("C11_NO_EXERCISE")) g_noExercise = true;
    if (const char* e = std::getenv("C11_CPU_BASE")) LIM.cpuBase = std::atof(e);
    if (const char* e = std::getenv("C11_CPU_PER_MIB")) LIM.cpuPerMiB = std::atof(e);
    warmUp();
    int rc = 0;
    std::string mode = argc > 1 ? argv[1] : "";
    if (mode == "replay" && argc >= 3) {
        std::ifstream in(argv[2]); std::string line;
        while (std::getline(in, line)) { if (line.empty()) continue; auto t = splitToks(line); std::string data;
            if (t.size() < 4 || !fromHex(t[3], data)) { std::cout << "bad-case\n"; continue; }
            RunRes res = runIsolated(t[0], data, t[1][0] == 'M'); std::cout << expectLine(res, t[1][0]) << "\n";
            if (std::getenv("C11_VERBOSE")) std::cerr << "class=" << res.cls << " detail=" << res.detail << " post=" << res.post << " cpu_read=" << res.cpuRead << " rss_grow_kb=" << res.rssGrowKB << " cpu=" << res.cpu << "\n" << (res.cls == "crash" || res.cls == "leak" ? res.dump : "") << "\n"; }
    } else if ((mode == "probe" || mode == "gen") && argc >= 4) {
        std::string reader, s; long p = std::atol(argv[3]);
        if (!family(argv[2], p, reader, s)) { std::fprintf(stderr, "unknown family\n"); rc = 2; }
        else if (mode == "gen") std::cout << reader << " X witness_" << argv[2] << " " << toHex(s) << "\n";
        else { RunRes res = runIsolated(reader, s, false); std::string det = res.cls == "crash" ? res.detail : res.cls == "err" ? res.detail : "";
            std::printf("{\"family\":\"%s\",\"param\":%ld,\"reader\":\"%s\",\"len\":%zu,\"class\":\"%s\",\"detail\":\"%s\",\"rss_grow_kb\":%ld,\"cpu_s\":%.4f,\"cpu_read_s\":%.6f,\"post\":\"%s\",\"flavour\":\"%s\"}\n", argv[2], p, reader.c_str(), s.size(), res.cls.c_str(), det.c_str(), res.rssGrowKB, res.cpu, res.cpuRead, res.post.c_str(), C11_ASAN ? "asan" : "rel"); }
    } else if (argc >= 5) {
        std::string stream = argv[1]; uint64_t seed = std::stoull(argv[2]); long n = std::stol(argv[3]);
        size_t maxLen = argc > 5 ? (size_t) std::atol(argv[5]) : 65536; int maxDepth = argc > 6 ? std::atoi(argv[6]) : 2000;
        { Stream S(stream, seed, argv[4], maxLen, maxDepth);
          if (stream == "wkb-fuzz") S.runWkb(n, false);
          else if (stream == "hex-fuzz") S.runWkb(n, true);
          else if (stream == "wkt-fuzz") S.runWkt(n);
          else if (stream == "geojson-fuzz") S.runGeojson(n);
          else { std::fprintf(stderr, "unknown stream %s\n", stream.c_str()); rc = 2; }
          S.writeRes(argv[4]); }
    } else { std::fprintf(stderr, "usage: c11 <stream> <seed> <n> <outbase> [maxlen] [maxdepth] | c11 replay <file> | c11 probe|gen <family> <param>\n"); rc = 2; }
    unlink(g_errFile.c_str());
    GEOS_finish_r(H);
    return rc;
}
