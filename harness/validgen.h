// Generators of valid AND invalid grid geometries for the validity checks (C05) and the repair checks (C17):
// hand-written touch/overlap/nesting templates, unfiltered random polygons with contact injection, and mutations
// (vertex moved onto another ring, repeated points, spikes, unclosed / too-few-point rings through
// LinearRing::setPoints, non-finite ordinates), plus the exact transformations of the invariance oracle.
#pragma once
#include "gridgen.h"
#include <geos/geom/LinearRing.h>
#include <geos/geom/CoordinateSequence.h>

namespace vh {

struct HP { double x, y; };
// type: 0 point 1 line 2 ring 3 polygon 4 multipoint 5 multiline 6 multipolygon 7 collection
struct HGeo { int type = 0; std::vector<std::vector<HP>> seqs; std::vector<HGeo> kids; };

inline bool hpEq(const HP& a, const HP& b) { return a.x == b.x && a.y == b.y; }

// ---------------------------------------------------------------- Geometry <-> HGeo
inline std::vector<HP> seqOf(const CoordinateSequence* cs) { std::vector<HP> v; for (size_t i = 0; i < cs->size(); i++) { const CoordinateXY& c = cs->getAt<CoordinateXY>(i); v.push_back({c.x, c.y}); } return v; }

inline HGeo fromGeom(const Geometry* g) {
    HGeo h;
    switch (g->getGeometryTypeId()) {
    case geos::geom::GEOS_POINT: h.type = 0; h.seqs.push_back(seqOf(static_cast<const Point*>(g)->getCoordinatesRO())); break;
    case geos::geom::GEOS_LINESTRING: h.type = 1; h.seqs.push_back(seqOf(static_cast<const LineString*>(g)->getCoordinatesRO())); break;
    case geos::geom::GEOS_LINEARRING: h.type = 2; h.seqs.push_back(seqOf(static_cast<const LinearRing*>(g)->getCoordinatesRO())); break;
    case geos::geom::GEOS_POLYGON: { h.type = 3; auto p = static_cast<const Polygon*>(g); h.seqs.push_back(seqOf(p->getExteriorRing()->getCoordinatesRO()));
        for (size_t i = 0; i < p->getNumInteriorRing(); i++) h.seqs.push_back(seqOf(p->getInteriorRingN(i)->getCoordinatesRO())); break; }
    case geos::geom::GEOS_MULTIPOINT: h.type = 4; break; case geos::geom::GEOS_MULTILINESTRING: h.type = 5; break; case geos::geom::GEOS_MULTIPOLYGON: h.type = 6; break;
    case geos::geom::GEOS_GEOMETRYCOLLECTION: h.type = 7; break;
    default: throw std::runtime_error("unsupported type"); }
    if (h.type >= 4) for (size_t i = 0; i < g->getNumGeometries(); i++) h.kids.push_back(fromGeom(g->getGeometryN(i)));
    return h;
}

inline std::unique_ptr<CoordinateSequence> csOf(const std::vector<HP>& v) { auto cs = std::make_unique<CoordinateSequence>(0u, false, false); for (auto& p : v) cs->add(CoordinateXY{p.x, p.y}); return cs; }

// a LinearRing with exactly these points, even when the constructor would refuse them (unclosed, 1..2 points):
// a placeholder ring is built and its points replaced through the public LinearRing::setPoints
inline std::unique_ptr<LinearRing> looseRing(const std::vector<HP>& v, const GeometryFactory* gf, bool* loose = nullptr) {
    try { return gf->createLinearRing(csOf(v)); } catch (...) {}
    if (loose) *loose = true;
    std::vector<HP> ph = {{0, 0}, {1, 0}, {0, 1}, {0, 0}};
    auto r = gf->createLinearRing(csOf(ph)); auto cs = csOf(v); r->setPoints(cs.get()); r->geometryChanged(); return r;
}

// throws when GEOS cannot hold the structure at all (1-point line, holes in an empty shell, wrong element type)
inline std::unique_ptr<Geometry> buildH(const HGeo& h, const GeometryFactory* gf, bool* loose = nullptr) {
    switch (h.type) {
    case 0: return h.seqs[0].empty() ? gf->createPoint() : gf->createPoint(csOf({h.seqs[0][0]}));
    case 1: return gf->createLineString(csOf(h.seqs[0]));
    case 2: return looseRing(h.seqs[0], gf, loose);
    case 3: { auto sh = looseRing(h.seqs[0], gf, loose); std::vector<std::unique_ptr<LinearRing>> holes;
        for (size_t i = 1; i < h.seqs.size(); i++) holes.push_back(looseRing(h.seqs[i], gf, loose));
        return gf->createPolygon(std::move(sh), std::move(holes)); }
    default: { std::vector<std::unique_ptr<Geometry>> gs; for (auto& k : h.kids) gs.push_back(buildH(k, gf, loose));
        if (h.type == 4) return gf->createMultiPoint(std::move(gs));
        if (h.type == 5) return gf->createMultiLineString(std::move(gs));
        if (h.type == 6) return gf->createMultiPolygon(std::move(gs));
        return gf->createGeometryCollection(std::move(gs)); } }
}

// tokens ("srid geom") -> HGeo
inline std::vector<HP> parseSeqH(Toks& tk) { std::string f = tk.next(); size_t n = tk.nat(); int extra = (f.find('z') != std::string::npos) + (f.find('m') != std::string::npos);
    std::vector<HP> v; for (size_t i = 0; i < n; i++) { HP p; p.x = frombits(std::stoull(tk.next(), nullptr, 16)); p.y = frombits(std::stoull(tk.next(), nullptr, 16)); for (int k = 0; k < extra; k++) tk.next(); v.push_back(p); } return v; }
inline HGeo parseH(Toks& tk) {
    std::string tag = tk.next(); HGeo h;
    if (tag == "P" || tag == "L" || tag == "R") { h.type = tag == "P" ? 0 : tag == "L" ? 1 : 2; h.seqs.push_back(parseSeqH(tk)); return h; }
    size_t k = tk.nat();
    if (tag == "Y") { h.type = 3; for (size_t i = 0; i < k; i++) h.seqs.push_back(parseSeqH(tk)); return h; }
    h.type = tag == "MP" ? 4 : tag == "ML" ? 5 : tag == "MY" ? 6 : tag == "GC" ? 7 : -1; if (h.type < 0) throw std::runtime_error("unsupported tag " + tag);
    for (size_t i = 0; i < k; i++) h.kids.push_back(parseH(tk)); return h;
}
inline HGeo parseHLine(const std::string& line) { auto v = splitToks(line); Toks tk(v); tk.next(); return parseH(tk); }

// ---------------------------------------------------------------- walking
template <class F> void eachSeq(HGeo& h, F f) { bool ring = h.type == 2 || h.type == 3; for (auto& s : h.seqs) f(s, ring, h.type); for (auto& k : h.kids) eachSeq(k, f); }
inline bool hasNonFinite(HGeo& h) { bool b = false; eachSeq(h, [&](std::vector<HP>& s, bool, int) { for (auto& p : s) if (!std::isfinite(p.x) || !std::isfinite(p.y)) b = true; }); return b; }

// ---------------------------------------------------------------- exact transformations (the invariance oracle)
inline void applyX(HGeo& h, const Xform& t) {
    eachSeq(h, [&](std::vector<HP>& s, bool, int) { for (auto& p : s) { double a = p.x, b = p.y, u, v;
        switch (t.sym & 7) { case 0: u = a; v = b; break; case 1: u = -b; v = a; break; case 2: u = -a; v = -b; break; case 3: u = b; v = -a; break;
                             case 4: u = -a; v = b; break; case 5: u = a; v = -b; break; case 6: u = b; v = a; break; default: u = -b; v = -a; }
        p.x = std::ldexp(u + (double) t.tx, t.k); p.y = std::ldexp(v + (double) t.ty, t.k); } });
}
inline void rotateRing(std::vector<HP>& s, size_t k) { if (s.size() < 3 || !hpEq(s.front(), s.back())) return; size_t n = s.size() - 1; k %= n; if (!k) return;
    std::vector<HP> r; for (size_t i = 0; i < n; i++) r.push_back(s[(i + k) % n]); r.push_back(r[0]); s = r; }
inline void shuffleVec(Rng& r, size_t n, std::vector<size_t>& perm) { perm.resize(n); for (size_t i = 0; i < n; i++) perm[i] = i; for (size_t i = n; i > 1; i--) std::swap(perm[i - 1], perm[r.below(i)]); }
// ring rotation, ring / line reversal, hole permutation, element permutation
inline void structuralX(HGeo& h, Rng& r, std::string& what) {
    bool ring = h.type == 2 || h.type == 3;
    for (auto& s : h.seqs) {
        if (ring && r.chance(60)) { rotateRing(s, r.below(16) + 1); what += "o"; }
        if ((ring || h.type == 1) && r.chance(50)) { std::reverse(s.begin(), s.end()); what += "r"; } }
    if (h.type == 3 && h.seqs.size() > 2 && r.chance(70)) { std::vector<size_t> p; shuffleVec(r, h.seqs.size() - 1, p); std::vector<std::vector<HP>> ns; ns.push_back(h.seqs[0]); for (auto i : p) ns.push_back(h.seqs[i + 1]); h.seqs = ns; what += "h"; }
    if (h.kids.size() > 1 && r.chance(70)) { std::vector<size_t> p; shuffleVec(r, h.kids.size(), p); std::vector<HGeo> nk; for (auto i : p) nk.push_back(h.kids[i]); h.kids = nk; what += "e"; }
    for (auto& k : h.kids) structuralX(k, r, what);
}

// ---------------------------------------------------------------- templates
struct Tmpl { const char* family; const char* wkt; };
static const Tmpl TEMPLATES[] = {
    {"poly_simple", "POLYGON((0 0,10 0,10 10,0 10,0 0))"},
    {"poly_hole", "POLYGON((0 0,10 0,10 10,0 10,0 0),(2 2,4 2,4 4,2 4,2 2))"},
    {"poly_two_holes", "POLYGON((0 0,10 0,10 10,0 10,0 0),(2 2,4 2,4 4,2 4,2 2),(6 6,8 6,8 8,6 8,6 6))"},
    {"hole_touch_shell_edge", "POLYGON((0 0,10 0,10 10,0 10,0 0),(5 0,7 3,3 3,5 0))"},
    {"hole_touch_shell_vertex", "POLYGON((0 0,10 0,10 10,0 10,0 0),(0 0,3 1,1 3,0 0))"},
    {"shell_vertex_touch_hole_edge", "POLYGON((0 0,5 0,5 2,6 0,10 0,10 10,0 10,0 0),(4 2,6 2,6 4,4 4,4 2))"},
    {"hole_touch_shell_twice", "POLYGON((0 0,10 0,10 10,0 10,0 0),(5 0,10 5,5 5,5 0))"},
    {"hole_touch_shell_twice_b", "POLYGON((0 0,10 0,10 10,0 10,0 0),(0 5,5 4,10 5,5 6,0 5))"},
    {"two_holes_touch_shell_same_vertex", "POLYGON((0 0,10 0,10 10,0 10,0 0),(5 0,3 3,2 1,5 0),(5 0,8 1,7 3,5 0))"},
    {"three_holes_touch_one_point", "POLYGON((0 0,10 0,10 10,0 10,0 0),(5 5,3 3,2 5,5 5),(5 5,7 3,8 5,5 5),(5 5,6 8,4 8,5 5))"},
    {"hole_chain_disconnects", "POLYGON((0 0,10 0,10 10,0 10,0 0),(0 5,5 5,3 7,0 5),(5 5,10 5,7 3,5 5))"},
    {"hole_chain_open", "POLYGON((0 0,10 0,10 10,0 10,0 0),(0 5,5 5,3 7,0 5),(5 5,8 5,7 3,5 5))"},
    {"hole_chain3_disconnects", "POLYGON((0 0,12 0,12 10,0 10,0 0),(0 5,4 5,2 7,0 5),(4 5,8 5,6 3,4 5),(8 5,12 5,10 7,8 5))"},
    {"hole_chain3_open", "POLYGON((0 0,12 0,12 10,0 10,0 0),(0 5,4 5,2 7,0 5),(4 5,8 5,6 3,4 5),(8 5,11 5,10 7,8 5))"},
    {"hole_cycle_no_shell", "POLYGON((0 0,12 0,12 12,0 12,0 0),(3 3,6 2,5 4,3 3),(6 2,9 3,7 4,6 2),(9 3,9 7,8 5,9 3),(9 7,6 9,6 7,9 7),(6 9,3 7,5 7,6 9),(3 7,3 3,4 5,3 7))"},
    {"hole_cycle_no_shell_open", "POLYGON((0 0,12 0,12 12,0 12,0 0),(3 3,6 2,5 4,3 3),(6 2,9 3,7 4,6 2),(9 3,9 7,8 5,9 3),(9 7,6 9,6 7,9 7),(6 9,3 7,5 7,6 9))"},
    {"two_holes_double_touch", "POLYGON((0 0,10 0,10 10,0 10,0 0),(2 3,5 2,4 4,5 6,2 5,2 3),(5 2,8 3,8 5,5 6,6 4,5 2))"},
    {"two_holes_touch_once", "POLYGON((0 0,10 0,10 10,0 10,0 0),(2 3,5 2,4 4,2 5,2 3),(5 2,8 3,8 5,6 4,5 2))"},
    {"nested_holes", "POLYGON((0 0,10 0,10 10,0 10,0 0),(2 2,8 2,8 8,2 8,2 2),(4 4,6 4,6 6,4 6,4 4))"},
    {"nested_holes_touching", "POLYGON((0 0,10 0,10 10,0 10,0 0),(2 2,8 2,8 8,2 8,2 2),(2 2,5 3,3 5,2 2))"},
    {"nested_holes_touching_edge", "POLYGON((0 0,10 0,10 10,0 10,0 0),(2 2,8 2,8 8,2 8,2 2),(5 2,6 4,4 4,5 2))"},
    {"hole_outside", "POLYGON((0 0,10 0,10 10,0 10,0 0),(12 2,14 2,14 4,12 4,12 2))"},
    {"hole_outside_touching", "POLYGON((0 0,10 0,10 10,0 10,0 0),(10 5,12 4,12 6,10 5))"},
    {"hole_outside_touching_vertex", "POLYGON((0 0,10 0,10 10,0 10,0 0),(10 10,12 11,11 12,10 10))"},
    {"hole_crossing_shell", "POLYGON((0 0,10 0,10 10,0 10,0 0),(8 4,12 4,12 6,8 6,8 4))"},
    {"hole_equals_shell", "POLYGON((0 0,10 0,10 10,0 10,0 0),(0 0,10 0,10 10,0 10,0 0))"},
    {"hole_equals_shell_reversed", "POLYGON((0 0,10 0,10 10,0 10,0 0),(0 0,0 10,10 10,10 0,0 0))"},
    {"hole_edge_on_shell_edge", "POLYGON((0 0,10 0,10 10,0 10,0 0),(2 0,4 0,4 2,2 2,2 0))"},
    {"holes_share_edge", "POLYGON((0 0,10 0,10 10,0 10,0 0),(2 2,5 2,5 5,2 5,2 2),(5 2,8 2,8 5,5 5,5 2))"},
    {"holes_overlap", "POLYGON((0 0,10 0,10 10,0 10,0 0),(2 2,6 2,6 6,2 6,2 2),(4 4,8 4,8 8,4 8,4 4))"},
    {"bowtie_proper", "POLYGON((0 0,10 10,10 0,0 10,0 0))"},
    {"bowtie_vertex", "POLYGON((0 0,5 5,10 10,10 0,5 5,0 10,0 0))"},
    {"bowtie_vertex_on_edge", "POLYGON((0 0,10 10,10 0,5 5,0 10,0 0))"},
    {"exverted_shell", "POLYGON((0 0,10 0,5 5,10 10,0 10,5 5,0 0))"},
    {"exverted_shell_vertex_on_edge", "POLYGON((0 0,10 0,10 5,5 5,10 6,10 10,0 10,0 0),(1 1,2 1,2 2,1 2,1 1))"},
    {"inverted_shell", "POLYGON((0 0,5 0,3 3,7 3,5 0,10 0,10 10,0 10,0 0))"},
    {"inverted_shell_two_pockets", "POLYGON((0 0,5 0,3 3,7 3,5 0,10 0,10 10,5 10,7 7,3 7,5 10,0 10,0 0))"},
    {"inverted_shell_same_node_two_pockets", "POLYGON((0 0,5 0,2 3,4 4,5 0,6 4,8 3,5 0,10 0,10 10,0 10,0 0))"},
    {"inverted_shell_hole_touch_pockets", "POLYGON((0 0,5 0,3 3,7 3,5 0,10 0,10 10,5 10,7 7,3 7,5 10,0 10,0 0),(3 3,4 5,3 7,2 5,3 3))"},
    {"inverted_shell_hole_touch_node", "POLYGON((0 0,5 0,3 3,7 3,5 0,10 0,10 10,0 10,0 0),(7 3,8 5,6 5,7 3))"},
    {"inverted_shell_vertex_on_edge", "POLYGON((0 0,10 0,10 10,0 10,0 4,3 3,3 6,0 4,0 0))"},
    {"exverted_hole", "POLYGON((0 0,10 0,10 10,0 10,0 0),(5 5,2 4,2 6,5 5,8 6,8 4,5 5))"},
    {"inverted_hole", "POLYGON((0 0,10 0,10 10,0 10,0 0),(2 2,5 2,4 4,6 4,5 2,8 2,8 8,2 8,2 2))"},
    {"exverted_hole_touch_shell", "POLYGON((0 0,10 0,10 10,0 10,0 0),(5 5,0 4,2 6,5 5,10 6,8 4,5 5))"},
    {"spike_out", "POLYGON((0 0,10 0,10 5,14 5,10 5,10 10,0 10,0 0))"},
    {"spike_in", "POLYGON((0 0,10 0,10 5,6 5,10 5,10 10,0 10,0 0))"},
    {"spike_at_start", "POLYGON((0 0,4 4,0 0,10 0,10 10,0 10,0 0))"},
    {"gore", "POLYGON((0 0,10 0,10 10,5 10,5 4,5 10,0 10,0 0))"},
    {"zero_area_ring", "POLYGON((0 0,10 0,5 0,0 0))"},
    {"zero_area_back_forth", "POLYGON((0 0,10 0,0 0,10 0,0 0))"},
    {"repeated_points", "POLYGON((0 0,0 0,10 0,10 10,10 10,10 10,0 10,0 0))"},
    {"repeated_closing", "POLYGON((0 0,10 0,10 10,0 10,0 0,0 0))"},
    {"too_few_aba", "POLYGON((0 0,10 0,0 0))"},
    {"too_few_abba", "POLYGON((0 0,10 0,10 0,0 0))"},
    {"too_few_aaaa", "POLYGON((3 3,3 3,3 3,3 3))"},
    {"too_few_hole", "POLYGON((0 0,10 0,10 10,0 10,0 0),(2 2,4 4,2 2))"},
    {"collinear_vertices", "POLYGON((0 0,5 0,10 0,10 10,0 10,0 5,0 0))"},
    {"mp_disjoint", "MULTIPOLYGON(((0 0,4 0,4 4,0 4,0 0)),((6 6,10 6,10 10,6 10,6 6)))"},
    {"mp_touch_vertex", "MULTIPOLYGON(((0 0,4 0,4 4,0 4,0 0)),((4 4,8 4,8 8,4 8,4 4)))"},
    {"mp_touch_vertex_on_edge", "MULTIPOLYGON(((0 0,4 0,4 4,0 4,0 0)),((4 2,8 0,8 4,4 2)))"},
    {"mp_touch_two_vertices", "MULTIPOLYGON(((0 0,4 0,4 4,0 4,0 0)),((4 0,8 2,4 4,6 2,4 0)))"},
    {"mp_share_edge", "MULTIPOLYGON(((0 0,4 0,4 4,0 4,0 0)),((4 0,8 0,8 4,4 4,4 0)))"},
    {"mp_share_partial_edge", "MULTIPOLYGON(((0 0,4 0,4 4,0 4,0 0)),((4 1,8 0,8 4,4 3,4 1)))"},
    {"mp_overlap", "MULTIPOLYGON(((0 0,6 0,6 6,0 6,0 0)),((4 4,10 4,10 10,4 10,4 4)))"},
    {"mp_nested", "MULTIPOLYGON(((0 0,10 0,10 10,0 10,0 0)),((2 2,4 2,4 4,2 4,2 2)))"},
    {"mp_nested_rev", "MULTIPOLYGON(((2 2,4 2,4 4,2 4,2 2)),((0 0,10 0,10 10,0 10,0 0)))"},
    {"mp_nested_touching_vertex", "MULTIPOLYGON(((0 0,10 0,10 10,0 10,0 0)),((0 0,4 1,1 4,0 0)))"},
    {"mp_nested_touching_all_vertices", "MULTIPOLYGON(((0 0,10 0,10 10,0 10,0 0)),((5 0,10 5,5 10,0 5,5 0)))"},
    {"mp_in_hole", "MULTIPOLYGON(((0 0,10 0,10 10,0 10,0 0),(2 2,8 2,8 8,2 8,2 2)),((4 4,6 4,6 6,4 6,4 4)))"},
    {"mp_in_hole_touching", "MULTIPOLYGON(((0 0,10 0,10 10,0 10,0 0),(2 2,8 2,8 8,2 8,2 2)),((2 2,6 4,4 6,2 2)))"},
    {"mp_in_hole_touching_all", "MULTIPOLYGON(((0 0,10 0,10 10,0 10,0 0),(2 2,8 2,8 8,2 8,2 2)),((5 2,8 5,5 8,2 5,5 2)))"},
    {"mp_fills_hole", "MULTIPOLYGON(((0 0,10 0,10 10,0 10,0 0),(2 2,8 2,8 8,2 8,2 2)),((2 2,8 2,8 8,2 8,2 2)))"},
    {"mp_around_hole", "MULTIPOLYGON(((0 0,10 0,10 10,0 10,0 0),(4 4,6 4,6 6,4 6,4 4)),((2 2,8 2,8 8,2 8,2 2),(3 3,7 3,7 7,3 7,3 3)))"},
    {"mp_identical", "MULTIPOLYGON(((0 0,4 0,4 4,0 4,0 0)),((0 0,4 0,4 4,0 4,0 0)))"},
    {"mp_three_touch_point", "MULTIPOLYGON(((0 0,4 0,4 4,0 0)),((4 4,8 4,8 8,4 4)),((4 4,0 8,2 8,4 4)))"},
    {"mp_hole_touch_other_shell", "MULTIPOLYGON(((0 0,10 0,10 10,0 10,0 0),(2 2,8 2,8 8,2 8,2 2)),((12 0,14 0,14 2,12 2,12 0)))"},
    {"mp_with_invalid_member", "MULTIPOLYGON(((0 0,4 0,4 4,0 4,0 0)),((6 6,10 10,10 6,6 10,6 6)))"},
    {"mp_touch_ring_cycle", "MULTIPOLYGON(((0 0,4 0,2 3,0 0)),((4 0,8 0,6 3,4 0)),((2 3,6 3,4 6,2 3)))"},
    {"line_simple", "LINESTRING(0 0,5 5,10 0)"},
    {"line_cross", "LINESTRING(0 0,10 10,10 0,0 10)"},
    {"line_closed", "LINESTRING(0 0,10 0,10 10,0 0)"},
    {"line_closed_touch", "LINESTRING(0 0,10 0,5 5,10 10,0 10,5 5,0 0)"},
    {"line_lollipop", "LINESTRING(0 0,5 0,8 3,8 -3,5 0)"},
    {"line_end_on_interior", "LINESTRING(0 0,10 0,10 5,5 0)"},
    {"line_end_on_vertex", "LINESTRING(0 0,5 0,10 0,10 5,5 0)"},
    {"line_start_mid_closed", "LINESTRING(0 0,4 0,4 4,0 0,-3 -3)"},
    {"line_back_forth", "LINESTRING(0 0,10 0,0 0)"},
    {"line_overlap", "LINESTRING(0 0,10 0,10 5,5 5,5 0,2 0)"},
    {"line_repeated", "LINESTRING(0 0,0 0,5 5,5 5,10 0)"},
    {"line_zero", "LINESTRING(3 3,3 3)"},
    {"line_zero3", "LINESTRING(3 3,3 3,3 3)"},
    {"ring_simple", "LINEARRING(0 0,10 0,10 10,0 0)"},
    {"ring_bowtie", "LINEARRING(0 0,10 10,10 0,0 10,0 0)"},
    {"ring_self_touch", "LINEARRING(0 0,10 0,5 5,10 10,0 10,5 5,0 0)"},
    {"ring_spike", "LINEARRING(0 0,10 0,10 5,14 5,10 5,10 10,0 0)"},
    {"ring_aba", "LINEARRING(0 0,5 5,0 0)"},
    {"ml_disjoint", "MULTILINESTRING((0 0,5 5),(6 0,10 4))"},
    {"ml_touch_ends", "MULTILINESTRING((0 0,5 5),(5 5,10 0))"},
    {"ml_three_ends", "MULTILINESTRING((0 0,5 5),(5 5,10 0),(5 5,5 10))"},
    {"ml_cross", "MULTILINESTRING((0 0,10 10),(0 10,10 0))"},
    {"ml_end_on_interior", "MULTILINESTRING((0 0,10 0),(5 0,5 5))"},
    {"ml_end_on_vertex", "MULTILINESTRING((0 0,5 0,10 0),(5 0,5 5))"},
    {"ml_closed_touched", "MULTILINESTRING((0 0,4 0,4 4,0 0),(0 0,-3 -3))"},
    {"ml_closed_touched_mid", "MULTILINESTRING((0 0,4 0,4 4,0 0),(4 0,8 -3))"},
    {"ml_two_closed_touch", "MULTILINESTRING((0 0,4 0,4 4,0 0),(0 0,-4 0,-4 -4,0 0))"},
    {"ml_overlap", "MULTILINESTRING((0 0,10 0),(5 0,15 0))"},
    {"ml_identical", "MULTILINESTRING((0 0,10 0),(0 0,10 0))"},
    {"ml_with_zero", "MULTILINESTRING((0 0,10 0),(3 3,3 3))"},
    {"ml_with_empty", "MULTILINESTRING((0 0,10 0),EMPTY)"},
    {"ml_loop_two_lines", "MULTILINESTRING((0 0,5 5,10 0),(10 0,5 -5,0 0))"},
    {"point", "POINT(3 4)"},
    {"point_empty", "POINT EMPTY"},
    {"mpoint", "MULTIPOINT((0 0),(1 1),(2 2))"},
    {"mpoint_repeat", "MULTIPOINT((0 0),(1 1),(0 0))"},
    {"mpoint_empty_elem", "MULTIPOINT((0 0),EMPTY,(1 1))"},
    {"poly_empty", "POLYGON EMPTY"},
    {"mp_empty_elem", "MULTIPOLYGON(((0 0,4 0,4 4,0 4,0 0)),EMPTY)"},
    {"gc_valid", "GEOMETRYCOLLECTION(POINT(1 1),LINESTRING(0 0,5 5),POLYGON((0 0,4 0,4 4,0 4,0 0)))"},
    {"gc_overlapping_valid_members", "GEOMETRYCOLLECTION(POLYGON((0 0,6 0,6 6,0 6,0 0)),POLYGON((4 4,10 4,10 10,4 10,4 4)))"},
    {"gc_invalid_member", "GEOMETRYCOLLECTION(POINT(1 1),POLYGON((0 0,10 10,10 0,0 10,0 0)),LINESTRING(3 3,3 3))"},
    {"gc_nested", "GEOMETRYCOLLECTION(GEOMETRYCOLLECTION(LINESTRING(0 0,10 10,10 0,0 10)),MULTIPOINT((0 0),(0 0)))"},
    {"gc_nested_invalid_deep", "GEOMETRYCOLLECTION(GEOMETRYCOLLECTION(POINT(0 0),GEOMETRYCOLLECTION(POLYGON((0 0,10 0,5 0,0 0)))),POINT(1 1))"},
    {"gc_empty", "GEOMETRYCOLLECTION EMPTY"},
};
static const size_t N_TEMPLATES = sizeof TEMPLATES / sizeof TEMPLATES[0];

// ---------------------------------------------------------------- generator
struct ValidGen {
    Rng& r; GEOSContextHandle_t h; Out* out; GridGen gg;
    ValidGen(Rng& rr, GEOSContextHandle_t hh, Out* o) : r(rr), h(hh), out(o), gg(rr, hh, nullptr) {}
    void cnt(const std::string& k) { if (out) out->count(k); }

    HGeo fromWkt(const char* wkt) { GEOSGeometry* g = GEOSGeomFromWKT_r(h, wkt); if (!g) throw std::runtime_error(std::string("bad template ") + wkt);
        HGeo hg = fromGeom((Geometry*) g); GEOSGeom_destroy_r(h, g); return hg; }

    static std::vector<HP> toHP(const std::vector<IPt>& v) { std::vector<HP> o; for (auto& p : v) o.push_back({(double) p.x, (double) p.y}); return o; }

    // unfiltered random polygon: shell + small holes whose vertices often reuse vertices / edge lattice points of the rings so far
    HGeo randPolygon() {
        HGeo hg; hg.type = 3; gg.span = r.chance(60) ? 8 : 5; gg.pool.clear(); gg.poolEdges.clear(); gg.contactPct = 0;
        auto shell = gg.ring(); hg.seqs.push_back(toHP(shell));
        GGeom tmp; GElem e; e.kind = 2; e.rings.push_back(shell); tmp.elems.push_back(e);
        int nh = r.chance(35) ? 0 : r.range(1, 3);
        for (int i = 0; i < nh; i++) {
            gg.setPartner(tmp, r.chance(60) ? 35 : 0);
            std::vector<IPt> ps; int n = r.range(3, 5); for (int j = 0; j < n; j++) ps.push_back(gg.rpt());
            auto hl = GridGen::hull(ps); if (hl.empty()) continue;
            hg.seqs.push_back(toHP(hl)); tmp.elems[0].rings.push_back(hl); }
        return hg; }
    HGeo randMultiPolygon() { HGeo m; m.type = 6; int n = r.range(2, 3); for (int i = 0; i < n; i++) m.kids.push_back(randPolygon()); return m; }
    HGeo randLine(bool multi) {
        gg.span = 6; gg.pool.clear(); gg.poolEdges.clear(); gg.contactPct = 0;
        if (!multi) { HGeo l; l.type = 1; int n = r.range(2, 7); std::vector<IPt> ps; for (int i = 0; i < n; i++) ps.push_back(gg.rpt()); if (r.chance(25) && n >= 3) ps.push_back(ps[0]); l.seqs.push_back(toHP(ps)); return l; }
        HGeo m; m.type = 5; int k = r.range(2, 4); GGeom acc;
        for (int i = 0; i < k; i++) { gg.setPartner(acc, 50); auto e = gg.line(); HGeo l; l.type = 1; l.seqs.push_back(toHP(e.rings[0])); m.kids.push_back(l); acc.elems.push_back(e); }
        return m; }

    // ---- mutations (coordinates are small integers here)
    struct SeqRef { std::vector<HP>* s; bool ring; };
    static void collect(HGeo& g, std::vector<SeqRef>& v) { bool ring = g.type == 2 || g.type == 3; if (g.type >= 1 && g.type <= 3) for (auto& s : g.seqs) if (!s.empty()) v.push_back({&s, ring}); for (auto& k : g.kids) collect(k, v); }
    static void setVertex(SeqRef a, size_t i, HP p) { auto& s = *a.s; bool closed = s.size() > 1 && hpEq(s.front(), s.back());
        if (a.ring && closed && (i == 0 || i + 1 == s.size())) { s.front() = p; s.back() = p; } else s[i] = p; }
    bool mutateContact(HGeo& g) {       // move a vertex onto a vertex or an edge lattice point of (another) component
        std::vector<SeqRef> v; collect(g, v); if (v.empty()) return false;
        SeqRef a = v[r.below(v.size())], b = v[r.below(v.size())]; auto& bs = *b.s; if (bs.size() < 2) return false;
        size_t j = r.below(bs.size() - 1); HP t = bs[j];
        if (r.chance(50)) { long dx = (long) (bs[j + 1].x - bs[j].x), dy = (long) (bs[j + 1].y - bs[j].y); long gq = gcdl(dx, dy); if (gq > 1) { long k = r.range(1, (int) gq - 1); t.x = bs[j].x + (double) (dx / gq * k); t.y = bs[j].y + (double) (dy / gq * k); } }
        setVertex(a, r.below(a.s->size()), t); return true; }
    bool mutateRepeat(HGeo& g) { std::vector<SeqRef> v; collect(g, v); if (v.empty()) return false; auto& s = *v[r.below(v.size())].s; size_t i = r.below(s.size()); s.insert(s.begin() + (long) i, s[i]); return true; }
    bool mutateSpike(HGeo& g) { std::vector<SeqRef> v; collect(g, v); if (v.empty()) return false; auto& s = *v[r.below(v.size())].s; if (s.size() < 2) return false; size_t i = 1 + r.below(s.size() - 1);
        HP tip{s[i].x + (double) r.range(-3, 3), s[i].y + (double) r.range(-3, 3)}; HP base = s[i]; s.insert(s.begin() + (long) i, tip); s.insert(s.begin() + (long) i, base); return true; }
    bool mutateUnclose(HGeo& g) { std::vector<SeqRef> v; collect(g, v); std::vector<SeqRef> rings; for (auto& x : v) if (x.ring && x.s->size() >= 3) rings.push_back(x); if (rings.empty()) return false;
        auto& s = *rings[r.below(rings.size())].s; if (r.chance(50)) s.pop_back(); else s.back().x += 1; return true; }
    bool mutateFew(HGeo& g) { std::vector<SeqRef> v; collect(g, v); if (v.empty()) return false; SeqRef a = v[r.below(v.size())]; auto& s = *a.s;
        if (a.ring) { int m = (int) r.below(4); if (m == 0) s = {s[0], s[s.size() / 2], s[0]}; else if (m == 1) s = {s[0], s[0], s[0], s[0]}; else if (m == 2) s = {s[0], s[s.size() / 2]}; else s = {s[0]}; }
        else s = {s[0], s[0]};
        return true; }
    // a ring collapsed to one point (all coordinates equal) — as an element or a hole — next to proper crossings elsewhere
    bool mutateCollapseRing(HGeo& g) { std::vector<SeqRef> v; collect(g, v); std::vector<SeqRef> rings; for (auto& x : v) if (x.ring && x.s->size() >= 4) rings.push_back(x); if (rings.empty()) return false;
        auto& s = *rings[r.below(rings.size())].s; HP p = r.chance(50) ? s[0] : HP{s[0].x + (double) r.range(9, 14), s[0].y + (double) r.range(9, 14)}; for (auto& q : s) q = p; return true; }
    bool mutateBowtie(HGeo& g) { std::vector<SeqRef> v; collect(g, v); std::vector<SeqRef> rings; for (auto& x : v) if (x.ring && x.s->size() >= 5 && !hpEq((*x.s)[1], (*x.s)[2])) rings.push_back(x); if (rings.empty()) return false;
        auto& s = *rings[r.below(rings.size())].s; size_t i = 1 + r.below(s.size() - 3); std::swap(s[i], s[i + 1]); return true; }
    bool mutateNonFinite(HGeo& g) { std::vector<std::vector<HP>*> v; eachSeq(g, [&](std::vector<HP>& s, bool, int) { if (!s.empty()) v.push_back(&s); }); if (v.empty()) return false;
        auto& s = *v[r.below(v.size())]; size_t i = r.below(s.size()); double bad = r.chance(50) ? std::numeric_limits<double>::quiet_NaN() : (r.chance(50) ? INFINITY : -INFINITY);
        if (r.chance(50)) s[i].x = bad; else s[i].y = bad; return true; }

    // one generated geometry (before the final lattice map); `family` names its origin
    HGeo generate(std::string& family) {
        HGeo g; int c = (int) r.below(100);
        if (c < 45) { const Tmpl& t = TEMPLATES[r.below(N_TEMPLATES)]; g = fromWkt(t.wkt); family = t.family; }
        else if (c < 70) { g = randPolygon(); family = "rand_polygon"; }
        else if (c < 82) { g = randMultiPolygon(); family = "rand_multipolygon"; }
        else if (c < 90) { g = randLine(false); family = "rand_line"; }
        else if (c < 96) { g = randLine(true); family = "rand_multiline"; }
        else { g.type = 7; int n = r.range(1, 3); family = "rand_collection"; for (int i = 0; i < n; i++) { std::string f; HGeo k = generate(f); g.kids.push_back(k); } return g; }
        int m = (int) r.below(100);
        if (m < 25) { int k = r.range(1, 2); bool any = false; for (int i = 0; i < k; i++) any |= mutateContact(g); if (any) { family += "+contact"; } }
        else if (m < 31) { if (mutateRepeat(g)) family += "+repeat"; }
        else if (m < 36) { if (mutateSpike(g)) family += "+spike"; }
        else if (m < 39) { if (mutateUnclose(g)) family += "+unclosed"; }
        else if (m < 42) { if (mutateFew(g)) family += "+few"; }
        else if (m < 45) { if (mutateNonFinite(g)) family += "+nonfinite"; }
        else if (m < 51 && (g.type == 3 || g.type == 6)) { int k = r.range(1, 3); bool any = false; for (int i = 0; i < k; i++) any |= mutateBowtie(g); if (mutateCollapseRing(g)) { family += any ? "+collapsed_ring+bowtie" : "+collapsed_ring"; } }
        return g; }
};

} // namespace vh
