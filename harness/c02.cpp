// C02 correspondence harness: every evaluation path of a topological question on pairs with arbitrary doubles.
//   c02 relate-dbl <seed> <n> <outbase>
//   c02 im-algebra <seed> <n> <outbase>   (geom::IntersectionMatrix get/set/setAtLeast/transpose/matches on random matrices)
//   c02 rect-fast <seed> <n> <outbase>    (operation::predicate::RectangleIntersects and its three callers on exact lattice input)
//   c02 point-setxy <seed> <n> <outbase>  (one geom::Point overwritten by setXY again and again: coordinate and cached envelope)
//   c02 pred-converse <seed> <n> <outbase> (the real RelatePredicate classes: a predicate on (A,B) and its converse on (B,A), flags / init / mirrored events)
//   c02 replay <file>
#include "relobs.h"
#include "c02gen.h"
#include <geos/geom/IntersectionMatrix.h>
#include <geos/geom/Point.h>
#include <geos/geom/Polygon.h>
#include <geos/geom/prep/PreparedGeometryFactory.h>
#include <geos/operation/predicate/RectangleIntersects.h>
#include <geos/operation/relateng/RelatePredicate.h>
#include <geos/geom/Envelope.h>
#include <cstdarg>
#include <fstream>
#include <iostream>

static void notice(const char*, ...) {}
static void errorh(const char*, ...) {}

// general similarity / affine map with double coefficients (not exact: that is the point)
struct DX { double a = 1, b = 0, c = 0, d = 1, tx = 0, ty = 0;
    void apply(const IPt& p, double& x, double& y) const { x = a * (double) p.x + b * (double) p.y + tx; y = c * (double) p.x + d * (double) p.y + ty; } };

static std::string seqTokD(const std::vector<IPt>& ps, const DX& t) {
    std::string s = "xy " + std::to_string(ps.size());
    for (auto& p : ps) { double x, y; t.apply(p, x, y); s += " " + hex(x) + " " + hex(y); } return s; }
static std::string elemTokD(const GElem& e, const DX& t) {
    if (e.kind == 0) return e.empty ? "P xy 0" : "P " + seqTokD(e.rings[0], t);
    if (e.kind == 1) return e.empty ? "L xy 0" : "L " + seqTokD(e.rings[0], t);
    if (e.empty) return "Y 1 xy 0";
    std::string s = "Y " + std::to_string(e.rings.size()); for (auto& rg : e.rings) s += " " + seqTokD(rg, t); return s; }
static std::string geomTokD(const GGeom& g, const DX& t) {
    if (g.container == 0) return "0 " + elemTokD(g.elems[0], t);
    std::string tag = "GC";
    if (g.container == 1) tag = g.elems.empty() ? "GC" : (g.elems[0].kind == 0 ? "MP" : g.elems[0].kind == 1 ? "ML" : "MY");
    std::string s = "0 " + tag + " " + std::to_string(g.elems.size());
    for (auto& e : g.elems) s += " " + elemTokD(e, t); return s; }

static std::string preds(GEOSContextHandle_t h, const GEOSGeometry* a, const GEOSGeometry* b) {
    std::string p;
    p += pc(GEOSIntersects_r(h, a, b)); p += pc(GEOSDisjoint_r(h, a, b)); p += pc(GEOSTouches_r(h, a, b)); p += pc(GEOSCrosses_r(h, a, b));
    p += pc(GEOSWithin_r(h, a, b)); p += pc(GEOSContains_r(h, a, b)); p += pc(GEOSOverlaps_r(h, a, b)); p += pc(GEOSEquals_r(h, a, b));
    p += pc(GEOSCovers_r(h, a, b)); p += pc(GEOSCoveredBy_r(h, a, b)); return p; }
static std::string ppreds(GEOSContextHandle_t h, const GEOSPreparedGeometry* pa, const GEOSGeometry* b) {
    std::string q;
    q += pc(GEOSPreparedIntersects_r(h, pa, b)); q += pc(GEOSPreparedDisjoint_r(h, pa, b)); q += pc(GEOSPreparedTouches_r(h, pa, b));
    q += pc(GEOSPreparedCrosses_r(h, pa, b)); q += pc(GEOSPreparedWithin_r(h, pa, b)); q += pc(GEOSPreparedContains_r(h, pa, b));
    q += pc(GEOSPreparedOverlaps_r(h, pa, b)); q += pc(GEOSPreparedCovers_r(h, pa, b)); q += pc(GEOSPreparedCoveredBy_r(h, pa, b));
    q += pc(GEOSPreparedContainsProperly_r(h, pa, b)); return q; }

// "P=" etc. for (A,B) come from observe(); here the additional paths
typedef std::vector<std::pair<double, double>> Probes;
static std::string observe2(GEOSContextHandle_t h, const GEOSGeometry* a, const GEOSGeometry* b, Rng& r, const std::string& pats, int order, const Probes& probes = Probes()) {
    std::string s = observe(h, a, b, r, pats);
    s += " PB=" + preds(h, b, a);
    const GEOSPreparedGeometry* pb = GEOSPrepare_r(h, b);
    s += " QB=" + (pb ? ppreds(h, pb, a) : std::string("EEEEEEEEEE"));
    if (pb) GEOSPreparedGeom_destroy_r(h, pb);
    // a reused prepared geometry asked in a seed-dependent order: answers must not depend on the order
    { const GEOSPreparedGeometry* pa = GEOSPrepare_r(h, a); std::string q(10, '?');
      int idx[10] = {0, 1, 2, 3, 4, 5, 6, 7, 8, 9}; for (int i = 9; i > 0; i--) { int j = (order >> (i * 2)) % (i + 1); std::swap(idx[i], idx[j]); }
      for (int round = 0; round < 2; round++) for (int k = 0; k < 10; k++) { char v = 0;
          switch (idx[k]) { case 0: v = GEOSPreparedIntersects_r(h, pa, b); break; case 1: v = GEOSPreparedDisjoint_r(h, pa, b); break; case 2: v = GEOSPreparedTouches_r(h, pa, b); break;
              case 3: v = GEOSPreparedCrosses_r(h, pa, b); break; case 4: v = GEOSPreparedWithin_r(h, pa, b); break; case 5: v = GEOSPreparedContains_r(h, pa, b); break;
              case 6: v = GEOSPreparedOverlaps_r(h, pa, b); break; case 7: v = GEOSPreparedCovers_r(h, pa, b); break; case 8: v = GEOSPreparedCoveredBy_r(h, pa, b); break;
              default: v = GEOSPreparedContainsProperly_r(h, pa, b); }
          q[idx[k]] = pc(v); }
      s += " QR=" + q; GEOSPreparedGeom_destroy_r(h, pa); }
    // self and clone
    { GEOSGeometry* c = GEOSGeom_clone_r(h, a); std::string t;
      t += pc(GEOSEquals_r(h, a, a)); t += pc(GEOSCovers_r(h, a, a)); t += pc(GEOSCoveredBy_r(h, a, a));
      t += pc(GEOSEquals_r(h, a, c)); t += pc(GEOSCovers_r(h, a, c)); t += pc(GEOSCoveredBy_r(h, a, c));
      s += " self=" + t; GEOSGeom_destroy_r(h, c); }
    // rectangle fast paths: the same polygon with a redundant vertex on its first edge must answer alike
    std::string rect = "-";
    if (GEOSGeomTypeId_r(h, a) == 3 && ((const Geometry*) a)->isRectangle()) {
        const GEOSGeometry* ring = GEOSGetExteriorRing_r(h, a); const GEOSCoordSequence* cs = GEOSGeom_getCoordSeq_r(h, ring);
        unsigned int n = 0; GEOSCoordSeq_getSize_r(h, cs, &n);
        GEOSCoordSequence* ns = GEOSCoordSeq_create_r(h, n + 1, 2);
        double x0, y0, x1, y1; GEOSCoordSeq_getXY_r(h, cs, 0, &x0, &y0); GEOSCoordSeq_getXY_r(h, cs, 1, &x1, &y1);
        GEOSCoordSeq_setXY_r(h, ns, 0, x0, y0);
        // a point of the (axis-parallel) first edge: exact because one ordinate is shared
        double mx = (x0 == x1) ? x0 : x0 / 2 + x1 / 2, my = (y0 == y1) ? y0 : y0 / 2 + y1 / 2;
        GEOSCoordSeq_setXY_r(h, ns, 1, mx, my);
        for (unsigned int i = 1; i < n; i++) { double x, y; GEOSCoordSeq_getXY_r(h, cs, i, &x, &y); GEOSCoordSeq_setXY_r(h, ns, i + 1, x, y); }
        GEOSGeometry* a2 = GEOSGeom_createPolygon_r(h, GEOSGeom_createLinearRing_r(h, ns), nullptr, 0);
        if (a2 && (mx != x0 || my != y0) && (mx != x1 || my != y1)) {
            const GEOSPreparedGeometry* p2 = GEOSPrepare_r(h, a2);
            rect = preds(h, a2, b) + ":" + ppreds(h, p2, b) + ":" + preds(h, b, a2);
            GEOSPreparedGeom_destroy_r(h, p2); }
        if (a2) GEOSGeom_destroy_r(h, a2); }
    s += " rect=" + rect;
    // XY point forms
    std::string xy = "-";
    if (GEOSGeomTypeId_r(h, b) == 0 && !GEOSisEmpty_r(h, b)) { double x, y; GEOSGeomGetX_r(h, b, &x); GEOSGeomGetY_r(h, b, &y);
        const GEOSPreparedGeometry* pa = GEOSPrepare_r(h, a);
        xy = std::string() + pc(GEOSPreparedContainsXY_r(h, pa, x, y)) + pc(GEOSPreparedIntersectsXY_r(h, pa, x, y)) + pc(GEOSPreparedContains_r(h, pa, b)) + pc(GEOSPreparedIntersects_r(h, pa, b));
        GEOSPreparedGeom_destroy_r(h, pa); }
    s += " xy=" + xy;
    // a walk of XY queries against ONE prepared geometry (the context's scratch point is overwritten query after query): each XY answer
    // must equal the answer for a freshly built POINT, prepared and unprepared
    if (!probes.empty()) { std::string q, v; const GEOSPreparedGeometry* pa = GEOSPrepare_r(h, a);
        for (auto& pr : probes) { if (!q.empty()) { q += ","; v += ","; } q += hex(pr.first) + ":" + hex(pr.second);
            v += pc(GEOSPreparedContainsXY_r(h, pa, pr.first, pr.second)); v += pc(GEOSPreparedIntersectsXY_r(h, pa, pr.first, pr.second));
            GEOSGeometry* pt = GEOSGeom_createPointFromXY_r(h, pr.first, pr.second);
            v += pc(GEOSPreparedContains_r(h, pa, pt)); v += pc(GEOSPreparedIntersects_r(h, pa, pt)); v += pc(GEOSContains_r(h, a, pt)); v += pc(GEOSIntersects_r(h, a, pt));
            GEOSGeom_destroy_r(h, pt); }
        GEOSPreparedGeom_destroy_r(h, pa); s += " xyq=" + q + " xys=" + v; }
    return s;
}

// ---- stream rect-fast helpers: lattice text for the driver
static std::string latSeq(const std::vector<IPt>& ps, long tx, long ty) { std::string s = std::to_string(ps.size());
    for (auto& p : ps) s += " " + std::to_string(p.x + tx) + " " + std::to_string(p.y + ty); return s; }
static std::string latElem(const GElem& e, long tx, long ty) {
    if (e.kind == 0) return e.empty ? "P 0" : "P " + latSeq(e.rings[0], tx, ty);
    if (e.kind == 1) return e.empty ? "L 0" : "L " + latSeq(e.rings[0], tx, ty);
    if (e.empty) return "Y 0";
    std::string s = "Y " + std::to_string(e.rings.size()); for (auto& rg : e.rings) s += " " + latSeq(rg, tx, ty); return s; }
static bool envMeet(long a0, long a1, long b0, long b1, long c0, long c1, long d0, long d1) { return !(c0 > a1 || c1 < a0 || d0 > b1 || d1 < b0); }
// which visitor has to decide (exact lattice arithmetic; for the STAT distribution only)
static std::string stageOf(const std::vector<IPt>& rect, const GGeom& g) {
    long rx0 = 1 << 30, rx1 = -(1 << 30), ry0 = rx0, ry1 = rx1; for (auto& p : rect) { rx0 = std::min(rx0, p.x); rx1 = std::max(rx1, p.x); ry0 = std::min(ry0, p.y); ry1 = std::max(ry1, p.y); }
    bool any = false, envs = false, corner = false, shellX = false, holeX = false;
    for (auto& e : g.elems) { if (e.empty || e.rings.empty() || e.rings[0].empty()) continue;
        long x0 = 1 << 30, x1 = -(1 << 30), y0 = x0, y1 = x1; for (auto& p : e.rings[0]) { x0 = std::min(x0, p.x); x1 = std::max(x1, p.x); y0 = std::min(y0, p.y); y1 = std::max(y1, p.y); }
        if (!envMeet(rx0, rx1, ry0, ry1, x0, x1, y0, y1)) continue; any = true;
        if ((x0 >= rx0 && x1 <= rx1) || (y0 >= ry0 && y1 <= ry1)) envs = true;
        if (e.kind == 2) for (int i = 0; i < 4; i++) { if (GridGen::locate(e.rings[0], rect[(size_t) i]) < 0) continue; bool inHole = false;
            for (size_t k = 1; k < e.rings.size(); k++) if (GridGen::locate(e.rings[k], rect[(size_t) i]) == 1) inHole = true; if (!inHole) corner = true; }
        if (e.kind >= 1) for (size_t k = 0; k < e.rings.size(); k++) if (ringsMeet(rect, e.rings[k])) { if (k == 0) shellX = true; else holeX = true; } }
    return !any ? "envelopes_disjoint" : envs ? "envelope_visitor" : corner ? "corner_visitor" : shellX ? "segment_visitor_shell_or_line" : holeX ? "segment_visitor_HOLE_ONLY" : "none_false"; }

static std::vector<std::string> splitBar(const std::string& line) { std::vector<std::string> parts; size_t p = 0;
    while (true) { size_t q = line.find(" | ", p); if (q == std::string::npos) { parts.push_back(line.substr(p)); break; } parts.push_back(line.substr(p, q - p)); p = q + 3; } return parts; }

int main(int argc, char** argv) {
    if (argc < 3) return 2;
    std::string stream = argv[1];
    GEOSContextHandle_t h = GEOS_init_r(); GEOSContext_setNoticeHandler_r(h, notice); GEOSContext_setErrorHandler_r(h, errorh);
    auto gf = GeometryFactory::getDefaultInstance();
    if (stream == "replay") {
        std::ifstream f(argv[2]); std::string line; Rng r(1);
        while (std::getline(f, line)) { if (line.empty()) continue; auto parts = splitBar(line); if (parts.size() < 3) continue;
            if (parts[0] == "W") { GEOSGeometry* wa = GEOSGeomFromWKT_r(h, parts[1].c_str()); GEOSGeometry* wb = GEOSGeomFromWKT_r(h, parts[2].c_str());
                if (!wa || !wb) { std::cout << "invalid\n"; continue; } parts[1] = dumpGeom((Geometry*) wa); parts[2] = dumpGeom((Geometry*) wb); GEOSGeom_destroy_r(h, wa); GEOSGeom_destroy_r(h, wb); }
            std::string pats; int order = 0; Probes probes;
            if (parts.size() >= 4) { size_t k = parts[3].find("pat="); if (k != std::string::npos) { std::istringstream is(parts[3].substr(k + 4, parts[3].find(' ', k) - k - 4)); std::string t, acc;
                while (std::getline(is, t, ',')) { if (!acc.empty()) acc += ","; acc += t.substr(0, 9); } pats = acc; }
                k = parts[3].find("ord="); if (k != std::string::npos) order = std::stoi(parts[3].substr(k + 4));
                k = parts[3].find("xyq="); if (k != std::string::npos) { std::istringstream is(parts[3].substr(k + 4, parts[3].find(' ', k) - k - 4)); std::string t;
                    while (std::getline(is, t, ',')) if (t.size() == 33) probes.push_back({frombits(std::stoull(t.substr(0, 16), nullptr, 16)), frombits(std::stoull(t.substr(17, 16), nullptr, 16))}); } }
            std::unique_ptr<Geometry> a, b;
            try { a = buildGeom(parts[1], gf); b = buildGeom(parts[2], gf); } catch (...) { std::cout << "invalid\n"; continue; }
            if (GEOSisValid_r(h, (GEOSGeometry*) a.get()) != 1 || GEOSisValid_r(h, (GEOSGeometry*) b.get()) != 1) { std::cout << "invalid\n"; continue; }
            std::cout << "D | " << parts[1] << " | " << parts[2] << " | ord=" << order << observe2(h, (GEOSGeometry*) a.get(), (GEOSGeometry*) b.get(), r, pats, order, probes) << "\n"; }
        GEOS_finish_r(h); return 0; }
    if (argc < 5) return 2;
    uint64_t seed = std::stoull(argv[2]); long n = std::stol(argv[3]); Out out(argv[4]); Rng r(seed);
    if (stream == "im-algebra") {
        // geom::IntersectionMatrix as a matrix (the functions regenerated into Generated/IMMatrix.lean): a random matrix, a random sequence of
        // set / setAtLeast / transpose, then toString, get of one cell, matches(pattern) and matches(transposed pattern) of the transposed matrix
        using geos::geom::IntersectionMatrix; using geos::geom::Location;
        static const char dims[] = "F012"; static const char sym[] = "TF*012";
        static const Location locs[3] = {Location::INTERIOR, Location::BOUNDARY, Location::EXTERIOR};
        for (long i = 0; i < n; i++) {
            std::string m, pat; for (int k = 0; k < 9; k++) { m += dims[r.chance(35) ? 0 : r.below(4)]; pat += sym[r.below(6)]; }
            if (r.chance(30)) pat = FIXED_PATTERNS[r.below(sizeof FIXED_PATTERNS / sizeof FIXED_PATTERNS[0])];
            if (r.chance(10)) { pat = m; for (auto& ch : pat) if (ch != 'F' && r.chance(50)) ch = 'T'; }
            if (r.chance(4)) pat = r.chance(50) ? pat.substr(0, r.below(9)) : pat + "T";            // wrong length: matches() throws
            IntersectionMatrix im(m); std::string ops;
            int nops = r.range(0, 6);
            for (int k = 0; k < nops; k++) { int op = (int) r.below(3), a = (int) r.below(3), b = (int) r.below(3), d = r.range(-1, 2);
                std::string abd = std::to_string(a) + std::to_string(b) + dims[d + 1];
                if (op == 0) { im.set(locs[a], locs[b], d); ops += " s" + abd; out.count("op_set"); }
                else if (op == 1) { im.setAtLeast(locs[a], locs[b], d); ops += " l" + abd; out.count("op_setAtLeast"); }
                else { im.transpose(); ops += " t"; out.count("op_transpose"); } }
            int ga = (int) r.below(3), gb = (int) r.below(3);
            std::string e = im.toString() + " " + std::to_string(im.get(locs[ga], locs[gb])) + " ";
            char mt; try { mt = im.matches(pat) ? '1' : '0'; } catch (const std::exception&) { mt = 'X'; }
            char mtt = mt;
            if (pat.size() == 9) { std::string tp = pat; std::swap(tp[1], tp[3]); std::swap(tp[2], tp[6]); std::swap(tp[5], tp[7]);
                IntersectionMatrix t(im); t.transpose(); mtt = t.matches(tp) ? '1' : '0'; }
            e += mt; e += mtt;
            out.count(std::string("match_") + (mt == '1' ? "true" : mt == '0' ? "false" : "throws"));
            out.emit("A " + m + " " + (pat.empty() ? std::string("-") : pat) + " " + std::to_string(ga) + std::to_string(gb) + ops, e); }
        GEOS_finish_r(h); return 0; }
    if (stream == "pred-converse") {
        // the real predicate classes: a predicate k asked about (A,B) and its converse asked about (B,A) - requirement flags, dimension and
        // envelope initialisation, then the same random events (mirrored for the converse), then finish
        using namespace geos::operation::relateng; using geos::geom::Location; using geos::geom::Envelope;
        static const char* kinds[] = {"intersects", "disjoint", "contains", "within", "covers", "coveredBy", "crosses", "equalsTopo", "overlaps", "touches", "pattern"};
        static const int conv[] = {0, 1, 3, 2, 5, 4, 6, 7, 8, 9, 10};
        auto make = [](int ki, const std::string& pat) -> std::unique_ptr<TopologyPredicate> {
            switch (ki) { case 0: return RelatePredicate::intersects(); case 1: return RelatePredicate::disjoint(); case 2: return RelatePredicate::contains();
                case 3: return RelatePredicate::within(); case 4: return RelatePredicate::covers(); case 5: return RelatePredicate::coveredBy();
                case 6: return RelatePredicate::crosses(); case 7: return RelatePredicate::equalsTopo(); case 8: return RelatePredicate::overlaps();
                case 9: return RelatePredicate::touches(); default: return RelatePredicate::matches(pat); } };
        static const Location locs[3] = {Location::INTERIOR, Location::BOUNDARY, Location::EXTERIOR};
        for (long i = 0; i < n; i++) {
            int ki = (int) r.below(11); std::string pat, tpat;
            if (ki == 10) { static const char sym[] = "TF*012**"; for (int k = 0; k < 9; k++) pat += sym[r.below(8)];
                if (r.chance(40)) pat = FIXED_PATTERNS[r.below(sizeof FIXED_PATTERNS / sizeof FIXED_PATTERNS[0])];
                tpat = pat; std::swap(tpat[1], tpat[3]); std::swap(tpat[2], tpat[6]); std::swap(tpat[5], tpat[7]); }
            auto p = make(ki, pat), q = make(conv[ki], tpat);
            out.count(std::string("kind_") + kinds[ki]);
            int dA = r.range(-1, 2), dB = r.range(-1, 2);
            auto box = [&](bool& isnull, int v[4]) { isnull = r.chance(8); int x0 = r.range(0, 4), x1 = r.range(x0, 5), y0 = r.range(0, 4), y1 = r.range(y0, 5); v[0] = x0; v[1] = x1; v[2] = y0; v[3] = y1; };
            bool na, nb; int a[4], b[4]; box(na, a); box(nb, b); if (r.chance(15)) { nb = na; for (int k = 0; k < 4; k++) b[k] = a[k]; }
            Envelope ea = na ? Envelope() : Envelope(a[0], a[1], a[2], a[3]); Envelope eb = nb ? Envelope() : Envelope(b[0], b[1], b[2], b[3]);
            auto st = [](TopologyPredicate& x) -> char { return x.isKnown() ? (x.value() ? 't' : 'f') : 'u'; };
            auto fl = [](TopologyPredicate& x) { std::string f; f += x.requireCovers(true) ? '1' : '0'; f += x.requireCovers(false) ? '1' : '0';
                f += x.requireExteriorCheck(true) ? '1' : '0'; f += x.requireExteriorCheck(false) ? '1' : '0'; f += x.requireInteraction() ? '1' : '0'; return f; };
            std::string e = fl(*p) + " " + fl(*q) + " ";
            p->init(dA, dB); q->init(dB, dA); e += st(*p); e += st(*q);
            p->init(ea, eb); q->init(eb, ea); e += st(*p); e += st(*q);
            int nu = r.range(0, 9); std::string ups;
            for (int k = 0; k < nu; k++) { int la = (int) r.below(3), lb = (int) r.below(3), d = r.range(0, 2);
                if (dA == 1 && dB == 1 && la == 0 && lb == 0 && d == 2) d = 1;
                p->updateDimension(locs[la], locs[lb], d); q->updateDimension(locs[lb], locs[la], d);
                ups += " " + std::to_string(la) + std::to_string(lb) + std::to_string(d); }
            p->finish(); q->finish(); e += ' '; e += st(*p); e += st(*q);
            auto envs = [&](bool isnull, int v[4]) { return isnull ? std::string("n") : (std::to_string(v[0]) + " " + std::to_string(v[1]) + " " + std::to_string(v[2]) + " " + std::to_string(v[3])); };
            out.emit("V " + std::string(kinds[ki]) + (ki == 10 ? ":" + pat : "") + " " + std::to_string(dA) + " " + std::to_string(dB) + " | " + envs(na, a) + " | " + envs(nb, b) + " |" + ups, e); }
        GEOS_finish_r(h); return 0; }
    if (stream == "point-setxy") {
        // one geom::Point, overwritten by setXY over and over (what the XY predicate forms do with the context's scratch point): after every
        // call the coordinate AND the cached envelope are observed.  Ordinates come from a small pool so that consecutive calls often keep x or y.
        for (long i = 0; i < n; i++) {
            std::vector<double> pool; int np = r.range(2, 4);
            for (int k = 0; k < np; k++) { double mag = std::pow(10.0, r.range(-3, 9)); pool.push_back(r.chance(20) ? (double) r.range(-5, 5) : (r.unit() - 0.5) * 2 * mag); }
            auto pick = [&]() { return pool[r.below(pool.size())]; };
            std::unique_ptr<geos::geom::Point> pt; std::string c = "S ";
            if (r.chance(30)) { pt = gf->createPoint(); c += "E"; out.count("start_empty"); }
            else { double x = pick(), y = pick(); pt = gf->createPoint(geos::geom::CoordinateXY{x, y}); c += hex(x) + ":" + hex(y); out.count("start_point"); }
            int nops = r.range(1, 6); std::string e; double px = 0, py = 0; bool have = !pt->isEmpty(); if (have) { px = pt->getX(); py = pt->getY(); }
            for (int k = 0; k < nops; k++) { double x = pick(), y = pick();
                if (have) out.count(x == px && y == py ? "op_same_point" : x == px ? "op_x_kept" : y == py ? "op_y_kept" : "op_both_changed"); else out.count("op_on_empty");
                pt->setXY(x, y); px = x; py = y; have = true; c += " " + hex(x) + ":" + hex(y);
                const geos::geom::Envelope* ev = pt->getEnvelopeInternal();
                if (k) e += " ";
                e += std::string(pt->isEmpty() ? "E" : "P") + ":" + hex(pt->getX()) + ":" + hex(pt->getY()) + ":" + (ev->isNull() ? std::string("null") : hex(ev->getMinX()) + ":" + hex(ev->getMaxX()) + ":" + hex(ev->getMinY()) + ":" + hex(ev->getMaxY())); }
            out.emit(c, e); }
        GEOS_finish_r(h); return 0; }
    GridGen gen(r, h, &out); gen.walkPct = 15;
    if (stream == "rect-fast") {
        // RectangleIntersects::intersects and its three callers (Geometry::intersects with the rectangle on either side, PreparedPolygon::intersects
        // of the prepared rectangle) on exact lattice input (integer translation, power-of-two scale): the model of Model/Relate/RectFast.lean is exact there
        using geos::operation::predicate::RectangleIntersects;
        for (long i = 0; i < n; i++) {
            gen.span = r.chance(50) ? 8 : 14; gen.setPartner(GGeom{}, 0);
            GElem re; re.kind = 2; GGeom G; int fam = (int) r.below(100);
            auto freeRect = [&](long W, long H) { long x0 = r.range(-2, (int) W), y0 = r.range(-2, (int) H), x1 = x0 + r.range(1, 9), y1 = y0 + r.range(1, 9);
                re.rings.clear(); re.rings.push_back({{x0, y0}, {x1, y0}, {x1, y1}, {x0, y1}, {x0, y0}}); };
            if (fam < 45) { Cheese c = makeCheese(r, gen); G.container = 0; G.elems.push_back(c.poly);
                if (fam < 25 && rectFrom(r, c.inHoles, re)) out.count("family_cheese_rect_corners_in_holes");
                else if (fam < 33) { std::vector<IPt> all = c.inHoles; all.insert(all.end(), c.inSolid.begin(), c.inSolid.end()); if (!rectFrom(r, all, re)) continue; out.count("family_cheese_rect_anywhere"); }
                else { freeRect(c.W, c.H); out.count("family_cheese_rect_free"); }
                if (r.chance(30)) { GElem far; far.kind = 2; long ox = c.W + r.range(1, 3); far.rings.push_back({{ox, 0}, {ox + 2, 0}, {ox + 2, 2}, {ox, 2}, {ox, 0}}); GGeom G2 = G; G2.container = 1;
                    if (r.chance(50)) G2.elems.push_back(far); else G2.elems.insert(G2.elems.begin(), far); if (gen.valid(G2)) G = G2; } }
            else if (fam < 57) { G = gen.nestedFrames(); long S = 0; for (auto& e : G.elems) for (auto& p : e.rings[0]) S = std::max(S, p.x);
                freeRect(S, S); out.count("family_nested_frames"); }
            else { freeRect(gen.span - 2, gen.span - 2); GGeom R; R.container = 0; R.elems.push_back(re);
                gen.setPartner(R, r.chance(75) ? 55 : 0); G = gen.geom(3, true, true); out.count("family_general_contact"); }
            respin(r, re.rings[0]);
            Xform t; t.sym = 0; t.k = r.chance(40) ? 0 : r.range(-20, 20);
            switch (r.below(3)) { case 0: break; case 1: t.tx = r.range(-100, 100); t.ty = r.range(-100, 100); break; default: t.tx = r.range(-1000000, 1000000); t.ty = r.range(-1000000, 1000000); }
            GGeom R; R.container = 0; R.elems.push_back(re);
            std::unique_ptr<Geometry> gr, gg;
            try { gr = buildGeom(GridGen::geomTok(R, t), gf); gg = buildGeom(GridGen::geomTok(G, t), gf); } catch (...) { out.count("build_rejected"); continue; }
            const geos::geom::Polygon* rp = dynamic_cast<const geos::geom::Polygon*>(gr.get());
            if (!rp || !rp->isRectangle()) { out.count("not_a_rectangle"); continue; }
            bool valid = GEOSisValid_r(h, (GEOSGeometry*) gg.get()) == 1; out.count(valid ? "test_geometry_valid" : "test_geometry_invalid");
            bool swapped = gg->isRectangle();          // then Geometry::intersects(g, rect) runs the fast path with the roles exchanged
            std::string e;
            try { e += RectangleIntersects::intersects(*rp, *gg) ? '1' : '0'; e += gr->intersects(gg.get()) ? '1' : '0'; e += gg->intersects(gr.get()) ? '1' : '0';
                  auto pg = geos::geom::prep::PreparedGeometryFactory::prepare(gr.get()); e += pg->intersects(gg.get()) ? '1' : '0'; }
            catch (const std::exception&) { e = "X"; }
            out.count("decided_by_" + stageOf(re.rings[0], G)); out.count(std::string("typeG_") + gg->getGeometryType()); out.count(std::string("answer_") + e);
            std::string c = "F " + latSeq(re.rings[0], t.tx, t.ty) + " |";
            for (size_t k = 0; k < G.elems.size(); k++) c += std::string(k ? " ; " : " ") + latElem(G.elems[k], t.tx, t.ty);
            if (G.elems.empty()) c += " -";
            c += std::string(" | v=") + (valid ? "1" : "0") + " swap=" + (swapped ? "1" : "0");
            out.emit(c, e); }
        GEOS_finish_r(h); return 0; }
    for (long i = 0; i < n; i++) {
        gen.span = r.chance(60) ? 6 : (r.chance(50) ? 3 : 12);
        gen.setPartner(GGeom{}, 0);
        GGeom A; bool wantRect = r.chance(25);
        if (wantRect) { GElem e; e.kind = 2; long x0 = r.range(0, 5), y0 = r.range(0, 5), x1 = r.range((int) x0 + 1, 6), y1 = r.range((int) y0 + 1, 6);
            e.rings.push_back({{x0, y0}, {x1, y0}, {x1, y1}, {x0, y1}, {x0, y0}}); A.container = 0; A.elems.push_back(e); out.count("A_rectangle"); }
        else A = gen.geom(3, true, true);
        gen.setPartner(A, r.chance(80) ? 55 : 0);
        GGeom B;
        int mode = (int) r.below(100);
        bool exactMap = false; FreePair fpair;
        if (r.chance(8) && (fpair = freeElementPair(r, gen)).ok) {
            // a partner WITHOUT area and a multi-element geometry of which one element is free (no common point, inside the partner's envelope)
            // while the others lie in the partner; mostly under an EXACT map (power-of-two scale, integer offset) so that "lies in" stays exact
            wantRect = false; A = fpair.S; B = fpair.T; exactMap = r.chance(75); out.count("free_element_pairs"); if (exactMap) out.count("free_element_pairs_exact_map"); }
        else if (r.chance(12)) {
            // polygons whose HOLES decide: the partner's vertices all lie inside holes (outside the polygon) while its edges cross the solid part;
            // half of the time the partner is an axis-parallel rectangle (fast paths), its ring in any of the eight vertex orders
            Cheese c = makeCheese(r, gen); B = GGeom{}; B.container = 0; B.elems.push_back(c.poly); GElem re;
            if (r.chance(55) && rectFrom(r, r.chance(80) ? c.inHoles : c.inSolid, re)) { respin(r, re.rings[0]); A = GGeom{}; A.container = 0; A.elems.push_back(re); wantRect = true; out.count("A_rectangle"); out.count("holes_decide_rectangle"); }
            else { wantRect = false; gen.setPartner(GGeom{}, 0); gen.pool = c.inHoles; if (r.chance(25)) gen.pool.insert(gen.pool.end(), c.inSolid.begin(), c.inSolid.end()); gen.contactPct = 100;
                   A = gen.geom(3, true, false); out.count("holes_decide_general"); }
            if (r.chance(25)) { GElem far; far.kind = 2; long ox = c.W + r.range(1, 3); far.rings.push_back({{ox, 0}, {ox + 2, 0}, {ox + 2, 2}, {ox, 2}, {ox, 0}}); GGeom B2 = B; B2.container = 1; B2.elems.push_back(far); if (gen.valid(B2)) B = B2; } }
        else if (r.chance(7)) {
            // one geometry strictly inside a polygon ELEMENT of a collection (no boundary contact, the collection's other elements anywhere): the
            // containment paths that never see a segment intersection and must look into the elements of a GeometryCollection / Multi*
            wantRect = false; gen.span = 12; gen.setPartner(GGeom{}, 0); GElem P = gen.polygon(); std::vector<IPt> in = gen.interiorPoints(P);
            A = GGeom{}; A.container = r.chance(75) ? 2 : 1; A.elems.push_back(P);
            int extra = r.range(0, 2); for (int k = 0; k < extra; k++) { A.elems.push_back(gen.elem(A.container == 2 ? (int) r.below(3) : 2)); if (A.container == 1 && !gen.valid(A)) A.elems.pop_back(); }
            for (size_t k = A.elems.size(); k > 1; k--) std::swap(A.elems[k - 1], A.elems[r.below(k)]);
            if (in.size() >= 3) { gen.pool = in; gen.contactPct = 100; B = gen.geom(r.chance(60) ? 2 : 3, true, false); out.count("strictly_inside_collection_element"); }
            else B = gen.geom(3, true, true); }
        else if (mode < 4) B = A;
        else if (mode < 14 && gen.holeSwallower(A, B)) {}
        else if (mode < 26) B = gen.partialCover(A, true);
        else { if (mode < 36) gen.setPartnerInterior(A); B = gen.geom(3, true, true); }
        if (!wantRect && r.chance(50)) std::swap(A, B);
        // arbitrary-double similarity: rotation (none for rectangle cases half of the time), scale 1e-3..1e9, offset
        DX t; double mag = std::pow(10.0, r.range(-3, 9) + r.unit()); double th = (wantRect || r.chance(25)) ? 0.0 : r.unit() * 6.283185307179586;
        double shear = r.chance(15) ? (r.unit() - 0.5) : 0.0;
        t.a = mag * std::cos(th); t.b = -mag * std::sin(th) + shear * mag; t.c = mag * std::sin(th); t.d = mag * std::cos(th);
        if (th == 0.0) { t.b = 0; t.c = 0; }
        double off = r.chance(30) ? 0.0 : std::pow(10.0, r.range(-3, 9)); t.tx = off * (r.unit() - 0.5) * 2; t.ty = off * (r.unit() - 0.5) * 2;
        if (exactMap) { int k = r.chance(40) ? 0 : r.range(-20, 20); double sc = std::ldexp(1.0, k); th = 0.0; t.a = t.d = sc; t.b = t.c = 0;
            t.tx = sc * (double) r.range(-100000, 100000); t.ty = sc * (double) r.range(-100000, 100000); }
        std::string ta = geomTokD(A, t), tb = geomTokD(B, t);
        std::unique_ptr<Geometry> ga, gb;
        try { ga = buildGeom(ta, gf); gb = buildGeom(tb, gf); } catch (...) { out.count("build_rejected"); continue; }
        if (GEOSisValid_r(h, (GEOSGeometry*) ga.get()) != 1 || GEOSisValid_r(h, (GEOSGeometry*) gb.get()) != 1) { out.count("invalid_skipped"); continue; }
        out.count(std::string("typeA_") + ga->getGeometryType()); out.count(std::string("typeB_") + gb->getGeometryType());
        if (th == 0.0) out.count("axis_parallel");
        int order = (int) r.below(1 << 20);
        { FILE* cf = std::fopen((std::string(argv[4]) + ".current").c_str(), "w"); if (cf) { std::fprintf(cf, "D | %s | %s |\n", ta.c_str(), tb.c_str()); std::fclose(cf); } }
        Probes probes; if (r.chance(40)) { for (auto& p : probeWalk(r, A)) { double x, y; t.apply(p, x, y); probes.push_back({x, y}); } out.count("xy_walks"); out.count("xy_walk_probes", (long) probes.size()); }
        std::string obs = observe2(h, (GEOSGeometry*) ga.get(), (GEOSGeometry*) gb.get(), r, "", order, probes);
        { size_t k = obs.find(" m="); out.count("matrix_" + obs.substr(k + 3, 9)); }
        if (obs.find("rect=-") == std::string::npos) out.count("rect_variant_checked");
        if (obs.find("xy=-") == std::string::npos) out.count("xy_forms_checked");
        out.emit("D | " + ta + " | " + tb + " | ord=" + std::to_string(order) + obs, "ok");
    }
    GEOS_finish_r(h); return 0;
}
