// C02 correspondence harness: every evaluation path of a topological question on pairs with arbitrary doubles.
//   c02 relate-dbl <seed> <n> <outbase>
//   c02 im-algebra <seed> <n> <outbase>   (geom::IntersectionMatrix get/set/setAtLeast/transpose/matches on random matrices)
//   c02 replay <file>
#include "relobs.h"
#include <geos/geom/IntersectionMatrix.h>
#include <cstdarg>
#include <fstream>
#include <iostream>

static void notice(const char*, ...) {}
static void errorh(const char*, ...) {}

// general similarity / affine map with double coefficients (not exact: that is the point)
struct DX { double a = 1, b = 0, c = 0, d = 1, tx = 0, ty = 0;
    void apply(const IPt& p, double& x, double& y) const { x = a * (double) p.x + b * (double) p.y + tx; y = c * (double) p.x + d * (double) p.y + ty; } };

static std::string seqTokD(const std::vector<IPt>& ps, const DX& t) {
    std::string s = "xy " + std::to_string(ps.size());
    for (auto& p : ps) { double x, y; t.apply(p, x, y); s += " " + hex(x) + " " + hex(y); } return s; }
static std::string elemTokD(const GElem& e, const DX& t) {
    if (e.kind == 0) return e.empty ? "P xy 0" : "P " + seqTokD(e.rings[0], t);
    if (e.kind == 1) return e.empty ? "L xy 0" : "L " + seqTokD(e.rings[0], t);
    if (e.empty) return "Y 1 xy 0";
    std::string s = "Y " + std::to_string(e.rings.size()); for (auto& rg : e.rings) s += " " + seqTokD(rg, t); return s; }
static std::string geomTokD(const GGeom& g, const DX& t) {
    if (g.container == 0) return "0 " + elemTokD(g.elems[0], t);
    std::string tag = "GC";
    if (g.container == 1) tag = g.elems.empty() ? "GC" : (g.elems[0].kind == 0 ? "MP" : g.elems[0].kind == 1 ? "ML" : "MY");
    std::string s = "0 " + tag + " " + std::to_string(g.elems.size());
    for (auto& e : g.elems) s += " " + elemTokD(e, t); return s; }

static std::string preds(GEOSContextHandle_t h, const GEOSGeometry* a, const GEOSGeometry* b) {
    std::string p;
    p += pc(GEOSIntersects_r(h, a, b)); p += pc(GEOSDisjoint_r(h, a, b)); p += pc(GEOSTouches_r(h, a, b)); p += pc(GEOSCrosses_r(h, a, b));
    p += pc(GEOSWithin_r(h, a, b)); p += pc(GEOSContains_r(h, a, b)); p += pc(GEOSOverlaps_r(h, a, b)); p += pc(GEOSEquals_r(h, a, b));
    p += pc(GEOSCovers_r(h, a, b)); p += pc(GEOSCoveredBy_r(h, a, b)); return p; }
static std::string ppreds(GEOSContextHandle_t h, const GEOSPreparedGeometry* pa, const GEOSGeometry* b) {
    std::string q;
    q += pc(GEOSPreparedIntersects_r(h, pa, b)); q += pc(GEOSPreparedDisjoint_r(h, pa, b)); q += pc(GEOSPreparedTouches_r(h, pa, b));
    q += pc(GEOSPreparedCrosses_r(h, pa, b)); q += pc(GEOSPreparedWithin_r(h, pa, b)); q += pc(GEOSPreparedContains_r(h, pa, b));
    q += pc(GEOSPreparedOverlaps_r(h, pa, b)); q += pc(GEOSPreparedCovers_r(h, pa, b)); q += pc(GEOSPreparedCoveredBy_r(h, pa, b));
    q += pc(GEOSPreparedContainsProperly_r(h, pa, b)); return q; }

// "P=" etc. for (A,B) come from observe(); here the additional paths
static std::string observe2(GEOSContextHandle_t h, const GEOSGeometry* a, const GEOSGeometry* b, Rng& r, const std::string& pats, int order) {
    std::string s = observe(h, a, b, r, pats);
    s += " PB=" + preds(h, b, a);
    const GEOSPreparedGeometry* pb = GEOSPrepare_r(h, b);
    s += " QB=" + (pb ? ppreds(h, pb, a) : std::string("EEEEEEEEEE"));
    if (pb) GEOSPreparedGeom_destroy_r(h, pb);
    // a reused prepared geometry asked in a seed-dependent order: answers must not depend on the order
    { const GEOSPreparedGeometry* pa = GEOSPrepare_r(h, a); std::string q(10, '?');
      int idx[10] = {0, 1, 2, 3, 4, 5, 6, 7, 8, 9}; for (int i = 9; i > 0; i--) { int j = (order >> (i * 2)) % (i + 1); std::swap(idx[i], idx[j]); }
      for (int round = 0; round < 2; round++) for (int k = 0; k < 10; k++) { char v = 0;
          switch (idx[k]) { case 0: v = GEOSPreparedIntersects_r(h, pa, b); break; case 1: v = GEOSPreparedDisjoint_r(h, pa, b); break; case 2: v = GEOSPreparedTouches_r(h, pa, b); break;
              case 3: v = GEOSPreparedCrosses_r(h, pa, b); break; case 4: v = GEOSPreparedWithin_r(h, pa, b); break; case 5: v = GEOSPreparedContains_r(h, pa, b); break;
              case 6: v = GEOSPreparedOverlaps_r(h, pa, b); break; case 7: v = GEOSPreparedCovers_r(h, pa, b); break; case 8: v = GEOSPreparedCoveredBy_r(h, pa, b); break;
              default: v = GEOSPreparedContainsProperly_r(h, pa, b); }
          q[idx[k]] = pc(v); }
      s += " QR=" + q; GEOSPreparedGeom_destroy_r(h, pa); }
    // self and clone
    { GEOSGeometry* c = GEOSGeom_clone_r(h, a); std::string t;
      t += pc(GEOSEquals_r(h, a, a)); t += pc(GEOSCovers_r(h, a, a)); t += pc(GEOSCoveredBy_r(h, a, a));
      t += pc(GEOSEquals_r(h, a, c)); t += pc(GEOSCovers_r(h, a, c)); t += pc(GEOSCoveredBy_r(h, a, c));
      s += " self=" + t; GEOSGeom_destroy_r(h, c); }
    // rectangle fast paths: the same polygon with a redundant vertex on its first edge must answer alike
    std::string rect = "-";
    if (GEOSGeomTypeId_r(h, a) == 3 && ((const Geometry*) a)->isRectangle()) {
        const GEOSGeometry* ring = GEOSGetExteriorRing_r(h, a); const GEOSCoordSequence* cs = GEOSGeom_getCoordSeq_r(h, ring);
        unsigned int n = 0; GEOSCoordSeq_getSize_r(h, cs, &n);
        GEOSCoordSequence* ns = GEOSCoordSeq_create_r(h, n + 1, 2);
        double x0, y0, x1, y1; GEOSCoordSeq_getXY_r(h, cs, 0, &x0, &y0); GEOSCoordSeq_getXY_r(h, cs, 1, &x1, &y1);
        GEOSCoordSeq_setXY_r(h, ns, 0, x0, y0);
        // a point of the (axis-parallel) first edge: exact because one ordinate is shared
        double mx = (x0 == x1) ? x0 : x0 / 2 + x1 / 2, my = (y0 == y1) ? y0 : y0 / 2 + y1 / 2;
        GEOSCoordSeq_setXY_r(h, ns, 1, mx, my);
        for (unsigned int i = 1; i < n; i++) { double x, y; GEOSCoordSeq_getXY_r(h, cs, i, &x, &y); GEOSCoordSeq_setXY_r(h, ns, i + 1, x, y); }
        GEOSGeometry* a2 = GEOSGeom_createPolygon_r(h, GEOSGeom_createLinearRing_r(h, ns), nullptr, 0);
        if (a2 && (mx != x0 || my != y0) && (mx != x1 || my != y1)) {
            const GEOSPreparedGeometry* p2 = GEOSPrepare_r(h, a2);
            rect = preds(h, a2, b) + ":" + ppreds(h, p2, b) + ":" + preds(h, b, a2);
            GEOSPreparedGeom_destroy_r(h, p2); }
        if (a2) GEOSGeom_destroy_r(h, a2); }
    s += " rect=" + rect;
    // XY point forms
    std::string xy = "-";
    if (GEOSGeomTypeId_r(h, b) == 0 && !GEOSisEmpty_r(h, b)) { double x, y; GEOSGeomGetX_r(h, b, &x); GEOSGeomGetY_r(h, b, &y);
        const GEOSPreparedGeometry* pa = GEOSPrepare_r(h, a);
        xy = std::string() + pc(GEOSPreparedContainsXY_r(h, pa, x, y)) + pc(GEOSPreparedIntersectsXY_r(h, pa, x, y)) + pc(GEOSPreparedContains_r(h, pa, b)) + pc(GEOSPreparedIntersects_r(h, pa, b));
        GEOSPreparedGeom_destroy_r(h, pa); }
    s += " xy=" + xy;
    return s;
}

static std::vector<std::string> splitBar(const std::string& line) { std::vector<std::string> parts; size_t p = 0;
    while (true) { size_t q = line.find(" | ", p); if (q == std::string::npos) { parts.push_back(line.substr(p)); break; } parts.push_back(line.substr(p, q - p)); p = q + 3; } return parts; }

int main(int argc, char** argv) {
    if (argc < 3) return 2;
    std::string stream = argv[1];
    GEOSContextHandle_t h = GEOS_init_r(); GEOSContext_setNoticeHandler_r(h, notice); GEOSContext_setErrorHandler_r(h, errorh);
    auto gf = GeometryFactory::getDefaultInstance();
    if (stream == "replay") {
        std::ifstream f(argv[2]); std::string line; Rng r(1);
        while (std::getline(f, line)) { if (line.empty()) continue; auto parts = splitBar(line); if (parts.size() < 3) continue;
            if (parts[0] == "W") { GEOSGeometry* wa = GEOSGeomFromWKT_r(h, parts[1].c_str()); GEOSGeometry* wb = GEOSGeomFromWKT_r(h, parts[2].c_str());
                if (!wa || !wb) { std::cout << "invalid\n"; continue; } parts[1] = dumpGeom((Geometry*) wa); parts[2] = dumpGeom((Geometry*) wb); GEOSGeom_destroy_r(h, wa); GEOSGeom_destroy_r(h, wb); }
            std::string pats; int order = 0;
            if (parts.size() >= 4) { size_t k = parts[3].find("pat="); if (k != std::string::npos) { std::istringstream is(parts[3].substr(k + 4, parts[3].find(' ', k) - k - 4)); std::string t, acc;
                while (std::getline(is, t, ',')) { if (!acc.empty()) acc += ","; acc += t.substr(0, 9); } pats = acc; }
                k = parts[3].find("ord="); if (k != std::string::npos) order = std::stoi(parts[3].substr(k + 4)); }
            std::unique_ptr<Geometry> a, b;
            try { a = buildGeom(parts[1], gf); b = buildGeom(parts[2], gf); } catch (...) { std::cout << "invalid\n"; continue; }
            if (GEOSisValid_r(h, (GEOSGeometry*) a.get()) != 1 || GEOSisValid_r(h, (GEOSGeometry*) b.get()) != 1) { std::cout << "invalid\n"; continue; }
            std::cout << "D | " << parts[1] << " | " << parts[2] << " | ord=" << order << observe2(h, (GEOSGeometry*) a.get(), (GEOSGeometry*) b.get(), r, pats, order) << "\n"; }
        GEOS_finish_r(h); return 0; }
    if (argc < 5) return 2;
    uint64_t seed = std::stoull(argv[2]); long n = std::stol(argv[3]); Out out(argv[4]); Rng r(seed);
    if (stream == "im-algebra") {
        // geom::IntersectionMatrix as a matrix (the functions regenerated into Generated/IMMatrix.lean): a random matrix, a random sequence of
        // set / setAtLeast / transpose, then toString, get of one cell, matches(pattern) and matches(transposed pattern) of the transposed matrix
        using geos::geom::IntersectionMatrix; using geos::geom::Location;
        static const char dims[] = "F012"; static const char sym[] = "TF*012";
        static const Location locs[3] = {Location::INTERIOR, Location::BOUNDARY, Location::EXTERIOR};
        for (long i = 0; i < n; i++) {
            std::string m, pat; for (int k = 0; k < 9; k++) { m += dims[r.chance(35) ? 0 : r.below(4)]; pat += sym[r.below(6)]; }
            if (r.chance(30)) pat = FIXED_PATTERNS[r.below(sizeof FIXED_PATTERNS / sizeof FIXED_PATTERNS[0])];
            if (r.chance(10)) { pat = m; for (auto& ch : pat) if (ch != 'F' && r.chance(50)) ch = 'T'; }
            if (r.chance(4)) pat = r.chance(50) ? pat.substr(0, r.below(9)) : pat + "T";            // wrong length: matches() throws
            IntersectionMatrix im(m); std::string ops;
            int nops = r.range(0, 6);
            for (int k = 0; k < nops; k++) { int op = (int) r.below(3), a = (int) r.below(3), b = (int) r.below(3), d = r.range(-1, 2);
                std::string abd = std::to_string(a) + std::to_string(b) + dims[d + 1];
                if (op == 0) { im.set(locs[a], locs[b], d); ops += " s" + abd; out.count("op_set"); }
                else if (op == 1) { im.setAtLeast(locs[a], locs[b], d); ops += " l" + abd; out.count("op_setAtLeast"); }
                else { im.transpose(); ops += " t"; out.count("op_transpose"); } }
            int ga = (int) r.below(3), gb = (int) r.below(3);
            std::string e = im.toString() + " " + std::to_string(im.get(locs[ga], locs[gb])) + " ";
            char mt; try { mt = im.matches(pat) ? '1' : '0'; } catch (const std::exception&) { mt = 'X'; }
            char mtt = mt;
            if (pat.size() == 9) { std::string tp = pat; std::swap(tp[1], tp[3]); std::swap(tp[2], tp[6]); std::swap(tp[5], tp[7]);
                IntersectionMatrix t(im); t.transpose(); mtt = t.matches(tp) ? '1' : '0'; }
            e += mt; e += mtt;
            out.count(std::string("match_") + (mt == '1' ? "true" : mt == '0' ? "false" : "throws"));
            out.emit("A " + m + " " + (pat.empty() ? std::string("-") : pat) + " " + std::to_string(ga) + std::to_string(gb) + ops, e); }
        GEOS_finish_r(h); return 0; }
    GridGen gen(r, h, &out); gen.walkPct = 15;
    for (long i = 0; i < n; i++) {
        gen.span = r.chance(60) ? 6 : (r.chance(50) ? 3 : 12);
        gen.setPartner(GGeom{}, 0);
        GGeom A; bool wantRect = r.chance(25);
        if (wantRect) { GElem e; e.kind = 2; long x0 = r.range(0, 5), y0 = r.range(0, 5), x1 = r.range((int) x0 + 1, 6), y1 = r.range((int) y0 + 1, 6);
            e.rings.push_back({{x0, y0}, {x1, y0}, {x1, y1}, {x0, y1}, {x0, y0}}); A.container = 0; A.elems.push_back(e); out.count("A_rectangle"); }
        else A = gen.geom(3, true, true);
        gen.setPartner(A, r.chance(80) ? 55 : 0);
        GGeom B;
        int mode = (int) r.below(100);
        if (mode < 4) B = A;
        else if (mode < 14 && gen.holeSwallower(A, B)) {}
        else if (mode < 26) B = gen.partialCover(A, true);
        else { if (mode < 36) gen.setPartnerInterior(A); B = gen.geom(3, true, true); }
        if (!wantRect && r.chance(50)) std::swap(A, B);
        // arbitrary-double similarity: rotation (none for rectangle cases half of the time), scale 1e-3..1e9, offset
        DX t; double mag = std::pow(10.0, r.range(-3, 9) + r.unit()); double th = (wantRect || r.chance(25)) ? 0.0 : r.unit() * 6.283185307179586;
        double shear = r.chance(15) ? (r.unit() - 0.5) : 0.0;
        t.a = mag * std::cos(th); t.b = -mag * std::sin(th) + shear * mag; t.c = mag * std::sin(th); t.d = mag * std::cos(th);
        if (th == 0.0) { t.b = 0; t.c = 0; }
        double off = r.chance(30) ? 0.0 : std::pow(10.0, r.range(-3, 9)); t.tx = off * (r.unit() - 0.5) * 2; t.ty = off * (r.unit() - 0.5) * 2;
        std::string ta = geomTokD(A, t), tb = geomTokD(B, t);
        std::unique_ptr<Geometry> ga, gb;
        try { ga = buildGeom(ta, gf); gb = buildGeom(tb, gf); } catch (...) { out.count("build_rejected"); continue; }
        if (GEOSisValid_r(h, (GEOSGeometry*) ga.get()) != 1 || GEOSisValid_r(h, (GEOSGeometry*) gb.get()) != 1) { out.count("invalid_skipped"); continue; }
        out.count(std::string("typeA_") + ga->getGeometryType()); out.count(std::string("typeB_") + gb->getGeometryType());
        if (th == 0.0) out.count("axis_parallel");
        int order = (int) r.below(1 << 20);
        { FILE* cf = std::fopen((std::string(argv[4]) + ".current").c_str(), "w"); if (cf) { std::fprintf(cf, "D | %s | %s |\n", ta.c_str(), tb.c_str()); std::fclose(cf); } }
        std::string obs = observe2(h, (GEOSGeometry*) ga.get(), (GEOSGeometry*) gb.get(), r, "", order);
        { size_t k = obs.find(" m="); out.count("matrix_" + obs.substr(k + 3, 9)); }
        if (obs.find("rect=-") == std::string::npos) out.count("rect_variant_checked");
        if (obs.find("xy=-") == std::string::npos) out.count("xy_forms_checked");
        out.emit("D | " + ta + " | " + tb + " | ord=" + std::to_string(order) + obs, "ok");
    }
    GEOS_finish_r(h); return 0;
}
