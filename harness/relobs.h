// Observation of every relate path of the C API for a pair (shared by C01 and C02 harnesses).
#pragma once
#include "gridgen.h"
using namespace vh;

static const char* FIXED_PATTERNS[] = {"T*F**FFF*", "FF*FF****", "T********", "****T****", "0********", "1********", "2********",
    "T*T***T**", "1*T***T**", "T*****FF*", "F***1****", "T**FF*FF*", "FT*******", "F**T*****", "F***T****", "*T*******", "***T*****", "******FF*", "**F*F****"};

static char pc(char r) { return r == 0 ? '0' : r == 1 ? '1' : 'E'; }

// `reuse`: a prepared geometry of `a` made earlier and already used for other partners (it is then not destroyed here)
static std::string observe(GEOSContextHandle_t h, const GEOSGeometry* a, const GEOSGeometry* b, Rng& r, const std::string& fixedPats,
                           const GEOSPreparedGeometry* reuse = nullptr) {
    std::string s;
    for (int rule = 1; rule <= 4; rule++) {
        char* m = GEOSRelateBoundaryNodeRule_r(h, a, b, rule);
        s += " m" + std::to_string(rule) + "=" + (m ? m : "E"); if (m) GEOSFree_r(h, m); }
    { char* m = GEOSRelate_r(h, a, b); s += std::string(" m=") + (m ? m : "E"); if (m) GEOSFree_r(h, m); }
    { char* m = GEOSRelate_r(h, b, a); s += std::string(" mt=") + (m ? m : "E"); if (m) GEOSFree_r(h, m); }
    const GEOSPreparedGeometry* pa = reuse ? reuse : GEOSPrepare_r(h, a);
    { char* m = pa ? GEOSPreparedRelate_r(h, pa, b) : nullptr; s += std::string(" pm=") + (m ? m : "E"); if (m) GEOSFree_r(h, m); }
    std::string p;   // intersects disjoint touches crosses within contains overlaps equals covers coveredBy
    p += pc(GEOSIntersects_r(h, a, b)); p += pc(GEOSDisjoint_r(h, a, b)); p += pc(GEOSTouches_r(h, a, b)); p += pc(GEOSCrosses_r(h, a, b));
    p += pc(GEOSWithin_r(h, a, b)); p += pc(GEOSContains_r(h, a, b)); p += pc(GEOSOverlaps_r(h, a, b)); p += pc(GEOSEquals_r(h, a, b));
    p += pc(GEOSCovers_r(h, a, b)); p += pc(GEOSCoveredBy_r(h, a, b));
    s += " P=" + p;
    std::string q;   // prepared: intersects disjoint touches crosses within contains overlaps covers coveredBy containsProperly
    if (pa) { q += pc(GEOSPreparedIntersects_r(h, pa, b)); q += pc(GEOSPreparedDisjoint_r(h, pa, b)); q += pc(GEOSPreparedTouches_r(h, pa, b));
        q += pc(GEOSPreparedCrosses_r(h, pa, b)); q += pc(GEOSPreparedWithin_r(h, pa, b)); q += pc(GEOSPreparedContains_r(h, pa, b));
        q += pc(GEOSPreparedOverlaps_r(h, pa, b)); q += pc(GEOSPreparedCovers_r(h, pa, b)); q += pc(GEOSPreparedCoveredBy_r(h, pa, b));
        q += pc(GEOSPreparedContainsProperly_r(h, pa, b)); }
    s += " Q=" + q;
    // patterns
    std::vector<std::string> pats;
    if (!fixedPats.empty()) { std::istringstream is(fixedPats); std::string t; while (std::getline(is, t, ',')) pats.push_back(t); }
    else {
        pats.push_back(FIXED_PATTERNS[r.below(sizeof FIXED_PATTERNS / sizeof FIXED_PATTERNS[0])]);
        for (int k = 0; k < 2; k++) { std::string t; static const char sym[] = "TF*012***"; for (int i = 0; i < 9; i++) t += sym[r.below(9)]; pats.push_back(t); } }
    s += " pat=";
    for (size_t i = 0; i < pats.size(); i++) { if (i) s += ","; s += pats[i] + ":" + pc(GEOSRelatePattern_r(h, a, b, pats[i].c_str())) + pc(pa ? GEOSPreparedRelatePattern_r(h, pa, b, pats[i].c_str()) : 2); }
    if (pa && !reuse) GEOSPreparedGeom_destroy_r(h, pa);
    return s;
}

