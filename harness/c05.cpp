// C05 correspondence harness: valid and invalid grid geometries through GEOSisValidDetail (both flag settings),
// GEOSisValid, GEOSisSimple, GEOSisRing; plus the property's own invariance oracle run directly against GEOS
// (verdicts must not change under exact lattice maps, ring rotation / reversal, hole / element permutation).
//   c05 valid-grid <seed> <n> <outbase>
//   c05 node-topo <seed> <n> <outbase>    the real PolygonNodeTopology functions on integer points vs the Lean copy
//   c05 ring-nested <seed> <n> <outbase>  the real PolygonTopologyAnalyzer::isRingNested on pairs of integer rings vs the Lean copy
//                                         (and, for rings that do not cross, vs the exact containment reference)
//   c05 pair-rule <seed> <n> <outbase>    the real PolygonIntersectionAnalyzer::processIntersections (findInvalidIntersection) on one pair of
//                                         ring segments, both flag settings, vs the Lean copy (proved equal to the reference's rule)
//   c05 nested-tester <seed> <n> <outbase>  the real IndexedNestedPolygonTester (isNested / getNestedPoint) on integer MultiPolygons vs the Lean copy
//   c05 self-node <seed> <n> <outbase>    the real PolygonIntersectionAnalyzer (flag on) shown the segment pairs of ONE ring in random order, then
//                                         PolygonRing::findInteriorSelfNode, vs the Lean copy (recorded code and interior self node)
//   c05 replay <file>     lines: "V | <geom tokens> | ..."  or bare "<srid> <geom tokens>"  or "W <wkt>"
#include "validgen.h"
#include "c05touch.h"
#include "c05nest.h"
#include <geos/operation/valid/IndexedNestedPolygonTester.h>
#include <geos/geom/MultiPolygon.h>
#include <geos/algorithm/PolygonNodeTopology.h>
#include <geos/operation/valid/PolygonTopologyAnalyzer.h>
#include <geos/operation/valid/PolygonIntersectionAnalyzer.h>
#include <geos/operation/valid/PolygonRing.h>
#include <geos/noding/BasicSegmentString.h>
#include <fstream>
#include <iostream>
using namespace vh;
static void notice(const char*, ...) {}
static void errorh(const char*, ...) {}

static const char* MSG[] = {"Topology Validation Error", "Repeated Point", "Hole lies outside shell", "Holes are nested", "Interior is disconnected",
    "Self-intersection", "Ring Self-intersection", "Nested shells", "Duplicate Rings", "Too few points in geometry component", "Invalid Coordinate", "Ring is not closed"};

struct Obs { int v = 2; int code = -1; std::string loc = "-"; };

static Obs detail(GEOSContextHandle_t h, const GEOSGeometry* g, int flags) {
    Obs o; char* reason = nullptr; GEOSGeometry* loc = nullptr;
    char rc = GEOSisValidDetail_r(h, g, flags, &reason, &loc);
    o.v = rc == 1 ? 1 : rc == 0 ? 0 : 2;
    if (rc == 0) {
        o.code = 99; if (reason) for (int i = 0; i < 12; i++) if (std::strcmp(reason, MSG[i]) == 0) o.code = i;
        if (loc) { double x = 0, y = 0; const Geometry* lg = (const Geometry*) loc;
            if (!lg->isEmpty()) { auto c = lg->getCoordinate(); x = c->x; y = c->y; o.loc = hex(x) + "," + hex(y); } else o.loc = "empty"; } }
    if (reason) GEOSFree_r(h, reason); if (loc) GEOSGeom_destroy_r(h, loc);
    return o;
}

struct Verdicts { int v0, v1, s; };
static Verdicts verdicts(GEOSContextHandle_t h, const GEOSGeometry* g) {
    Verdicts v; char* rs = nullptr; GEOSGeometry* l = nullptr;
    v.v0 = GEOSisValidDetail_r(h, g, 0, &rs, &l); if (rs) GEOSFree_r(h, rs); if (l) GEOSGeom_destroy_r(h, l); rs = nullptr; l = nullptr;
    v.v1 = GEOSisValidDetail_r(h, g, 1, &rs, &l); if (rs) GEOSFree_r(h, rs); if (l) GEOSGeom_destroy_r(h, l);
    v.s = GEOSisSimple_r(h, g); return v;
}

// the invariance oracle: three random exact transformations, verdicts must be unchanged
static int INV_TRIES = 3;   // replay mode searches much harder so that a recorded invariance failure reproduces
static std::string invariance(GEOSContextHandle_t h, const GeometryFactory* gf, HGeo base, Rng& r, const Verdicts& v) {
    if (hasNonFinite(base)) return "ok";
    for (int i = 0; i < INV_TRIES; i++) {
        HGeo t = base; std::string what;
        Xform x; x.sym = (int) r.below(8); x.tx = r.range(-50, 50); x.ty = r.range(-50, 50); x.k = r.chance(50) ? 0 : r.range(-3, 3);
        if (r.chance(70)) { applyX(t, x); what += "L" + std::to_string(x.sym); }
        structuralX(t, r, what);
        std::unique_ptr<Geometry> g; try { g = buildH(t, gf); } catch (...) { continue; }
        Verdicts w = verdicts(h, (GEOSGeometry*) g.get());
        if (w.v0 != v.v0) return "valid0-changed:" + what + ":" + std::to_string(v.v0) + "->" + std::to_string(w.v0);
        if (w.v1 != v.v1) return "valid1-changed:" + what + ":" + std::to_string(v.v1) + "->" + std::to_string(w.v1);
        if (w.s != v.s) return "simple-changed:" + what + ":" + std::to_string(v.s) + "->" + std::to_string(w.s);
    }
    return "ok";
}

static std::string observeAll(GEOSContextHandle_t h, const GeometryFactory* gf, const HGeo& hg, const Geometry* g, Rng& r, Out* out) {
    const GEOSGeometry* cg = (const GEOSGeometry*) g;
    Obs o0 = detail(h, cg, 0), o1 = detail(h, cg, 1);
    int plain = GEOSisValid_r(h, cg); int s = GEOSisSimple_r(h, cg); int rg = GEOSisRing_r(h, cg);
    Verdicts v{o0.v, o1.v, s};
    std::string inv = invariance(h, gf, hg, r, v);
    if (plain != o0.v) inv = "isValid-differs-from-detail:" + std::to_string(plain);
    if (out) { out->count("valid0_" + std::to_string(o0.v)); out->count("code0_" + std::to_string(o0.code)); out->count("code1_" + std::to_string(o1.code));
        if (o0.v != o1.v) out->count("flag_changes_verdict"); out->count("simple_" + std::to_string(s)); out->count("ring_" + std::to_string(rg)); }
    return "v0=" + std::to_string(o0.v) + " c0=" + std::to_string(o0.code) + " l0=" + o0.loc + " v1=" + std::to_string(o1.v) + " c1=" + std::to_string(o1.code) + " l1=" + o1.loc +
           " s=" + std::to_string(s) + " r=" + std::to_string(rg) + " inv=" + inv;
}

int main(int argc, char** argv) {
    if (argc < 3) return 2;
    std::string stream = argv[1];
    GEOSContextHandle_t h = GEOS_init_r(); GEOSContext_setNoticeHandler_r(h, notice); GEOSContext_setErrorHandler_r(h, errorh);
    auto gf = GeometryFactory::getDefaultInstance();
    if (stream == "replay") {
        std::ifstream f(argv[2]); std::string line; Rng r(1); INV_TRIES = 400;
        while (std::getline(f, line)) { if (line.empty()) continue;
            std::string toks;
            try {
                if (line.rfind("W ", 0) == 0) { GEOSGeometry* wg = GEOSGeomFromWKT_r(h, line.substr(2).c_str()); if (!wg) { std::cout << "invalid\n"; continue; } toks = dumpGeom((Geometry*) wg); GEOSGeom_destroy_r(h, wg); }
                else if (line.rfind("V | ", 0) == 0) { size_t q = line.find(" | ", 4); toks = line.substr(4, q == std::string::npos ? std::string::npos : q - 4); }
                else toks = line;
                HGeo hg = parseHLine(toks); auto g = buildH(hg, gf);
                std::cout << "V | " << dumpGeom(g.get()) << " | " << observeAll(h, gf, hg, g.get(), r, nullptr) << "\n";
            } catch (std::exception& e) { std::cout << "invalid " << e.what() << "\n"; }
        }
        GEOS_finish_r(h); return 0; }
    if (argc < 5) return 2;
    uint64_t seed = std::stoull(argv[2]); long n = std::stol(argv[3]); Out out(argv[4]); Rng r(seed);
    if (stream == "node-topo") {
        // the real PolygonNodeTopology on small integer points (dense in collinear / same-direction / axis cases):
        // expect = compareAngle(o,a0,a1) compareAngle(o,b0,a0) isCrossing(o,a0,a1,b0,b1) isInteriorSegment(o,a0,a1,b0) isInteriorSegment(o,a0,a1,b1)
        using geos::algorithm::PolygonNodeTopology; using geos::geom::CoordinateXY;
        for (long i = 0; i < n; i++) {
            int span = r.chance(70) ? 2 : (r.chance(50) ? 4 : 1000); long big = r.chance(10) ? (1L << 24) : 0;
            auto pt = [&](CoordinateXY& c) { c.x = (double) (r.range(-span, span) + big); c.y = (double) (r.range(-span, span) - big); };
            CoordinateXY o, p[4]; pt(o); for (auto& q : p) { do { pt(q); } while (q.x == o.x && q.y == o.y); }
            std::string c = "N"; auto add = [&](const CoordinateXY& q) { c += " " + std::to_string((long) q.x) + " " + std::to_string((long) q.y); }; add(o); for (auto& q : p) add(q);
            int c01 = PolygonNodeTopology::compareAngle(&o, &p[0], &p[1]); int cb = PolygonNodeTopology::compareAngle(&o, &p[2], &p[0]);
            bool cr = PolygonNodeTopology::isCrossing(&o, &p[0], &p[1], &p[2], &p[3]);
            bool i0 = PolygonNodeTopology::isInteriorSegment(&o, &p[0], &p[1], &p[2]); bool i1 = PolygonNodeTopology::isInteriorSegment(&o, &p[0], &p[1], &p[3]);
            out.count(cr ? "crossing_1" : "crossing_0"); out.count("cmp_" + std::to_string(c01));
            out.emit(c, std::to_string(c01) + " " + std::to_string(cb) + " " + (cr ? "1" : "0") + " " + (i0 ? "1" : "0") + " " + (i1 ? "1" : "0")); }
        GEOS_finish_r(h); return 0; }
    ValidGen gen(r, h, &out); TouchGen touch(r, &out); NestGen nest(r, &out, touch); FlowerGen flowers(r, &out, touch);
    typedef TouchGen::Ring Ring;
    auto ptsLine = [](const Ring& g) { std::string s; for (auto& p : g) s += " " + std::to_string((long) p.x) + " " + std::to_string((long) p.y); return s; };
    auto intRing = [](const Ring& g) { if (g.size() < 4 || !hpEq(g.front(), g.back())) return false; bool distinct = false;
        for (auto& p : g) { if (!std::isfinite(p.x) || !std::isfinite(p.y) || p.x != std::floor(p.x) || p.y != std::floor(p.y) || std::fabs(p.x) > 1e6 || std::fabs(p.y) > 1e6) return false; if (!hpEq(p, g[0])) distinct = true; } return distinct; };
    if (stream == "nested-tester") {
        using geos::operation::valid::IndexedNestedPolygonTester;
        long emitted = 0, guard = 0;
        while (emitted < n && guard++ < 50 * n + 1000) {
            HGeo g; std::string fam; int pick = (int) r.below(100);
            try {
                if (pick < 55) g = nest.dwellers(fam);
                else if (pick < 80) g = touch.comb(fam);
                else if (pick < 88) { g = touch.contactMultiPolygon(gen); fam = "rand_contact_multipolygon"; }
                else if (pick < 94) g = flowers.flower(fam);
                else g = gen.generate(fam);
            } catch (...) { continue; }
            if (g.type != 6 || g.kids.size() < 2) continue;
            bool ok = true; for (auto& k : g.kids) { if (k.type != 3 || k.seqs.empty()) { ok = false; break; } for (auto& q : k.seqs) if (!intRing(q)) ok = false; } if (!ok) continue;
            { Xform t; t.sym = (int) r.below(8); if (r.chance(50)) { t.tx = r.range(-100, 100); t.ty = r.range(-100, 100); } applyX(g, t); }
            std::string c = "T |"; for (size_t i = 0; i < g.kids.size(); i++) { if (i) c += " /"; for (size_t j = 0; j < g.kids[i].seqs.size(); j++) { if (j) c += " ;"; c += ptsLine(g.kids[i].seqs[j]); } }
            std::string res;
            try { auto geom = buildH(g, gf); IndexedNestedPolygonTester t(static_cast<const geos::geom::MultiPolygon*>(geom.get()));
                if (t.isNested()) { auto& q = t.getNestedPoint(); res = "1 " + std::to_string((long) q.x) + " " + std::to_string((long) q.y); } else res = "0"; }
            catch (std::exception&) { res = "X"; }
            out.count("family_" + fam.substr(0, fam.find('+'))); out.count("nested_" + res.substr(0, 1)); out.count("elements_" + std::to_string(std::min<size_t>(g.kids.size(), 5)));
            out.emit(c + " | " + res, "ok"); emitted++; }
        GEOS_finish_r(h); return 0; }
    if (stream == "self-node") {
        using namespace geos::operation::valid; using geos::noding::BasicSegmentString;
        long emitted = 0, guard = 0;
        while (emitted < n && guard++ < 50 * n + 1000) {
            Ring a; std::string fam; int pick = (int) r.below(100);
            try {
                HGeo g; if (pick < 70) g = flowers.flower(fam); else g = gen.generate(fam);
                std::vector<Ring*> rs; eachSeq(g, [&](std::vector<HP>& q, bool ring, int) { if (ring) rs.push_back(&q); }); if (rs.empty()) continue;
                if (pick < 70) { a = *rs[0]; for (auto* q : rs) if (q->size() > a.size()) a = *q; fam = "flower"; } else { a = *rs[r.below(rs.size())]; fam = "template_or_random"; }
            } catch (...) { continue; }
            { Ring o; for (auto& p : a) if (o.empty() || !hpEq(o.back(), p)) o.push_back(p); a = o; }
            if (!intRing(a)) continue;
            { HGeo tmp; tmp.type = 1; Xform t; t.sym = (int) r.below(8); if (r.chance(50)) { t.tx = r.range(-100, 100); t.ty = r.range(-100, 100); } tmp.seqs = {a}; applyX(tmp, t); a = tmp.seqs[0]; }
            bool isShell = r.chance(60);
            auto cs = csOf(a); auto lr = gf->createLinearRing(csOf(a));
            Ring bb = TouchGen::closed({{-1e5, -1e5}, {1e5, -1e5}, {1e5, 1e5}, {-1e5, 1e5}}); auto lrBig = gf->createLinearRing(csOf(bb));
            PolygonRing shellPR(lrBig.get()); std::unique_ptr<PolygonRing> pr(isShell ? new PolygonRing(lr.get()) : new PolygonRing(lr.get(), 0, &shellPR));
            BasicSegmentString ss(cs.get(), pr.get());
            size_t na = a.size() - 1; std::vector<std::pair<size_t, size_t>> cand;
            for (size_t i = 0; i < na; i++) for (size_t j = i + 1; j < na; j++) {
                double ax0 = std::min(a[i].x, a[i + 1].x), ax1 = std::max(a[i].x, a[i + 1].x), ay0 = std::min(a[i].y, a[i + 1].y), ay1 = std::max(a[i].y, a[i + 1].y);
                double bx0 = std::min(a[j].x, a[j + 1].x), bx1 = std::max(a[j].x, a[j + 1].x), by0 = std::min(a[j].y, a[j + 1].y), by1 = std::max(a[j].y, a[j + 1].y);
                bool meet = ax0 <= bx1 && bx0 <= ax1 && ay0 <= by1 && by0 <= ay1; if (meet || r.chance(3)) cand.push_back(r.chance(50) ? std::make_pair(i, j) : std::make_pair(j, i)); }
            for (size_t k = cand.size(); k > 1; k--) std::swap(cand[k - 1], cand[r.below(k)]);
            if (r.chance(10) && !cand.empty()) cand.push_back(cand[r.below(cand.size())]);      // the noder may present a pair more than once
            std::string res, pl; bool hasNode = false;
            try { PolygonIntersectionAnalyzer an(true);
                for (auto& ij : cand) { an.processIntersections(&ss, ij.first, &ss, ij.second); pl += " " + std::to_string(ij.first) + " " + std::to_string(ij.second); }
                const geos::geom::CoordinateXY* nd = pr->findInteriorSelfNode(); hasNode = nd != nullptr;
                res = std::to_string(an.getInvalidCode()) + " " + (nd ? std::to_string((long) nd->x) + " " + std::to_string((long) nd->y) : std::string("-")); }
            catch (std::exception&) { res = "X"; }
            out.count("family_" + fam); out.count(std::string("interior_self_node_") + (hasNode ? "1" : "0")); out.count(isShell ? "as_shell" : "as_hole"); out.count("code_" + res.substr(0, res.find(' ')));
            out.emit(std::string("S ") + (isShell ? "1" : "0") + " |" + ptsLine(a) + " |" + pl, res); emitted++; }
        GEOS_finish_r(h); return 0; }
    if (stream == "pair-rule") {
        using namespace geos::operation::valid; using geos::noding::BasicSegmentString;
        auto line = [](const Ring& g) { std::string s; for (auto& p : g) s += " " + std::to_string((long) p.x) + " " + std::to_string((long) p.y); return s; };
        auto dedupR = [](Ring& g) { Ring o; for (auto& p : g) if (o.empty() || !hpEq(o.back(), p)) o.push_back(p); g = o; };
        auto okRing = [](const Ring& g) { if (g.size() < 4 || !hpEq(g.front(), g.back())) return false; for (auto& p : g) if (!std::isfinite(p.x) || !std::isfinite(p.y) || p.x != std::floor(p.x) || p.y != std::floor(p.y) || std::fabs(p.x) > 1e6 || std::fabs(p.y) > 1e6) return false; return true; };
        long emitted = 0, guard = 0;
        while (emitted < n && guard++ < 50 * n + 1000) {
            Ring a, b; std::string fam; bool same = false; int pick = (int) r.below(100);
            if (pick < 30) { auto p = touch.parts((int) r.below(3), r.chance(70)); touch.spin(p.A, false); touch.spin(p.B, false); a = p.A; b = p.B; if (r.chance(50)) std::swap(a, b); fam = "touch"; }
            else if (pick < 60) { auto& gg = gen.gg; gg.span = r.chance(50) ? 8 : 5; GGeom acc; gg.setPartner(acc, 0); auto x = gg.ring0(); GElem e; e.kind = 2; e.rings.push_back(x); acc.elems.push_back(e);
                gg.setPartner(acc, r.chance(50) ? 60 : 100); auto y = gg.ring0(); gg.setPartner(GGeom{}, 0); a = ValidGen::toHP(x); b = ValidGen::toHP(y); fam = "rand_contact"; }
            else { HGeo g; std::string f; try { g = gen.generate(f); } catch (...) { continue; } std::vector<Ring*> rs; eachSeq(g, [&](std::vector<HP>& q, bool ring, int) { if (ring) rs.push_back(&q); }); if (rs.empty()) continue;
                a = *rs[r.below(rs.size())]; same = r.chance(75) || rs.size() < 2; if (!same) b = *rs[r.below(rs.size())]; fam = same ? "self" : "template_rings"; }
            dedupR(a); if (same) b = a; else dedupR(b);
            if (!okRing(a) || !okRing(b)) continue;
            { HGeo tmp; tmp.type = 1; Xform t; t.sym = (int) r.below(8); if (r.chance(50)) { t.tx = r.range(-100, 100); t.ty = r.range(-100, 100); } tmp.seqs = {a}; applyX(tmp, t); a = tmp.seqs[0]; tmp.seqs = {b}; applyX(tmp, t); b = tmp.seqs[0]; }
            bool samePoly = r.chance(60);
            auto csA = csOf(a), csB = csOf(b); auto lrA = gf->createLinearRing(csOf(a)), lrB = gf->createLinearRing(csOf(b));
            PolygonRing prA(lrA.get()); std::unique_ptr<PolygonRing> prB(samePoly ? new PolygonRing(lrB.get(), 0, &prA) : new PolygonRing(lrB.get()));
            BasicSegmentString ssA(csA.get(), &prA), ssB(csB.get(), prB.get());
            size_t na = a.size() - 1, nb = b.size() - 1; int per = 0;
            std::vector<std::pair<size_t, size_t>> cand;
            for (size_t i = 0; i < na; i++) for (size_t j = 0; j < nb; j++) { if (same && i == j) continue;
                double ax0 = std::min(a[i].x, a[i + 1].x), ax1 = std::max(a[i].x, a[i + 1].x), ay0 = std::min(a[i].y, a[i + 1].y), ay1 = std::max(a[i].y, a[i + 1].y);
                double bx0 = std::min(b[j].x, b[j + 1].x), bx1 = std::max(b[j].x, b[j + 1].x), by0 = std::min(b[j].y, b[j + 1].y), by1 = std::max(b[j].y, b[j + 1].y);
                bool meet = ax0 <= bx1 && bx0 <= ax1 && ay0 <= by1 && by0 <= ay1; if (meet || r.chance(3)) cand.push_back({i, j}); }
            for (size_t k = cand.size(); k > 1; k--) std::swap(cand[k - 1], cand[r.below(k)]);
            for (auto& ij : cand) { if (per++ >= 8 || emitted >= n) break;
                for (int flag = 0; flag < 2; flag++) {
                    std::string res;
                    try { PolygonIntersectionAnalyzer an(flag == 1); an.processIntersections(&ssA, ij.first, same ? (geos::noding::SegmentString*) &ssA : &ssB, ij.second); res = std::to_string(an.getInvalidCode()); }
                    catch (std::exception&) { res = "X"; }
                    out.count("family_" + fam); out.count("code_" + res);
                    out.emit("Q " + std::to_string(flag) + " " + (same ? "1 " : "0 ") + std::to_string(ij.first) + " " + std::to_string(ij.second) + " |" + line(a) + " |" + line(b), res); emitted++; } }
        }
        GEOS_finish_r(h); return 0; }
    if (stream == "ring-nested") {
        using geos::operation::valid::PolygonTopologyAnalyzer;
        auto line = [](const Ring& g) { std::string s; for (auto& p : g) s += " " + std::to_string((long) p.x) + " " + std::to_string((long) p.y); return s; };
        for (long i = 0; i < n; i++) {
            Ring test, target; std::string fam;
            int pick = (int) r.below(100);
            if (pick < 60) {
                int shape = (int) r.below(3); bool outer = r.chance(70); auto p = touch.parts(shape, outer);
                touch.spin(p.B, r.chance(50)); touch.spin(p.A, r.chance(20)); touch.spin(p.box, false);
                switch (r.below(10)) { case 0: test = p.A; target = p.B; fam = "touch_A_in_B"; break; case 1: test = p.B; target = p.box; fam = "touch_B_in_box"; break;
                    case 2: test = p.A; target = p.box; fam = "touch_A_in_box"; break; case 3: test = p.box; target = p.A; fam = "touch_box_in_A"; break;
                    default: test = p.B; target = p.A; fam = std::string("touch_B_in_") + (shape == 0 ? "comb" : shape == 1 ? "arch" : "bay"); }
            } else {
                auto& gg = gen.gg; gg.span = r.chance(50) ? 8 : 5; GGeom acc; gg.setPartner(acc, 0); auto a = gg.ring(); GElem e; e.kind = 2; e.rings.push_back(a); acc.elems.push_back(e);
                gg.setPartner(acc, r.chance(50) ? 50 : 100); auto b = gg.ring(); gg.setPartner(GGeom{}, 0);
                target = ValidGen::toHP(a); test = ValidGen::toHP(b); if (test.size() >= 4) touch.spin(test, false); if (r.chance(50)) std::swap(test, target); fam = "rand_contact"; }
            if (test.size() < 4 || target.size() < 4) continue;
            if (r.chance(12)) { Ring& g = r.chance(50) ? test : target; size_t k = r.below(g.size()); g.insert(g.begin() + (long) k, g[k]); out.count("repeated_vertex"); }
            HGeo both; both.type = 5; both.seqs = {test, target};
            if (r.chance(45)) { int sh = r.range(1, 2) * (r.chance(50) ? 1 : -1); bool xs = r.chance(50); for (auto& q : both.seqs) for (auto& v : q) { if (xs) v.x += sh * v.y; else v.y += sh * v.x; } }
            Xform t; t.sym = (int) r.below(8); if (r.chance(50)) { long big = r.chance(20) ? 20000000 : 100; t.tx = r.range((int) -big, (int) big); t.ty = r.range((int) -big, (int) big); }
            { HGeo tmp; tmp.type = 1; for (auto& q : both.seqs) { tmp.seqs = {q}; applyX(tmp, t); q = tmp.seqs[0]; } }
            test = both.seqs[0]; target = both.seqs[1];
            std::string res;
            try { auto rt = gf->createLinearRing(csOf(test)); auto rg = gf->createLinearRing(csOf(target));
                res = PolygonTopologyAnalyzer::isRingNested(rt.get(), rg.get()) ? "1" : "0"; }
            catch (std::exception&) { res = "X"; }
            out.count("family_" + fam); out.count("nested_" + res);
            out.emit("R" + line(test) + " |" + line(target), res);
        }
        GEOS_finish_r(h); return 0; }
    for (long i = 0; i < n; i++) {
        std::string family; HGeo hg;
        try {
            int pick = (int) r.below(100);
            if (pick < 20) { hg = touch.comb(family); if (r.chance(10) && gen.mutateContact(hg)) family += "+contact"; }
            else if (pick < 24) { hg = touch.contactMultiPolygon(gen); family = "rand_contact_multipolygon"; }
            else if (pick < 34) { hg = nest.dwellers(family); if (r.chance(8) && gen.mutateContact(hg)) family += "+contact"; }
            else if (pick < 44) { hg = flowers.flower(family); if (r.chance(8) && gen.mutateContact(hg)) family += "+contact"; }
            else hg = gen.generate(family);
        } catch (std::exception& e) { out.count("generator_error"); continue; }
        Xform t = gen.gg.xform(); if (r.chance(40)) { t = Xform{}; t.sym = (int) r.below(8); }
        applyX(hg, t);
        std::unique_ptr<Geometry> g; bool loose = false;
        try { g = buildH(hg, gf, &loose); } catch (...) { out.count("build_rejected"); continue; }
        out.count("family_" + family); if (loose) out.count("loose_ring"); out.count(std::string("type_") + g->getGeometryType());
        std::string toks = dumpGeom(g.get());
        { FILE* cf = std::fopen((std::string(argv[4]) + ".current").c_str(), "w"); if (cf) { std::fprintf(cf, "%s\n", toks.c_str()); std::fclose(cf); } }
        std::string obs = observeAll(h, gf, hg, g.get(), r, &out);
        if (family.rfind("touch_", 0) == 0) out.count(std::string("touchfamily_") + (family.find("+contact") != std::string::npos ? "mutated" : family.substr(family.size() - 5)) + (obs.rfind("v0=1", 0) == 0 ? "_valid" : "_invalid"));
        if (family.rfind("dwell_", 0) == 0 || family.rfind("flower_", 0) == 0) out.count("newfamily_" + family.substr(0, family.find('+')) + (obs.rfind("v0=1", 0) == 0 ? "_valid0" : "_invalid0") + (obs.find(" v1=1") != std::string::npos ? "_valid1" : "_invalid1"));
        out.emit("V | " + toks + " | " + obs, "ok");
    }
    GEOS_finish_r(h); return 0;
}
